(* C02: inside the guard the model of the pinned tree answers exactly like the repaired model, so what is proved for the
   repaired model holds for the pinned tree there. *)
From JV Require Import Lib.Base Model.TyVal Model.Scalar Model.Ty Model.C02TyMut Spec.Conforms Spec.ConformsRx Spec.C02Defs
  Spec.C02Guard Spec.C02Group Proofs.C02Proofs Proofs.C02CompleteProofs.
From Coq Require Import Permutation.

Lemma ares_eqb_iff a b : ares_eqb a b = true -> forall w, a = AOk w <-> b = AOk w.
Proof.
  destruct a as [x|e], b as [y|e']; simpl; intros E w; try discriminate.
  - apply val_eqb_eq in E. subst. tauto.
  - split; discriminate.
Qed.

Lemma guard_repaired yl t v0 : in_guard yl t v0 = true ->
  forall w, impl yl t v0 = AOk w <-> parse_key_g all_fixed yl t v0 = AOk w.
Proof.
  unfold in_guard, class_in. intro H.
  destruct (decl_crash t); [discriminate|].
  destruct (ares_eqb (impl yl t v0) (parse_key_g pinned yl t v0)) eqn:E1; [|discriminate]. simpl in H.
  repeat match type of H with
         | N.eqb (if negb ?c then _ else _) 0 = true => destruct c eqn:?; [simpl in H|discriminate]
         end.
  intro w. rewrite (ares_eqb_iff _ _ E1 w).
  match goal with E : ares_eqb (parse_key_g all_fixed yl t v0) _ = true |- _ => rewrite (ares_eqb_iff _ _ E w) end.
  tauto.
Qed.

Lemma guard_no_crash yl t v0 : in_guard yl t v0 = true -> decl_crash t = false.
Proof. unfold in_guard, class_in. destruct (decl_crash t); [discriminate|reflexivity]. Qed.

Lemma sound_pinned yl t v0 w : in_guard yl t v0 = true -> impl yl t v0 = AOk w -> conforms t w = true.
Proof.
  intros G H. apply (guard_repaired _ _ _ G) in H. eapply parse_key_sound; exact H.
Qed.

Lemma guard_is_ok yl t v0 : in_guard yl t v0 = true -> is_ok (impl yl t v0) = accepts all_fixed yl t v0.
Proof.
  intro G. unfold accepts. destruct (impl yl t v0) as [w|e] eqn:E.
  - apply (guard_repaired _ _ _ G) in E. now rewrite E.
  - destruct (parse_key_g all_fixed yl t v0) as [w|e'] eqn:E'; [|reflexivity].
    apply (guard_repaired _ _ _ G) in E'. congruence.
Qed.

Lemma complete_pinned yl t v0 :
  in_guard yl t v0 = true -> wf_ty t = true -> shaped t v0 = true -> is_ok (impl yl t v0) = true.
Proof. intros G Hwf Hs. rewrite (guard_is_ok _ _ _ G). now apply parse_key_complete. Qed.

Lemma union_perm_pinned yl ts ts' v0 :
  in_guard yl (TUnion ts) v0 = true -> in_guard yl (TUnion ts') v0 = true ->
  wf_ty (TUnion ts) = true -> Permutation ts ts' ->
  is_ok (impl yl (TUnion ts) v0) = is_ok (impl yl (TUnion ts') v0).
Proof. intros G G' Hwf HP. rewrite (guard_is_ok _ _ _ G), (guard_is_ok _ _ _ G'). now apply union_perm_parse. Qed.

Lemma list_items_pinned yl t l :
  in_guard yl (TList t) (VList l) = true -> wf_ty t = true ->
  (forall x, In x l -> in_guard yl t x = true /\ is_str x = false /\ x <> VNone) ->
  is_ok (impl yl (TList t) (VList l)) = forallb (fun x => is_ok (impl yl t x)) l.
Proof.
  intros G Hwf Hl. rewrite (guard_is_ok _ _ _ G), list_items_parse by exact Hwf. clear G.
  induction l as [|x l IH]; simpl; [reflexivity|].
  destruct (Hl x (or_introl eq_refl)) as [Gx [Sx Nx]].
  rewrite (guard_is_ok _ _ _ Gx), (accepts_object yl t x Hwf Sx Nx). f_equal.
  apply IH. intros y Hy. apply Hl. now right.
Qed.

Lemma union_members_pinned yl ts v0 :
  in_guard yl (TUnion ts) v0 = true -> wf_ty (TUnion ts) = true -> is_str v0 = false -> v0 <> VNone ->
  (forall t, In t ts -> in_guard yl t v0 = true) ->
  is_ok (impl yl (TUnion ts) v0) = existsb (fun t => is_ok (impl yl t v0)) ts.
Proof.
  intros G Hwf Hs Hn Hts. rewrite (guard_is_ok _ _ _ G), union_members_parse by assumption.
  clear G Hwf. induction ts as [|t ts IH]; simpl; [reflexivity|].
  rewrite (guard_is_ok _ _ _ (Hts t (or_introl eq_refl))). f_equal. apply IH. intros x Hx. apply Hts. now right.
Qed.

Lemma set_items_pinned yl t v l :
  in_guard yl (TSet t) v = true -> wf_ty (TSet t) = true -> seq_items v = Some l ->
  (forall x, In x l -> in_guard yl t x = true /\ is_str x = false /\ x <> VNone) ->
  is_ok (impl yl (TSet t) v) = forallb (fun x => is_ok (impl yl t x)) l.
Proof.
  intros G Hwf Hs Hl. rewrite (guard_is_ok _ _ _ G), (set_items_parse yl t v l Hwf Hs). clear G Hs.
  assert (Hwt : wf_ty t = true) by (simpl in Hwf; apply andb_true_iff in Hwf; tauto). clear Hwf.
  induction l as [|x l IH]; simpl; [reflexivity|].
  destruct (Hl x (or_introl eq_refl)) as [Gx [Sx Nx]].
  rewrite (guard_is_ok _ _ _ Gx), (accepts_object yl t x Hwt Sx Nx). f_equal.
  apply IH. intros y Hy. apply Hl. now right.
Qed.

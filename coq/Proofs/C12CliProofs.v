(* C12 — proofs: the namespace-folding model of auto_cli refines the last-assignment reference
   semantics (simulation over the token list), under the two guards. *)
From JV Require Import Lib.Base Lib.C12Syntax Model.C12Cli Spec.C12CliSpec.

(* ---- strings / association lists ------------------------------------------------------------ *)
Lemma str_eqb_false a b : a <> b -> str_eqb a b = false.
Proof. intro H. destruct (str_eqb a b) eqn:E; auto. apply str_eqb_spec in E. contradiction. Qed.

Lemma str_eqb_sym a b : str_eqb a b = str_eqb b a.
Proof.
  destruct (str_eqb a b) eqn:E.
  - apply str_eqb_spec in E. subst. symmetry. apply str_eqb_refl.
  - destruct (str_eqb b a) eqn:E2; auto. apply str_eqb_spec in E2. subst. rewrite str_eqb_refl in E. discriminate.
Qed.

Lemma mem_str_false x l : mem_str x l = false <-> ~ In x l.
Proof.
  split; intro H.
  - intro HI. apply mem_str_In in HI. congruence.
  - destruct (mem_str x l) eqn:E; auto. apply mem_str_In in E. contradiction.
Qed.

Lemma nodup_str_NoDup l : nodup_str l = true -> NoDup l.
Proof.
  induction l as [|x l IH]; simpl; intro H; [constructor|].
  apply andb_true_iff in H. destruct H as [H1 H2]. constructor; auto.
  apply negb_true_iff in H1. apply mem_str_false in H1. exact H1.
Qed.

Lemma assoc_In {A} k (l : list (str * A)) a : assoc k l = Some a -> In (k, a) l.
Proof.
  induction l as [|[k' a'] l IH]; simpl; [discriminate|].
  destruct (str_eqb k k') eqn:E; intro H.
  - apply str_eqb_spec in E. inversion H; subst. auto.
  - auto.
Qed.

Lemma assoc_None {A} k (l : list (str * A)) : assoc k l = None <-> ~ In k (map fst l).
Proof.
  induction l as [|[k' a'] l IH]; simpl; [tauto|].
  destruct (str_eqb k k') eqn:E.
  - apply str_eqb_spec in E. subst. split; [discriminate|]. intro H. exfalso. apply H. auto.
  - rewrite IH. split; intro H; [intros [H1|H1]; [subst; rewrite str_eqb_refl in E; discriminate|auto]|auto].
Qed.

Lemma assoc_mem {A} k (l : list (str * A)) : mem_str k (map fst l) = match assoc k l with Some _ => true | None => false end.
Proof.
  induction l as [|[k' a'] l IH]; simpl; auto.
  destruct (str_eqb k k'); simpl; auto.
Qed.

(* ---- the argparse table of a signature, in the spec's words ---------------------------------- *)
Definition mk_arg (as_pos : bool) (p : param) : arg :=
  {| a_dest := p_name p; a_pos := sp_required p && as_pos; a_ty := sp_ty p; a_req := sp_required p;
     a_def := match sp_default p with Some v => v | None => VNone end |}.

Lemma is_optional_eq t : is_optional t = sp_is_opt t.
Proof. destruct t; reflexivity. Qed.
Lemma starts_underscore_eq n : starts_underscore n = sp_private n.
Proof. destruct n as [|c n]; reflexivity. Qed.

Lemma arg_of_param_spec as_pos p :
  arg_of_param as_pos p = if sp_offered p then Some (mk_arg as_pos p) else None.
Proof.
  unfold arg_of_param, sp_offered, mk_arg, sp_required, sp_ty, sp_default.
  rewrite is_optional_eq, starts_underscore_eq.
  destruct (p_default p) as [v|]; simpl.
  - destruct (sp_private (p_name p)); simpl; auto.
  - destruct (sp_is_opt (p_ty p)); simpl; destruct (sp_private (p_name p)); simpl; auto.
Qed.

Lemma args_of_sig_spec as_pos s : args_of_sig as_pos s = map (mk_arg as_pos) (filter sp_offered s).
Proof.
  induction s as [|p s IH]; simpl; auto.
  unfold args_of_sig in *. simpl. rewrite arg_of_param_spec, IH.
  destruct (sp_offered p); reflexivity.
Qed.

Lemma find_arg_notin as_pos s n :
  ~ In n (names s) -> find_arg n (map (mk_arg as_pos) (filter sp_offered s)) = None.
Proof.
  induction s as [|q s IH]; simpl; auto. intro H.
  destruct (sp_offered q); simpl.
  - rewrite str_eqb_false by (intro X; apply H; left; auto). apply IH. tauto.
  - apply IH. tauto.
Qed.

Lemma find_arg_spec as_pos s n :
  NoDup (names s) ->
  find_arg n (args_of_sig as_pos s) =
  match sp_find n s with
  | Some p => if sp_offered p then Some (mk_arg as_pos p) else None
  | None => None
  end.
Proof.
  rewrite args_of_sig_spec.
  induction s as [|p s IH]; simpl; auto. intro ND. inversion ND as [|? ? Hn ND']; subst.
  destruct (str_eqb n (p_name p)) eqn:E.
  - apply str_eqb_spec in E. subst n.
    destruct (sp_offered p) eqn:Ho; simpl.
    + rewrite str_eqb_refl. reflexivity.
    + apply find_arg_notin. exact Hn.
  - destruct (sp_offered p); simpl; [rewrite E|]; apply IH; auto.
Qed.

Lemma sp_find_name n s p : sp_find n s = Some p -> p_name p = n /\ In p s.
Proof.
  induction s as [|q s IH]; simpl; [discriminate|].
  destruct (str_eqb n (p_name q)) eqn:E; intro H.
  - inversion H; subst. apply str_eqb_spec in E. auto.
  - destruct (IH H). auto.
Qed.

Lemma sp_find_In s p : NoDup (names s) -> In p s -> sp_find (p_name p) s = Some p.
Proof.
  induction s as [|q s IH]; simpl; [tauto|]. intros ND [H|H]; inversion ND; subst.
  - rewrite str_eqb_refl. reflexivity.
  - destruct (str_eqb (p_name p) (p_name q)) eqn:E; auto.
    apply str_eqb_spec in E. exfalso. apply H2. rewrite <- E. apply in_map. exact H.
Qed.

Lemma sp_find_None n s : sp_find n s = None <-> ~ In n (names s).
Proof.
  induction s as [|q s IH]; simpl; [tauto|].
  destruct (str_eqb n (p_name q)) eqn:E.
  - apply str_eqb_spec in E. split; [discriminate|]. intro H. exfalso. apply H. auto.
  - rewrite IH. split; intro H; [intros [H1|H1]; [subst; rewrite str_eqb_refl in E; discriminate|auto]|auto].
Qed.

Lemma filter_pos_spec as_pos s :
  filter a_pos (args_of_sig as_pos s) =
  map (mk_arg as_pos) (filter (fun p => sp_offered p && (sp_required p && as_pos)) s).
Proof.
  rewrite args_of_sig_spec. induction s as [|p s IH]; simpl; auto.
  destruct (sp_offered p); simpl; auto.
  destruct (sp_required p && as_pos); simpl; rewrite IH; auto.
Qed.


Lemma last_asg_snoc n asg k r :
  last_asg n (asg ++ [(k, r)]) = if str_eqb n k then Some r else last_asg n asg.
Proof.
  induction asg as [|[k' r'] asg IH]; simpl.
  - destruct (str_eqb n k); reflexivity.
  - rewrite IH. destruct (str_eqb n k); auto.
Qed.

Lemma last_asg_In n asg r : last_asg n asg = Some r -> In (n, r) asg.
Proof.
  induction asg as [|[k' r'] asg IH]; simpl; [discriminate|].
  destruct (last_asg n asg) as [x|] eqn:E.
  - intro H. inversion H; subst. right. apply IH. reflexivity.
  - destruct (str_eqb n k') eqn:E2; [|discriminate]. intro H. inversion H; subst.
    apply str_eqb_spec in E2. subst. left. reflexivity.
Qed.

Lemma find_arg_dest k args a : find_arg k args = Some a -> a_dest a = k /\ In a args.
Proof.
  induction args as [|b args IH]; simpl; [discriminate|].
  destruct (str_eqb k (a_dest b)) eqn:E; intro H.
  - inversion H; subst. apply str_eqb_spec in E. auto.
  - destruct (IH H). auto.
Qed.

Lemma find_arg_unique k args a0 a :
  NoDup (map a_dest args) -> find_arg k args = Some a0 -> In a args -> a_dest a = k -> a = a0.
Proof.
  induction args as [|b args IH]; simpl; [discriminate|]. intros ND HF HI HD.
  inversion ND as [|? ? Hn ND']; subst.
  destruct (str_eqb (a_dest a) (a_dest b)) eqn:E.
  - inversion HF; subst. apply str_eqb_spec in E. destruct HI as [HI|HI]; auto.
    exfalso. apply Hn. rewrite <- E. apply in_map. exact HI.
  - destruct HI as [HI|HI]; [subst; rewrite str_eqb_refl in E; discriminate|]. eapply IH; eauto.
Qed.

Lemma dests_of_sig as_pos s : NoDup (names s) -> NoDup (map a_dest (args_of_sig as_pos s)).
Proof.
  rewrite args_of_sig_spec. unfold names. induction s as [|p s IH]; simpl; [constructor|].
  intro ND. inversion ND; subst. destruct (sp_offered p); simpl; auto.
  constructor; auto. intro HI. apply H1. rewrite map_map in HI. simpl in HI.
  apply in_map_iff in HI. destruct HI as [q [Hq1 Hq2]]. apply filter_In in Hq2. destruct Hq2.
  rewrite <- Hq1. apply in_map. auto.
Qed.

Lemma dests_subset as_pos s a : In a (args_of_sig as_pos s) -> In (a_dest a) (names s).
Proof.
  rewrite args_of_sig_spec. intro H. apply in_map_iff in H. destruct H as [p [H1 H2]]. subst.
  apply filter_In in H2. destruct H2. simpl. apply in_map. auto.
Qed.

Section Sim.
  Variable conv : ty -> raw -> option value.
  Variable as_pos : bool.

  Definition arg_value (asg : list (str * raw)) (a : arg) : value :=
    match last_asg (a_dest a) asg with
    | Some r => match conv (a_ty a) r with Some v => v | None => VNone end
    | None => a_def a
    end.

  Definition ns_args (args : list arg) (asg : list (str * raw)) : ns :=
    map (fun a => (a_dest a, arg_value asg a)) args.

  Definition cfg_entry (b : bool) : ns := if b then [(s_config, VNone)] else [].

  Definition asg_valid (args : list arg) (asg : list (str * raw)) : Prop :=
    forall k r, In (k, r) asg -> exists a v, find_arg k args = Some a /\ conv (a_ty a) r = Some v.

  Lemma ns_set_map k v (f : arg -> value) args :
    NoDup (map a_dest args) -> In k (map a_dest args) ->
    ns_set k v (map (fun a => (a_dest a, f a)) args) =
    map (fun a => (a_dest a, if str_eqb k (a_dest a) then v else f a)) args.
  Proof.
    induction args as [|a args IH]; simpl; [tauto|]. intros ND HI. inversion ND as [|? ? Hn ND']; subst.
    destruct (str_eqb k (a_dest a)) eqn:E.
    - f_equal. apply map_ext_in. intros b Hb.
      apply str_eqb_spec in E. subst k.
      rewrite str_eqb_false; auto. intro X. apply Hn. rewrite X. apply in_map. exact Hb.
    - f_equal. apply IH; auto. destruct HI as [HI|HI]; auto. subst. rewrite str_eqb_refl in E. discriminate.
  Qed.

  Lemma ns_set_args k r v a0 args asg :
    NoDup (map a_dest args) -> find_arg k args = Some a0 -> conv (a_ty a0) r = Some v ->
    ns_set k v (ns_args args asg) = ns_args args (asg ++ [(k, r)]).
  Proof.
    intros ND HF HC. unfold ns_args. destruct (find_arg_dest _ _ _ HF) as [HD HI].
    rewrite ns_set_map; auto.
    - apply map_ext_in. intros a Ha. unfold arg_value. rewrite last_asg_snoc. rewrite (str_eqb_sym (a_dest a) k).
      destruct (str_eqb k (a_dest a)) eqn:E; auto.
      apply str_eqb_spec in E. assert (a = a0) by (eapply find_arg_unique; eauto). subst a. rewrite HC. reflexivity.
    - rewrite <- HD. apply in_map. exact HI.
  Qed.

  Lemma ns_set_entry hc k r v a0 args asg :
    NoDup (map a_dest args) -> find_arg k args = Some a0 -> conv (a_ty a0) r = Some v ->
    (hc = true -> k <> s_config) ->
    ns_set k v (cfg_entry hc ++ ns_args args asg) = cfg_entry hc ++ ns_args args (asg ++ [(k, r)]).
  Proof.
    intros ND HF HC Hk. destruct hc; simpl.
    - rewrite str_eqb_false by auto. f_equal. eapply ns_set_args; eauto.
    - eapply ns_set_args; eauto.
  Qed.

  Lemma asg_valid_snoc args asg k r a v :
    asg_valid args asg -> find_arg k args = Some a -> conv (a_ty a) r = Some v -> asg_valid args (asg ++ [(k, r)]).
  Proof.
    intros HV HF HC k' r' HI. apply in_app_or in HI. destruct HI as [HI|[HI|[]]]; [apply HV; auto|].
    inversion HI; subst. eauto.
  Qed.

  (* ---- well-formed components / levels: what build_check and the two guards give ------------- *)
  Definition comp_wf (c : comp) : Prop :=
    build_check c = Ok tt /\ guard_comp c = true /\ guard2_comp c = true.

  Definition lv_wf (lv : level) : Prop :=
    match lv with
    | LComp CHelp => False
    | LComp c => comp_wf c
    | LMeth s => check_meth_sig s = Ok tt /\ has_param s_config s = false /\ sig_guard2 s = true
    end.

  Definition slv_of (lv : level) (cn m : str) : slevel :=
    match lv with
    | LComp (CFn n s) => SFn n s
    | LComp (CCls n i ms) => SCls n i ms
    | LComp (CGrp kids) => SGrp kids
    | LComp CHelp => SGrp []
    | LMeth s => SMeth cn m s
    end.

  Lemma sl_sig_of lv cn m : sl_sig (slv_of lv cn m) = level_sig lv.
  Proof. destruct lv as [[| | |]|]; reflexivity. Qed.

  Lemma check_fn_sig_ok s : check_fn_sig s = Ok tt ->
    NoDup (names s) /\ ~ In s_config (names s) /\ ~ In s_help (names s).
  Proof.
    unfold check_fn_sig. destruct (sig_ok s) eqn:E; simpl; [|discriminate].
    destruct (clash _ s) eqn:E2; [discriminate|]. intros _.
    unfold sig_ok in E. apply andb_true_iff in E. destruct E as [E _].
    split; [apply nodup_str_NoDup; auto|].
    unfold clash in E2.
    assert (forall n, In n (names s) -> mem_str n [s_help; s_config; s_print_config] = false).
    { intros n Hn. destruct (mem_str n [s_help; s_config; s_print_config]) eqn:E3; auto.
      assert (existsb (fun n => mem_str n [s_help; s_config; s_print_config]) (names s) = true)
        by (apply existsb_exists; eauto). congruence. }
    split; intro HI; apply H in HI; vm_compute in HI; discriminate.
  Qed.

  Lemma check_meth_sig_ok s : check_meth_sig s = Ok tt -> NoDup (names s).
  Proof.
    unfold check_meth_sig. destruct (sig_ok s) eqn:E; simpl; [|discriminate]. intros _.
    unfold sig_ok in E. apply andb_true_iff in E. destruct E as [E _]. apply nodup_str_NoDup; auto.
  Qed.

  Lemma has_param_false n s : has_param n s = false <-> ~ In n (names s).
  Proof. unfold has_param. apply mem_str_false. Qed.

  Lemma check_meths_In ms m s : check_meths ms = Ok tt -> In (m, s) ms -> check_meth_sig s = Ok tt.
  Proof.
    induction ms as [|[m' s'] ms IH]; simpl; [tauto|].
    destruct (check_meth_sig s') as [[]|] eqn:E; simpl; [|discriminate].
    intros H [HI|HI]; [inversion HI; subst; auto|auto].
  Qed.

  Lemma go_build_In kids m c :
    (fix go (l : list (str * comp)) : res unit :=
       match l with [] => Ok tt | (_, c') :: l' => bind (build_check c') (fun _ => go l') end) kids = Ok tt ->
    In (m, c) kids -> build_check c = Ok tt.
  Proof.
    induction kids as [|[k c'] kids IH]; simpl; [tauto|].
    destruct (build_check c') as [[]|] eqn:E; simpl; [|discriminate].
    intros H [HI|HI]; [inversion HI; subst; auto|auto].
  Qed.

  Lemma go_guard_In kids m c :
    (fix go (l : list (str * comp)) : bool :=
       match l with [] => true | (_, c') :: l' => guard_comp c' && go l' end) kids = true ->
    In (m, c) kids -> guard_comp c = true.
  Proof.
    induction kids as [|[k c'] kids IH]; simpl; [tauto|].
    intros H [HI|HI]; apply andb_true_iff in H; destruct H; [inversion HI; subst; auto|auto].
  Qed.

  Lemma go_guard2_In kids m c :
    (fix go (l : list (str * comp)) : bool :=
       match l with [] => true | (_, c') :: l' => guard2_comp c' && go l' end) kids = true ->
    In (m, c) kids -> guard2_comp c = true.
  Proof.
    induction kids as [|[k c'] kids IH]; simpl; [tauto|].
    intros H [HI|HI]; apply andb_true_iff in H; destruct H; [inversion HI; subst; auto|auto].
  Qed.

  (* the three shapes, unfolded once and for all *)
  Lemma comp_wf_fn n s : comp_wf (CFn n s) ->
    check_fn_sig s = Ok tt /\ has_param s_subcommand s = false /\ sig_guard2 s = true.
  Proof.
    intros [HB [HG HG2]]. simpl in *. apply negb_true_iff in HG. auto.
  Qed.

  Lemma comp_wf_cls n i ms : comp_wf (CCls n i ms) ->
    meth_names_ok i ms = true /\ has_param s_subcommand i = false /\ check_fn_sig i = Ok tt /\
    sig_guard2 i = true /\
    (forall m s, In (m, s) ms -> check_meth_sig s = Ok tt /\ has_param s_config s = false /\ sig_guard2 s = true).
  Proof.
    intros [HB [HG HG2]]. simpl in *.
    destruct (meth_names_ok i ms) eqn:E1; [|discriminate]. destruct (has_param s_subcommand i) eqn:E2; [discriminate|].
    simpl in HB. destruct (check_fn_sig i) as [[]|] eqn:E3; [|discriminate]. simpl in HB.
    apply andb_true_iff in HG2. destruct HG2 as [HG2 HG3].
    repeat split; auto.
    - eapply check_meths_In; eauto.
    - rewrite forallb_forall in HG. specialize (HG _ H). simpl in HG. apply negb_true_iff in HG. exact HG.
    - rewrite forallb_forall in HG3. apply (HG3 _ H).
  Qed.

  Lemma comp_wf_grp kids : comp_wf (CGrp kids) ->
    kid_names_ok kids = true /\ mem_str s_subcommand (map fst kids) = false /\
    (forall m c, In (m, c) kids -> comp_wf c).
  Proof.
    intros [HB [HG HG2]]. simpl in *.
    destruct (kid_names_ok kids) eqn:E1; [|discriminate]. simpl in HB.
    destruct (mem_str s_subcommand (map fst kids)) eqn:E2; [discriminate|].
    repeat split; auto.
    - eapply go_build_In; eauto.
    - eapply go_guard_In; eauto.
    - eapply go_guard2_In; eauto.
  Qed.

  Lemma lv_wf_nodup lv : lv_wf lv -> NoDup (names (level_sig lv)).
  Proof.
    destruct lv as [[n s|n i ms|kids|]|s]; simpl.
    - intro H. apply comp_wf_fn in H. destruct H as [H _]. apply check_fn_sig_ok in H. tauto.
    - intro H. apply comp_wf_cls in H. destruct H as [_ [_ [H _]]]. apply check_fn_sig_ok in H. tauto.
    - intros _. constructor.
    - tauto.
    - intros [H _]. apply check_meth_sig_ok; auto.
  Qed.

  Lemma lv_wf_noconfig lv : lv_wf lv -> ~ In s_config (names (level_sig lv)).
  Proof.
    destruct lv as [[n s|n i ms|kids|]|s]; simpl.
    - intro H. apply comp_wf_fn in H. destruct H as [H _]. apply check_fn_sig_ok in H. tauto.
    - intro H. apply comp_wf_cls in H. destruct H as [_ [_ [H _]]]. apply check_fn_sig_ok in H. tauto.
    - intros _ [].
    - tauto.
    - intros [_ [H _]]. apply has_param_false; auto.
  Qed.

  Lemma lv_wf_guard2 lv : lv_wf lv -> sig_guard2 (level_sig lv) = true.
  Proof.
    destruct lv as [[n s|n i ms|kids|]|s]; simpl.
    - intro H. apply comp_wf_fn in H. tauto.
    - intro H. apply comp_wf_cls in H. tauto.
    - reflexivity.
    - tauto.
    - tauto.
  Qed.

  Lemma assoc_map_snd {A B} (f : A -> B) k (l : list (str * A)) :
    assoc k (map (fun x => (fst x, f (snd x))) l) = option_map f (assoc k l).
  Proof. induction l as [|[k' a] l IH]; simpl; auto. destruct (str_eqb k k'); auto. Qed.

  Lemma assoc_kid_levels m kids lv' :
    assoc m (kid_levels kids) = Some lv' ->
    m <> s__help /\ exists c, lv' = LComp c /\ assoc m kids = Some c.
  Proof.
    unfold kid_levels. induction kids as [|[k c] kids IH]; simpl; [discriminate|].
    destruct (str_eqb k s__help) eqn:E; simpl.
    - intro H. destruct (IH H) as [H1 [c' [H2 H3]]]. split; auto. exists c'. split; auto.
      apply str_eqb_spec in E. subst k. rewrite str_eqb_false; auto.
    - destruct (str_eqb m k) eqn:E2.
      + intro H. inversion H; subst. apply str_eqb_spec in E2. subst. split.
        * intro X. subst. rewrite str_eqb_refl in E. discriminate.
        * eauto.
      + auto.
  Qed.

  Lemma assoc_kid_levels_rev m kids c :
    m <> s__help -> assoc m kids = Some c -> assoc m (kid_levels kids) = Some (LComp c).
  Proof.
    unfold kid_levels. intro Hm. induction kids as [|[k c'] kids IH]; simpl; [discriminate|].
    destruct (str_eqb m k) eqn:E2.
    - intro H. inversion H; subst. apply str_eqb_spec in E2. subst k.
      rewrite str_eqb_false by auto. simpl. rewrite str_eqb_refl. reflexivity.
    - intro H. destruct (str_eqb k s__help); simpl; [|rewrite E2]; auto.
  Qed.

  Lemma kid_names_ok_help kids m c :
    kid_names_ok kids = true -> In (m, c) kids -> m <> s__help -> c <> CHelp.
  Proof.
    unfold kid_names_ok. intros H HI Hm. apply andb_true_iff in H. destruct H as [_ H].
    rewrite forallb_forall in H. specialize (H _ HI). simpl in H.
    apply andb_true_iff in H. destruct H as [_ H]. rewrite str_eqb_false in H by auto.
    intro X. subst c. discriminate.
  Qed.

  Lemma kid_names_ok_noconfig kids m c :
    kid_names_ok kids = true -> In (m, c) kids -> m <> s_config.
  Proof.
    unfold kid_names_ok. intros H HI. apply andb_true_iff in H. destruct H as [_ H].
    rewrite forallb_forall in H. specialize (H _ HI). simpl in H.
    apply andb_true_iff in H. destruct H as [H _]. apply andb_true_iff in H. destruct H as [_ H].
    intro X. subst m. rewrite str_eqb_refl in H. discriminate.
  Qed.

  Lemma lv_wf_comp c : c <> CHelp -> comp_wf c -> lv_wf (LComp c).
  Proof. destruct c; simpl; auto; congruence. Qed.

  (* descending one level keeps well-formedness and agrees with the spec's view of subcommands *)
  Lemma lv_wf_sub lv cn0 m0 subs m lv' :
    lv_wf lv -> level_subs lv = Some subs -> assoc m subs = Some lv' ->
    lv_wf lv' /\
    exists cn', sl_sub (slv_of lv cn0 m0) m = Some (slv_of lv' cn' m).
  Proof.
    destruct lv as [[n s|n i ms|kids|]|s]; simpl; try discriminate; try tauto.
    - (* class *)
      intros HW HS HA. apply comp_wf_cls in HW. destruct HW as [_ [_ [_ [_ HW]]]].
      destruct ms as [|ms0 ms']; [discriminate|]. inversion HS; subst subs. clear HS.
      change ((fst ms0, LMeth (snd ms0)) :: map (fun ms : str * sig => (fst ms, LMeth (snd ms))) ms')
        with (map (fun ms : str * sig => (fst ms, LMeth (snd ms))) (ms0 :: ms')) in HA.
      rewrite (assoc_map_snd LMeth) in HA.
      destruct (assoc m (ms0 :: ms')) as [s|] eqn:E; [|discriminate]. simpl in HA. inversion HA; subst lv'.
      pose proof (assoc_In _ _ _ E) as EI.
      split.
      + simpl. apply (HW _ _ EI).
      + exists n. reflexivity.
    - (* group *)
      intros HW HS HA. apply comp_wf_grp in HW. destruct HW as [EK [_ HW]].
      inversion HS; subst subs. clear HS.
      destruct (assoc_kid_levels _ _ _ HA) as [Hm [c [Hc HA']]]. subst lv'.
      pose proof (assoc_In _ _ _ HA') as HI.
      pose proof (kid_names_ok_help _ _ _ EK HI Hm) as Hc.
      split.
      + apply lv_wf_comp; auto. eapply HW; eauto.
      + exists cn0. rewrite str_eqb_false by auto. rewrite HA'. destruct c; simpl; congruence.
  Qed.

  (* ... and the other way round: what is not a subcommand for the code is none for the spec *)
  Lemma sl_sub_none lv cn0 m0 m :
    lv_wf lv ->
    match level_subs lv with Some subs => assoc m subs = None | None => True end ->
    sl_sub (slv_of lv cn0 m0) m = None.
  Proof.
    destruct lv as [[n s|n i ms|kids|]|s]; simpl; try tauto.
    - intros _. destruct ms as [|ms0 ms']; [reflexivity|].
      change ((fst ms0, LMeth (snd ms0)) :: map (fun ms : str * sig => (fst ms, LMeth (snd ms))) ms')
        with (map (fun ms : str * sig => (fst ms, LMeth (snd ms))) (ms0 :: ms')).
      rewrite (assoc_map_snd LMeth). destruct (assoc m (ms0 :: ms')); simpl; [discriminate|reflexivity].
    - intros HW HA. apply comp_wf_grp in HW. destruct HW as [EK _].
      destruct (str_eqb m s__help) eqn:E; [reflexivity|].
      destruct (assoc m kids) as [c|] eqn:E2; [|reflexivity].
      assert (Hm : m <> s__help) by (intro X; subst; rewrite str_eqb_refl in E; discriminate).
      rewrite (assoc_kid_levels_rev _ _ _ Hm E2) in HA. discriminate.
  Qed.

  Lemma sub_names_assoc lv k :
    mem_str k (sub_names lv) = match level_subs lv with
                               | Some subs => match assoc k subs with Some _ => true | None => false end
                               | None => false
                               end.
  Proof. unfold sub_names. destruct (level_subs lv); [apply assoc_mem|reflexivity]. Qed.

  (* a subcommand is never called like a parameter of its own level *)
  Lemma sub_not_param lv k :
    lv_wf lv -> mem_str k (sub_names lv) = true -> ~ In k (names (level_sig lv)).
  Proof.
    destruct lv as [[n s|n i ms|kids|]|s]; simpl; try discriminate; try tauto.
    - intros HW HK. apply comp_wf_cls in HW. destruct HW as [HM _].
      unfold meth_names_ok in HM. apply andb_true_iff in HM. destruct HM as [_ HM].
      rewrite forallb_forall in HM.
      assert (In k (map fst ms)).
      { unfold sub_names in HK. simpl in HK. destruct ms as [|ms0 ms']; [discriminate|].
        apply mem_str_In in HK. rewrite map_map in HK. exact HK. }
      specialize (HM _ H). repeat (apply andb_true_iff in HM; destruct HM as [HM ?]).
      apply negb_true_iff in H2. apply has_param_false. exact H2.
  Qed.

  (* ---- the level's --config option ------------------------------------------------------------- *)
  Lemma nonempty_args s : nonempty (args_of_sig as_pos s) = offers s.
  Proof.
    rewrite args_of_sig_spec. unfold offers. induction s as [|p s IH]; simpl; auto.
    destruct (sp_offered p); simpl; auto.
  Qed.

  Lemma has_config_eq top lv cn mn :
    lv_wf lv -> level_has_config as_pos top lv = sl_has_config top (slv_of lv cn mn).
  Proof.
    destruct lv as [[n s|n i ms|kids|]|s]; simpl; try tauto; intros _.
    - rewrite nonempty_args. reflexivity.
    - rewrite nonempty_args. f_equal. induction ms as [|ms0 ms IH]; simpl; auto. rewrite nonempty_args, IH. reflexivity.
    - rewrite nonempty_args. reflexivity.
  Qed.

  (* ---- the simulation invariant: the namespace of a level is the fold of the assignments seen --- *)
  Definition inv (top : bool) (lv : level) (st : lstate) (asg : list (str * raw)) : Prop :=
    ls_ns st = cfg_entry (level_has_config as_pos top lv) ++ ns_args (level_args as_pos lv) asg /\
    asg_valid (level_args as_pos lv) asg.

  Lemma find_arg_level lv k : lv_wf lv ->
    find_arg k (level_args as_pos lv) =
    match sp_find k (level_sig lv) with
    | Some p => if sp_offered p then Some (mk_arg as_pos p) else None
    | None => None
    end.
  Proof. intro HW. apply find_arg_spec. apply lv_wf_nodup. exact HW. Qed.

  Lemma inv_set top lv st asg k r p v :
    lv_wf lv -> inv top lv st asg ->
    sp_find k (level_sig lv) = Some p -> sp_offered p = true -> conv (sp_ty p) r = Some v ->
    inv top lv (with_ns st (ns_set k v (ls_ns st))) (asg ++ [(k, r)]).
  Proof.
    intros HW [Hns Hval] EF EO EC.
    assert (HFA : find_arg k (level_args as_pos lv) = Some (mk_arg as_pos p))
      by (rewrite find_arg_level, EF, EO; auto).
    split.
    - simpl. rewrite Hns. eapply ns_set_entry; eauto.
      + apply dests_of_sig. apply lv_wf_nodup. exact HW.
      + intros _ X. subst k. apply (lv_wf_noconfig lv HW).
        destruct (sp_find_name _ _ _ EF) as [HN HI]. rewrite <- HN. apply in_map. exact HI.
    - eapply asg_valid_snoc; eauto.
  Qed.

  Lemma sp_find_some_in k s p : sp_find k s = Some p -> In k (names s).
  Proof. intro H. destruct (sp_find_name _ _ _ H) as [HN HI]. rewrite <- HN. apply in_map. exact HI. Qed.

  Lemma apply_doc_sim lv cn mn top d : lv_wf lv -> forall st asg, inv top lv st asg ->
    match apply_doc conv (level_args as_pos lv) (sub_names lv) d st with
    | Ok st' => exists asg', sp_doc conv as_pos (slv_of lv cn mn) d asg (ls_pend st) = Some (asg', ls_pend st') /\
                             inv top lv st' asg' /\ ls_npos st' = ls_npos st
    | Err EParse => sp_doc conv as_pos (slv_of lv cn mn) d asg (ls_pend st) = None
    | Err EUnmodelled => True
    | Err _ => False
    end.
  Proof.
    intro HW. induction d as [|[k nd] d IH]; intros st asg HI.
    - simpl. exists asg. auto.
    - cbn [apply_doc sp_doc]. rewrite (find_arg_level lv k HW). rewrite sl_sig_of.
      destruct (sp_find k (level_sig lv)) as [p|] eqn:EF.
      + destruct (sp_offered p) eqn:EO.
        * destruct nd as [r|kids].
          -- cbn [a_ty mk_arg]. unfold sp_assignable. rewrite EF, EO. cbn [andb negb].
             destruct (conv (sp_ty p) r) as [v|] eqn:EC; [|reflexivity].
             apply (IH (with_ns st (ns_set k v (ls_ns st))) (asg ++ [(k, r)])).
             eapply inv_set; eauto.
          -- reflexivity.
        * assert (EM : mem_str k (sub_names lv) = false).
          { destruct (mem_str k (sub_names lv)) eqn:EM; auto. exfalso.
            apply (sub_not_param lv k HW EM). eapply sp_find_some_in; eauto. }
          rewrite EM.
          assert (HS : match nd with
                       | CLeaf r => if sp_assignable conv as_pos (level_sig lv) false k r
                                    then sp_doc conv as_pos (slv_of lv cn mn) d (asg ++ [(k, r)]) (ls_pend st) else None
                       | CSec kids => None (A:=list (str * raw) * list (str * doc))
                       end = None).
          { destruct nd; auto. unfold sp_assignable. rewrite EF, EO. reflexivity. }
          destruct ((nonempty (sub_names lv) && str_eqb k s_subcommand) || str_eqb k s_config); auto.
      + destruct (mem_str k (sub_names lv)) eqn:EM.
        * destruct nd as [r|kids]; [exact I|].
          rewrite sub_names_assoc in EM. destruct (level_subs lv) as [subs|] eqn:ES; [|discriminate].
          destruct (assoc k subs) as [lv'|] eqn:EA; [|discriminate].
          destruct (lv_wf_sub lv cn mn subs k lv' HW ES EA) as [_ [cn' HSub]]. rewrite HSub.
          apply (IH (with_pend st (ls_pend st ++ [(k, kids)])) asg). exact HI.
        * assert (HS : sl_sub (slv_of lv cn mn) k = None).
          { apply sl_sub_none; auto. rewrite sub_names_assoc in EM.
            destruct (level_subs lv); auto. destruct (assoc k l); [discriminate|auto]. }
          rewrite HS.
          assert (HS2 : match nd with
                       | CLeaf r => if sp_assignable conv as_pos (level_sig lv) false k r
                                    then sp_doc conv as_pos (slv_of lv cn mn) d (asg ++ [(k, r)]) (ls_pend st) else None
                       | CSec kids => None (A:=list (str * raw) * list (str * doc))
                       end = None).
          { destruct nd; auto. unfold sp_assignable. rewrite EF. reflexivity. }
          destruct ((nonempty (sub_names lv) && str_eqb k s_subcommand) || str_eqb k s_config); auto.
  Qed.

  Lemma apply_docs_sim lv cn mn top ds : lv_wf lv -> forall st asg, inv top lv st asg ->
    match apply_docs conv (level_args as_pos lv) (sub_names lv) ds st with
    | Ok st' => exists asg', sp_docs conv as_pos (slv_of lv cn mn) ds asg (ls_pend st) = Some (asg', ls_pend st') /\
                             inv top lv st' asg' /\ ls_npos st' = ls_npos st
    | Err EParse => sp_docs conv as_pos (slv_of lv cn mn) ds asg (ls_pend st) = None
    | Err EUnmodelled => True
    | Err _ => False
    end.
  Proof.
    intro HW. induction ds as [|d ds IH]; intros st asg HI.
    - simpl. exists asg. auto.
    - cbn [apply_docs sp_docs]. pose proof (apply_doc_sim lv cn mn top d HW st asg HI) as HD.
      destruct (apply_doc conv (level_args as_pos lv) (sub_names lv) d st) as [st1|e]; cbn [bind].
      + destruct HD as [asg1 [HD1 [HD2 HD3]]]. rewrite HD1.
        pose proof (IH st1 asg1 HD2) as H2. rewrite HD3 in H2. exact H2.
      + destruct e; auto. rewrite HD. reflexivity.
  Qed.

  Lemma init_state_sim lv cn mn top ds : lv_wf lv ->
    match init_state conv as_pos top lv ds with
    | Ok st' => exists asg', sp_docs conv as_pos (slv_of lv cn mn) ds [] [] = Some (asg', ls_pend st') /\
                             inv top lv st' asg' /\ ls_npos st' = 0
    | Err EParse => sp_docs conv as_pos (slv_of lv cn mn) ds [] [] = None
    | Err EUnmodelled => True
    | Err _ => False
    end.
  Proof.
    intro HW. unfold init_state.
    apply (apply_docs_sim lv cn mn top ds HW
             {| ls_ns := (if level_has_config as_pos top lv then [(s_config, VNone)] else [])
                         ++ map (fun a => (a_dest a, a_def a)) (level_args as_pos lv);
                ls_npos := 0; ls_pend := [] |} []).
    split.
    - reflexivity.
    - intros k r [].
  Qed.

  (* ---- values: the namespace entry of a parameter is the spec's value -------------------------- *)
  Lemma assoc_ns_args k args asg :
    assoc k (ns_args args asg) = option_map (arg_value asg) (find_arg k args).
  Proof.
    unfold ns_args. induction args as [|a args IH]; simpl; auto.
    destruct (str_eqb k (a_dest a)); auto.
  Qed.

  Lemma assoc_app {A} k (l1 l2 : list (str * A)) :
    assoc k (l1 ++ l2) = match assoc k l1 with Some x => Some x | None => assoc k l2 end.
  Proof. induction l1 as [|[k' a] l1 IH]; simpl; auto. destruct (str_eqb k k'); auto. Qed.

  Lemma assoc_entry hcb k (l : ns) : k <> s_config -> assoc k (cfg_entry hcb ++ l) = assoc k l.
  Proof. intro H. destruct hcb; simpl; auto. rewrite str_eqb_false; auto. Qed.

  Lemma valid_conv s asg p :
    NoDup (names s) -> In p s -> sp_offered p = true -> asg_valid (args_of_sig as_pos s) asg ->
    forall r, last_asg (p_name p) asg = Some r -> exists v, conv (sp_ty p) r = Some v.
  Proof.
    intros ND HI HO HV r HL. apply last_asg_In in HL. destruct (HV _ _ HL) as [a [v [HF HC]]].
    rewrite find_arg_spec, (sp_find_In s p ND HI), HO in HF by auto. inversion HF; subst a. eauto.
  Qed.

  Lemma value_match asg p :
    sp_offered p = true ->
    (forall r, last_asg (p_name p) asg = Some r -> exists v, conv (sp_ty p) r = Some v) ->
    match sp_value conv asg p with
    | Some v => arg_value asg (mk_arg as_pos p) = v
    | None => arg_value asg (mk_arg as_pos p) = VNone /\ sp_required p = true
    end.
  Proof.
    intros HO HC. unfold sp_value, arg_value. rewrite HO. cbn [a_dest a_ty a_def mk_arg].
    destruct (last_asg (p_name p) asg) as [r|].
    - destruct (HC r eq_refl) as [v Hv]. rewrite Hv. reflexivity.
    - unfold sp_required. destruct (sp_default p); auto.
  Qed.

  Lemma assoc_param s asg p :
    NoDup (names s) -> In p s ->
    assoc (p_name p) (ns_args (args_of_sig as_pos s) asg) =
    if sp_offered p then Some (arg_value asg (mk_arg as_pos p)) else None.
  Proof.
    intros ND HI. rewrite assoc_ns_args, find_arg_spec, (sp_find_In s p ND HI) by auto.
    destruct (sp_offered p); reflexivity.
  Qed.

  Lemma forallb_ext_in {A} (f g : A -> bool) l : (forall x, In x l -> f x = g x) -> forallb f l = forallb g l.
  Proof.
    induction l as [|x l IH]; simpl; auto. intro H. rewrite H by auto. rewrite IH; auto.
  Qed.

  Lemma forallb_map_filter {A B} (f : B -> bool) (g : A -> B) (h : A -> bool) l :
    forallb f (map g (filter h l)) = forallb (fun x => negb (h x) || f (g x)) l.
  Proof.
    induction l as [|x l IH]; simpl; auto. destruct (h x); simpl; rewrite IH; auto.
  Qed.

  Lemma check_required_spec s asg hcb :
    NoDup (names s) -> ~ In s_config (names s) -> asg_valid (args_of_sig as_pos s) asg ->
    check_required (args_of_sig as_pos s) (cfg_entry hcb ++ ns_args (args_of_sig as_pos s) asg) =
    sp_complete conv s asg.
  Proof.
    intros ND NC HV. unfold check_required, sp_complete.
    rewrite args_of_sig_spec at 1. rewrite forallb_map_filter.
    apply forallb_ext_in. intros p HI. cbn [a_req a_dest mk_arg].
    destruct (sp_offered p) eqn:HO.
    - cbn [negb orb]. rewrite assoc_entry by (intro X; apply NC; rewrite <- X; apply in_map; exact HI).
      rewrite (assoc_param s asg p ND HI), HO.
      pose proof (value_match asg p HO (valid_conv s asg p ND HI HO HV)) as HM.
      destruct (sp_value conv asg p) as [v|].
      + rewrite HM. reflexivity.
      + destruct HM as [HM _]. rewrite HM. reflexivity.
    - unfold sp_offered in HO. apply orb_false_iff in HO. destruct HO as [HO _]. rewrite HO. reflexivity.
  Qed.

  Lemma bind_params_spec s0 asg :
    NoDup (names s0) -> sig_guard2 s0 = true -> asg_valid (args_of_sig as_pos s0) asg ->
    sp_complete conv s0 asg = true ->
    forall s, (forall p, In p s -> In p s0) ->
    exists b, sp_bind conv s asg = Some b /\ bind_params s (ns_args (args_of_sig as_pos s0) asg) = Ok b.
  Proof.
    intros ND HG HV HC. induction s as [|p s IH]; intro HS.
    - exists []. auto.
    - destruct IH as [b [Hb1 Hb2]]; [intros; apply HS; right; auto|].
      assert (HI : In p s0) by (apply HS; left; auto).
      cbn [sp_bind bind_params]. rewrite Hb1, Hb2. rewrite (assoc_param s0 asg p ND HI).
      unfold sp_complete in HC. rewrite forallb_forall in HC. specialize (HC _ HI).
      destruct (sp_offered p) eqn:HO.
      + pose proof (value_match asg p HO (valid_conv s0 asg p ND HI HO HV)) as HM.
        destruct (sp_value conv asg p) as [v|].
        * rewrite HM. exists ((p_name p, v) :: b). auto.
        * destruct HM as [_ HM]. rewrite HM in HC. discriminate.
      + assert (HD : sp_value conv asg p = sp_default p) by (unfold sp_value; rewrite HO; reflexivity).
        rewrite HD.
        assert (HP : p_default p = sp_default p /\ exists v, sp_default p = Some v).
        { unfold sp_offered in HO. apply orb_false_iff in HO. destruct HO as [HR HP]. apply negb_false_iff in HP.
          unfold sig_guard2 in HG. apply negb_true_iff in HG.
          assert (HX : priv_opt_nodefault p = false).
          { destruct (priv_opt_nodefault p) eqn:E; auto.
            assert (existsb priv_opt_nodefault s0 = true) by (apply existsb_exists; eauto). congruence. }
          unfold priv_opt_nodefault in HX. rewrite starts_underscore_eq, HP, is_optional_eq in HX.
          unfold sp_required in HR. unfold sp_default in *.
          destruct (p_default p) as [v|]; [split; eauto|].
          destruct (sp_is_opt (p_ty p)); simpl in *; discriminate. }
        destruct HP as [HP1 [v HP2]]. rewrite HP1, HP2. exists ((p_name p, v) :: b). auto.
  Qed.

  Lemma keys_ns_args args asg : map fst (ns_args args asg) = map a_dest args.
  Proof. unfold ns_args. rewrite map_map. reflexivity. Qed.

  Lemma call_sim s asg :
    NoDup (names s) -> sig_guard2 s = true -> asg_valid (args_of_sig as_pos s) asg ->
    sp_complete conv s asg = true ->
    exists b, sp_finish conv s asg = Some b /\ py_call s (ns_args (args_of_sig as_pos s) asg) = Ok b.
  Proof.
    intros ND HG HV HC. destruct (bind_params_spec s asg ND HG HV HC s) as [b [H1 H2]]; auto.
    exists b. unfold sp_finish, py_call. rewrite HC. split; auto.
    assert (HE : existsb (fun kv : str * value => negb (has_param (fst kv) s))
                         (ns_args (args_of_sig as_pos s) asg) = false).
    { destruct (existsb _ _) eqn:E; auto. apply existsb_exists in E. destruct E as [[k v] [HI HN]].
      apply negb_true_iff in HN. apply has_param_false in HN. exfalso. apply HN. simpl.
      assert (In k (map fst (ns_args (args_of_sig as_pos s) asg))) by (change k with (fst (k, v)); apply in_map; auto).
      rewrite keys_ns_args in H. apply in_map_iff in H. destruct H as [a [Ha1 Ha2]]. subst k.
      eapply dests_subset; eauto. }
    rewrite HE. exact H2.
  Qed.

  (* ---- what parse returns: one frame per level, each the fold of that level's assignments ------- *)
  Definition mkf (top : bool) (lv : level) (asg : list (str * raw)) (sub : option str) : frame :=
    {| fr_ns := cfg_entry (level_has_config as_pos top lv) ++ ns_args (level_args as_pos lv) asg; fr_sub := sub |}.

  Inductive chain : bool -> level -> str -> str -> list frame -> list call -> retv -> Prop :=
  | ch_fn top n s cn mn asg b :
      py_call s (ns_args (args_of_sig as_pos s) asg) = Ok b ->
      chain top (LComp (CFn n s)) cn mn [mkf top (LComp (CFn n s)) asg None] [([n], b)] (RetCall 0)
  | ch_cls0 top n i cn mn asg b :
      py_call i (ns_args (args_of_sig as_pos i) asg) = Ok b ->
      chain top (LComp (CCls n i [])) cn mn [mkf top (LComp (CCls n i [])) asg None] [([n; s__init__], b)] RetInstance
  | ch_meth top s cn mn asg b :
      py_call s (ns_args (args_of_sig as_pos s) asg) = Ok b ->
      chain top (LMeth s) cn mn [mkf top (LMeth s) asg None] [([cn; mn], b)] (RetCall 0)
  | ch_cls top n i ms cn mn asg b m s fs log ret :
      py_call i (ns_args (args_of_sig as_pos i) asg) = Ok b ->
      assoc m ms = Some s ->
      chain false (LMeth s) n m fs log ret ->
      chain top (LComp (CCls n i ms)) cn mn (mkf top (LComp (CCls n i ms)) asg (Some m) :: fs)
            (([n; s__init__], b) :: log) (shift ret)
  | ch_grp top kids cn mn cn' m c fs log ret :
      m <> s__help -> assoc m kids = Some c ->
      chain false (LComp c) cn' m fs log ret ->
      chain top (LComp (CGrp kids)) cn mn ({| fr_ns := [(s_config, VNone)]; fr_sub := Some m |} :: fs) log ret.

  Lemma find_arg_notin_dests k args : ~ In k (map a_dest args) -> find_arg k args = None.
  Proof.
    induction args as [|a args IH]; simpl; auto. intro H.
    rewrite str_eqb_false by (intro X; apply H; auto). apply IH. tauto.
  Qed.

  Lemma find_arg_filter f k args :
    NoDup (map a_dest args) ->
    find_arg k (filter f args) =
    match find_arg k args with Some a => if f a then Some a else None | None => None end.
  Proof.
    induction args as [|a args IH]; simpl; auto. intro ND. inversion ND as [|? ? Hn ND']; subst.
    destruct (str_eqb k (a_dest a)) eqn:E.
    - destruct (f a) eqn:Ef; simpl.
      + rewrite E. reflexivity.
      + apply find_arg_notin_dests. apply str_eqb_spec in E. subst k. intro HI. apply Hn.
        apply in_map_iff in HI. destruct HI as [x [Hx1 Hx2]]. apply filter_In in Hx2. destruct Hx2.
        rewrite <- Hx1. apply in_map. auto.
    - destruct (f a); simpl; [rewrite E|]; apply IH; auto.
  Qed.

  Lemma level_subs_shape lv subs : level_subs lv = Some subs ->
    (exists n i m0 ms, lv = LComp (CCls n i (m0 :: ms))) \/ (exists kids, lv = LComp (CGrp kids)).
  Proof.
    destruct lv as [[n s|n i ms|kids|]|s]; simpl; try discriminate.
    - destruct ms; [discriminate|]. intros _. left. eauto 6.
    - intros _. right. eauto.
  Qed.

  Lemma inv_frame top lv st asg sub :
    inv top lv st asg -> {| fr_ns := ls_ns st; fr_sub := sub |} = mkf top lv asg sub.
  Proof. intros [H _]. unfold mkf. rewrite H. reflexivity. Qed.

  Lemma check_required_level top lv st asg :
    lv_wf lv -> inv top lv st asg ->
    check_required (level_args as_pos lv) (ls_ns st) = sp_complete conv (level_sig lv) asg.
  Proof.
    intros HW [H1 H2]. rewrite H1. apply check_required_spec; auto.
    - apply lv_wf_nodup; auto.
    - apply lv_wf_noconfig; auto.
  Qed.

  Lemma call_level lv asg :
    lv_wf lv -> asg_valid (level_args as_pos lv) asg -> sp_complete conv (level_sig lv) asg = true ->
    exists b, sp_finish conv (level_sig lv) asg = Some b /\
              py_call (level_sig lv) (ns_args (args_of_sig as_pos (level_sig lv)) asg) = Ok b.
  Proof.
    intros HW HV HC. apply call_sim; auto.
    - apply lv_wf_nodup; auto.
    - apply lv_wf_guard2; auto.
  Qed.

  Lemma sp_finish_none s asg : sp_complete conv s asg = false -> sp_finish conv s asg = None.
  Proof. intro H. unfold sp_finish. rewrite H. reflexivity. Qed.

  Lemma parse_sim toks : forall top lv cn mn st asg acc,
    lv_wf lv -> inv top lv st asg ->
    match parse conv as_pos top lv st toks acc with
    | Ok fs => exists fs' log ret,
                 fs = rev acc ++ fs' /\
                 sp_walk conv as_pos top (slv_of lv cn mn) asg (ls_npos st) (ls_pend st) toks = Some (log, ret) /\
                 chain top lv cn mn fs' log ret
    | Err EParse => sp_walk conv as_pos top (slv_of lv cn mn) asg (ls_npos st) (ls_pend st) toks = None
    | Err EUnmodelled => True
    | Err _ => False
    end.
  Proof.
    induction toks as [|t toks IH]; intros top lv cn mn st asg acc HW HI.
    - (* end of the line *)
      cbn [parse]. destruct (level_subs lv) as [subs|] eqn:ES.
      + destruct (level_subs_shape _ _ ES) as [[n [i [m0 [ms E]]]]|[kids E]]; subst lv;
          (destruct (ls_pend st); [reflexivity|exact I]).
      + rewrite (check_required_level top lv st asg HW HI).
        destruct (sp_complete conv (level_sig lv) asg) eqn:EC.
        * destruct HI as [HI1 HI2]. destruct (call_level lv asg HW HI2 EC) as [b [Hb1 Hb2]].
          pose proof (inv_frame top lv st asg None (conj HI1 HI2)) as HF.
          destruct lv as [[n s|n i ms|kids|]|s]; simpl in ES; try discriminate; try (simpl in HW; tauto).
          -- exists [mkf top (LComp (CFn n s)) asg None], [([n], b)], (RetCall 0).
             split; [simpl; rewrite HF; reflexivity|]. split.
             ++ simpl in *. rewrite Hb1. reflexivity.
             ++ constructor. exact Hb2.
          -- destruct ms; [|discriminate].
             exists [mkf top (LComp (CCls n i [])) asg None], [([n; s__init__], b)], RetInstance.
             split; [simpl; rewrite HF; reflexivity|]. split.
             ++ simpl in *. rewrite Hb1. reflexivity.
             ++ constructor. exact Hb2.
          -- exists [mkf top (LMeth s) asg None], [([cn; mn], b)], (RetCall 0).
             split; [simpl; rewrite HF; reflexivity|]. split.
             ++ simpl in *. rewrite Hb1. reflexivity.
             ++ constructor. exact Hb2.
        * apply sp_finish_none in EC.
          destruct lv as [[n s|n i ms|kids|]|s]; simpl in ES; try discriminate; try (simpl in HW; tauto).
          -- simpl in *. rewrite EC. reflexivity.
          -- destruct ms; [|discriminate]. simpl in *. rewrite EC. reflexivity.
          -- simpl in *. rewrite EC. reflexivity.
    - destruct t as [n r|r|d].
      + (* --n=r *)
        cbn [parse sp_walk]. rewrite find_arg_filter by (apply dests_of_sig; apply lv_wf_nodup; auto).
        rewrite (find_arg_level lv n HW). rewrite sl_sig_of. unfold sp_assignable.
        destruct (sp_find n (level_sig lv)) as [p|] eqn:EF; [|reflexivity].
        destruct (sp_offered p) eqn:EO; [|reflexivity].
        cbn [a_pos a_ty mk_arg andb]. unfold sp_positional.
        destruct (sp_required p && as_pos); cbn [negb andb]; [reflexivity|].
        destruct (conv (sp_ty p) r) as [v|] eqn:EC; [|reflexivity].
        apply (IH top lv cn mn (with_ns st (ns_set n v (ls_ns st))) (asg ++ [(n, r)]) acc HW).
        eapply inv_set; eauto.
      + (* a bare word *)
        cbn [parse sp_walk]. rewrite filter_pos_spec, nth_error_map, sl_sig_of.
        change (fun p : param => sp_offered p && sp_positional as_pos p)
          with (fun p : param => sp_offered p && (sp_required p && as_pos)).
        destruct (nth_error (filter (fun p : param => sp_offered p && (sp_required p && as_pos)) (level_sig lv)) (ls_npos st))
          as [p|] eqn:EN; cbn [option_map].
        * cbn [a_ty a_dest mk_arg].
          destruct (conv (sp_ty p) r) as [v|] eqn:EC; [|reflexivity].
          apply nth_error_In in EN. apply filter_In in EN. destruct EN as [EN1 EN2].
          apply andb_true_iff in EN2. destruct EN2 as [EO _].
          apply (IH top lv cn mn (next_pos (with_ns st (ns_set (p_name p) v (ls_ns st)))) (asg ++ [(p_name p, r)]) acc HW).
          destruct (inv_set top lv st asg (p_name p) r p v HW HI) as [X1 X2]; auto.
          { apply sp_find_In; auto. apply lv_wf_nodup; auto. }
          split; auto.
        * destruct r as [z|m|b|?|l];
            try (destruct (level_subs lv); reflexivity).
          destruct (level_subs lv) as [subs|] eqn:ES.
          2:{ rewrite (sl_sub_none lv cn mn m HW); [reflexivity|rewrite ES; exact I]. }
          destruct (assoc m subs) as [lv'|] eqn:EA.
          2:{ rewrite (sl_sub_none lv cn mn m HW); [reflexivity|rewrite ES; exact EA]. }
          destruct (lv_wf_sub lv cn mn subs m lv' HW ES EA) as [HW' [cn' HSub]]. rewrite HSub.
          destruct (other_pending m st); [exact I|].
          rewrite (check_required_level top lv st asg HW HI).
          change (pending_for m st) with (secs_for m (ls_pend st)).
          pose proof (init_state_sim lv' cn' m false (secs_for m (ls_pend st)) HW') as HIS.
          destruct (sp_complete conv (level_sig lv) asg) eqn:EC.
          -- destruct (init_state conv as_pos false lv' (secs_for m (ls_pend st))) as [st'|e].
             2:{ destruct e; auto. rewrite HIS. reflexivity. }
             destruct HIS as [asg' [HS1 [HS2 HS3]]]. rewrite HS1.
             pose proof (IH false lv' cn' m st' asg' ({| fr_ns := ls_ns st; fr_sub := Some m |} :: acc) HW' HS2) as HP.
             rewrite HS3 in HP.
             destruct HI as [HI1 HI2]. destruct (call_level lv asg HW HI2 EC) as [b [Hb1 Hb2]].
             pose proof (inv_frame top lv st asg (Some m) (conj HI1 HI2)) as HF.
             destruct (level_subs_shape _ _ ES) as [[n [i [m0 [ms E]]]]|[kids E]]; subst lv.
             ++ (* class: the constructor, then the method *)
                simpl in ES. inversion ES; subst subs. clear ES.
                change ((fst m0, LMeth (snd m0)) :: map (fun ms : str * sig => (fst ms, LMeth (snd ms))) ms)
                  with (map (fun ms : str * sig => (fst ms, LMeth (snd ms))) (m0 :: ms)) in EA.
                rewrite (assoc_map_snd LMeth) in EA.
                destruct (assoc m (m0 :: ms)) as [s|] eqn:EM; [|discriminate]. simpl in EA. inversion EA; subst lv'. clear EA.
                cbn [slv_of sl_sub] in HSub. rewrite EM in HSub. cbn [slv_of] in HSub. inversion HSub; subst cn'. clear HSub.
                cbn [slv_of level_sig] in *. rewrite Hb1.
                destruct (parse conv as_pos false (LMeth s) st' toks _) as [fs|e].
                ** destruct HP as [fs' [log [ret [HP1 [HP2 HP3]]]]]. rewrite HP2.
                   exists (mkf top (LComp (CCls n i (m0 :: ms))) asg (Some m) :: fs'), (([n; s__init__], b) :: log), (shift ret).
                   split; [rewrite HP1; simpl; rewrite <- app_assoc; rewrite HF; reflexivity|].
                   split; [reflexivity|]. econstructor; eauto.
                ** destruct e; auto. rewrite HP. reflexivity.
             ++ (* group: nothing to call at this level *)
                simpl in ES. inversion ES; subst subs. clear ES.
                destruct (assoc_kid_levels _ _ _ EA) as [Hm [c [Hc HA']]]. subst lv'.
                cbn [slv_of] in *.
                destruct (parse conv as_pos false (LComp c) st' toks _) as [fs|e].
                ** destruct HP as [fs' [log [ret [HP1 [HP2 HP3]]]]]. rewrite HP2.
                   exists ({| fr_ns := [(s_config, VNone)]; fr_sub := Some m |} :: fs'), log, ret.
                   split.
                   { rewrite HP1. simpl. rewrite <- app_assoc. rewrite HI1. reflexivity. }
                   split; [reflexivity|]. econstructor; eauto.
                ** destruct e; auto.
          -- (* a required constructor parameter is missing *)
             destruct (level_subs_shape _ _ ES) as [[n [i [m0 [ms E]]]]|[kids E]]; subst lv.
             ++ cbn [slv_of level_sig] in *. rewrite (sp_finish_none _ _ EC).
                destruct (sp_docs conv as_pos (slv_of lv' cn' m) (secs_for m (ls_pend st)) [] []) as [[? ?]|]; reflexivity.
             ++ simpl in EC. discriminate.
      + (* --config=d *)
        cbn [parse sp_walk]. rewrite <- (has_config_eq top lv cn mn HW).
        destruct (level_has_config as_pos top lv) eqn:EH.
        * pose proof (apply_doc_sim lv cn mn top d HW st asg HI) as HD.
          destruct (apply_doc conv (level_args as_pos lv) (sub_names lv) d st) as [st'|e].
          -- destruct HD as [asg' [HD1 [HD2 HD3]]]. rewrite HD1.
             pose proof (IH top lv cn mn st' asg' acc HW HD2) as HP. rewrite HD3 in HP. exact HP.
          -- destruct e; auto. rewrite HD. reflexivity.
        * destruct lv as [[n s|n i ms|kids|]|s]; try reflexivity.
          destruct (has_param s_config s); [exact I|reflexivity].
  Qed.
End Sim.

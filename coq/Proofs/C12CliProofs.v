(* C12 — proofs: the namespace-folding model of auto_cli refines the last-assignment reference
   semantics (simulation over the token list), under the two guards. *)
Require Import Btauto.
From JV Require Import Lib.Base Lib.C12Syntax Model.C12Cli Spec.C12CliSpec.

(* ---- strings / association lists ------------------------------------------------------------ *)
Lemma str_eqb_false a b : a <> b -> str_eqb a b = false.
Proof. intro H. destruct (str_eqb a b) eqn:E; auto. apply str_eqb_spec in E. contradiction. Qed.

Lemma str_eqb_sym a b : str_eqb a b = str_eqb b a.
Proof.
  destruct (str_eqb a b) eqn:E.
  - apply str_eqb_spec in E. subst. symmetry. apply str_eqb_refl.
  - destruct (str_eqb b a) eqn:E2; auto. apply str_eqb_spec in E2. subst. rewrite str_eqb_refl in E. discriminate.
Qed.

Lemma mem_str_false x l : mem_str x l = false <-> ~ In x l.
Proof.
  split; intro H.
  - intro HI. apply mem_str_In in HI. congruence.
  - destruct (mem_str x l) eqn:E; auto. apply mem_str_In in E. contradiction.
Qed.

Lemma nodup_str_NoDup l : nodup_str l = true -> NoDup l.
Proof.
  induction l as [|x l IH]; simpl; intro H; [constructor|].
  apply andb_true_iff in H. destruct H as [H1 H2]. constructor; auto.
  apply negb_true_iff in H1. apply mem_str_false in H1. exact H1.
Qed.

Lemma assoc_In {A} k (l : list (str * A)) a : assoc k l = Some a -> In (k, a) l.
Proof.
  induction l as [|[k' a'] l IH]; simpl; [discriminate|].
  destruct (str_eqb k k') eqn:E; intro H.
  - apply str_eqb_spec in E. inversion H; subst. auto.
  - auto.
Qed.

Lemma assoc_None {A} k (l : list (str * A)) : assoc k l = None <-> ~ In k (map fst l).
Proof.
  induction l as [|[k' a'] l IH]; simpl; [tauto|].
  destruct (str_eqb k k') eqn:E.
  - apply str_eqb_spec in E. subst. split; [discriminate|]. intro H. exfalso. apply H. auto.
  - rewrite IH. split; intro H; [intros [H1|H1]; [subst; rewrite str_eqb_refl in E; discriminate|auto]|auto].
Qed.

Lemma assoc_mem {A} k (l : list (str * A)) : mem_str k (map fst l) = match assoc k l with Some _ => true | None => false end.
Proof.
  induction l as [|[k' a'] l IH]; simpl; auto.
  destruct (str_eqb k k'); simpl; auto.
Qed.

(* ---- the argparse table of a signature, in the spec's words ---------------------------------- *)
Definition mk_arg (as_pos : bool) (p : param) : arg :=
  {| a_dest := p_name p; a_pos := sp_required p && as_pos; a_ty := sp_ty p; a_req := sp_required p;
     a_def := match sp_default p with Some v => v | None => VNone end |}.

Lemma is_optional_eq t : is_optional t = sp_is_opt t.
Proof. destruct t; reflexivity. Qed.
Lemma starts_underscore_eq n : starts_underscore n = sp_private n.
Proof. destruct n as [|c n]; reflexivity. Qed.

Lemma sig_guard3_cons p s : sig_guard3 (p :: s) = true -> nullish_default p = false /\ sig_guard3 s = true.
Proof.
  unfold sig_guard3, sig_nullish_free, sig_posonly_free. simpl. rewrite !negb_orb. intro H.
  apply andb_true_iff in H. destruct H as [H1 H2].
  apply andb_true_iff in H1. destruct H1 as [H1 H3]. apply andb_true_iff in H2. destruct H2 as [H2 H4].
  apply negb_true_iff in H1. rewrite H3, H4. auto.
Qed.

Lemma sig_guard3_posonly p s : sig_guard3 (p :: s) = true -> is_posonly p = false.
Proof.
  unfold sig_guard3, sig_nullish_free, sig_posonly_free. simpl. rewrite !negb_orb. intro H.
  apply andb_true_iff in H. destruct H as [_ H2]. apply andb_true_iff in H2. destruct H2 as [H2 _].
  apply negb_true_iff in H2. exact H2.
Qed.

(* inside the guard no value can reach a positional-only parameter by keyword: there is none *)
Lemma posonly_given_false s kw : sig_guard3 s = true -> posonly_given s kw = false.
Proof.
  induction s as [|p s IH]; [reflexivity|]. intro H. pose proof (sig_guard3_posonly _ _ H) as HP.
  apply sig_guard3_cons in H. destruct H as [_ H]. unfold posonly_given in *. simpl. rewrite HP. simpl. auto.
Qed.

Lemma sig_guard3_In p s : sig_guard3 s = true -> In p s -> nullish_default p = false.
Proof.
  induction s as [|q s IH]; [intros _ []|]. intros H [HI|HI]; apply sig_guard3_cons in H; destruct H; subst; auto.
Qed.

(* outside the second finding class the code's table is the spec's: offered parameters, in order *)
Lemma arg_of_param_spec as_pos p :
  nullish_default p = false ->
  arg_of_param false as_pos p = if sp_offered p then Some (mk_arg as_pos p) else None.
Proof.
  unfold arg_of_param, nullish_default, sp_offered, mk_arg, sp_required, sp_ty, sp_default, reparse_default.
  rewrite !is_optional_eq, starts_underscore_eq.
  destruct (p_default p) as [v|]; simpl.
  - intros HN. destruct (sp_private (p_name p)); simpl; auto.
    destruct v; simpl; auto; destruct (p_ty p); simpl in *; auto; rewrite HN; auto.
  - intros _. destruct (sp_is_opt (p_ty p)) eqn:EO; simpl; auto; destruct (sp_private (p_name p)); simpl; auto;
      destruct (p_ty p); simpl in *; auto; discriminate.
Qed.

Lemma args_of_sig_spec as_pos s :
  sig_guard3 s = true -> args_of_sig false as_pos s = map (mk_arg as_pos) (filter sp_offered s).
Proof.
  induction s as [|p s IH]; simpl; auto. intro HG. apply sig_guard3_cons in HG. destruct HG as [HG1 HG2].
  unfold args_of_sig in *. simpl. rewrite arg_of_param_spec, IH by auto.
  destruct (sp_offered p); reflexivity.
Qed.

Lemma find_arg_notin as_pos s n :
  ~ In n (names s) -> find_arg n (map (mk_arg as_pos) (filter sp_offered s)) = None.
Proof.
  induction s as [|q s IH]; simpl; auto. intro H.
  destruct (sp_offered q); simpl.
  - rewrite str_eqb_false by (intro X; apply H; left; auto). apply IH. tauto.
  - apply IH. tauto.
Qed.

Lemma find_arg_spec as_pos s n :
  sig_guard3 s = true -> NoDup (names s) ->
  find_arg n (args_of_sig false as_pos s) =
  match sp_find n s with
  | Some p => if sp_offered p then Some (mk_arg as_pos p) else None
  | None => None
  end.
Proof.
  intro HG. rewrite args_of_sig_spec by auto. clear HG.
  induction s as [|p s IH]; simpl; auto. intro ND. inversion ND as [|? ? Hn ND']; subst.
  destruct (str_eqb n (p_name p)) eqn:E.
  - apply str_eqb_spec in E. subst n.
    destruct (sp_offered p) eqn:Ho; simpl.
    + rewrite str_eqb_refl. reflexivity.
    + apply find_arg_notin. exact Hn.
  - destruct (sp_offered p); simpl; [rewrite E|]; apply IH; auto.
Qed.

Lemma sp_find_name n s p : sp_find n s = Some p -> p_name p = n /\ In p s.
Proof.
  induction s as [|q s IH]; simpl; [discriminate|].
  destruct (str_eqb n (p_name q)) eqn:E; intro H.
  - inversion H; subst. apply str_eqb_spec in E. auto.
  - destruct (IH H). auto.
Qed.

Lemma sp_find_In s p : NoDup (names s) -> In p s -> sp_find (p_name p) s = Some p.
Proof.
  induction s as [|q s IH]; simpl; [tauto|]. intros ND [H|H]; inversion ND; subst.
  - rewrite str_eqb_refl. reflexivity.
  - destruct (str_eqb (p_name p) (p_name q)) eqn:E; auto.
    apply str_eqb_spec in E. exfalso. apply H2. rewrite <- E. apply in_map. exact H.
Qed.

Lemma sp_find_None n s : sp_find n s = None <-> ~ In n (names s).
Proof.
  induction s as [|q s IH]; simpl; [tauto|].
  destruct (str_eqb n (p_name q)) eqn:E.
  - apply str_eqb_spec in E. split; [discriminate|]. intro H. exfalso. apply H. auto.
  - rewrite IH. split; intro H; [intros [H1|H1]; [subst; rewrite str_eqb_refl in E; discriminate|auto]|auto].
Qed.

Lemma filter_pos_spec as_pos s :
  sig_guard3 s = true ->
  filter a_pos (args_of_sig false as_pos s) =
  map (mk_arg as_pos) (filter (fun p => sp_offered p && (sp_required p && as_pos)) s).
Proof.
  intro HG. rewrite args_of_sig_spec by auto. clear HG. induction s as [|p s IH]; simpl; auto.
  destruct (sp_offered p); simpl; auto.
  destruct (sp_required p && as_pos); simpl; rewrite IH; auto.
Qed.


Lemma last_asg_snoc n asg k r :
  last_asg n (asg ++ [(k, r)]) = if str_eqb n k then Some r else last_asg n asg.
Proof.
  induction asg as [|[k' r'] asg IH]; simpl.
  - destruct (str_eqb n k); reflexivity.
  - rewrite IH. destruct (str_eqb n k); auto.
Qed.

Lemma last_asg_In n asg r : last_asg n asg = Some r -> In (n, r) asg.
Proof.
  induction asg as [|[k' r'] asg IH]; simpl; [discriminate|].
  destruct (last_asg n asg) as [x|] eqn:E.
  - intro H. inversion H; subst. right. apply IH. reflexivity.
  - destruct (str_eqb n k') eqn:E2; [|discriminate]. intro H. inversion H; subst.
    apply str_eqb_spec in E2. subst. left. reflexivity.
Qed.

Lemma find_arg_dest k args a : find_arg k args = Some a -> a_dest a = k /\ In a args.
Proof.
  induction args as [|b args IH]; simpl; [discriminate|].
  destruct (str_eqb k (a_dest b)) eqn:E; intro H.
  - inversion H; subst. apply str_eqb_spec in E. auto.
  - destruct (IH H). auto.
Qed.

Lemma find_arg_unique k args a0 a :
  NoDup (map a_dest args) -> find_arg k args = Some a0 -> In a args -> a_dest a = k -> a = a0.
Proof.
  induction args as [|b args IH]; simpl; [discriminate|]. intros ND HF HI HD.
  inversion ND as [|? ? Hn ND']; subst.
  destruct (str_eqb (a_dest a) (a_dest b)) eqn:E.
  - inversion HF; subst. apply str_eqb_spec in E. destruct HI as [HI|HI]; auto.
    exfalso. apply Hn. rewrite <- E. apply in_map. exact HI.
  - destruct HI as [HI|HI]; [subst; rewrite str_eqb_refl in E; discriminate|]. eapply IH; eauto.
Qed.

Lemma arg_of_param_dest as_pos p a : arg_of_param false as_pos p = Some a -> a_dest a = p_name p.
Proof.
  unfold arg_of_param. destruct (_ && _); [discriminate|]. intro H. inversion H. reflexivity.
Qed.

Lemma dests_subset as_pos s a : In a (args_of_sig false as_pos s) -> In (a_dest a) (names s).
Proof.
  unfold args_of_sig. intro H. apply in_flat_map in H. destruct H as [p [H1 H2]].
  destruct (arg_of_param false as_pos p) as [a'|] eqn:E; [|destruct H2]. destruct H2 as [H2|[]]. subst a'.
  rewrite (arg_of_param_dest _ _ _ E). apply in_map. exact H1.
Qed.

Lemma dests_of_sig as_pos s : NoDup (names s) -> NoDup (map a_dest (args_of_sig false as_pos s)).
Proof.
  induction s as [|p s IH]; simpl; [constructor|].
  intro ND. inversion ND as [|? ? Hn ND']; subst.
  change (args_of_sig false as_pos (p :: s)) with
    ((match arg_of_param false as_pos p with Some a => [a] | None => [] end) ++ args_of_sig false as_pos s).
  destruct (arg_of_param false as_pos p) as [a|] eqn:E; simpl; auto.
  constructor; auto. rewrite (arg_of_param_dest _ _ _ E). intro HI. apply Hn.
  apply in_map_iff in HI. destruct HI as [b [Hb1 Hb2]]. rewrite <- Hb1. eapply dests_subset; eauto.
Qed.

Section Sim.
  Variable conv : ty -> raw -> option value.
  Variable as_pos : bool.

  Definition arg_value (asg : list (str * raw)) (a : arg) : value :=
    match last_asg (a_dest a) asg with
    | Some r => match conv (a_ty a) r with Some v => v | None => VNone end
    | None => a_def a
    end.

  Definition ns_args (args : list arg) (asg : list (str * raw)) : ns :=
    map (fun a => (a_dest a, arg_value asg a)) args.

  Definition cfg_entry (b : bool) : ns := if b then [(s_config, VNone)] else [].

  Definition asg_valid (args : list arg) (asg : list (str * raw)) : Prop :=
    forall k r, In (k, r) asg -> exists a v, find_arg k args = Some a /\ conv (a_ty a) r = Some v.

  Lemma ns_set_map k v (f : arg -> value) args :
    NoDup (map a_dest args) -> In k (map a_dest args) ->
    ns_set k v (map (fun a => (a_dest a, f a)) args) =
    map (fun a => (a_dest a, if str_eqb k (a_dest a) then v else f a)) args.
  Proof.
    induction args as [|a args IH]; simpl; [tauto|]. intros ND HI. inversion ND as [|? ? Hn ND']; subst.
    destruct (str_eqb k (a_dest a)) eqn:E.
    - f_equal. apply map_ext_in. intros b Hb.
      apply str_eqb_spec in E. subst k.
      rewrite str_eqb_false; auto. intro X. apply Hn. rewrite X. apply in_map. exact Hb.
    - f_equal. apply IH; auto. destruct HI as [HI|HI]; auto. subst. rewrite str_eqb_refl in E. discriminate.
  Qed.

  Lemma ns_set_args k r v a0 args asg :
    NoDup (map a_dest args) -> find_arg k args = Some a0 -> conv (a_ty a0) r = Some v ->
    ns_set k v (ns_args args asg) = ns_args args (asg ++ [(k, r)]).
  Proof.
    intros ND HF HC. unfold ns_args. destruct (find_arg_dest _ _ _ HF) as [HD HI].
    rewrite ns_set_map; auto.
    - apply map_ext_in. intros a Ha. unfold arg_value. rewrite last_asg_snoc. rewrite (str_eqb_sym (a_dest a) k).
      destruct (str_eqb k (a_dest a)) eqn:E; auto.
      apply str_eqb_spec in E. assert (a = a0) by (eapply find_arg_unique; eauto). subst a. rewrite HC. reflexivity.
    - rewrite <- HD. apply in_map. exact HI.
  Qed.

  Lemma ns_set_entry hc k r v a0 args asg :
    NoDup (map a_dest args) -> find_arg k args = Some a0 -> conv (a_ty a0) r = Some v ->
    (hc = true -> k <> s_config) ->
    ns_set k v (cfg_entry hc ++ ns_args args asg) = cfg_entry hc ++ ns_args args (asg ++ [(k, r)]).
  Proof.
    intros ND HF HC Hk. destruct hc; simpl.
    - rewrite str_eqb_false by auto. f_equal. eapply ns_set_args; eauto.
    - eapply ns_set_args; eauto.
  Qed.

  Lemma asg_valid_snoc args asg k r a v :
    asg_valid args asg -> find_arg k args = Some a -> conv (a_ty a) r = Some v -> asg_valid args (asg ++ [(k, r)]).
  Proof.
    intros HV HF HC k' r' HI. apply in_app_or in HI. destruct HI as [HI|[HI|[]]]; [apply HV; auto|].
    inversion HI; subst. eauto.
  Qed.

  (* ---- well-formed components / levels: what build_check and the two guards give ------------- *)
  Definition comp_wf (c : comp) : Prop :=
    build_check c = Ok tt /\ guardB_comp c = true.

  Definition lv_wf (lv : level) : Prop :=
    match lv with
    | LComp CHelp => False
    | LComp c => comp_wf c
    | LMeth s => check_meth_sig s = Ok tt /\ sig_guard3 s = true
    end.

  Definition slv_of (lv : level) (cn m : str) : slevel :=
    match lv with
    | LComp (CFn n s) => SFn n s
    | LComp (CCls n i ms) => SCls n i ms
    | LComp (CGrp kids) => SGrp kids
    | LComp CHelp => SGrp []
    | LMeth s => SMeth cn m s
    end.

  Lemma sl_sig_of lv cn m : sl_sig (slv_of lv cn m) = level_sig lv.
  Proof. destruct lv as [[| | |]|]; reflexivity. Qed.

  Lemma check_fn_sig_ok s : check_fn_sig s = Ok tt ->
    NoDup (names s) /\ ~ In s_config (names s) /\ ~ In s_help (names s).
  Proof.
    unfold check_fn_sig. destruct (sig_ok s) eqn:E; simpl; [|discriminate].
    destruct (clash _ s) eqn:E2; [discriminate|]. intros _.
    unfold sig_ok in E. apply andb_true_iff in E. destruct E as [E _].
    split; [apply nodup_str_NoDup; auto|].
    unfold clash in E2.
    assert (forall n, In n (names s) -> mem_str n [s_help; s_config; s_print_config] = false).
    { intros n Hn. destruct (mem_str n [s_help; s_config; s_print_config]) eqn:E3; auto.
      assert (existsb (fun n => mem_str n [s_help; s_config; s_print_config]) (names s) = true)
        by (apply existsb_exists; eauto). congruence. }
    split; intro HI; apply H in HI; vm_compute in HI; discriminate.
  Qed.

  Lemma check_meth_sig_ok s : check_meth_sig s = Ok tt -> NoDup (names s).
  Proof.
    unfold check_meth_sig. destruct (sig_ok s) eqn:E; simpl; [|discriminate]. intros _.
    unfold sig_ok in E. apply andb_true_iff in E. destruct E as [E _]. apply nodup_str_NoDup; auto.
  Qed.

  Lemma has_param_false n s : has_param n s = false <-> ~ In n (names s).
  Proof. unfold has_param. apply mem_str_false. Qed.

  Lemma check_meths_In ms m s : check_meths ms = Ok tt -> In (m, s) ms -> check_meth_sig s = Ok tt.
  Proof.
    induction ms as [|[m' s'] ms IH]; simpl; [tauto|].
    destruct (check_meth_sig s') as [[]|] eqn:E; simpl; [|discriminate].
    intros H [HI|HI]; [inversion HI; subst; auto|auto].
  Qed.

  Lemma go_build_In kids m c :
    (fix go (l : list (str * comp)) : res unit :=
       match l with [] => Ok tt | (_, c') :: l' => bind (build_check c') (fun _ => go l') end) kids = Ok tt ->
    In (m, c) kids -> build_check c = Ok tt.
  Proof.
    induction kids as [|[k c'] kids IH]; simpl; [tauto|].
    destruct (build_check c') as [[]|] eqn:E; simpl; [|discriminate].
    intros H [HI|HI]; [inversion HI; subst; auto|auto].
  Qed.

  Lemma go_guard_In kids m c :
    (fix go (l : list (str * comp)) : bool :=
       match l with [] => true | (_, c') :: l' => guardA_comp c' && go l' end) kids = true ->
    In (m, c) kids -> guardA_comp c = true.
  Proof.
    induction kids as [|[k c'] kids IH]; simpl; [tauto|].
    intros H [HI|HI]; apply andb_true_iff in H; destruct H; [inversion HI; subst; auto|auto].
  Qed.

  Lemma go_guard2_In kids m c :
    (fix go (l : list (str * comp)) : bool :=
       match l with [] => true | (_, c') :: l' => guardB_comp c' && go l' end) kids = true ->
    In (m, c) kids -> guardB_comp c = true.
  Proof.
    induction kids as [|[k c'] kids IH]; simpl; [tauto|].
    intros H [HI|HI]; apply andb_true_iff in H; destruct H; [inversion HI; subst; auto|auto].
  Qed.

  (* the three shapes, unfolded once and for all *)
  Lemma comp_wf_fn n s : comp_wf (CFn n s) -> check_fn_sig s = Ok tt /\ sig_guard3 s = true.
  Proof. intros [HB HG2]. simpl in *. auto. Qed.

  Lemma comp_wf_cls n i ms : comp_wf (CCls n i ms) ->
    meth_names_ok i ms = true /\ (ms <> [] -> has_param s_subcommand i = false) /\ check_fn_sig i = Ok tt /\
    sig_guard3 i = true /\
    (forall m s, In (m, s) ms -> check_meth_sig s = Ok tt /\ sig_guard3 s = true).
  Proof.
    intros [HB HG2]. simpl in *.
    destruct (meth_names_ok i ms) eqn:E1; [|discriminate]. simpl in HB.
    destruct (has_param s_subcommand i && nonempty ms) eqn:E2; [discriminate|].
    destruct (check_fn_sig i) as [[]|] eqn:E3; [|discriminate]. simpl in HB.
    apply andb_true_iff in HG2. destruct HG2 as [HG2 HG3].
    repeat split; auto.
    - intro HN. destruct ms; [congruence|]. simpl in E2. rewrite andb_true_r in E2. exact E2.
    - eapply check_meths_In; eauto.
    - rewrite forallb_forall in HG3. apply (HG3 _ H).
  Qed.

  Lemma comp_wf_grp kids : comp_wf (CGrp kids) ->
    kid_names_ok kids = true /\ mem_str s_subcommand (map fst kids) = false /\
    (forall m c, In (m, c) kids -> comp_wf c).
  Proof.
    intros [HB HG2]. simpl in *.
    destruct (kid_names_ok kids) eqn:E1; [|discriminate]. simpl in HB.
    destruct (mem_str s_subcommand (map fst kids)) eqn:E2; [discriminate|].
    repeat split; auto.
    - eapply go_build_In; eauto.
    - eapply go_guard2_In; eauto.
  Qed.

  Lemma lv_wf_nodup lv : lv_wf lv -> NoDup (names (level_sig lv)).
  Proof.
    destruct lv as [[n s|n i ms|kids|]|s]; simpl.
    - intro H. apply comp_wf_fn in H. destruct H as [H _]. apply check_fn_sig_ok in H. tauto.
    - intro H. apply comp_wf_cls in H. destruct H as [_ [_ [H _]]]. apply check_fn_sig_ok in H. tauto.
    - intros _. constructor.
    - tauto.
    - intros [H _]. apply check_meth_sig_ok; auto.
  Qed.

  Lemma lv_wf_noconfig top lv :
    lv_wf lv -> level_has_config false as_pos top lv = true -> ~ In s_config (names (level_sig lv)).
  Proof.
    destruct lv as [[n s|n i ms|kids|]|s]; simpl.
    - intros H _. apply comp_wf_fn in H. destruct H as [H _]. apply check_fn_sig_ok in H. tauto.
    - intros H _. apply comp_wf_cls in H. destruct H as [_ [_ [H _]]]. apply check_fn_sig_ok in H. tauto.
    - intros _ _ [].
    - tauto.
    - intros _ H. apply andb_true_iff in H. destruct H as [H _]. apply negb_true_iff in H.
      apply has_param_false; auto.
  Qed.

  Lemma lv_wf_guard2 lv : lv_wf lv -> sig_guard3 (level_sig lv) = true.
  Proof.
    destruct lv as [[n s|n i ms|kids|]|s]; simpl.
    - intro H. apply comp_wf_fn in H. tauto.
    - intro H. apply comp_wf_cls in H. tauto.
    - reflexivity.
    - tauto.
    - tauto.
  Qed.

  Lemma assoc_map_snd {A B} (f : A -> B) k (l : list (str * A)) :
    assoc k (map (fun x => (fst x, f (snd x))) l) = option_map f (assoc k l).
  Proof. induction l as [|[k' a] l IH]; simpl; auto. destruct (str_eqb k k'); auto. Qed.

  Lemma assoc_kid_levels m kids lv' :
    assoc m (kid_levels kids) = Some lv' ->
    m <> s__help /\ exists c, lv' = LComp c /\ assoc m kids = Some c.
  Proof.
    unfold kid_levels. induction kids as [|[k c] kids IH]; simpl; [discriminate|].
    destruct (str_eqb k s__help) eqn:E; simpl.
    - intro H. destruct (IH H) as [H1 [c' [H2 H3]]]. split; auto. exists c'. split; auto.
      apply str_eqb_spec in E. subst k. rewrite str_eqb_false; auto.
    - destruct (str_eqb m k) eqn:E2.
      + intro H. inversion H; subst. apply str_eqb_spec in E2. subst. split.
        * intro X. subst. rewrite str_eqb_refl in E. discriminate.
        * eauto.
      + auto.
  Qed.

  Lemma assoc_kid_levels_rev m kids c :
    m <> s__help -> assoc m kids = Some c -> assoc m (kid_levels kids) = Some (LComp c).
  Proof.
    unfold kid_levels. intro Hm. induction kids as [|[k c'] kids IH]; simpl; [discriminate|].
    destruct (str_eqb m k) eqn:E2.
    - intro H. inversion H; subst. apply str_eqb_spec in E2. subst k.
      rewrite str_eqb_false by auto. simpl. rewrite str_eqb_refl. reflexivity.
    - intro H. destruct (str_eqb k s__help); simpl; [|rewrite E2]; auto.
  Qed.

  Lemma kid_names_ok_help kids m c :
    kid_names_ok kids = true -> In (m, c) kids -> m <> s__help -> c <> CHelp.
  Proof.
    unfold kid_names_ok. intros H HI Hm. apply andb_true_iff in H. destruct H as [_ H].
    rewrite forallb_forall in H. specialize (H _ HI). simpl in H.
    apply andb_true_iff in H. destruct H as [_ H]. rewrite str_eqb_false in H by auto.
    intro X. subst c. discriminate.
  Qed.

  Lemma kid_names_ok_noconfig kids m c :
    kid_names_ok kids = true -> In (m, c) kids -> m <> s_config.
  Proof.
    unfold kid_names_ok. intros H HI. apply andb_true_iff in H. destruct H as [_ H].
    rewrite forallb_forall in H. specialize (H _ HI). simpl in H.
    apply andb_true_iff in H. destruct H as [H _]. apply andb_true_iff in H. destruct H as [_ H].
    intro X. subst m. rewrite str_eqb_refl in H. discriminate.
  Qed.

  Lemma lv_wf_comp c : c <> CHelp -> comp_wf c -> lv_wf (LComp c).
  Proof. destruct c; simpl; auto; congruence. Qed.

  (* descending one level keeps well-formedness and agrees with the spec's view of subcommands *)
  Lemma lv_wf_sub lv cn0 m0 subs m lv' :
    lv_wf lv -> level_subs lv = Some subs -> assoc m subs = Some lv' ->
    lv_wf lv' /\
    exists cn', sl_sub (slv_of lv cn0 m0) m = Some (slv_of lv' cn' m).
  Proof.
    destruct lv as [[n s|n i ms|kids|]|s]; simpl; try discriminate; try tauto.
    - (* class *)
      intros HW HS HA. apply comp_wf_cls in HW. destruct HW as [_ [_ [_ [_ HW]]]].
      destruct ms as [|ms0 ms']; [discriminate|]. inversion HS; subst subs. clear HS.
      change ((fst ms0, LMeth (snd ms0)) :: map (fun ms : str * sig => (fst ms, LMeth (snd ms))) ms')
        with (map (fun ms : str * sig => (fst ms, LMeth (snd ms))) (ms0 :: ms')) in HA.
      rewrite (assoc_map_snd LMeth) in HA.
      destruct (assoc m (ms0 :: ms')) as [s|] eqn:E; [|discriminate]. simpl in HA. inversion HA; subst lv'.
      pose proof (assoc_In _ _ _ E) as EI.
      split.
      + simpl. apply (HW _ _ EI).
      + exists n. reflexivity.
    - (* group *)
      intros HW HS HA. apply comp_wf_grp in HW. destruct HW as [EK [_ HW]].
      inversion HS; subst subs. clear HS.
      destruct (assoc_kid_levels _ _ _ HA) as [Hm [c [Hc HA']]]. subst lv'.
      pose proof (assoc_In _ _ _ HA') as HI.
      pose proof (kid_names_ok_help _ _ _ EK HI Hm) as Hc.
      split.
      + apply lv_wf_comp; auto. eapply HW; eauto.
      + exists cn0. rewrite str_eqb_false by auto. rewrite HA'. destruct c; simpl; congruence.
  Qed.

  (* ... and the other way round: what is not a subcommand for the code is none for the spec *)
  Lemma sl_sub_none lv cn0 m0 m :
    lv_wf lv ->
    match level_subs lv with Some subs => assoc m subs = None | None => True end ->
    sl_sub (slv_of lv cn0 m0) m = None.
  Proof.
    destruct lv as [[n s|n i ms|kids|]|s]; simpl; try tauto.
    - intros _. destruct ms as [|ms0 ms']; [reflexivity|].
      change ((fst ms0, LMeth (snd ms0)) :: map (fun ms : str * sig => (fst ms, LMeth (snd ms))) ms')
        with (map (fun ms : str * sig => (fst ms, LMeth (snd ms))) (ms0 :: ms')).
      rewrite (assoc_map_snd LMeth). destruct (assoc m (ms0 :: ms')); simpl; [discriminate|reflexivity].
    - intros HW HA. apply comp_wf_grp in HW. destruct HW as [EK _].
      destruct (str_eqb m s__help) eqn:E; [reflexivity|].
      destruct (assoc m kids) as [c|] eqn:E2; [|reflexivity].
      assert (Hm : m <> s__help) by (intro X; subst; rewrite str_eqb_refl in E; discriminate).
      rewrite (assoc_kid_levels_rev _ _ _ Hm E2) in HA. discriminate.
  Qed.

  Lemma sub_names_assoc lv k :
    mem_str k (sub_names lv) = match level_subs lv with
                               | Some subs => match assoc k subs with Some _ => true | None => false end
                               | None => false
                               end.
  Proof. unfold sub_names. destruct (level_subs lv); [apply assoc_mem|reflexivity]. Qed.

  (* a subcommand is never called like a parameter of its own level *)
  Lemma sub_not_param lv k :
    lv_wf lv -> mem_str k (sub_names lv) = true -> ~ In k (names (level_sig lv)).
  Proof.
    destruct lv as [[n s|n i ms|kids|]|s]; simpl; try discriminate; try tauto.
    - intros HW HK. apply comp_wf_cls in HW. destruct HW as [HM _].
      unfold meth_names_ok in HM. apply andb_true_iff in HM. destruct HM as [_ HM].
      rewrite forallb_forall in HM.
      assert (In k (map fst ms)).
      { unfold sub_names in HK. simpl in HK. destruct ms as [|ms0 ms']; [discriminate|].
        apply mem_str_In in HK. rewrite map_map in HK. exact HK. }
      specialize (HM _ H). repeat (apply andb_true_iff in HM; destruct HM as [HM ?]).
      apply negb_true_iff in H2. apply has_param_false. exact H2.
  Qed.

  (* ---- the level's --config option ------------------------------------------------------------- *)
  Lemma nonempty_args s : sig_guard3 s = true -> nonempty (args_of_sig false as_pos s) = offers s.
  Proof.
    intro HG. rewrite args_of_sig_spec by auto. clear HG. unfold offers. induction s as [|p s IH]; simpl; auto.
    destruct (sp_offered p); simpl; auto.
  Qed.

  Lemma has_config_eq top lv cn mn :
    lv_wf lv -> level_has_config false as_pos top lv = sl_has_config top (slv_of lv cn mn).
  Proof.
    destruct lv as [[n s|n i ms|kids|]|s]; simpl; try tauto; intro HW.
    - apply comp_wf_fn in HW. rewrite nonempty_args by tauto. reflexivity.
    - apply comp_wf_cls in HW. destruct HW as [_ [_ [_ [HG HM]]]]. rewrite nonempty_args by auto. f_equal.
      induction ms as [|[m0 s0] ms IH]; simpl; auto.
      rewrite nonempty_args by (apply (HM m0 s0); left; auto). rewrite IH; auto.
      intros m s HI. apply (HM m s). right. exact HI.
    - rewrite nonempty_args by tauto. reflexivity.
  Qed.

  (* ---- the simulation invariant: the namespace of a level is the fold of the assignments seen --- *)
  Definition inv (top : bool) (lv : level) (st : lstate) (asg : list (str * raw)) : Prop :=
    ls_ns st = cfg_entry (level_has_config false as_pos top lv) ++ ns_args (level_args false as_pos lv) asg /\
    asg_valid (level_args false as_pos lv) asg.

  Lemma find_arg_level lv k : lv_wf lv ->
    find_arg k (level_args false as_pos lv) =
    match sp_find k (level_sig lv) with
    | Some p => if sp_offered p then Some (mk_arg as_pos p) else None
    | None => None
    end.
  Proof. intro HW. apply find_arg_spec; [apply lv_wf_guard2|apply lv_wf_nodup]; exact HW. Qed.

  Lemma inv_set top lv st asg k r p v :
    lv_wf lv -> inv top lv st asg ->
    sp_find k (level_sig lv) = Some p -> sp_offered p = true -> conv (sp_ty p) r = Some v ->
    inv top lv (with_ns st (ns_set k v (ls_ns st))) (asg ++ [(k, r)]).
  Proof.
    intros HW [Hns Hval] EF EO EC.
    assert (HFA : find_arg k (level_args false as_pos lv) = Some (mk_arg as_pos p))
      by (rewrite find_arg_level, EF, EO; auto).
    split.
    - simpl. rewrite Hns. eapply ns_set_entry; eauto.
      + apply dests_of_sig. apply lv_wf_nodup. exact HW.
      + intros Hhc X. subst k. apply (lv_wf_noconfig top lv HW Hhc).
        destruct (sp_find_name _ _ _ EF) as [HN HI]. rewrite <- HN. apply in_map. exact HI.
    - eapply asg_valid_snoc; eauto.
  Qed.

  Lemma sp_find_some_in k s p : sp_find k s = Some p -> In k (names s).
  Proof. intro H. destruct (sp_find_name _ _ _ H) as [HN HI]. rewrite <- HN. apply in_map. exact HI. Qed.

  Lemma apply_doc_sim lv cn mn top d : lv_wf lv -> forall st asg, inv top lv st asg ->
    match apply_doc conv (level_args false as_pos lv) (sub_names lv) d st with
    | Ok st' => exists asg', sp_doc conv as_pos (slv_of lv cn mn) d asg (ls_pend st) = Some (asg', ls_pend st') /\
                             inv top lv st' asg' /\ ls_npos st' = ls_npos st
    | Err EParse => sp_doc conv as_pos (slv_of lv cn mn) d asg (ls_pend st) = None
    | Err EUnmodelled => True
    | Err _ => False
    end.
  Proof.
    intro HW. induction d as [|[k nd] d IH]; intros st asg HI.
    - simpl. exists asg. auto.
    - cbn [apply_doc sp_doc]. rewrite (find_arg_level lv k HW). rewrite sl_sig_of.
      destruct (sp_find k (level_sig lv)) as [p|] eqn:EF.
      + destruct (sp_offered p) eqn:EO.
        * destruct nd as [r|kids].
          -- cbn [a_ty mk_arg]. unfold sp_assignable. rewrite EF, EO. cbn [andb negb].
             destruct (conv (sp_ty p) r) as [v|] eqn:EC; [|reflexivity].
             apply (IH (with_ns st (ns_set k v (ls_ns st))) (asg ++ [(k, r)])).
             eapply inv_set; eauto.
          -- reflexivity.
        * assert (EM : mem_str k (sub_names lv) = false).
          { destruct (mem_str k (sub_names lv)) eqn:EM; auto. exfalso.
            apply (sub_not_param lv k HW EM). eapply sp_find_some_in; eauto. }
          rewrite EM.
          assert (HS : match nd with
                       | CLeaf r => if sp_assignable conv as_pos (level_sig lv) false k r
                                    then sp_doc conv as_pos (slv_of lv cn mn) d (asg ++ [(k, r)]) (ls_pend st) else None
                       | CSec kids => None (A:=list (str * raw) * list (str * doc))
                       end = None).
          { destruct nd; auto. unfold sp_assignable. rewrite EF, EO. reflexivity. }
          destruct ((nonempty (sub_names lv) && str_eqb k s_subcommand) || str_eqb k s_config); auto.
      + destruct (mem_str k (sub_names lv)) eqn:EM.
        * destruct nd as [r|kids]; [exact I|].
          rewrite sub_names_assoc in EM. destruct (level_subs lv) as [subs|] eqn:ES; [|discriminate].
          destruct (assoc k subs) as [lv'|] eqn:EA; [|discriminate].
          destruct (lv_wf_sub lv cn mn subs k lv' HW ES EA) as [_ [cn' HSub]]. rewrite HSub.
          apply (IH (with_pend st (ls_pend st ++ [(k, kids)])) asg). exact HI.
        * assert (HS : sl_sub (slv_of lv cn mn) k = None).
          { apply sl_sub_none; auto. rewrite sub_names_assoc in EM.
            destruct (level_subs lv); auto. destruct (assoc k l); [discriminate|auto]. }
          rewrite HS.
          assert (HS2 : match nd with
                       | CLeaf r => if sp_assignable conv as_pos (level_sig lv) false k r
                                    then sp_doc conv as_pos (slv_of lv cn mn) d (asg ++ [(k, r)]) (ls_pend st) else None
                       | CSec kids => None (A:=list (str * raw) * list (str * doc))
                       end = None).
          { destruct nd; auto. unfold sp_assignable. rewrite EF. reflexivity. }
          destruct ((nonempty (sub_names lv) && str_eqb k s_subcommand) || str_eqb k s_config); auto.
  Qed.

  Lemma apply_docs_sim lv cn mn top ds : lv_wf lv -> forall st asg, inv top lv st asg ->
    match apply_docs conv (level_args false as_pos lv) (sub_names lv) ds st with
    | Ok st' => exists asg', sp_docs conv as_pos (slv_of lv cn mn) ds asg (ls_pend st) = Some (asg', ls_pend st') /\
                             inv top lv st' asg' /\ ls_npos st' = ls_npos st
    | Err EParse => sp_docs conv as_pos (slv_of lv cn mn) ds asg (ls_pend st) = None
    | Err EUnmodelled => True
    | Err _ => False
    end.
  Proof.
    intro HW. induction ds as [|d ds IH]; intros st asg HI.
    - simpl. exists asg. auto.
    - cbn [apply_docs sp_docs]. pose proof (apply_doc_sim lv cn mn top d HW st asg HI) as HD.
      destruct (apply_doc conv (level_args false as_pos lv) (sub_names lv) d st) as [st1|e]; cbn [bind].
      + destruct HD as [asg1 [HD1 [HD2 HD3]]]. rewrite HD1.
        pose proof (IH st1 asg1 HD2) as H2. rewrite HD3 in H2. exact H2.
      + destruct e; auto. rewrite HD. reflexivity.
  Qed.

  Lemma init_state_sim lv cn mn top ds : lv_wf lv ->
    match init_state conv false as_pos top lv ds with
    | Ok st' => exists asg', sp_docs conv as_pos (slv_of lv cn mn) ds [] [] = Some (asg', ls_pend st') /\
                             inv top lv st' asg' /\ ls_npos st' = 0
    | Err EParse => sp_docs conv as_pos (slv_of lv cn mn) ds [] [] = None
    | Err EUnmodelled => True
    | Err _ => False
    end.
  Proof.
    intro HW. unfold init_state.
    apply (apply_docs_sim lv cn mn top ds HW
             {| ls_ns := (if level_has_config false as_pos top lv then [(s_config, VNone)] else [])
                         ++ map (fun a => (a_dest a, a_def a)) (level_args false as_pos lv);
                ls_npos := 0; ls_pend := [] |} []).
    split.
    - reflexivity.
    - intros k r [].
  Qed.

  (* ---- values: the namespace entry of a parameter is the spec's value -------------------------- *)
  Lemma assoc_ns_args k args asg :
    assoc k (ns_args args asg) = option_map (arg_value asg) (find_arg k args).
  Proof.
    unfold ns_args. induction args as [|a args IH]; simpl; auto.
    destruct (str_eqb k (a_dest a)); auto.
  Qed.

  Lemma assoc_app {A} k (l1 l2 : list (str * A)) :
    assoc k (l1 ++ l2) = match assoc k l1 with Some x => Some x | None => assoc k l2 end.
  Proof. induction l1 as [|[k' a] l1 IH]; simpl; auto. destruct (str_eqb k k'); auto. Qed.

  Lemma assoc_entry hcb k (l : ns) : (hcb = true -> k <> s_config) -> assoc k (cfg_entry hcb ++ l) = assoc k l.
  Proof. intro H. destruct hcb; simpl; auto. rewrite str_eqb_false; auto. Qed.

  Lemma valid_conv s asg p :
    sig_guard3 s = true -> NoDup (names s) -> In p s -> sp_offered p = true -> asg_valid (args_of_sig false as_pos s) asg ->
    forall r, last_asg (p_name p) asg = Some r -> exists v, conv (sp_ty p) r = Some v.
  Proof.
    intros HG ND HI HO HV r HL. apply last_asg_In in HL. destruct (HV _ _ HL) as [a [v [HF HC]]].
    rewrite find_arg_spec, (sp_find_In s p ND HI), HO in HF by auto. inversion HF; subst a. eauto.
  Qed.

  Lemma value_match asg p :
    sp_offered p = true ->
    (forall r, last_asg (p_name p) asg = Some r -> exists v, conv (sp_ty p) r = Some v) ->
    match sp_value conv asg p with
    | Some v => arg_value asg (mk_arg as_pos p) = v
    | None => arg_value asg (mk_arg as_pos p) = VNone /\ sp_required p = true
    end.
  Proof.
    intros HO HC. unfold sp_value, arg_value. rewrite HO. cbn [a_dest a_ty a_def mk_arg].
    destruct (last_asg (p_name p) asg) as [r|].
    - destruct (HC r eq_refl) as [v Hv]. rewrite Hv. reflexivity.
    - unfold sp_required. destruct (sp_default p); auto.
  Qed.

  Lemma assoc_param s asg p :
    sig_guard3 s = true -> NoDup (names s) -> In p s ->
    assoc (p_name p) (ns_args (args_of_sig false as_pos s) asg) =
    if sp_offered p then Some (arg_value asg (mk_arg as_pos p)) else None.
  Proof.
    intros HG ND HI. rewrite assoc_ns_args, find_arg_spec, (sp_find_In s p ND HI) by auto.
    destruct (sp_offered p); reflexivity.
  Qed.

  Lemma not_offered_not_required p : sp_offered p = false -> sp_required p = false.
  Proof.
    unfold sp_offered, sp_required, sp_default. intro H. apply orb_false_iff in H. destruct H as [_ H].
    destruct (p_default p); [reflexivity|discriminate].
  Qed.

  Lemma forallb_ext_in {A} (f g : A -> bool) l : (forall x, In x l -> f x = g x) -> forallb f l = forallb g l.
  Proof.
    induction l as [|x l IH]; simpl; auto. intro H. rewrite H by auto. rewrite IH; auto.
  Qed.

  Lemma forallb_map_filter {A B} (f : B -> bool) (g : A -> B) (h : A -> bool) l :
    forallb f (map g (filter h l)) = forallb (fun x => negb (h x) || f (g x)) l.
  Proof.
    induction l as [|x l IH]; simpl; auto. destruct (h x); simpl; rewrite IH; auto.
  Qed.

  Lemma check_required_spec s asg hcb :
    sig_guard3 s = true -> NoDup (names s) -> (hcb = true -> ~ In s_config (names s)) ->
    asg_valid (args_of_sig false as_pos s) asg ->
    check_required (args_of_sig false as_pos s) (cfg_entry hcb ++ ns_args (args_of_sig false as_pos s) asg) =
    sp_complete conv s asg.
  Proof.
    intros HG ND NC HV. unfold check_required, sp_complete.
    rewrite (args_of_sig_spec as_pos s HG) at 1. rewrite forallb_map_filter.
    apply forallb_ext_in. intros p HI. cbn [a_req a_dest mk_arg].
    destruct (sp_offered p) eqn:HO.
    - cbn [negb orb]. rewrite assoc_entry by (intros Hh X; apply (NC Hh); rewrite <- X; apply in_map; exact HI).
      rewrite (assoc_param s asg p HG ND HI), HO.
      pose proof (value_match asg p HO (valid_conv s asg p HG ND HI HO HV)) as HM.
      destruct (sp_value conv asg p) as [v|].
      + rewrite HM. reflexivity.
      + destruct HM as [HM _]. rewrite HM. reflexivity.
    - rewrite (not_offered_not_required p HO). reflexivity.
  Qed.

  Lemma bind_params_spec s0 asg :
    NoDup (names s0) -> sig_guard3 s0 = true -> asg_valid (args_of_sig false as_pos s0) asg ->
    sp_complete conv s0 asg = true ->
    forall s, (forall p, In p s -> In p s0) ->
    exists b, sp_bind conv s asg = Some b /\ bind_params s (ns_args (args_of_sig false as_pos s0) asg) = Ok b.
  Proof.
    intros ND HG HV HC. induction s as [|p s IH]; intro HS.
    - exists []. auto.
    - destruct IH as [b [Hb1 Hb2]]; [intros; apply HS; right; auto|].
      assert (HI : In p s0) by (apply HS; left; auto).
      cbn [sp_bind bind_params]. rewrite Hb1, Hb2. rewrite (assoc_param s0 asg p HG ND HI).
      unfold sp_complete in HC. rewrite forallb_forall in HC. specialize (HC _ HI).
      destruct (sp_offered p) eqn:HO.
      + pose proof (value_match asg p HO (valid_conv s0 asg p HG ND HI HO HV)) as HM.
        destruct (sp_value conv asg p) as [v|].
        * rewrite HM. exists ((p_name p, v) :: b). auto.
        * destruct HM as [_ HM]. rewrite HM in HC. discriminate.
      + assert (HD : sp_value conv asg p = sp_default p) by (unfold sp_value; rewrite HO; reflexivity).
        rewrite HD.
        assert (HP : p_default p = sp_default p /\ exists v, sp_default p = Some v).
        { unfold sp_offered in HO. apply orb_false_iff in HO. destruct HO as [_ HP].
          unfold sp_default. destruct (p_default p) as [v|]; [split; eauto|discriminate]. }
        destruct HP as [HP1 [v HP2]]. rewrite HP1, HP2. exists ((p_name p, v) :: b). auto.
  Qed.

  Lemma keys_ns_args args asg : map fst (ns_args args asg) = map a_dest args.
  Proof. unfold ns_args. rewrite map_map. reflexivity. Qed.

  Lemma call_sim s asg :
    NoDup (names s) -> sig_guard3 s = true -> asg_valid (args_of_sig false as_pos s) asg ->
    sp_complete conv s asg = true ->
    exists b, sp_finish conv s asg = Some b /\ py_call s (ns_args (args_of_sig false as_pos s) asg) = Ok b.
  Proof.
    intros ND HG HV HC. destruct (bind_params_spec s asg ND HG HV HC s) as [b [H1 H2]]; auto.
    exists b. unfold sp_finish, py_call. rewrite HC. split; auto.
    assert (HE : existsb (fun kv : str * value => negb (has_param (fst kv) s))
                         (ns_args (args_of_sig false as_pos s) asg) = false).
    { destruct (existsb _ _) eqn:E; auto. apply existsb_exists in E. destruct E as [[k v] [HI HN]].
      apply negb_true_iff in HN. apply has_param_false in HN. exfalso. apply HN. simpl.
      assert (In k (map fst (ns_args (args_of_sig false as_pos s) asg))) by (change k with (fst (k, v)); apply in_map; auto).
      rewrite keys_ns_args in H. apply in_map_iff in H. destruct H as [a [Ha1 Ha2]]. subst k.
      eapply dests_subset; eauto. }
    rewrite HE. rewrite (posonly_given_false s _ HG). exact H2.
  Qed.

  (* ---- what parse returns: one frame per level, each the fold of that level's assignments ------- *)
  Definition mkf (top : bool) (lv : level) (asg : list (str * raw)) (sub : option str) : frame :=
    {| fr_ns := cfg_entry (level_has_config false as_pos top lv) ++ ns_args (level_args false as_pos lv) asg; fr_sub := sub |}.

  Inductive chain : bool -> level -> str -> str -> list frame -> list call -> retv -> Prop :=
  | ch_fn top n s cn mn asg b :
      py_call s (ns_args (args_of_sig false as_pos s) asg) = Ok b ->
      chain top (LComp (CFn n s)) cn mn [mkf top (LComp (CFn n s)) asg None] [([n], b)] (RetCall 0)
  | ch_cls0 top n i cn mn asg b :
      py_call i (ns_args (args_of_sig false as_pos i) asg) = Ok b ->
      chain top (LComp (CCls n i [])) cn mn [mkf top (LComp (CCls n i [])) asg None] [([n; s__init__], b)] RetInstance
  | ch_meth top s cn mn asg b :
      py_call s (ns_args (args_of_sig false as_pos s) asg) = Ok b ->
      chain top (LMeth s) cn mn [mkf top (LMeth s) asg None] [([cn; mn], b)] (RetCall 0)
  | ch_cls top n i ms cn mn asg b m s fs log ret :
      py_call i (ns_args (args_of_sig false as_pos i) asg) = Ok b ->
      assoc m ms = Some s ->
      chain false (LMeth s) n m fs log ret ->
      chain top (LComp (CCls n i ms)) cn mn (mkf top (LComp (CCls n i ms)) asg (Some m) :: fs)
            (([n; s__init__], b) :: log) (shift ret)
  | ch_grp top kids cn mn cn' m c fs log ret :
      m <> s__help -> assoc m kids = Some c ->
      chain false (LComp c) cn' m fs log ret ->
      chain top (LComp (CGrp kids)) cn mn ({| fr_ns := [(s_config, VNone)]; fr_sub := Some m |} :: fs) log ret.

  Lemma find_arg_notin_dests k args : ~ In k (map a_dest args) -> find_arg k args = None.
  Proof.
    induction args as [|a args IH]; simpl; auto. intro H.
    rewrite str_eqb_false by (intro X; apply H; auto). apply IH. tauto.
  Qed.

  Lemma find_arg_filter f k args :
    NoDup (map a_dest args) ->
    find_arg k (filter f args) =
    match find_arg k args with Some a => if f a then Some a else None | None => None end.
  Proof.
    induction args as [|a args IH]; simpl; auto. intro ND. inversion ND as [|? ? Hn ND']; subst.
    destruct (str_eqb k (a_dest a)) eqn:E.
    - destruct (f a) eqn:Ef; simpl.
      + rewrite E. reflexivity.
      + apply find_arg_notin_dests. apply str_eqb_spec in E. subst k. intro HI. apply Hn.
        apply in_map_iff in HI. destruct HI as [x [Hx1 Hx2]]. apply filter_In in Hx2. destruct Hx2.
        rewrite <- Hx1. apply in_map. auto.
    - destruct (f a); simpl; [rewrite E|]; apply IH; auto.
  Qed.

  Lemma level_subs_shape lv subs : level_subs lv = Some subs ->
    (exists n i m0 ms, lv = LComp (CCls n i (m0 :: ms))) \/ (exists kids, lv = LComp (CGrp kids)).
  Proof.
    destruct lv as [[n s|n i ms|kids|]|s]; simpl; try discriminate.
    - destruct ms; [discriminate|]. intros _. left. eauto 6.
    - intros _. right. eauto.
  Qed.

  Lemma inv_frame top lv st asg sub :
    inv top lv st asg -> {| fr_ns := ls_ns st; fr_sub := sub |} = mkf top lv asg sub.
  Proof. intros [H _]. unfold mkf. rewrite H. reflexivity. Qed.

  Lemma check_required_level top lv st asg :
    lv_wf lv -> inv top lv st asg ->
    check_required (level_args false as_pos lv) (ls_ns st) = sp_complete conv (level_sig lv) asg.
  Proof.
    intros HW [H1 H2]. rewrite H1. apply check_required_spec; auto.
    - apply lv_wf_guard2; auto.
    - apply lv_wf_nodup; auto.
    - apply lv_wf_noconfig; auto.
  Qed.

  Lemma call_level lv asg :
    lv_wf lv -> asg_valid (level_args false as_pos lv) asg -> sp_complete conv (level_sig lv) asg = true ->
    exists b, sp_finish conv (level_sig lv) asg = Some b /\
              py_call (level_sig lv) (ns_args (args_of_sig false as_pos (level_sig lv)) asg) = Ok b.
  Proof.
    intros HW HV HC. apply call_sim; auto.
    - apply lv_wf_nodup; auto.
    - apply lv_wf_guard2; auto.
  Qed.

  Lemma sp_finish_none s asg : sp_complete conv s asg = false -> sp_finish conv s asg = None.
  Proof. intro H. unfold sp_finish. rewrite H. reflexivity. Qed.

  Lemma parse_sim toks : forall top lv cn mn st asg acc,
    lv_wf lv -> inv top lv st asg ->
    match parse conv false as_pos top lv st toks acc with
    | Ok fs => exists fs' log ret,
                 fs = rev acc ++ fs' /\
                 sp_walk conv as_pos top (slv_of lv cn mn) asg (ls_npos st) (ls_pend st) toks = Some (log, ret) /\
                 chain top lv cn mn fs' log ret
    | Err EParse => sp_walk conv as_pos top (slv_of lv cn mn) asg (ls_npos st) (ls_pend st) toks = None
    | Err EUnmodelled => True
    | Err _ => False
    end.
  Proof.
    induction toks as [|t toks IH]; intros top lv cn mn st asg acc HW HI.
    - (* end of the line *)
      cbn [parse]. destruct (level_subs lv) as [subs|] eqn:ES.
      + destruct (level_subs_shape _ _ ES) as [[n [i [m0 [ms E]]]]|[kids E]]; subst lv;
          (destruct (ls_pend st); [reflexivity|exact I]).
      + rewrite (check_required_level top lv st asg HW HI).
        destruct (sp_complete conv (level_sig lv) asg) eqn:EC.
        * destruct HI as [HI1 HI2]. destruct (call_level lv asg HW HI2 EC) as [b [Hb1 Hb2]].
          pose proof (inv_frame top lv st asg None (conj HI1 HI2)) as HF.
          destruct lv as [[n s|n i ms|kids|]|s]; simpl in ES; try discriminate; try (simpl in HW; tauto).
          -- exists [mkf top (LComp (CFn n s)) asg None], [([n], b)], (RetCall 0).
             split; [simpl; rewrite HF; reflexivity|]. split.
             ++ simpl in *. rewrite Hb1. reflexivity.
             ++ constructor. exact Hb2.
          -- destruct ms; [|discriminate].
             exists [mkf top (LComp (CCls n i [])) asg None], [([n; s__init__], b)], RetInstance.
             split; [simpl; rewrite HF; reflexivity|]. split.
             ++ simpl in *. rewrite Hb1. reflexivity.
             ++ constructor. exact Hb2.
          -- exists [mkf top (LMeth s) asg None], [([cn; mn], b)], (RetCall 0).
             split; [simpl; rewrite HF; reflexivity|]. split.
             ++ simpl in *. rewrite Hb1. reflexivity.
             ++ constructor. exact Hb2.
        * apply sp_finish_none in EC.
          destruct lv as [[n s|n i ms|kids|]|s]; simpl in ES; try discriminate; try (simpl in HW; tauto).
          -- simpl in *. rewrite EC. reflexivity.
          -- destruct ms; [|discriminate]. simpl in *. rewrite EC. reflexivity.
          -- simpl in *. rewrite EC. reflexivity.
    - destruct t as [n r|r|d].
      + (* --n=r *)
        cbn [parse sp_walk]. rewrite find_arg_filter by (apply dests_of_sig; apply lv_wf_nodup; auto).
        rewrite (find_arg_level lv n HW). rewrite sl_sig_of. unfold sp_assignable.
        destruct (sp_find n (level_sig lv)) as [p|] eqn:EF; [|reflexivity].
        destruct (sp_offered p) eqn:EO; [|reflexivity].
        cbn [a_pos a_ty mk_arg andb]. unfold sp_positional.
        destruct (sp_required p && as_pos); cbn [negb andb a_ty mk_arg]; [reflexivity|].
        destruct (conv (sp_ty p) r) as [v|] eqn:EC; [|reflexivity].
        apply (IH top lv cn mn (with_ns st (ns_set n v (ls_ns st))) (asg ++ [(n, r)]) acc HW).
        eapply inv_set; eauto.
      + (* a bare word *)
        cbn [parse sp_walk]. unfold level_args at 1. rewrite filter_pos_spec by (apply lv_wf_guard2; auto). rewrite nth_error_map, sl_sig_of.
        change (fun p : param => sp_offered p && sp_positional as_pos p)
          with (fun p : param => sp_offered p && (sp_required p && as_pos)).
        destruct (nth_error (filter (fun p : param => sp_offered p && (sp_required p && as_pos)) (level_sig lv)) (ls_npos st))
          as [p|] eqn:EN; cbn [option_map].
        * cbn [a_ty a_dest mk_arg].
          destruct (conv (sp_ty p) r) as [v|] eqn:EC; [|reflexivity].
          apply nth_error_In in EN. apply filter_In in EN. destruct EN as [EN1 EN2].
          apply andb_true_iff in EN2. destruct EN2 as [EO _].
          apply (IH top lv cn mn (next_pos (with_ns st (ns_set (p_name p) v (ls_ns st)))) (asg ++ [(p_name p, r)]) acc HW).
          destruct (inv_set top lv st asg (p_name p) r p v HW HI) as [X1 X2]; auto.
          { apply sp_find_In; auto. apply lv_wf_nodup; auto. }
          split; auto.
        * destruct r as [z|m|b| |l|dx dy];
            try (destruct (level_subs lv); reflexivity).
          destruct (level_subs lv) as [subs|] eqn:ES.
          2:{ rewrite (sl_sub_none lv cn mn m HW); [reflexivity|rewrite ES; exact I]. }
          destruct (assoc m subs) as [lv'|] eqn:EA.
          2:{ rewrite (sl_sub_none lv cn mn m HW); [reflexivity|rewrite ES; exact EA]. }
          destruct (lv_wf_sub lv cn mn subs m lv' HW ES EA) as [HW' [cn' HSub]]. rewrite HSub.
          destruct (other_pending m st); [exact I|].
          rewrite (check_required_level top lv st asg HW HI).
          change (pending_for m st) with (secs_for m (ls_pend st)).
          pose proof (init_state_sim lv' cn' m false (secs_for m (ls_pend st)) HW') as HIS.
          destruct (sp_complete conv (level_sig lv) asg) eqn:EC.
          -- destruct (init_state conv false as_pos false lv' (secs_for m (ls_pend st))) as [st'|e].
             2:{ destruct e; auto. rewrite HIS. reflexivity. }
             destruct HIS as [asg' [HS1 [HS2 HS3]]]. rewrite HS1.
             pose proof (IH false lv' cn' m st' asg' ({| fr_ns := ls_ns st; fr_sub := Some m |} :: acc) HW' HS2) as HP.
             rewrite HS3 in HP.
             destruct HI as [HI1 HI2]. destruct (call_level lv asg HW HI2 EC) as [b [Hb1 Hb2]].
             pose proof (inv_frame top lv st asg (Some m) (conj HI1 HI2)) as HF.
             destruct (level_subs_shape _ _ ES) as [[n [i [m0 [ms E]]]]|[kids E]]; subst lv.
             ++ (* class: the constructor, then the method *)
                simpl in ES. inversion ES; subst subs. clear ES.
                change ((fst m0, LMeth (snd m0)) :: map (fun ms : str * sig => (fst ms, LMeth (snd ms))) ms)
                  with (map (fun ms : str * sig => (fst ms, LMeth (snd ms))) (m0 :: ms)) in EA.
                rewrite (assoc_map_snd LMeth) in EA.
                destruct (assoc m (m0 :: ms)) as [s|] eqn:EM; [|discriminate]. simpl in EA. inversion EA; subst lv'. clear EA.
                cbn [slv_of sl_sub] in HSub. rewrite EM in HSub. cbn [slv_of] in HSub. inversion HSub; subst cn'. clear HSub.
                cbn [slv_of level_sig] in *. rewrite Hb1.
                destruct (parse conv false as_pos false (LMeth s) st' toks _) as [fs|e].
                ** destruct HP as [fs' [log [ret [HP1 [HP2 HP3]]]]]. rewrite HP2.
                   exists (mkf top (LComp (CCls n i (m0 :: ms))) asg (Some m) :: fs'), (([n; s__init__], b) :: log), (shift ret).
                   split; [rewrite HP1; simpl; rewrite <- app_assoc; rewrite HF; reflexivity|].
                   split; [reflexivity|]. econstructor; eauto.
                ** destruct e; auto. rewrite HP. reflexivity.
             ++ (* group: nothing to call at this level *)
                simpl in ES. inversion ES; subst subs. clear ES.
                destruct (assoc_kid_levels _ _ _ EA) as [Hm [c [Hc HA']]]. subst lv'.
                cbn [slv_of] in *.
                destruct (parse conv false as_pos false (LComp c) st' toks _) as [fs|e].
                ** destruct HP as [fs' [log [ret [HP1 [HP2 HP3]]]]]. rewrite HP2.
                   exists ({| fr_ns := [(s_config, VNone)]; fr_sub := Some m |} :: fs'), log, ret.
                   split.
                   { rewrite HP1. simpl. rewrite <- app_assoc. rewrite HI1. reflexivity. }
                   split; [reflexivity|]. econstructor; eauto.
                ** destruct e; auto.
          -- (* a required constructor parameter is missing *)
             destruct (level_subs_shape _ _ ES) as [[n [i [m0 [ms E]]]]|[kids E]]; subst lv.
             ++ cbn [slv_of level_sig] in *. rewrite (sp_finish_none _ _ EC).
                destruct (sp_docs conv as_pos (slv_of lv' cn' m) (secs_for m (ls_pend st)) [] []) as [[? ?]|]; reflexivity.
             ++ simpl in EC. discriminate.
      + (* --config=d *)
        cbn [parse sp_walk]. rewrite <- (has_config_eq top lv cn mn HW).
        destruct (level_has_config false as_pos top lv) eqn:EH.
        * pose proof (apply_doc_sim lv cn mn top d HW st asg HI) as HD.
          destruct (apply_doc conv (level_args false as_pos lv) (sub_names lv) d st) as [st'|e].
          -- destruct HD as [asg' [HD1 [HD2 HD3]]]. rewrite HD1.
             pose proof (IH top lv cn mn st' asg' acc HW HD2) as HP. rewrite HD3 in HP. exact HP.
          -- destruct e; auto. rewrite HD. reflexivity.
        * destruct lv as [[n s|n i ms|kids|]|s]; try reflexivity.
          destruct (has_param s_config s); [exact I|reflexivity].
  Qed.

  (* ---- from the frames to the calls: nest, the dispatch loop, _run_component -------------------- *)
  Notation cvmap l := (map (fun kv : str * value => (fst kv, CV (snd kv))) l).

  Lemma remove_key_app {A} k (a b : list (str * A)) : remove_key k (a ++ b) = remove_key k a ++ remove_key k b.
  Proof. induction a as [|[k' x] a IH]; simpl; auto. destruct (str_eqb k k'); simpl; rewrite IH; auto. Qed.

  Lemma remove_key_notin {A} k (l : list (str * A)) : ~ In k (map fst l) -> remove_key k l = l.
  Proof.
    induction l as [|[k' x] l IH]; simpl; auto. intro H.
    rewrite str_eqb_false by (intro X; apply H; auto). rewrite IH; auto.
  Qed.

  Lemma keys_cvmap (l : ns) : map fst (cvmap l) = map fst l.
  Proof. rewrite map_map. reflexivity. Qed.

  Lemma kwargs_cvmap (l : ns) : kwargs_of (cvmap l) = Ok l.
  Proof. induction l as [|[k v] l IH]; simpl; auto. rewrite IH. reflexivity. Qed.

  Lemma keys_sub s asg k : In k (map fst (ns_args (args_of_sig false as_pos s) asg)) -> In k (names s).
  Proof.
    rewrite keys_ns_args. intro H. apply in_map_iff in H. destruct H as [a [H1 H2]]. subst k.
    eapply dests_subset; eauto.
  Qed.

  Lemma remove_config_entry hcb s asg :
    ~ In s_config (names s) ->
    remove_key s_config (cvmap (cfg_entry hcb ++ ns_args (args_of_sig false as_pos s) asg)) =
    cvmap (ns_args (args_of_sig false as_pos s) asg).
  Proof.
    intro H. rewrite map_app, remove_key_app.
    rewrite (remove_key_notin s_config (cvmap (ns_args (args_of_sig false as_pos s) asg)))
      by (rewrite keys_cvmap; intro X; apply H; eapply keys_sub; eauto).
    destruct hcb; reflexivity.
  Qed.

  Lemma assoc_cv_none s asg k :
    ~ In k (names s) -> assoc k (cvmap (ns_args (args_of_sig false as_pos s) asg)) = None.
  Proof. intro H. apply assoc_None. rewrite keys_cvmap. intro X. apply H. eapply keys_sub; eauto. Qed.

  Lemma remove_cv_notin s asg k :
    ~ In k (names s) ->
    remove_key k (cvmap (ns_args (args_of_sig false as_pos s) asg)) = cvmap (ns_args (args_of_sig false as_pos s) asg).
  Proof. intro H. apply remove_key_notin. rewrite keys_cvmap. intro X. apply H. eapply keys_sub; eauto. Qed.

  Lemma neq_sub_cfg : s_subcommand <> s_config.
  Proof. discriminate. Qed.

  Lemma run_fn n s top asg b :
    comp_wf (CFn n s) -> py_call s (ns_args (args_of_sig false as_pos s) asg) = Ok b ->
    run_component false (CFn n s) (nest [mkf top (LComp (CFn n s)) asg None]) = Ok ([([n], b)], RetCall 0).
  Proof.
    intros HW HC. apply comp_wf_fn in HW. destruct HW as [H1 _].
    apply check_fn_sig_ok in H1. destruct H1 as [_ [H1 _]].
    unfold nest, mkf. unfold level_args; cbn [fr_ns fr_sub level_sig]. rewrite app_nil_r.
    unfold run_component. rewrite remove_config_entry by auto.
    rewrite kwargs_cvmap. cbn [bind]. rewrite HC. reflexivity.
  Qed.

  Lemma assoc_cvmap k (l : ns) : assoc k (cvmap l) = option_map CV (assoc k l).
  Proof. induction l as [|[k' v] l IH]; simpl; auto. destruct (str_eqb k k'); auto. Qed.

  Lemma run_cls0 n i top asg b :
    comp_wf (CCls n i []) -> py_call i (ns_args (args_of_sig false as_pos i) asg) = Ok b ->
    run_component false (CCls n i []) (nest [mkf top (LComp (CCls n i [])) asg None]) = Ok ([([n; s__init__], b)], RetInstance).
  Proof.
    intros HW HC. apply comp_wf_cls in HW. destruct HW as [_ [_ [H1 _]]].
    apply check_fn_sig_ok in H1. destruct H1 as [_ [H1 _]].
    unfold nest, mkf. unfold level_args; cbn [fr_ns fr_sub level_sig]. rewrite app_nil_r.
    unfold run_component. rewrite remove_config_entry by auto. rewrite assoc_cvmap.
    destruct (assoc s_subcommand (ns_args (args_of_sig false as_pos i) asg)) as [v|] eqn:EA; cbn [option_map].
    - rewrite kwargs_cvmap. cbn [bind]. rewrite HC. reflexivity.
    - rewrite remove_key_notin by (rewrite keys_cvmap; apply assoc_None; exact EA).
      rewrite kwargs_cvmap. cbn [bind]. rewrite HC. reflexivity.
  Qed.

  Lemma meth_ok_facts i ms m s :
    meth_names_ok i ms = true -> assoc m ms = Some s ->
    ~ In m (names i) /\ m <> s_config /\ m <> s_subcommand.
  Proof.
    unfold meth_names_ok. intros HM HA. apply andb_true_iff in HM. destruct HM as [_ HM].
    rewrite forallb_forall in HM.
    assert (HI : In m (map fst ms)) by (apply assoc_In in HA; change m with (fst (m, s)); apply in_map; auto).
    specialize (HM _ HI). repeat (apply andb_true_iff in HM; destruct HM as [HM ?]).
    apply negb_true_iff in H, H0, H1. apply has_param_false in H1.
    repeat split; auto; intro X; subst m; rewrite str_eqb_refl in *; discriminate.
  Qed.

  Lemma run_cls n i ms top asg b m s fs log ret :
    comp_wf (CCls n i ms) -> py_call i (ns_args (args_of_sig false as_pos i) asg) = Ok b ->
    assoc m ms = Some s -> chain false (LMeth s) n m fs log ret ->
    run_component false (CCls n i ms) (nest (mkf top (LComp (CCls n i ms)) asg (Some m) :: fs)) =
    Ok (([n; s__init__], b) :: log, shift ret).
  Proof.
    intros HW HC HA HCh. apply comp_wf_cls in HW. destruct HW as [HM [H2 [H1 [_ HMs]]]].
    assert (HNE : ms <> []) by (intro X; subst ms; discriminate). specialize (H2 HNE).
    apply check_fn_sig_ok in H1. destruct H1 as [_ [H1 _]]. apply has_param_false in H2.
    destruct (meth_ok_facts _ _ _ _ HM HA) as [F1 [F2 F3]].
    inversion HCh; subst. clear HCh.
    unfold nest, mkf. unfold level_args; cbn [fr_ns fr_sub level_sig]. rewrite app_nil_r.
    unfold run_component.
    rewrite remove_key_app, remove_config_entry by auto.
    cbn [remove_key]. rewrite (str_eqb_false s_config s_subcommand) by discriminate.
    rewrite (str_eqb_false s_config m) by auto.
    rewrite assoc_app, assoc_cv_none by auto. cbn [assoc]. rewrite str_eqb_refl.
    rewrite remove_key_app, remove_cv_notin by auto. cbn [remove_key]. rewrite str_eqb_refl.
    rewrite (str_eqb_false s_subcommand m) by auto.
    destruct ms as [|ms0 ms']; [discriminate|]. rewrite HA.
    rewrite assoc_app, assoc_cv_none by auto. cbn [assoc]. rewrite str_eqb_refl. cbn [bind].
    rewrite remove_key_app, remove_cv_notin by auto. cbn [remove_key]. rewrite str_eqb_refl.
    rewrite app_nil_r, kwargs_cvmap. cbn [bind]. rewrite HC. cbn [bind orb].
    assert (HX : (if negb (has_param s_config s)
                  then remove_key s_config
                         (cvmap (cfg_entry (level_has_config false as_pos false (LMeth s)) ++
                                 ns_args (args_of_sig false as_pos s) asg0))
                  else cvmap (cfg_entry (level_has_config false as_pos false (LMeth s)) ++
                              ns_args (args_of_sig false as_pos s) asg0)) =
                 cvmap (ns_args (args_of_sig false as_pos s) asg0)).
    { destruct (has_param s_config s) eqn:EH; cbn [negb].
      - cbn [level_has_config]. rewrite EH. reflexivity.
      - apply remove_config_entry. apply has_param_false. exact EH. }
    rewrite HX. rewrite kwargs_cvmap. cbn [bind].
    match goal with H : py_call s _ = Ok _ |- _ => rewrite H end. reflexivity.
  Qed.

  Lemma cfg_get_snoc path : path <> [] -> forall init n m,
    cfg_get path init = Some (CN n) -> cfg_get (path ++ [m]) init = assoc m n.
  Proof.
    induction path as [|k path IH]; [congruence|]. intros _ init n m. destruct path as [|k' path'].
    - simpl. intro H. rewrite H. reflexivity.
    - intro H. simpl app. cbn [cfg_get] in *.
      destruct (assoc k init) as [[v|n']|]; try discriminate. apply IH; [discriminate|exact H].
  Qed.

  Lemma comps_get_snoc_grp path : path <> [] -> forall kids kids' m,
    comps_get path kids = Some (CGrp kids') -> comps_get (path ++ [m]) kids = assoc m kids'.
  Proof.
    induction path as [|k path IH]; [congruence|]. intros _ kids kids' m. destruct path as [|k' path'].
    - simpl. intro H. rewrite H. reflexivity.
    - intro H. simpl app. cbn [comps_get] in *.
      destruct (assoc k kids) as [[| |kk|]|]; try discriminate. apply IH; [discriminate|exact H].
  Qed.

  Lemma comps_get_snoc_leaf path : path <> [] -> forall kids c m,
    comps_get path kids = Some c -> is_leaf c = true -> comps_get (path ++ [m]) kids = None.
  Proof.
    induction path as [|k path IH]; [congruence|]. intros _ kids c m. destruct path as [|k' path'].
    - simpl. intros H HL. rewrite H. destruct c; try discriminate; reflexivity.
    - intros H HL. simpl app. cbn [comps_get] in *.
      destruct (assoc k kids) as [[| |kk|]|]; try discriminate. eapply IH; eauto. discriminate.
  Qed.

  Lemma dispatch_sim kids0 init : forall top lv cn mn fs log ret,
    chain top lv cn mn fs log ret ->
    forall c, lv = LComp c -> comp_wf c ->
    forall path fuel, path <> [] -> comps_get path kids0 = Some c ->
      cfg_get path init = Some (CN (nest fs)) -> length fs < fuel ->
      exists path' c' sub,
        dispatch_loop fuel kids0 init path = Ok path' /\ comps_get path' kids0 = Some c' /\
        cfg_get path' init = Some (CN sub) /\ run_component false c' sub = Ok (log, ret).
  Proof.
    induction 1; intros c0 Hlv HW path fuel HP HCg HCf HFu; inversion Hlv; subst c0; clear Hlv;
      (destruct fuel as [|fuel]; [inversion HFu|]).
    - (* a function: whatever its own `subcommand` parameter holds, nothing lies below a function *)
      exists path, (CFn n s), (nest [mkf top (LComp (CFn n s)) asg None]).
      split; [|split; [auto|split; [auto|apply run_fn; auto]]].
      cbn [dispatch_loop]. rewrite HCf.
      destruct (assoc s_subcommand (nest [mkf top (LComp (CFn n s)) asg None])) as [[[z|m|b0| |l|dx dy]|x]|]; try reflexivity.
      rewrite (comps_get_snoc_leaf path HP kids0 (CFn n s) m); auto.
    - (* a class without methods: like a function *)
      exists path, (CCls n i []), (nest [mkf top (LComp (CCls n i [])) asg None]).
      split; [|split; [auto|split; [auto|apply run_cls0; auto]]].
      cbn [dispatch_loop]. rewrite HCf.
      destruct (assoc s_subcommand (nest [mkf top (LComp (CCls n i [])) asg None])) as [[[z|m|b0| |l|dx dy]|x]|]; try reflexivity.
      rewrite (comps_get_snoc_leaf path HP kids0 (CCls n i []) m); auto.
    - (* a class and one of its methods *)
      exists path, (CCls n i ms), (nest (mkf top (LComp (CCls n i ms)) asg (Some m) :: fs)).
      split; [|split; [auto|split; [auto|eapply run_cls; eauto]]].
      cbn [dispatch_loop]. rewrite HCf.
      assert (HN : assoc s_subcommand (nest (mkf top (LComp (CCls n i ms)) asg (Some m) :: fs)) = Some (CV (VStr m))).
      { apply comp_wf_cls in HW. destruct HW as [_ [H2 _]].
        assert (HNE : ms <> []) by (intro X; subst ms; discriminate). specialize (H2 HNE). apply has_param_false in H2.
        unfold mkf, level_args; cbn [nest fr_ns fr_sub level_sig]. rewrite map_app, !assoc_app.
        rewrite (assoc_cv_none i asg s_subcommand H2). cbn [assoc]. rewrite str_eqb_refl.
        destruct (level_has_config false as_pos top (LComp (CCls n i ms))); reflexivity. }
      rewrite HN. rewrite (comps_get_snoc_leaf path HP kids0 (CCls n i ms) m); auto.
    - (* a group: one step down *)
      apply comp_wf_grp in HW. destruct HW as [EK [ES HWk]].
      pose proof (assoc_In _ _ _ H0) as HIn.
      assert (Hmc : m <> s_config) by (eapply kid_names_ok_noconfig; eauto).
      assert (Hms : m <> s_subcommand).
      { intro X. subst m. apply mem_str_false in ES. apply ES. change s_subcommand with (fst (s_subcommand, c)). apply in_map. auto. }
      destruct (IHchain c eq_refl (HWk _ _ HIn) (path ++ [m]) fuel) as [path' [c' [sub [D1 [D2 [D3 D4]]]]]].
      + destruct path; discriminate.
      + rewrite (comps_get_snoc_grp path HP kids0 kids m HCg). exact H0.
      + rewrite (cfg_get_snoc path HP init _ m HCf). cbn [nest fr_ns fr_sub map app assoc fst snd].
        rewrite (str_eqb_false m s_config) by auto. rewrite (str_eqb_false m s_subcommand) by auto.
        rewrite str_eqb_refl. reflexivity.
      + simpl in HFu. lia.
      + exists path', c', sub. split; auto.
        cbn [dispatch_loop]. rewrite HCf. cbn [nest fr_ns fr_sub map app assoc fst snd].
        rewrite (str_eqb_false s_subcommand s_config) by discriminate. rewrite str_eqb_refl.
        rewrite (comps_get_snoc_grp path HP kids0 kids m HCg), H0. exact D1.
  Qed.

  (* ---- what auto_cli refuses to build ----------------------------------------------------------- *)
  Lemma clash_named l s : clash l s = named l s.
  Proof. unfold clash, named, names. induction s as [|p s IH]; simpl; auto. rewrite IH. reflexivity. Qed.

  Definition bc_rel (r : res unit) (refused : bool) : Prop :=
    match r with
    | Ok _ => refused = false
    | Err EBuild => refused = true
    | Err EUnmodelled => True
    | Err _ => False
    end.

  Lemma check_fn_sig_spec s : bc_rel (check_fn_sig s) (named [s_help; s_config; s_print_config] s).
  Proof.
    unfold check_fn_sig. destruct (sig_ok s); simpl; auto. rewrite clash_named.
    destruct (named _ s); simpl; auto.
  Qed.

  Lemma check_meth_sig_spec s :
    bc_rel (check_meth_sig s) (named (s_help :: (if has_param s_config s then [] else [s_print_config])) s).
  Proof.
    unfold check_meth_sig. destruct (sig_ok s); simpl; auto. rewrite clash_named.
    destruct (named _ s); simpl; auto.
  Qed.

  Lemma check_meths_spec ms :
    bc_rel (check_meths ms)
           (existsb (fun ms => named (s_help :: (if has_param s_config (snd ms) then [] else [s_print_config])) (snd ms)) ms).
  Proof.
    induction ms as [|[m s] ms IH]; simpl; auto.
    pose proof (check_meth_sig_spec s) as H. destruct (check_meth_sig s) as [[]|e]; simpl in *.
    - rewrite H. simpl. exact IH.
    - destruct e; auto. rewrite H. reflexivity.
  Qed.

  Lemma comp_ind2 (P : comp -> Prop) :
    (forall n s, P (CFn n s)) -> (forall n i ms, P (CCls n i ms)) ->
    (forall kids, Forall (fun kc => P (snd kc)) kids -> P (CGrp kids)) -> P CHelp -> forall c, P c.
  Proof.
    intros Hf Hc Hg Hh. fix IH 1. intro c. destruct c as [n s|n i ms|kids|].
    - apply Hf.
    - apply Hc.
    - apply Hg. induction kids as [|[k c] kids IHk]; constructor; [apply IH|exact IHk].
    - apply Hh.
  Qed.

  Lemma build_check_spec c : bc_rel (build_check c) (sp_refuses c).
  Proof.
    induction c as [n s|n i ms|kids HF|] using comp_ind2.
    - apply check_fn_sig_spec.
    - cbn [build_check sp_refuses].
      destruct (negb (meth_names_ok i ms) || has_param s_subcommand i && nonempty ms); [exact I|].
      pose proof (check_fn_sig_spec i) as H. destruct (check_fn_sig i) as [[]|e]; simpl in *.
      + rewrite H. simpl. apply check_meths_spec.
      + destruct e; auto. rewrite H. reflexivity.
    - cbn [build_check sp_refuses].
      destruct (negb (kid_names_ok kids)); [exact I|].
      destruct (mem_str s_subcommand (map fst kids)); [reflexivity|]. cbn [orb].
      induction kids as [|[k c] kids IHk]; [reflexivity|].
      inversion HF as [|? ? H1 H2]; subst. simpl in H1.
      destruct (build_check c) as [[]|e]; simpl in *.
      + rewrite H1. simpl. apply IHk. exact H2.
      + destruct e; auto. rewrite H1. reflexivity.
    - reflexivity.
  Qed.

  Lemma guard_grp_kids kids : guardA_comp (CGrp kids) = forallb (fun kc => guardA_comp (snd kc)) kids.
  Proof. simpl. induction kids as [|[k c] kids IH]; simpl; auto. rewrite IH. reflexivity. Qed.

  Lemma guard2_grp_kids kids : guardB_comp (CGrp kids) = forallb (fun kc => guardB_comp (snd kc)) kids.
  Proof. simpl. induction kids as [|[k c] kids IH]; simpl; auto. rewrite IH. reflexivity. Qed.

  Lemma forallb_map_c12 {A B} (f : B -> bool) (g : A -> B) l : forallb f (map g l) = forallb (fun x => f (g x)) l.
  Proof. induction l as [|x l IH]; simpl; auto. rewrite IH. reflexivity. Qed.

  Lemma normalize_spec cs :
    match normalize cs with
    | Ok c => sp_top cs = Some c /\ c <> CHelp /\
              (no_class_subcommand_param cs = true -> guardA_comp c = true) /\
              (in_guard cs = true -> guardB_comp c = true)
    | Err EBuild => sp_top cs = None
    | Err EUnmodelled => True
    | Err _ => False
    end.
  Proof.
    destruct cs as [c|l|kids]; simpl.
    - destruct (is_leaf c) eqn:E; [|exact I]. repeat split; auto. intro X; subst; discriminate.
    - destruct l as [|c1 [|c2 l]]; [reflexivity| |].
      + destruct (is_leaf c1) eqn:E; [|exact I]. repeat split; auto.
        * intro X; subst; discriminate.
        * simpl. rewrite andb_true_r. auto.
        * simpl. rewrite andb_true_r. auto.
      + match goal with |- context [if ?b then _ else _] => destruct b end; [|exact I].
        repeat split; try discriminate.
        * intro H. rewrite guard_grp_kids, forallb_map_c12. exact H.
        * intro H. rewrite guard2_grp_kids, forallb_map_c12. exact H.
    - destruct kids as [|kc kids]; [reflexivity|].
      destruct (mem_str s__help (map fst (kc :: kids))); [reflexivity|].
      repeat split; try discriminate.
      + intro H. rewrite guard_grp_kids. exact H.
      + intro H. rewrite guard2_grp_kids. exact H.
  Qed.

  (* ---- the theorem: under the two guards the code-shaped model does what the reference semantics says *)
  Theorem model_refines_spec cs toks :
    in_guard cs = true ->
    match auto_cli false conv as_pos cs toks with
    | Ok (log, ret) => spec conv as_pos cs toks = Done log ret
    | Err EParse => spec conv as_pos cs toks = Rejected
    | Err EBuild => spec conv as_pos cs toks = Refused
    | Err ECrash => False
    | Err _ => True
    end.
  Proof.
    intros G2. unfold auto_cli, spec, sp_run.
    pose proof (normalize_spec cs) as HN. destruct (normalize cs) as [c|e]; cbn [bind].
    2:{ destruct e; try contradiction; auto. rewrite HN. reflexivity. }
    destruct HN as [HT [HNH [HG1 HG2]]]. rewrite HT.
    pose proof (build_check_spec c) as HB. destruct (build_check c) as [[]|e] eqn:EB; cbn [bind]; simpl in HB.
    2:{ destruct e; try contradiction; auto. rewrite HB. reflexivity. }
    rewrite HB.
    assert (HWc : comp_wf c) by (repeat split; auto).
    assert (HW : lv_wf (LComp c)) by (apply lv_wf_comp; auto).
    assert (HS : slevel_of c = Some (slv_of (LComp c) [] [])) by (destruct c; auto; congruence).
    rewrite HS.
    unfold init_state. cbn [apply_docs bind].
    match goal with |- context [parse conv false as_pos true (LComp c) ?st0 toks []] =>
      pose proof (parse_sim toks true (LComp c) [] [] st0 [] [] HW) as HP end.
    cbn [ls_npos ls_pend] in HP.
    match type of HP with ?A -> _ => assert (HI : A) by (split; [reflexivity|intros k r []]) end.
    specialize (HP HI). clear HI.
    match goal with |- context [parse conv false as_pos true (LComp c) ?st0 toks []] =>
      destruct (parse conv false as_pos true (LComp c) st0 toks []) as [fs|e] end; cbn [bind].
    2:{ destruct e; try contradiction; auto. rewrite HP. reflexivity. }
    destruct HP as [fs' [log [ret [HP1 [HP2 HP3]]]]]. simpl in HP1. subst fs'. rewrite HP2.
    destruct c as [n s|n i ms|kids|]; [| | |congruence].
    - inversion HP3; subst. erewrite run_fn; eauto.
    - inversion HP3; subst.
      + erewrite run_cls0; eauto.
      + erewrite run_cls; eauto.
    - inversion HP3; subst.
      cbn [nest fr_ns fr_sub map app assoc fst snd].
      rewrite (str_eqb_false s_subcommand s_config) by discriminate. rewrite str_eqb_refl.
      match goal with
      | HA : assoc m kids = Some ?c', HC : chain false (LComp ?c') _ m ?fs0 log ret |- _ =>
          rename HA into HAm; rename HC into HCh
      end.
      destruct (comp_wf_grp _ HWc) as [EK [ES HWk]].
      pose proof (assoc_In _ _ _ HAm) as HIn.
      assert (Hmc : m <> s_config) by (eapply kid_names_ok_noconfig; eauto).
      assert (Hms : m <> s_subcommand).
      { intro X. subst m. apply mem_str_false in ES. apply ES.
        apply in_map_iff. eexists. split; [|exact HIn]. reflexivity. }
      edestruct (dispatch_sim kids
                   [(s_config, CV VNone); (s_subcommand, CV (VStr m)); (m, CN (nest fs0))]
                   _ _ _ _ _ _ _ HCh _ eq_refl (HWk _ _ HIn) [m] (S (S (length fs0))))
        as [path' [c'' [sub [D1 [D2 [D3 D4]]]]]].
      + discriminate.
      + simpl. exact HAm.
      + cbn [cfg_get assoc]. rewrite (str_eqb_false m s_config) by auto. rewrite (str_eqb_false m s_subcommand) by auto.
        rewrite str_eqb_refl. reflexivity.
      + lia.
      + cbn [length]. rewrite D1. cbn [bind]. rewrite D2, D3. rewrite D4. reflexivity.
  Qed.

  Corollary binds_exactly cs toks log ret :
    in_guard cs = true ->
    auto_cli false conv as_pos cs toks = Ok (log, ret) -> spec conv as_pos cs toks = Done log ret.
  Proof. intros G2 H. pose proof (model_refines_spec cs toks G2) as HR. rewrite H in HR. exact HR. Qed.

  Corollary never_crashes cs toks :
    in_guard cs = true ->
    auto_cli false conv as_pos cs toks <> Err ECrash.
  Proof. intros G2 H. pose proof (model_refines_spec cs toks G2) as HR. rewrite H in HR. exact HR. Qed.

  Corollary rejects_exactly cs toks :
    in_guard cs = true ->
    (auto_cli false conv as_pos cs toks = Err EParse -> spec conv as_pos cs toks = Rejected) /\
    (auto_cli false conv as_pos cs toks = Err EBuild -> spec conv as_pos cs toks = Refused).
  Proof.
    intros G2. pose proof (model_refines_spec cs toks G2) as HR.
    split; intro H; rewrite H in HR; exact HR.
  Qed.

  (* ---- what the reference semantics itself guarantees (so that "refines the spec" says something) *)
  (* each parameter of the callee exactly once, in signature order, nothing else ... *)
  Lemma sp_bind_names s asg b : sp_bind conv s asg = Some b -> map fst b = names s.
  Proof.
    revert b. induction s as [|p s IH]; simpl; intros b H.
    - inversion H. reflexivity.
    - destruct (sp_value conv asg p) as [v|]; [|discriminate].
      destruct (sp_bind conv s asg) as [b'|]; [|discriminate]. inversion H; subst. simpl. rewrite (IH b'); auto.
  Qed.

  (* ... bound to the last given value converted to the declared type, else to the default *)
  Lemma sp_bind_values s asg b :
    sp_bind conv s asg = Some b -> NoDup (names s) ->
    forall p, In p s -> assoc (p_name p) b = sp_value conv asg p.
  Proof.
    revert b. induction s as [|p0 s IH]; simpl; intros b H ND p HI; [tauto|].
    inversion ND as [|? ? Hn ND']; subst.
    destruct (sp_value conv asg p0) as [v|] eqn:EV; [|discriminate].
    destruct (sp_bind conv s asg) as [b'|] eqn:EB; [|discriminate]. inversion H; subst. simpl.
    destruct HI as [HI|HI].
    - subst p0. rewrite str_eqb_refl. auto.
    - rewrite str_eqb_false; [apply IH; auto|]. intro X. apply Hn. rewrite <- X. apply in_map. exact HI.
  Qed.

  Lemma sp_finish_exact s asg b :
    sp_finish conv s asg = Some b -> NoDup (names s) ->
    map fst b = names s /\
    (forall p, In p s -> assoc (p_name p) b = sp_value conv asg p) /\
    (forall p, In p s -> sp_required p = true -> exists r, last_asg (p_name p) asg = Some r).
  Proof.
    unfold sp_finish. destruct (sp_complete conv s asg) eqn:EC; [|discriminate]. intros H ND.
    split; [eapply sp_bind_names; eauto|]. split; [eapply sp_bind_values; eauto|].
    intros p HI HR. unfold sp_complete in EC. rewrite forallb_forall in EC. specialize (EC _ HI).
    rewrite HR in EC. simpl in EC. unfold sp_value in EC.
    assert (HO : sp_offered p = true) by (destruct (sp_offered p) eqn:E; auto; rewrite (not_offered_not_required p E) in HR; discriminate).
    rewrite HO in EC.
    destruct (last_asg (p_name p) asg) as [r|]; eauto.
    unfold sp_required in HR. destruct (sp_default p); discriminate.
  Qed.

  Lemma sp_value_given asg p r :
    sp_offered p = true -> last_asg (p_name p) asg = Some r -> sp_value conv asg p = conv (sp_ty p) r.
  Proof. intros HO HL. unfold sp_value. rewrite HO, HL. reflexivity. Qed.

  Lemma sp_value_default asg p :
    last_asg (p_name p) asg = None -> sp_value conv asg p = sp_default p.
  Proof. intro HL. unfold sp_value. rewrite HL. destruct (sp_offered p); reflexivity. Qed.

  Lemma given_else_default asg p :
    (forall r, sp_offered p = true -> last_asg (p_name p) asg = Some r -> sp_value conv asg p = conv (sp_ty p) r) /\
    (last_asg (p_name p) asg = None -> sp_value conv asg p = sp_default p).
  Proof. split; [intros r H1 H2; apply sp_value_given; auto | apply sp_value_default]. Qed.

  (* one call for a function or a method ... *)
  Lemma sp_walk_fn top n s toks : forall asg npos secs log ret,
    sp_walk conv as_pos top (SFn n s) asg npos secs toks = Some (log, ret) ->
    exists asg' b, sp_finish conv s asg' = Some b /\ log = [([n], b)] /\ ret = RetCall 0.
  Proof.
    induction toks as [|t toks IH]; intros asg npos secs log ret; cbn [sp_walk sl_sig sl_sub].
    - destruct (sp_finish conv s asg) as [b|] eqn:E; simpl; [|discriminate]. intro H. inversion H; subst. eauto.
    - destruct t as [k r|r|d].
      + destruct (sp_assignable conv as_pos s true k r); [apply IH|discriminate].
      + destruct (nth_error _ npos) as [p|].
        * destruct (conv (sp_ty p) r); [apply IH|discriminate].
        * destruct r; discriminate.
      + destruct (sl_has_config top (SFn n s)); [|discriminate].
        destruct (sp_doc conv as_pos (SFn n s) d asg secs) as [[asg' secs']|]; [apply IH|discriminate].
  Qed.

  Lemma sp_walk_meth top cn m s toks : forall asg npos secs log ret,
    sp_walk conv as_pos top (SMeth cn m s) asg npos secs toks = Some (log, ret) ->
    exists asg' b, sp_finish conv s asg' = Some b /\ log = [([cn; m], b)] /\ ret = RetCall 0.
  Proof.
    induction toks as [|t toks IH]; intros asg npos secs log ret; cbn [sp_walk sl_sig sl_sub].
    - destruct (sp_finish conv s asg) as [b|] eqn:E; simpl; [|discriminate]. intro H. inversion H; subst. eauto.
    - destruct t as [k r|r|d].
      + destruct (sp_assignable conv as_pos s true k r); [apply IH|discriminate].
      + destruct (nth_error _ npos) as [p|].
        * destruct (conv (sp_ty p) r); [apply IH|discriminate].
        * destruct r; discriminate.
      + destruct (sl_has_config top (SMeth cn m s)); [|discriminate].
        destruct (sp_doc conv as_pos (SMeth cn m s) d asg secs) as [[asg' secs']|]; [apply IH|discriminate].
  Qed.

  (* ... the constructor with its own parameters, then the chosen method with its own, for a class *)
  Lemma sp_walk_cls top n i ms toks : forall asg npos secs log ret,
    sp_walk conv as_pos top (SCls n i ms) asg npos secs toks = Some (log, ret) ->
    exists asg1 b1, sp_finish conv i asg1 = Some b1 /\
      ((ms = [] /\ log = [([n; s__init__], b1)] /\ ret = RetInstance) \/
       (exists m s asg2 b2, assoc m ms = Some s /\ sp_finish conv s asg2 = Some b2 /\
                            log = [([n; s__init__], b1); ([n; m], b2)] /\ ret = RetCall 1)).
  Proof.
    induction toks as [|t toks IH]; intros asg npos secs log ret; cbn [sp_walk sl_sig].
    - destruct ms; [|discriminate].
      destruct (sp_finish conv i asg) as [b|] eqn:E; simpl; [|discriminate]. intro H. inversion H; subst.
      exists asg, b. auto.
    - destruct t as [k r|r|d].
      + destruct (sp_assignable conv as_pos i true k r); [apply IH|discriminate].
      + destruct (nth_error _ npos) as [p|].
        * destruct (conv (sp_ty p) r); [apply IH|discriminate].
        * destruct r as [z|m|b| |l|dx dy]; try discriminate. cbn [sl_sub].
          destruct (assoc m ms) as [s|] eqn:EA; [|discriminate].
          destruct (sp_docs conv as_pos (SMeth n m s) (secs_for m secs) [] []) as [[asg' secs']|]; [|discriminate].
          destruct (sp_finish conv i asg) as [b1|] eqn:EF; [|discriminate].
          destruct (sp_walk conv as_pos false (SMeth n m s) asg' 0 secs' toks) as [[log' ret']|] eqn:EW; [|discriminate].
          intro H. inversion H; subst. destruct (sp_walk_meth _ _ _ _ _ _ _ _ _ _ EW) as [asg2 [b2 [H1 [H2 H3]]]]. subst.
          exists asg, b1. split; auto. right. exists m, s, asg2, b2. auto.
      + destruct (sl_has_config top (SCls n i ms)); [|discriminate].
        destruct (sp_doc conv as_pos (SCls n i ms) d asg secs) as [[asg' secs']|]; [apply IH|discriminate].
  Qed.

  (* a list / dict of components: the first bare word selects one entry, and the whole log is that entry's *)
  Lemma sp_walk_grp top kids toks : forall asg npos secs log ret,
    sp_walk conv as_pos top (SGrp kids) asg npos secs toks = Some (log, ret) ->
    exists pre m c lv' asg' secs' rest,
      toks = pre ++ KPos (RStr m) :: rest /\ (forall t, In t pre -> exists d, t = KCfg d) /\
      m <> s__help /\ assoc m kids = Some c /\ slevel_of c = Some lv' /\
      sp_walk conv as_pos false lv' asg' 0 secs' rest = Some (log, ret).
  Proof.
    induction toks as [|t toks IH]; intros asg npos secs log ret; cbn [sp_walk sl_sig]; [discriminate|].
    destruct t as [k r|r|d].
    - unfold sp_assignable. simpl. discriminate.
    - simpl filter. destruct npos; simpl nth_error; (destruct r as [z|m|b| |l|dx dy]; try discriminate); cbn [sl_sub];
        (destruct (str_eqb m s__help) eqn:E; [discriminate|]);
        (destruct (assoc m kids) as [c|] eqn:EA; [|discriminate]);
        (destruct (slevel_of c) as [lv'|] eqn:ES; [|discriminate]);
        (destruct (sp_docs conv as_pos lv' (secs_for m secs) [] []) as [[asg' secs']|]; [|discriminate]);
        intro H; exists [], m, c, lv', asg', secs', toks;
        (repeat split; auto; [intros t []| intro X; subst; rewrite str_eqb_refl in E; discriminate]).
    - destruct (sp_doc conv as_pos (SGrp kids) d asg secs) as [[asg' secs']|]; [|discriminate].
      intro H. destruct (IH _ _ _ _ _ H) as [pre [m [c [lv' [a' [s' [rest [H1 [H2 H3]]]]]]]]].
      exists (KCfg d :: pre), m, c, lv', a', s', rest. split; [rewrite H1; reflexivity|]. split; auto.
      intros t [Ht|Ht]; eauto.
  Qed.

  (* for a class given to auto_cli: constructor and method each receive exactly their own parameters *)
  Theorem class_split n i ms toks log ret :
    in_guard (One (CCls n i ms)) = true ->
    auto_cli false conv as_pos (One (CCls n i ms)) toks = Ok (log, ret) ->
    exists b1, map fst b1 = names i /\
      ((ms = [] /\ log = [([n; s__init__], b1)] /\ ret = RetInstance) \/
       (exists m s b2, assoc m ms = Some s /\ map fst b2 = names s /\
                       log = [([n; s__init__], b1); ([n; m], b2)] /\ ret = RetCall 1)).
  Proof.
    intros G2 H. pose proof (binds_exactly _ _ _ _ G2 H) as HS.
    unfold spec, sp_run in HS. cbn [sp_top slevel_of] in HS.
    destruct (sp_refuses (CCls n i ms)); [discriminate|].
    destruct (sp_walk conv as_pos true (SCls n i ms) [] 0 [] toks) as [[log' ret']|] eqn:EW; [|discriminate].
    inversion HS; subst. destruct (sp_walk_cls _ _ _ _ _ _ _ _ _ _ EW) as [asg1 [b1 [F1 F2]]].
    exists b1. split.
    - unfold sp_finish in F1. destruct (sp_complete conv i asg1); [|discriminate]. eapply sp_bind_names; eauto.
    - destruct F2 as [F2|[m [s [asg2 [b2 [A1 [A2 [A3 A4]]]]]]]]; [left; auto|].
      right. exists m, s, b2. repeat split; auto.
      unfold sp_finish in A2. destruct (sp_complete conv s asg2); [|discriminate]. eapply sp_bind_names; eauto.
  Qed.

  (* ---- the clauses of the property about required / Optional parameters, on the code-shaped table *)
  Lemma required_iff_no_default p a :
    arg_of_param false as_pos p = Some a ->
    (a_req a = true <-> (p_default p = None /\ is_optional (p_ty p) = false /\ ty_default (p_ty p) = None)) /\
    (a_pos a = true <-> (a_req a = true /\ as_pos = true)).
  Proof.
    unfold arg_of_param. destruct (p_default p) as [v|]; simpl.
    - destruct (starts_underscore (p_name p)); simpl; [discriminate|]. intro H. inversion H; subst; simpl.
      intuition congruence.
    - rewrite andb_false_r. destruct (is_optional (p_ty p)); simpl.
      + intro H. inversion H; subst; simpl. intuition congruence.
      + destruct (ty_default (p_ty p)); simpl; intro H; inversion H; subst; simpl; intuition congruence.
  Qed.

  (* since /repo 2f69862 also for a private name *)
  Lemma optional_defaults_none p :
    p_default p = None -> is_optional (p_ty p) = true ->
    arg_of_param false as_pos p =
    Some {| a_dest := p_name p; a_pos := false; a_ty := p_ty p; a_req := false; a_def := VNone |}.
  Proof.
    intros H1 H2. unfold arg_of_param. rewrite H1, H2. simpl. rewrite andb_false_r. simpl.
    destruct (p_ty p); reflexivity.
  Qed.
End Sim.

(* ---- the guard of the theorem is exactly "in neither finding class" ------------------------------ *)
Lemma forallb_andb_c12 {A} (f g : A -> bool) l : forallb (fun x => f x && g x) l = forallb f l && forallb g l.
Proof. induction l as [|x l IH]; simpl; auto. rewrite IH. btauto. Qed.

Lemma guard_by_grp_kids sg kids :
  guard_comp_by sg (CGrp kids) = forallb (fun kc => guard_comp_by sg (snd kc)) kids.
Proof. simpl. induction kids as [|[k c] kids IH]; simpl; auto. rewrite IH. reflexivity. Qed.

Lemma guardB_comp_split c :
  guardB_comp c = guard_comp_by sig_nullish_free c && guard_comp_by sig_posonly_free c.
Proof.
  induction c as [n s|n i ms|kids HF|] using comp_ind2.
  - reflexivity.
  - cbn [guardB_comp guard_comp_by]. unfold sig_guard3.
    rewrite (forallb_andb_c12 (fun ms0 : str * sig => sig_nullish_free (snd ms0)) (fun ms0 => sig_posonly_free (snd ms0)) ms).
    btauto.
  - rewrite guard2_grp_kids, !guard_by_grp_kids.
    induction kids as [|[k c] kids IHk]; [reflexivity|].
    inversion HF as [|? ? H1 H2]; subst. simpl in H1. simpl. rewrite H1, (IHk H2). btauto.
  - reflexivity.
Qed.

Lemma forallb_guardB_split {A} (g : A -> comp) l :
  forallb (fun x => guardB_comp (g x)) l =
  forallb (fun x => guard_comp_by sig_nullish_free (g x)) l && forallb (fun x => guard_comp_by sig_posonly_free (g x)) l.
Proof. induction l as [|x l IH]; simpl; auto. rewrite IH, guardB_comp_split. btauto. Qed.

Lemma in_guard_split cs : in_guard cs = no_nullish_str_default cs && no_positional_only cs.
Proof.
  destruct cs as [c|l|kids]; unfold in_guard, no_nullish_str_default, no_positional_only, guard_by.
  - apply guardB_comp_split.
  - apply (forallb_guardB_split (fun c => c)).
  - apply (forallb_guardB_split (fun kc : str * comp => snd kc)).
Qed.

(* ---- witnesses: the guards are needed (the unchanged code violates the property there), and the
        hypotheses of the theorem are satisfiable by non-trivial inputs ------------------------------ *)
Definition w_run : str := [114;117;110]%N.                 (* "run" *)
Definition w_tool : str := [84;111;111;108]%N.             (* "Tool" *)
Definition w_train : str := [116;114;97;105;110]%N.        (* "train" *)
Definition w_alpha : str := [97;108;112;104;97]%N.         (* "alpha" *)
Definition w_beta : str := [98;101;116;97]%N.              (* "beta" *)
Definition w_hid : str := [95;104;105;100]%N.              (* "_hid" *)
Definition w_sigma : str := [115;105;103;109;97]%N.        (* "sigma" *)
Definition w_p (n : str) (t : ty) (d : option value) : param :=
  {| p_name := n; p_kind := PosOrKw; p_ty := t; p_default := d |}.

(* def run(subcommand: int = 1)   with   --subcommand=5   -> the callee receives 1 *)
Lemma reserved_subcommand_refuted :
  exists cs toks,
    no_reserved_param_names cs = false /\
    auto_cli true conv_simple true cs toks = Ok ([([w_run], [(s_subcommand, VInt 1)])], RetCall 0) /\
    spec conv_simple true cs toks = Done [([w_run], [(s_subcommand, VInt 5)])] (RetCall 0).
Proof.
  exists (One (CFn w_run [w_p s_subcommand TInt (Some (VInt 1))])), [KOpt s_subcommand (RInt 5)].
  vm_compute. auto.
Qed.

(* def run(subcommand: int)   with   5   -> TypeError escapes auto_cli *)
Lemma reserved_subcommand_crash_refuted :
  exists cs toks,
    no_reserved_param_names cs = false /\
    auto_cli true conv_simple true cs toks = Err ECrash /\
    spec conv_simple true cs toks = Done [([w_run], [(s_subcommand, VInt 5)])] (RetCall 0).
Proof.
  exists (One (CFn w_run [w_p s_subcommand TInt None])), [KPos (RInt 5)].
  vm_compute. auto.
Qed.

(* class Tool: def __init__(self, alpha: int = 1); def train(self, config: int = 3)
   with   train --config=7   -> the method receives 3 *)
Lemma reserved_config_refuted :
  exists cs toks,
    no_reserved_param_names cs = false /\
    auto_cli true conv_simple true cs toks =
      Ok ([([w_tool; s__init__], [(w_alpha, VInt 1)]); ([w_tool; w_train], [(s_config, VInt 3)])], RetCall 1) /\
    spec conv_simple true cs toks =
      Done [([w_tool; s__init__], [(w_alpha, VInt 1)]); ([w_tool; w_train], [(s_config, VInt 7)])] (RetCall 1).
Proof.
  exists (One (CCls w_tool [w_p w_alpha TInt (Some (VInt 1))] [(w_train, [w_p s_config TInt (Some (VInt 3))])])),
         [KPos (RStr w_train); KOpt s_config (RInt 7)].
  vm_compute. auto.
Qed.

(* def load(_hid: Optional[int], sigma: bool)   with   true   -> TypeError (missing '_hid') escapes auto_cli *)
Lemma private_optional_refuted :
  exists cs toks,
    no_reserved_param_names cs = true /\ no_private_optional_without_default cs = false /\
    auto_cli true conv_simple true cs toks = Err ECrash /\
    spec conv_simple true cs toks = Done [([w_run], [(w_hid, VNone); (w_sigma, VBool true)])] (RetCall 0).
Proof.
  exists (One (CFn w_run [w_p w_hid (TOpt TInt) None; w_p w_sigma TBool None])), [KPos (RBool true)].
  vm_compute. auto.
Qed.

(* a non-trivial input inside both guards: a dict holding a class with a method; values given by a
   --config section of the top level, positionally, by option (twice: last wins), and left to defaults *)
Definition w_ex_comps : components :=
  Dct [(w_tool, CCls w_tool [w_p w_alpha TInt None; w_p w_beta (TOpt TStr) None]
                     [(w_train, [w_p w_alpha TInt (Some (VInt 2)); w_p w_sigma TBool None])]);
       (w_run, CFn w_run [])].
Definition w_ex_toks : list tok :=
  [KCfg [(w_tool, CSec [(w_beta, CLeaf (RStr w_sigma))])];
   KPos (RStr w_tool); KPos (RInt 9); KPos (RStr w_train); KOpt w_alpha (RInt 4); KPos (RBool true); KOpt w_alpha (RInt 5)].

Lemma guards_satisfiable :
  in_guard w_ex_comps = true /\
  auto_cli false conv_simple true w_ex_comps w_ex_toks =
    Ok ([([w_tool; s__init__], [(w_alpha, VInt 9); (w_beta, VStr w_sigma)]);
         ([w_tool; w_train], [(w_alpha, VInt 5); (w_sigma, VBool true)])], RetCall 1).
Proof. vm_compute. auto. Qed.

(* the inputs of the three round-1 witnesses, on the model of the repaired code: the property holds *)
Lemma round1_inputs_repaired :
  auto_cli false conv_simple true (One (CFn w_run [w_p s_subcommand TInt (Some (VInt 1))])) [KOpt s_subcommand (RInt 5)]
    = Ok ([([w_run], [(s_subcommand, VInt 5)])], RetCall 0) /\
  auto_cli false conv_simple true
    (One (CCls w_tool [w_p w_alpha TInt (Some (VInt 1))] [(w_train, [w_p s_config TInt (Some (VInt 3))])]))
    [KPos (RStr w_train); KOpt s_config (RInt 7)]
    = Ok ([([w_tool; s__init__], [(w_alpha, VInt 1)]); ([w_tool; w_train], [(s_config, VInt 7)])], RetCall 1) /\
  auto_cli false conv_simple true (One (CFn w_run [w_p w_hid (TOpt TInt) None; w_p w_sigma TBool None])) [KPos (RBool true)]
    = Ok ([([w_run], [(w_hid, VNone); (w_sigma, VBool true)])], RetCall 0) /\
  auto_cli false conv_simple true (One (CCls w_tool [w_p s_subcommand TInt (Some (VInt 1))] [])) [KOpt s_subcommand (RInt 5)]
    = Ok ([([w_tool; s__init__], [(s_subcommand, VInt 5)])], RetInstance).
Proof. vm_compute. auto. Qed.

(* ---- round 3: one finding repaired in /repo 4bb4764 (witness about auto_cli true), one open (the guard of the theorem) ---- *)
(* class Tool: def __init__(self, subcommand: int = 1)  (no public methods), `--subcommand=5`:
   _run_component pops "subcommand" for every class and takes 5 for a method name: TypeError escapes *)
Lemma class_subcommand_refuted :
  exists cs toks,
    no_class_subcommand_param cs = false /\
    auto_cli true conv_simple true cs toks = Err ECrash /\
    spec conv_simple true cs toks = Done [([w_tool; s__init__], [(s_subcommand, VInt 5)])] RetInstance.
Proof.
  exists (One (CCls w_tool [w_p s_subcommand TInt (Some (VInt 1))] [])), [KOpt s_subcommand (RInt 5)].
  vm_compute. auto.
Qed.

(* def run(alpha: Optional[str] = "null"), no arguments: the callee receives None, not its default "null" *)
Definition w_null : str := [110;117;108;108]%N.
Lemma nullish_default_refuted :
  exists cs toks,
    no_nullish_str_default cs = false /\
    auto_cli false conv_simple true cs toks = Ok ([([w_run], [(w_alpha, VNone)])], RetCall 0) /\
    spec conv_simple true cs toks = Done [([w_run], [(w_alpha, VStr w_null)])] (RetCall 0).
Proof.
  exists (One (CFn w_run [w_p w_alpha (TOpt TStr) (Some (VStr w_null))])), [].
  vm_compute. auto.
Qed.

(* def run(alpha: int, /), `3`: _run_component calls run( **{alpha: 3} ) -> TypeError "got some positional-only arguments
   passed as keyword arguments" escapes auto_cli; the property demands run(3) *)
Definition w_po (n : str) (t : ty) (d : option value) : param :=
  {| p_name := n; p_kind := PosOnly; p_ty := t; p_default := d |}.
Lemma positional_only_refuted :
  exists cs toks,
    no_positional_only cs = false /\ no_nullish_str_default cs = true /\
    auto_cli false conv_simple true cs toks = Err ECrash /\
    spec conv_simple true cs toks = Done [([w_run], [(w_alpha, VInt 3)])] (RetCall 0).
Proof.
  exists (One (CFn w_run [w_po w_alpha TInt None])), [KPos (RInt 3)].
  vm_compute. auto.
Qed.

(* a positional-only parameter that is left to its default (private names are not offered) does no harm *)
Lemma positional_only_default_harmless :
  auto_cli false conv_simple true (One (CFn w_run [w_po w_hid TInt (Some (VInt 4));
                                                        {| p_name := w_alpha; p_kind := KwOnly; p_ty := TInt; p_default := None |}])) [KPos (RInt 3)]
  = Ok ([([w_run], [(w_hid, VInt 4); (w_alpha, VInt 3)])], RetCall 0).
Proof. vm_compute. reflexivity. Qed.

(* C15 — the full no-chain statement of _initial_input_checks, determinism of a link (same sources => same target),
   and the repaired link_arguments (fixes/C15-link-key-prefix-overlap.patch): with the prefix checks the invariant
   needs no guard. Witnesses that the unrepaired code violates the property (…_refuted). *)
From JV Require Import Lib.Base Lib.C15Val Model.C15Links Proofs.C15Proofs Proofs.C15DumpProofs Proofs.C15ItemsProofs.

(* ------------------------------------------------------------------ no chains among the accepted links *)
(* in application order: a later link's target is no earlier target and no earlier source, and no source of a
   later link is an earlier target *)
Fixpoint chain_free (ls : list link) : Prop :=
  match ls with
  | [] => True
  | l :: ls' =>
      (forall l', In l' ls' ->
         l_tgt l' <> l_tgt l /\ ~ In (l_tgt l') (l_src l) /\ ~ In (l_tgt l) (l_src l')) /\ chain_free ls'
  end.

Lemma chain_free_snoc prev l :
  chain_free prev ->
  (forall x, In x prev -> l_tgt l <> l_tgt x /\ ~ In (l_tgt l) (l_src x) /\ ~ In (l_tgt x) (l_src l)) ->
  chain_free (prev ++ [l]).
Proof.
  induction prev as [|y prev IH]; intros H N; simpl in *.
  - split; [intros ? []|exact I].
  - destruct H as [H1 H2]. split.
    + intros l' Hin. apply in_app_or in Hin. destruct Hin as [Hin|Hin].
      * apply H1; auto.
      * destruct Hin as [<-|[]]. apply N. left; reflexivity.
    + apply IH; auto.
Qed.

Lemma init_checks_sound3 prev l :
  init_checks prev l = true ->
  forall x, In x (map al_link prev) -> ~ In (l_tgt x) (l_src l).
Proof.
  unfold init_checks. intro H.
  repeat (apply andb_true_iff in H; destruct H as [H ?]).
  rename H1 into ST.
  intros x Hx Hin. apply in_map_iff in Hx. destruct Hx as [a [<- Ha]].
  unfold chk_source_is_target in ST. rewrite forallb_forall in ST.
  specialize (ST _ Hin). apply negb_true_iff in ST.
  assert (M : mem_key (l_tgt (al_link a)) (map al_tgt prev) = true).
  { apply mem_key_In. apply in_map_iff. exists a. split; [reflexivity|exact Ha]. }
  congruence.
Qed.

Definition links_chain_free (p : parser) : Prop := chain_free (map al_link (p_links p)).

Lemma add_link_chain_free p l p' : links_chain_free p -> add_link p l = Ok p' -> links_chain_free p'.
Proof.
  intros E H. apply add_link_links in H. destruct H as [a [L [A [_ IC]]]].
  unfold links_chain_free. rewrite L. rewrite map_app. simpl. rewrite A. apply chain_free_snoc; auto.
  intros x Hx. destruct (init_checks_sound _ _ IC x Hx) as [N1 N2].
  split; [exact N1|]. split; [exact N2|]. apply (init_checks_sound3 _ _ IC x Hx).
Qed.

Theorem no_chain_build ds ls : chain_free (map al_link (p_links (fst (build ds ls)))).
Proof. unfold build. apply (add_links_inv links_chain_free add_link_chain_free). exact I. Qed.

(* ------------------------------------------------------------------ determinism: same sources => same target *)
Section WithFn.
Variable fn : nat -> list val -> option val.
Variable classes : list cls.

Definition tgt_same (a : alink) (cfg cfg2 : val) : Prop :=
  match al_kind a with
  | TgtPlain => get cfg2 (al_tgt a) = get cfg (al_tgt a) /\ get cfg (al_tgt a) <> None
  | TgtInit _ _ => forall v v2, get cfg (al_tgt a) = Some v -> get cfg2 (al_tgt a) = Some v2 -> v = v2
  end.

Lemma same_sources_same_target a cfg cfg2 args :
  holds fn a cfg -> holds fn a cfg2 ->
  mapM (get cfg) (al_src a) = Some args -> mapM (get cfg2) (al_src a) = Some args ->
  tgt_same a cfg cfg2.
Proof.
  intros H1 H2 M1 M2. destruct (H1 _ M1) as [v [C1 T1]]. destruct (H2 _ M2) as [v2 [C2 T2]].
  assert (E : v2 = v) by congruence. subst v2.
  unfold tgt_same, tgt_ok in *. destruct (al_kind a).
  - rewrite T1, T2. split; [reflexivity|discriminate].
  - intros w w2 G1 G2. destruct T1 as [T1|T1]; [congruence|]. destruct T2 as [T2|T2]; congruence.
Qed.

(* the invariant for any parser whose link list is well-formed, chain-free for equal keys and overlap-free *)
Lemma link_invariant_generic p pre cfg :
  links_good p -> overlap_free (map al_link (p_links p)) = true ->
  finish fn classes p pre = Ok cfg -> forall a, In a (p_links p) -> holds fn a cfg.
Proof.
  intros [W E] O F a Ha. unfold finish in F.
  destruct (apply_links fn pre (p_links p)) as [c|e] eqn:A; [|discriminate].
  destruct (validate classes p c); [|discriminate]. inversion F; subst c.
  apply (proj1 (apply_links_inv fn (p_links p) pre cfg W (indep_of_checks _ E O) A)). exact Ha.
Qed.

Theorem reparse_restores_target_build ds ls x x2 cfg cfg2 :
  let p := fst (build ds ls) in
  overlap_free (map al_link (p_links p)) = true ->
  parse fn classes p x = Ok cfg -> parse fn classes p x2 = Ok cfg2 ->
  forall a args, In a (p_links p) ->
    mapM (get cfg) (al_src a) = Some args -> mapM (get cfg2) (al_src a) = Some args ->
    tgt_same a cfg cfg2.
Proof.
  intros p O P1 P2 a args Ha M1 M2.
  eapply same_sources_same_target; eauto.
  - eapply link_invariant_parse; eauto.
  - eapply link_invariant_parse; eauto.
Qed.

End WithFn.

(* ------------------------------------------------------------------ repaired link_arguments *)
Lemma strictly_of_comparable a b : comparable a b = false -> strictly_comparable a b = false.
Proof. unfold strictly_comparable. intros ->. reflexivity. Qed.

Lemma overlap_free_snoc prev l :
  overlap_free prev = true ->
  forallb (fun s => negb (comparable (l_tgt l) s)) (l_src l) = true ->
  (forall x, In x prev -> comparable (l_tgt l) (l_tgt x) = false /\
                          forall s, In s (l_src x) -> comparable (l_tgt l) s = false) ->
  overlap_free (prev ++ [l]) = true.
Proof.
  induction prev as [|y prev IH]; intros O Own N.
  - simpl. rewrite Own. reflexivity.
  - simpl in O. apply andb_true_iff in O. destruct O as [O O3].
    apply andb_true_iff in O. destruct O as [O1 O2].
    simpl. rewrite O1. simpl. apply andb_true_iff. split.
    + rewrite forallb_app. rewrite O2. simpl. rewrite andb_true_r.
      destruct (N y (or_introl eq_refl)) as [N1 N2].
      rewrite (strictly_of_comparable _ _ N1). simpl.
      apply forallb_forall. intros s Hs. rewrite (strictly_of_comparable _ _ (N2 s Hs)). reflexivity.
    + apply IH; auto. intros x Hx. apply N. right. exact Hx.
Qed.

Lemma extra_checks_sound prev l :
  extra_checks prev l = true ->
  forallb (fun s => negb (comparable (l_tgt l) s)) (l_src l) = true /\
  forall x, In x (map al_link prev) -> comparable (l_tgt l) (l_tgt x) = false /\
                                       forall s, In s (l_src x) -> comparable (l_tgt l) s = false.
Proof.
  unfold extra_checks. intro H.
  apply andb_true_iff in H. destruct H as [H Own]. apply andb_true_iff in H. destruct H as [T S].
  split; [exact Own|].
  intros x Hx. apply in_map_iff in Hx. destruct Hx as [a [<- Ha]].
  rewrite forallb_forall in T. rewrite forallb_forall in S. split.
  - apply negb_true_iff. apply T. apply in_map_iff. exists a. split; [reflexivity|exact Ha].
  - intros s Hs. apply negb_true_iff. apply S. apply in_flat_map. exists a. split; [exact Ha|exact Hs].
Qed.

Definition fixed_good (p : parser) : Prop :=
  links_good p /\ overlap_free (map al_link (p_links p)) = true.

Lemma add_link_fixed_good p l p' : fixed_good p -> add_link_fixed p l = Ok p' -> fixed_good p'.
Proof.
  intros [G O] H. apply add_link_fixed_ok in H. destruct H as [H X].
  split; [eapply add_link_good; eauto|].
  apply add_link_links in H. destruct H as [a [L [A _]]].
  rewrite L. rewrite map_app. simpl. rewrite A.
  destruct (extra_checks_sound _ _ X) as [Own N]. apply overlap_free_snoc; auto.
Qed.

Lemma build_fixed_good ds ls : fixed_good (fst (build_fixed ds ls)).
Proof.
  unfold build_fixed. apply (add_links_fixed_inv fixed_good add_link_fixed_good).
  split; [split; simpl; auto|reflexivity].
Qed.

Section WithFn2.
Variable fn : nat -> list val -> option val.
Variable classes : list cls.

(* no guard: every link set the repaired link_arguments accepts keeps the invariant *)
Theorem fixed_link_invariant_finish ds ls pre cfg :
  let p := fst (build_fixed ds ls) in
  finish fn classes p pre = Ok cfg -> forall a, In a (p_links p) -> holds fn a cfg.
Proof.
  intros p F. destruct (build_fixed_good ds ls) as [G O]. eapply link_invariant_generic; eauto.
Qed.

Theorem fixed_link_invariant_parse ds ls x cfg :
  let p := fst (build_fixed ds ls) in
  parse fn classes p x = Ok cfg -> forall a, In a (p_links p) -> holds fn a cfg.
Proof.
  intros p F. unfold parse in F. destruct (collect p x) as [pre|e]; [|discriminate].
  eapply fixed_link_invariant_finish; eauto.
Qed.

Theorem fixed_link_items_finish ds ls pre cfg :
  let p := fst (build_fixed ds ls) in
  finish fn classes p pre = Ok cfg -> forall a, In a (p_links p) -> holds_items fn a cfg.
Proof.
  intros p F. destruct (build_fixed_good ds ls) as [G O]. eapply link_items_generic; eauto.
Qed.

End WithFn2.

(* the repaired link_arguments accepts exactly the links the old one accepts and that do not overlap *)
Lemma add_link_fixed_spec p l :
  add_link_fixed p l = if extra_checks (p_links p) l then add_link p l else Err EOther.
Proof. reflexivity. Qed.

(* ------------------------------------------------------------------ repaired strip_link_target_keys
   (fixes/C15-list-item-target-in-dump.patch; Model strip_fixed): the items of a dumped list of classes carry no target *)
Lemma get_pop_list k' : forall v k items, get (pop v k') k = Some (VList items) -> get v k = Some (VList items).
Proof.
  induction k' as [|s r IH]; intros v k items H; [exact H|].
  destruct v as [| | | |m]; try exact H.
  rewrite pop_cons_map in H.
  destruct k as [|t k2].
  - exfalso. destruct r; [simpl in H; discriminate|]. destruct (alookup s m); simpl in H; discriminate.
  - rewrite get_cons_map. destruct r as [|s2 r2].
    + rewrite get_cons_map in H. destruct (str_eqb s t) eqn:E.
      * apply str_eqb_spec in E. subst t. rewrite alookup_aremove_same in H. discriminate.
      * rewrite alookup_aremove_other in H by exact E. exact H.
    + destruct (alookup s m) as [c0|] eqn:A; [|exact H].
      rewrite get_cons_map in H. destruct (str_eqb s t) eqn:E.
      * apply str_eqb_spec in E. subst t. rewrite alookup_aset_same in H. rewrite A. eapply IH. exact H.
      * rewrite alookup_aset_other in H by exact E. exact H.
Qed.

Lemma del_target_key_list cfg t k items :
  get (del_target_key cfg t) k = Some (VList items) -> get cfg k = Some (VList items).
Proof.
  unfold del_target_key. intro H.
  assert (X : get (pop cfg t) k = Some (VList items)).
  { destruct t as [|a [|b t']]; try exact H.
    destruct (get (pop cfg (a :: b :: t')) (removelast (a :: b :: t'))) as [v|]; [|exact H].
    destruct (falsy v); [|exact H]. eapply get_pop_list. exact H. }
  eapply get_pop_list. exact X.
Qed.

Definition items_clean (d c : key) (cfg : val) : Prop :=
  forall items, get cfg d = Some (VList items) -> forall i, In i items -> get i c = None.

Definition clean_item (c : key) (i : val) : val := if is_map i then del_target_key i c else i.

Lemma del_target_fixed_unfold cfg a :
  del_target_fixed cfg a =
  match al_kind a with
  | TgtPlain => cfg
  | TgtInit dest child =>
      match get (del_target_key cfg (al_tgt a)) dest with
      | Some (VList items) => set (del_target_key cfg (al_tgt a)) dest (VList (map (clean_item child) items))
      | _ => del_target_key cfg (al_tgt a)
      end
  end.
Proof. reflexivity. Qed.

Lemma del_target_fixed_post cfg a d c : al_kind a = TgtInit d c -> c <> [] -> items_clean d c (del_target_fixed cfg a).
Proof.
  intros K C. rewrite del_target_fixed_unfold. rewrite K.
  set (cfg' := del_target_key cfg (al_tgt a)).
  intros items G i Hi.
  destruct (get cfg' d) as [[| | |its|]|] eqn:G0; try (rewrite G0 in G; discriminate).
  rewrite get_set_same in G. inversion G; subst items; clear G.
  apply in_map_iff in Hi. destruct Hi as [j [<- Hj]]. unfold clean_item.
  destruct j as [| | | |m]; simpl; try (destruct c; [congruence|reflexivity]).
  apply del_target_key_same. exact C.
Qed.

Lemma del_target_fixed_keeps cfg b d c : items_clean d c cfg -> items_clean d c (del_target_fixed cfg b).
Proof.
  intro P. rewrite del_target_fixed_unfold. destruct (al_kind b) as [|db cb]; [exact P|].
  set (cfg' := del_target_key cfg (al_tgt b)).
  assert (P' : items_clean d c cfg').
  { intros items G. apply P. eapply del_target_key_list. exact G. }
  destruct (get cfg' db) as [[| | |its|]|] eqn:G0; try exact P'.
  intros items G i Hi.
  destruct (set_list_cases _ _ _ _ _ G) as [[_ G1]|[r [E G1]]].
  - eapply P'; eauto.
  - destruct r as [|t r]; [|discriminate].
    rewrite app_nil_r in E. subst db. simpl in G1. inversion G1; subst items; clear G1.
    apply in_map_iff in Hi. destruct Hi as [j [<- Hj]].
    pose proof (P' its G0 j Hj) as Q. unfold clean_item.
    destruct (is_map j); [|exact Q]. apply del_target_key_none. exact Q.
Qed.

Lemma fold_del_fixed_keeps ls : forall cfg d c, items_clean d c cfg -> items_clean d c (fold_left del_target_fixed ls cfg).
Proof.
  induction ls as [|b ls IH]; intros cfg d c P; simpl; auto.
  apply IH. apply del_target_fixed_keeps. exact P.
Qed.

Lemma fold_del_fixed_in ls : forall cfg a d c,
  In a ls -> al_kind a = TgtInit d c -> c <> [] -> items_clean d c (fold_left del_target_fixed ls cfg).
Proof.
  induction ls as [|b ls IH]; intros cfg a d c Hin K C; [destruct Hin|].
  simpl. destruct Hin as [->|Hin].
  - apply fold_del_fixed_keeps. apply del_target_fixed_post; auto.
  - eapply IH; eauto.
Qed.

(* any parser (old or repaired link_arguments), any configuration *)
Theorem fixed_dump_items_clean p cfg a d c :
  Forall wf_alink (p_links p) -> In a (p_links p) -> al_kind a = TgtInit d c ->
  forall items, get (strip_fixed p cfg) d = Some (VList items) -> forall i, In i items -> get i c = None.
Proof.
  intros W Ha K. unfold strip_fixed.
  eapply fold_del_fixed_in; eauto.
  rewrite Forall_forall in W. destruct (W a Ha) as [_ X]. rewrite K in X. exact (proj2 X).
Qed.

Theorem fixed_dump_items_clean_build ds ls cfg a d c :
  let p := fst (build_fixed ds ls) in
  In a (p_links p) -> al_kind a = TgtInit d c ->
  forall items, get (strip_fixed p cfg) d = Some (VList items) -> forall i, In i items -> get i c = None.
Proof.
  intros p. apply fixed_dump_items_clean. destruct (build_fixed_good ds ls) as [[W _] _]. exact W.
Qed.

(* C07 — NESTED declarations (a dataclass-typed member = a sub-group below the group), tables.
   For EVERY group key and EVERY member list — leaves and nested sub-groups in any number and order, any types,
   defaults or none, private names, lists the signature rules rewrite — that carries no declaration-time default
   (no default= override, no default instance on a dataclass-typed member), the signature styles
   (add_class_arguments under the key / dataclass-typed argument: _add_signature_parameter recursing into
   add_class_arguments for the dataclass-typed member, _create_group_if_requested adding the sub-group's
   _ActionConfigLoad) and the inner-parser style (an ActionParser holding a nested ActionParser:
   _move_parser_actions applied twice) build ONE AND THE SAME action table.  Hence the three grouped styles answer
   every input identically on such declarations (whole-group and whole-sub-group values included).

   Technique: both compilers are rewritten as  table_of  of a list of (row, required) pairs; the pair list of the
   signature styles is the inner parser's pair list with every pair prefixed (prefb), member by member. *)
From JV Require Import Lib.Base Model.C07Decl Model.C07Parse Proofs.C07TableProofs Proofs.C07MemberProofs.

(* what _move_parser_actions does to one moved action (prefix = the key without the two dashes) *)
Definition pref (p : str) (r : row) : row :=
  {| r_dest := replace_dash p ++ [c_dot] ++ r_dest r;
     r_opts := map (add_prefix p) (r_opts r);
     r_ty := r_ty r; r_default := r_default r; r_kind := r_kind r |}.
Definition prefb (p : str) (rb : row * bool) : row * bool := (pref p (fst rb), snd rb).

(* inner.add_argument("--name", type, default | required) *)
Definition ityped (f : field) : row * bool := add_typed_argument (f_name f) (f_ty f) (f_default f).

(* the (action, required) pairs the inner parser of the inner-parser style holds for one member *)
Definition ipairs (m : member) : list (row * bool) :=
  match m with
  | MLeaf o => [ityped (eff o)]
  | MSub n sub _ => (group_load_row n, false) :: map (prefb n) (map ityped (map eff sub))
  end.

Lemma tcat_table_of a b : tcat (table_of a) (table_of b) = table_of (a ++ b).
Proof.
  unfold tcat, table_of. simpl. rewrite map_app, filter_app, map_app. reflexivity.
Qed.

Lemma inner_table_of fs : inner_table fs = table_of (map ityped fs).
Proof. reflexivity. Qed.

Lemma required_prefb p l :
  map (fun x => replace_dash p ++ [c_dot] ++ x) (map (fun rb : row * bool => r_dest (fst rb)) (filter snd l))
  = map (fun rb : row * bool => r_dest (fst rb)) (filter snd (map (prefb p) l)).
Proof.
  induction l as [|rb l IH]; [reflexivity|].
  destruct rb as [r b]. destruct b; simpl; rewrite <- IH; reflexivity.
Qed.

Lemma move_fixed_table_of p l :
  move_parser_actions_fixed (dashes ++ p) (table_of l) = table_of ((group_load_row p, false) :: map (prefb p) l).
Proof.
  apply table_ext.
  - unfold move_parser_actions_fixed, move_parser_actions. rewrite skipn_dashes. unfold table_of. simpl.
    f_equal. rewrite !map_map. apply map_ext. intros [r b]. reflexivity.
  - unfold move_parser_actions_fixed. rewrite skipn_dashes. unfold table_of at 2. simpl t_required.
    simpl filter. rewrite <- required_prefb. reflexivity.
Qed.

Lemma inner_member_pairs m : inner_member m = table_of (ipairs m).
Proof.
  destruct m as [o|n sub d]; simpl.
  - reflexivity.
  - rewrite inner_table_of. apply move_fixed_table_of.
Qed.

Lemma inner_table_m_pairs nms : inner_table_m nms = table_of (flat_map ipairs nms).
Proof.
  unfold inner_table_m. induction nms as [|m nms IH]; [reflexivity|].
  simpl. rewrite IH, inner_member_pairs. apply tcat_table_of.
Qed.

Lemma inner_parser_m_pairs gk nms :
  as_inner_parser_m (dashes ++ gk) nms = table_of ((group_load_row gk, false) :: map (prefb gk) (flat_map ipairs nms)).
Proof. unfold as_inner_parser_m. rewrite inner_table_m_pairs. apply move_fixed_table_of. Qed.

(* prefixing the action of  add_argument("--key")  gives the action of  add_argument("--p.key") *)
Lemma prefb_typed p k t d :
  prefb p (add_typed_argument k t d) = add_typed_argument (p ++ [c_dot] ++ k) t d.
Proof.
  unfold prefb, pref, add_typed_argument. simpl. f_equal. f_equal.
  - symmetry. apply replace_dash_dotted_c.
  - destruct (supports_append t); simpl; rewrite <- ?app_assoc; reflexivity.
Qed.

Lemma pref_load p n : pref p (group_load_row n) = group_load_row (p ++ [c_dot] ++ n).
Proof.
  unfold pref, group_load_row. simpl. f_equal.
  symmetry. apply replace_dash_dotted_c.
Qed.

(* ---- one member ---- *)
Lemma eff_no_over o : no_over o = true -> eff o = o_field o.
Proof. unfold no_over. intro H. apply eff_none. destruct (o_over o); [discriminate | reflexivity]. Qed.

Lemma onorm_no_over os o' : forallb no_over os = true -> In o' (onorm os) -> no_over o' = true.
Proof.
  intros H Ho'. destruct (onorm_over o' os Ho') as [o [Ho E]]. unfold no_over. rewrite E.
  exact (proj1 (forallb_forall _ _) H o Ho).
Qed.

Lemma eff_onorm os : forallb no_over os = true -> map eff (onorm os) = norm (map o_field os).
Proof.
  intro H. rewrite <- onorm_fields. apply map_ext_in. intros o' Ho'.
  apply eff_no_over. eapply onorm_no_over; eauto.
Qed.

Lemma typed_prefixed gk fs :
  map (fun f => add_typed_argument (dotted_key gk f) (f_ty f) (f_default f)) fs = map (prefb gk) (map ityped fs).
Proof.
  rewrite map_map. apply map_ext. intro f. unfold ityped. rewrite prefb_typed. reflexivity.
Qed.

Lemma member_rows_prefixed gk m :
  plain_member m = true ->
  member_rows gk m = map (prefb gk) (flat_map ipairs (mnorm [m])).
Proof.
  destruct m as [o|n sub d]; simpl; intro H.
  - (* a leaf parameter: the signature rules, then add_argument("--gk.name") *)
    rewrite !app_nil_r. unfold sig_param.
    assert (E : flat_map ipairs (map MLeaf (map (fun f => {| o_field := f; o_over := o_over o |}) (sig_norm (o_field o))))
                = map ityped (sig_norm (o_field o))).
    { induction (sig_norm (o_field o)) as [|f l IH]; [reflexivity|].
      simpl. rewrite IH. f_equal. unfold eff. simpl.
      unfold no_over in H. destruct (o_over o); [discriminate | reflexivity]. }
    rewrite E. apply typed_prefixed.
  - (* a dataclass-typed member: the sub-group's loader, then its parameters below gk.n *)
    apply andb_true_iff in H. destruct H as [H Hne]. apply andb_true_iff in H. destruct H as [Hov _].
    rewrite app_nil_r. simpl.
    assert (Hlen : Nat.eqb (length sub) 0 = false) by (destruct sub; [discriminate | reflexivity]).
    rewrite Hlen. simpl. unfold prefb at 1. simpl. rewrite pref_load. f_equal.
    rewrite (eff_onorm sub Hov), sig_params_norm.
    rewrite !map_map. apply map_ext. intro f. unfold ityped.
    rewrite !prefb_typed. unfold dotted_key. rewrite <- !app_assoc. reflexivity.
Qed.

Lemma mnorm_cons m ms : mnorm (m :: ms) = mnorm [m] ++ mnorm ms.
Proof. unfold mnorm. simpl. rewrite app_nil_r. reflexivity. Qed.

Lemma body_prefixed gk ms :
  forallb plain_member ms = true ->
  flat_map (member_rows gk) ms = map (prefb gk) (flat_map ipairs (mnorm ms)).
Proof.
  induction ms as [|m ms IH]; [reflexivity|].
  simpl forallb. intro H. apply andb_true_iff in H. destruct H as [Hm Hms].
  rewrite mnorm_cons, flat_map_app, map_app, <- (IH Hms), <- (member_rows_prefixed gk m Hm). reflexivity.
Qed.

Lemma plain_no_over ms : forallb plain_member ms = true -> ms_has_over ms = false.
Proof.
  unfold ms_has_over. induction ms as [|m ms IH]; [reflexivity|].
  simpl. intro H. apply andb_true_iff in H. destruct H as [Hm Hms]. rewrite (IH Hms), orb_false_r.
  destruct m as [o|n sub d]; simpl in Hm.
  - unfold no_over in Hm. apply negb_true_iff in Hm. exact Hm.
  - apply andb_true_iff in Hm. destruct Hm as [Hm _]. apply andb_true_iff in Hm. destruct Hm as [Hov _].
    clear - Hov. induction sub as [|o sub IH]; [reflexivity|].
    simpl in *. apply andb_true_iff in Hov. destruct Hov as [Ho Hs]. rewrite (IH Hs), orb_false_r.
    unfold no_over in Ho. apply negb_true_iff in Ho. exact Ho.
Qed.

Lemma plain_no_member_defaults k ms : forallb plain_member ms = true -> member_default_entries k (mnorm ms) = [].
Proof.
  induction ms as [|m ms IH]; [reflexivity|].
  simpl forallb. intro H. apply andb_true_iff in H. destruct H as [Hm Hms].
  rewrite mnorm_cons. unfold member_default_entries. rewrite flat_map_app.
  fold (member_default_entries k (mnorm ms)). rewrite (IH Hms), app_nil_r.
  destruct m as [o|n sub d]; simpl.
  - rewrite app_nil_r. induction (sig_norm (o_field o)); [reflexivity | simpl; assumption].
  - simpl in Hm. apply andb_true_iff in Hm. destruct Hm as [Hm _]. apply andb_true_iff in Hm. destruct Hm as [_ Hd].
    apply negb_true_iff in Hd. rewrite Hd. reflexivity.
Qed.

(* ---- the three grouped styles build ONE table for every nested declaration without declaration-time defaults ---- *)
Theorem grouped_tables_equal_nested (fixkey full : bool) (gk : str) (ms : list member) :
  starts_dash gk = false -> ms <> [] -> forallb plain_member ms = true ->
  let T := as_inner_parser_m (dashes ++ gk) (mnorm ms) in
  as_class_group_m fixkey full gk ms = Some T /\ as_dataclass_m fixkey (dashes ++ gk) ms = Some T.
Proof.
  intros Hd Hne Hp T.
  assert (Hc : forall full', as_class_group_m fixkey full' gk ms = Some T).
  { intro full'. unfold as_class_group_m.
    rewrite (plain_no_member_defaults _ ms Hp), (plain_no_over ms Hp). simpl set_defaults1. cbv iota.
    assert (Hlen : Nat.eqb (length ms) 0 = false) by (destruct ms; [contradiction Hne; reflexivity | reflexivity]).
    rewrite Hlen. simpl create_group. f_equal. unfold T. rewrite inner_parser_m_pairs.
    rewrite <- (body_prefixed gk ms Hp). reflexivity. }
  split; [apply Hc|].
  unfold as_dataclass_m. rewrite (lstrip_dash_key gk Hd). apply Hc.
Qed.

Theorem grouped_styles_agree_nested (pv jl : str -> val) (fixkey full : bool) (gk : str) (ms : list member) (inp : input) :
  starts_dash gk = false -> ms <> [] -> forallb plain_member ms = true ->
  let r := run pv jl (as_inner_parser_m (dashes ++ gk) (mnorm ms)) inp in
  (exists Tc, as_class_group_m fixkey full gk ms = Some Tc /\ run pv jl Tc inp = r)
  /\ (exists Td, as_dataclass_m fixkey (dashes ++ gk) ms = Some Td /\ run pv jl Td inp = r).
Proof.
  intros Hd Hne Hp r.
  destruct (grouped_tables_equal_nested fixkey full gk ms Hd Hne Hp) as [Hc Hdc].
  split; eexists; (split; [eassumption | reflexivity]).
Qed.

(* ---- the dotted style owns exactly the leaf actions of that table, in the same order, and the same required keys:
        for EVERY (normalised) member list, overrides and default instances included ---- *)
Definition is_leaf_pair (rb : row * bool) : bool := match r_kind (fst rb) with KLeaf => true | KGroupLoad => false end.
Definition leaf_pairs (l : list (row * bool)) : list (row * bool) := filter is_leaf_pair l.

Lemma ipairs_sub_eq n sub :
  map (prefb n) (map ityped (map eff sub)) = map ityped (map (fun o => prefixed n (eff o)) sub).
Proof.
  rewrite !map_map. apply map_ext. intro o. unfold ityped, prefixed. simpl. apply prefb_typed.
Qed.

Lemma flat_cons m ms : flat (m :: ms) = flat [m] ++ flat ms.
Proof. unfold flat. simpl. rewrite app_nil_r. reflexivity. Qed.

Lemma leaf_pairs_typed fs : leaf_pairs (map ityped fs) = map ityped fs.
Proof. unfold leaf_pairs. induction fs as [|f fs IH]; [reflexivity|]. simpl. rewrite IH. reflexivity. Qed.

Lemma leaf_pairs_ipairs m : leaf_pairs (ipairs m) = map ityped (flat [m]).
Proof.
  destruct m as [o|n sub d]; simpl.
  - reflexivity.
  - rewrite app_nil_r, ipairs_sub_eq. unfold leaf_pairs. simpl. apply leaf_pairs_typed.
Qed.

Lemma required_ipairs m : filter snd (ipairs m) = filter snd (map ityped (flat [m])).
Proof.
  destruct m as [o|n sub d]; simpl.
  - reflexivity.
  - rewrite app_nil_r, ipairs_sub_eq. reflexivity.
Qed.

Lemma leaf_pairs_flat nms : leaf_pairs (flat_map ipairs nms) = map ityped (flat nms).
Proof.
  induction nms as [|m nms IH]; [reflexivity|].
  simpl flat_map. unfold leaf_pairs. rewrite filter_app. fold (leaf_pairs (ipairs m)). fold (leaf_pairs (flat_map ipairs nms)).
  rewrite IH, leaf_pairs_ipairs, (flat_cons m nms), map_app. reflexivity.
Qed.

Lemma required_flat nms : filter snd (flat_map ipairs nms) = filter snd (map ityped (flat nms)).
Proof.
  induction nms as [|m nms IH]; [reflexivity|].
  simpl flat_map. rewrite filter_app, IH, required_ipairs, (flat_cons m nms), map_app, filter_app. reflexivity.
Qed.

Lemma leaf_pairs_prefb p l : leaf_pairs (map (prefb p) l) = map (prefb p) (leaf_pairs l).
Proof.
  unfold leaf_pairs. induction l as [|rb l IH]; [reflexivity|].
  cbn [filter map]. change (is_leaf_pair (prefb p rb)) with (is_leaf_pair rb).
  destruct (is_leaf_pair rb); cbn [map]; rewrite IH; reflexivity.
Qed.

Lemma filter_snd_prefb p l : filter snd (map (prefb p) l) = map (prefb p) (filter snd l).
Proof.
  induction l as [|rb l IH]; [reflexivity|].
  simpl. destruct (snd rb); simpl; rewrite IH; reflexivity.
Qed.

Definition leaf_rows_t (T : table) : list row :=
  filter (fun r => match r_kind r with KLeaf => true | KGroupLoad => false end) (t_rows T).

Lemma leaf_rows_table_of l : leaf_rows_t (table_of l) = map fst (leaf_pairs l).
Proof.
  unfold leaf_rows_t, table_of, leaf_pairs. simpl. induction l as [|rb l IH]; [reflexivity|].
  cbn [filter map]. change (is_leaf_pair rb) with (match r_kind (fst rb) with KLeaf => true | KGroupLoad => false end).
  destruct (r_kind (fst rb)); cbn [map]; rewrite IH; reflexivity.
Qed.

Lemma dotted_m_pairs gk nms : as_dotted_m gk nms = table_of (map (prefb gk) (map ityped (flat nms))).
Proof. unfold as_dotted_m, as_dotted. rewrite typed_prefixed. reflexivity. Qed.

Theorem dotted_leaves_of_grouped_table (gk : str) (nms : list member) :
  leaf_rows_t (as_inner_parser_m (dashes ++ gk) nms) = t_rows (as_dotted_m gk nms)
  /\ t_required (as_inner_parser_m (dashes ++ gk) nms) = t_required (as_dotted_m gk nms).
Proof.
  rewrite inner_parser_m_pairs, dotted_m_pairs. split.
  - rewrite leaf_rows_table_of. unfold leaf_pairs. simpl filter. fold (leaf_pairs (map (prefb gk) (flat_map ipairs nms))).
    rewrite leaf_pairs_prefb, leaf_pairs_flat. reflexivity.
  - unfold table_of. simpl t_required. rewrite !filter_snd_prefb, required_flat. reflexivity.
Qed.

(* ====== default instances on dataclass-typed members (mdef): the nested add_class_arguments(Sub, gk.n,
   default=Sub()) runs set_defaults over the member type's OWN defaults — it finds every action and changes none ====== *)
Lemma set_row_default_id d v rows :
  (forall r, In r rows -> is_leaf_at d r = true -> r_default r = AVal v) -> set_row_default d v rows = rows.
Proof.
  induction rows as [|r rows IH]; intro H; [reflexivity|]. simpl.
  destruct (is_leaf_at d r) eqn:E.
  - f_equal. specialize (H r (or_introl eq_refl) E). destruct r; simpl in *. unfold with_default. simpl.
    rewrite H. reflexivity.
  - f_equal. apply IH. intros x Hx. apply H. right; exact Hx.
Qed.

Lemma set_defaults1_id rows es :
  (forall e, In e es -> existsb (is_leaf_at (fst e)) rows = true
                        /\ forall r, In r rows -> is_leaf_at (fst e) r = true -> r_default r = AVal (snd e)) ->
  set_defaults1 rows es = Some rows.
Proof.
  induction es as [|e es IH]; intro H; [reflexivity|]. simpl.
  destruct (H e (or_introl eq_refl)) as [Hex Hdef]. rewrite Hex, (set_row_default_id _ _ _ Hdef).
  apply IH. intros x Hx. apply H. right; exact Hx.
Qed.

Lemma split_nodot a : forall a' b b',
  has_dot a = false -> has_dot a' = false -> a ++ c_dot :: b = a' ++ c_dot :: b' -> a = a' /\ b = b'.
Proof.
  unfold has_dot. induction a as [|c a IH]; intros [|c' a'] b b' Ha Ha' E; simpl in *.
  - injection E as ->. split; reflexivity.
  - injection E as <- _. apply orb_false_iff in Ha'. destruct Ha' as [Hc _]. discriminate.
  - injection E as -> _. apply orb_false_iff in Ha. destruct Ha as [Hc _]. discriminate.
  - injection E as -> E. apply orb_false_iff in Ha. apply orb_false_iff in Ha'.
    destruct (IH a' b b' (proj2 Ha) (proj2 Ha') E) as [-> ->]. split; reflexivity.
Qed.

Lemma nodupb_inj {A} (f : A -> str) l : nodupb (map f l) = true ->
  forall x y, In x l -> In y l -> f x = f y -> x = y.
Proof.
  induction l as [|a l IH]; simpl; intros H x y Hx Hy E; [contradiction|].
  apply andb_true_iff in H. destruct H as [Ha Hl]. apply negb_true_iff in Ha.
  assert (Hno : forall z, In z l -> f z <> f a).
  { intros z Hz Ez. assert (Hin : mem_str (f a) (map f l) = true)
      by (apply mem_str_In; rewrite <- Ez; apply in_map; exact Hz).
    rewrite Hin in Ha. discriminate. }
  destruct Hx as [<-|Hx], Hy as [<-|Hy].
  - reflexivity.
  - exfalso. apply (Hno y Hy). symmetry. exact E.
  - exfalso. apply (Hno x Hx). exact E.
  - apply IH; assumption.
Qed.

Lemma member_rows_prefixed_d gk m :
  plain_member_d m = true ->
  member_rows gk m = map (prefb gk) (flat_map ipairs (mnorm [m])).
Proof.
  destruct m as [o|n sub d]; intro H.
  - apply member_rows_prefixed. exact H.
  - simpl in H. apply andb_true_iff in H. destruct H as [Hov Hne].
    transitivity (member_rows gk (MSub n sub false)); [reflexivity|].
    transitivity (map (prefb gk) (flat_map ipairs (mnorm [MSub n sub false]))); [|reflexivity].
    apply member_rows_prefixed. simpl. rewrite Hov, Hne. reflexivity.
Qed.

Lemma body_prefixed_d gk ms :
  forallb plain_member_d ms = true ->
  flat_map (member_rows gk) ms = map (prefb gk) (flat_map ipairs (mnorm ms)).
Proof.
  induction ms as [|m ms IH]; [reflexivity|].
  simpl forallb. intro H. apply andb_true_iff in H. destruct H as [Hm Hms].
  rewrite mnorm_cons, flat_map_app, map_app, <- (IH Hms), <- (member_rows_prefixed_d gk m Hm). reflexivity.
Qed.

Lemma plain_d_no_over ms : forallb plain_member_d ms = true -> ms_has_over ms = false.
Proof.
  unfold ms_has_over. induction ms as [|m ms IH]; [reflexivity|].
  simpl. intro H. apply andb_true_iff in H. destruct H as [Hm Hms]. rewrite (IH Hms), orb_false_r.
  destruct m as [o|n sub d]; simpl in Hm.
  - unfold no_over in Hm. apply negb_true_iff in Hm. exact Hm.
  - apply andb_true_iff in Hm. destruct Hm as [Hov _].
    clear - Hov. induction sub as [|o sub IH]; [reflexivity|].
    simpl in *. apply andb_true_iff in Hov. destruct Hov as [Ho Hs]. rewrite (IH Hs), orb_false_r.
    unfold no_over in Ho. apply negb_true_iff in Ho. exact Ho.
Qed.

(* the rows the signature styles hold before any set_defaults call *)
Lemma rows0_is_inner_table gk ms :
  ms <> [] -> forallb plain_member_d ms = true ->
  create_group gk (negb (Nat.eqb (length ms) 0)) ++ map fst (flat_map (member_rows gk) ms)
  = t_rows (as_inner_parser_m (dashes ++ gk) (mnorm ms)).
Proof.
  intros Hne Hp.
  assert (Hlen : Nat.eqb (length ms) 0 = false) by (destruct ms; [contradiction Hne; reflexivity | reflexivity]).
  rewrite Hlen, inner_parser_m_pairs, (body_prefixed_d gk ms Hp). reflexivity.
Qed.

Lemma required0_is_inner_table gk ms :
  forallb plain_member_d ms = true ->
  map (fun rb : row * bool => r_dest (fst rb)) (filter snd (flat_map (member_rows gk) ms))
  = t_required (as_inner_parser_m (dashes ++ gk) (mnorm ms)).
Proof. intro Hp. rewrite inner_parser_m_pairs, (body_prefixed_d gk ms Hp). reflexivity. Qed.

(* a leaf action of the grouped table is the dotted action of one leaf of the member list *)
Lemma leaf_row_of_table gk nms d r :
  In r (t_rows (as_inner_parser_m (dashes ++ gk) nms)) -> is_leaf_at d r = true ->
  exists f, In f (flat nms) /\ r = mk gk f.
Proof.
  intros Hin Hl.
  assert (Hk : In r (leaf_rows_t (as_inner_parser_m (dashes ++ gk) nms))).
  { unfold leaf_rows_t. apply filter_In. split; [exact Hin|].
    unfold is_leaf_at in Hl. apply andb_true_iff in Hl. destruct Hl as [_ Hl]. destruct (r_kind r); [reflexivity | discriminate]. }
  rewrite (proj1 (dotted_leaves_of_grouped_table gk nms)) in Hk.
  unfold as_dotted_m in Hk. rewrite dotted_rows_mk in Hk. apply in_map_iff in Hk. destruct Hk as [f [<- Hf]].
  exists f. split; [exact Hf | reflexivity].
Qed.

Lemma mk_default gk f v : f_default f = Dflt v -> r_default (mk gk f) = AVal v.
Proof. intro H. unfold mk, add_typed_argument. simpl. rewrite H. reflexivity. Qed.

Lemma plain_name_split s : plain_name s = true -> has_dot s = false /\ has_dash s = false.
Proof. unfold plain_name. intro H. apply andb_true_iff in H. destruct H as [A B]. apply negb_true_iff in A, B. auto. Qed.

Lemma has_dot_app_n a b : has_dot (a ++ b) = has_dot a || has_dot b.
Proof. unfold has_dot. apply existsb_app. Qed.

Lemma has_dash_dotted a b : has_dash (a ++ [c_dot] ++ b) = has_dash a || has_dash b.
Proof. rewrite has_dash_app. reflexivity. Qed.

Section MemberDefaults.
Variable gk : str.
Hypothesis Hg : has_dash gk = false.
Variable nms : list member.
Hypothesis Hnames : names_ok nms = true.
Hypothesis Hnov : forall m, In m nms -> match m with MLeaf o => no_over o = true
                                                 | MSub _ sub _ => forallb no_over sub = true end.

Lemma names_ok_parts :
  forallb plain_name (member_names nms) = true /\ nodupb (member_names nms) = true
  /\ forall n sub d, In (MSub n sub d) nms ->
       forallb plain_name (map (fun o => f_name (o_field o)) sub) = true
       /\ nodupb (map (fun o => f_name (o_field o)) sub) = true.
Proof.
  unfold names_ok in Hnames. apply andb_true_iff in Hnames. destruct Hnames as [H H3].
  apply andb_true_iff in H. destruct H as [H1 H2]. split; [exact H1|]. split; [exact H2|].
  intros n sub d Hin. pose proof (proj1 (forallb_forall _ _) H3 _ Hin) as Hm. simpl in Hm.
  apply andb_true_iff in Hm. destruct Hm as [Hm _]. apply andb_true_iff in Hm. exact Hm.
Qed.

Lemma member_name_plain m : In m nms -> plain_name (match m with MLeaf o => f_name (o_field o) | MSub n _ _ => n end) = true.
Proof.
  intro Hin. destruct names_ok_parts as [H1 _].
  apply (proj1 (forallb_forall _ _) H1). unfold member_names. apply in_map_iff. exists m. split; [reflexivity | exact Hin].
Qed.

(* one entry of a member's default instance: (gk.n.f, the default of f in the member type) *)
Lemma member_default_entry_ok n sub o v :
  In (MSub n sub true) nms -> In o sub -> f_default (o_field o) = Dflt v ->
  let d := (gk ++ [c_dot] ++ n) ++ [c_dot] ++ f_name (o_field o) in
  let rows := t_rows (as_inner_parser_m (dashes ++ gk) nms) in
  existsb (is_leaf_at d) rows = true
  /\ forall r, In r rows -> is_leaf_at d r = true -> r_default r = AVal v.
Proof.
  intros Hm Ho Hv d rows.
  destruct names_ok_parts as [_ [Hnd Hsub]]. destruct (Hsub n sub true Hm) as [Hpl Hndsub].
  destruct (plain_name_split _ (member_name_plain _ Hm)) as [Hn_dot Hn_dash].
  assert (Ho_plain : plain_name (f_name (o_field o)) = true).
  { apply (proj1 (forallb_forall _ _) Hpl). apply in_map_iff. exists o. split; [reflexivity | exact Ho]. }
  destruct (plain_name_split _ Ho_plain) as [Ho_dot Ho_dash].
  assert (Eo : eff o = o_field o).
  { apply eff_no_over. pose proof (Hnov _ Hm) as H. simpl in H. exact (proj1 (forallb_forall _ _) H o Ho). }
  set (f := prefixed n (eff o)).
  assert (Hf : In f (flat nms)).
  { unfold flat. apply in_flat_map. exists (MSub n sub true). split; [exact Hm|]. apply in_map_iff. exists o. split; [reflexivity | exact Ho]. }
  assert (Hkey : key gk f = d).
  { unfold key, f, prefixed, d. simpl. rewrite Eo. rewrite <- !app_assoc. reflexivity. }
  assert (Hfdash : has_dash (f_name f) = false).
  { unfold f, prefixed. cbn [f_name]. rewrite Eo, has_dash_dotted, Hn_dash, Ho_dash. reflexivity. }
  split.
  - (* the action exists *)
    apply existsb_exists. exists (mk gk f). split.
    + assert (Hin : In (mk gk f) (t_rows (as_dotted_m gk nms))).
      { unfold as_dotted_m. rewrite dotted_rows_mk. apply in_map. exact Hf. }
      rewrite <- (proj1 (dotted_leaves_of_grouped_table gk nms)) in Hin.
      unfold leaf_rows_t in Hin. apply filter_In in Hin. exact (proj1 Hin).
    + rewrite <- Hkey. apply is_leaf_at_mk; assumption.
  - (* every leaf action with that dest already holds that default *)
    intros r Hr Hl. destruct (leaf_row_of_table gk nms d r Hr Hl) as [f' [Hf' ->]].
    unfold flat in Hf'. apply in_flat_map in Hf'. destruct Hf' as [m' [Hm' Hf']].
    unfold is_leaf_at in Hl. apply andb_true_iff in Hl. destruct Hl as [Hd _]. apply str_eqb_spec in Hd.
    destruct m' as [o'|n' sub' d'].
    + (* a leaf member named n.f: impossible, member names have no dot *)
      exfalso. destruct Hf' as [<-|[]].
      destruct (plain_name_split _ (member_name_plain _ Hm')) as [Hdot Hdash].
      assert (En : f_name (eff o') = f_name (o_field o')) by (unfold eff; destruct (o_over o'); reflexivity).
      rewrite (mk_dest gk _ Hg) in Hd by (rewrite En; exact Hdash).
      unfold key, d in Hd. rewrite <- !app_assoc in Hd. apply app_inv_head in Hd. simpl in Hd.
      injection Hd as Hd. rewrite En in Hd. rewrite Hd in Hdot. rewrite has_dot_app_n in Hdot. simpl in Hdot.
      rewrite orb_true_r in Hdot. discriminate.
    + apply in_map_iff in Hf'. destruct Hf' as [o'' [<- Ho'']].
      destruct (Hsub n' sub' d' Hm') as [Hpl' Hndsub'].
      destruct (plain_name_split _ (member_name_plain _ Hm')) as [Hn'_dot Hn'_dash].
      assert (Ho''_plain : plain_name (f_name (o_field o'')) = true).
      { apply (proj1 (forallb_forall _ _) Hpl'). apply in_map_iff. exists o''. split; [reflexivity | exact Ho'']. }
      destruct (plain_name_split _ Ho''_plain) as [_ Ho''_dash].
      assert (Eo'' : eff o'' = o_field o'').
      { apply eff_no_over. pose proof (Hnov _ Hm') as H. simpl in H. exact (proj1 (forallb_forall _ _) H o'' Ho''). }
      rewrite (mk_dest gk _ Hg) in Hd
        by (unfold prefixed; cbn [f_name]; rewrite Eo'', has_dash_dotted, Hn'_dash, Ho''_dash; reflexivity).
      unfold key, d, prefixed in Hd. simpl in Hd. rewrite Eo'' in Hd. rewrite <- !app_assoc in Hd.
      apply app_inv_head in Hd. simpl in Hd. injection Hd as Hd.
      destruct (split_nodot n' n _ _ Hn'_dot Hn_dot Hd) as [-> Hname].
      (* the same member *)
      assert (Em : MSub n sub' d' = MSub n sub true).
      { apply (nodupb_inj (fun m => match m with MLeaf o => f_name (o_field o) | MSub n _ _ => n end) nms Hnd);
          [exact Hm' | exact Hm | reflexivity]. }
      injection Em as -> ->.
      assert (Eoo : o'' = o) by (apply (nodupb_inj (fun o => f_name (o_field o)) sub Hndsub); assumption).
      subst o''. apply mk_default. unfold prefixed. simpl. rewrite Eo. exact Hv.
Qed.

Lemma member_defaults_change_nothing :
  set_defaults1 (t_rows (as_inner_parser_m (dashes ++ gk) nms)) (member_default_entries gk nms)
  = Some (t_rows (as_inner_parser_m (dashes ++ gk) nms)).
Proof.
  apply set_defaults1_id. intros e He.
  unfold member_default_entries in He. apply in_flat_map in He. destruct He as [m [Hm He]].
  destruct m as [o|n sub d]; [contradiction|]. destruct d; [|contradiction].
  unfold with_prefix in He. apply in_map_iff in He. destruct He as [e' [<- He']].
  apply in_flat_map in He'. destruct He' as [o [Ho He']].
  unfold oentry in He'. simpl in He'. unfold dflt_val in He'.
  destruct (f_default (o_field o)) as [|v] eqn:Ev; [contradiction|].
  destruct He' as [<-|[]]. simpl fst. simpl snd.
  exact (member_default_entry_ok n sub o v Hm Ho Ev).
Qed.
End MemberDefaults.

Lemma mnorm_no_over ms m :
  forallb plain_member_d ms = true -> In m (mnorm ms) ->
  match m with MLeaf o => no_over o = true | MSub _ sub _ => forallb no_over sub = true end.
Proof.
  intros Hp Hm. unfold mnorm in Hm. apply in_flat_map in Hm. destruct Hm as [m0 [Hm0 Hm]].
  pose proof (proj1 (forallb_forall _ _) Hp m0 Hm0) as H0.
  destruct m0 as [o|n sub d]; simpl in H0.
  - apply in_map_iff in Hm. destruct Hm as [o' [<- Ho']].
    apply (onorm_no_over [o]); [simpl; rewrite H0; reflexivity | exact Ho'].
  - destruct Hm as [<-|[]]. apply andb_true_iff in H0. destruct H0 as [Hov _].
    apply forallb_forall. intros o' Ho'. apply (onorm_no_over sub); assumption.
Qed.

Lemma no_mdef_no_entries k ms : has_mdef ms = false -> member_default_entries k (mnorm ms) = [].
Proof.
  unfold has_mdef. induction ms as [|m ms IH]; [reflexivity|].
  intro H. cbn [existsb] in H. apply orb_false_iff in H. destruct H as [Hm Hms].
  rewrite mnorm_cons. unfold member_default_entries. rewrite flat_map_app.
  fold (member_default_entries k (mnorm ms)). rewrite (IH Hms), app_nil_r.
  destruct m as [o|n sub d]; simpl.
  - rewrite app_nil_r. induction (sig_norm (o_field o)); [reflexivity | simpl; assumption].
  - destruct d; [discriminate | reflexivity].
Qed.

(* ---- the three grouped styles build ONE table for every nested declaration without default= override; a
        dataclass-typed member may have a default instance ---- *)
Theorem grouped_tables_equal_nested_d (fixkey full : bool) (gk : str) (ms : list member) :
  starts_dash gk = false -> ms <> [] -> forallb plain_member_d ms = true ->
  (has_mdef ms = true -> has_dash gk = false /\ names_ok (mnorm ms) = true) ->
  let T := as_inner_parser_m (dashes ++ gk) (mnorm ms) in
  as_class_group_m fixkey full gk ms = Some T /\ as_dataclass_m fixkey (dashes ++ gk) ms = Some T.
Proof.
  intros Hd Hne Hp Hmd T.
  assert (Hc : forall full', as_class_group_m fixkey full' gk ms = Some T).
  { intro full'. unfold as_class_group_m.
    rewrite (rows0_is_inner_table gk ms Hne Hp), (required0_is_inner_table gk ms Hp), (plain_d_no_over ms Hp).
    fold T.
    assert (E : set_defaults1 (t_rows T) (member_default_entries (if fixkey then replace_dash gk else gk) (mnorm ms))
                = Some (t_rows T)).
    { destruct (has_mdef ms) eqn:Em.
      - destruct (Hmd eq_refl) as [Hg Hnames].
        assert (Ek : (if fixkey then replace_dash gk else gk) = gk)
          by (destruct fixkey; [apply replace_dash_nodash; exact Hg | reflexivity]).
        rewrite Ek. apply (member_defaults_change_nothing gk Hg (mnorm ms) Hnames).
        intros m Hm. apply (mnorm_no_over ms m Hp Hm).
      - rewrite (no_mdef_no_entries _ ms Em). reflexivity. }
    rewrite E. destruct T; reflexivity. }
  split; [apply Hc|].
  unfold as_dataclass_m. rewrite (lstrip_dash_key gk Hd). apply Hc.
Qed.

(* ---- the guard of the judged table cases ---- *)
Lemma table_class_nested gk ms :
  table_class gk ms = 0%N -> has_nested ms = true ->
  starts_dash gk = false /\ ms <> [] /\ forallb plain_member_d ms = true
  /\ (has_mdef ms = true -> has_dash gk = false /\ names_ok (mnorm ms) = true).
Proof.
  unfold table_class. intros H Hn.
  destruct (N.eqb (finding_class_m (fun s => VStr s) gk ms {| i_env := []; i_entry := EArgs [] |}) 7
            && forallb plain_member_d ms) eqn:E.
  - apply andb_true_iff in E. destruct E as [Ec Hp]. apply N.eqb_eq in Ec.
    unfold finding_class_m in Ec.
    destruct (well_formed_m gk ms) eqn:W; [|discriminate]. cbn [negb] in Ec.
    repeat match type of Ec with (if ?b then _ else _) = _ => destruct b eqn:?; try discriminate end.
    unfold well_formed_m in W.
    apply andb_true_iff in W. destruct W as [W Hnames].
    apply andb_true_iff in W. destruct W as [W _].
    apply andb_true_iff in W. destruct W as [W Hflat].
    apply andb_true_iff in W. destruct W as [_ Hs]. apply negb_true_iff in Hs.
    split; [exact Hs|]. split; [intro Em; subst ms; discriminate|]. split; [exact Hp|].
    intro Hm. split; [|exact Hnames].
    match goal with Hh : hyphen_defaults gk ms = false |- _ =>
      unfold hyphen_defaults in Hh; rewrite Hm, orb_true_r, andb_true_r in Hh; exact Hh end.
  - exfalso. unfold finding_class_m in H. rewrite Hn in H.
    repeat match type of H with (if ?b then _ else _) = _ => destruct b; try discriminate end.
Qed.

Theorem nested_tables_agree (fixkey full : bool) (gk : str) (ms : list member) :
  table_class gk ms = 0%N -> has_nested ms = true ->
  let T := as_inner_parser_m (dashes ++ gk) (mnorm ms) in
  as_class_group_m fixkey full gk ms = Some T /\ as_dataclass_m fixkey (dashes ++ gk) ms = Some T
  /\ leaf_rows_t T = t_rows (as_dotted_m gk (mnorm ms)) /\ t_required T = t_required (as_dotted_m gk (mnorm ms)).
Proof.
  intros H Hn T. destruct (table_class_nested gk ms H Hn) as [Hd [Hne [Hp Hmd]]].
  destruct (grouped_tables_equal_nested_d fixkey full gk ms Hd Hne Hp Hmd) as [Hc Hdc].
  destruct (dotted_leaves_of_grouped_table gk (mnorm ms)) as [Hr Hq].
  repeat split; assumption.
Qed.

(* ---- a witness: leaves before and after a dataclass-typed member, a list the signature rules rewrite ---- *)
Definition wn_members : list member :=
  [ MLeaf {| o_field := {| f_name := [97]%N; f_ty := TInt; f_default := Dflt (VInt 1) |}; o_over := None |};
    MSub [115]%N
         [ {| o_field := {| f_name := [108;114]%N; f_ty := TInt; f_default := NoDefault |}; o_over := None |};
           {| o_field := {| f_name := [109]%N; f_ty := TStr; f_default := Dflt VNone |}; o_over := None |} ] false;
    MLeaf {| o_field := {| f_name := [98]%N; f_ty := TOpt (TList TInt); f_default := NoDefault |}; o_over := None |} ].

(* the same with a default instance on the dataclass-typed member *)
Definition wn_members_d : list member :=
  match wn_members with
  | [a; MSub n sub _; b] => [a; MSub n (tl sub) true; b]
  | l => l
  end.

Lemma nested_hypotheses_satisfiable_d :
  starts_dash [103]%N = false /\ wn_members_d <> [] /\ forallb plain_member_d wn_members_d = true
  /\ has_mdef wn_members_d = true /\ has_dash [103]%N = false /\ names_ok (mnorm wn_members_d) = true
  /\ table_class [103]%N wn_members_d = 0%N.
Proof. repeat split; try reflexivity. discriminate. Qed.

Lemma nested_hypotheses_satisfiable :
  starts_dash [103]%N = false /\ wn_members <> [] /\ forallb plain_member wn_members = true
  /\ has_nested wn_members = true /\ table_class [103]%N wn_members = 0%N
  /\ length (t_rows (as_inner_parser_m (dashes ++ [103]%N) (mnorm wn_members))) = 6.
Proof. repeat split; try reflexivity. discriminate. Qed.


(* C11 — lemmas: the Namespace model (Model/Ns.v) refines the nested dictionary (Spec/NestedDict.v). *)
From JV Require Import Lib.Base Model.Ns Model.NsRun Model.NsGuard Spec.NestedDict Spec.NestedDictRun.

Arguments mark : simpl never.
Arguments unmark : simpl never.
Arguments str_eqb : simpl never.
Arguments N.eqb : simpl never.
Arguments user_node : simpl never.

(* ---- induction on values through all nested containers --------------------------------- *)
Section ValInd.
Variable P : val -> Prop.
Hypothesis HInt : forall z, P (VInt z).
Hypothesis HStr : forall s, P (VStr s).
Hypothesis HNone : P VNone.
Hypothesis HList : forall l, Forall P l -> P (VList l).
Hypothesis HTup : forall l, Forall P l -> P (VTup l).
Hypothesis HDict : forall d, Forall (fun kv => P (snd kv)) d -> P (VDict d).
Hypothesis HNs : forall d, Forall (fun kv => P (snd kv)) d -> P (VNs d).

Fixpoint val_ind2 (v : val) : P v :=
  match v with
  | VInt z => HInt z
  | VStr s => HStr s
  | VNone => HNone
  | VList l => HList l ((fix go (l : list val) : Forall P l :=
                           match l with [] => Forall_nil _ | x :: l' => Forall_cons x (val_ind2 x) (go l') end) l)
  | VTup l => HTup l ((fix go (l : list val) : Forall P l :=
                         match l with [] => Forall_nil _ | x :: l' => Forall_cons x (val_ind2 x) (go l') end) l)
  | VDict d => HDict d ((fix go (d : list (str * val)) : Forall (fun kv => P (snd kv)) d :=
                           match d with [] => Forall_nil _
                           | kv :: d' => Forall_cons kv (val_ind2 (snd kv)) (go d') end) d)
  | VNs d => HNs d ((fix go (d : list (str * val)) : Forall (fun kv => P (snd kv)) d :=
                       match d with [] => Forall_nil _
                       | kv :: d' => Forall_cons kv (val_ind2 (snd kv)) (go d') end) d)
  end.
End ValInd.

Lemma map_ext_Forall {A B} (f g : A -> B) l : Forall (fun x => f x = g x) l -> map f l = map g l.
Proof. induction 1; simpl; congruence. Qed.

(* the user-visible form of a stored value, as a spec node, gives back the user-visible value *)
Lemma val_of_node_of_val u : val_of_node (node_of_val u) = u.
Proof.
  induction u using val_ind2; try reflexivity.
  simpl. rewrite map_map. f_equal.
  rewrite <- (map_id d) at 2. apply map_ext_Forall.
  eapply Forall_impl; [|exact H]. intros [k x] Hx; simpl in *. now rewrite Hx.
Qed.

Lemma node_val_user v : node_val (user_node v) = unmark_val v.
Proof. apply val_of_node_of_val. Qed.

Lemma ns_free_unmark v : ns_free v = true -> unmark_val v = v.
Proof.
  induction v using val_ind2; simpl; intros Hf; try reflexivity; try discriminate.
  - f_equal. rewrite <- (map_id l) at 2. apply map_ext_Forall.
    rewrite forallb_forall in Hf. rewrite Forall_forall in *. auto.
  - f_equal. rewrite <- (map_id l) at 2. apply map_ext_Forall.
    rewrite forallb_forall in Hf. rewrite Forall_forall in *. auto.
  - f_equal. rewrite <- (map_id d) at 2. apply map_ext_Forall.
    rewrite forallb_forall in Hf. rewrite Forall_forall in *.
    intros [k x] Hin. simpl. f_equal. apply (H (k, x) Hin). apply (Hf (k, x) Hin).
Qed.

(* ---- names and marks -------------------------------------------------------------------- *)
Lemma good_unmark u : good u = true -> unmark u = u.
Proof.
  destruct u as [|c u]; simpl; auto. intros H. apply negb_true_iff in H.
  unfold unmark. now rewrite H.
Qed.

Section WithClash.
Variable clash : list str.
Notation mark := (mark clash).
Notation stored_ok := (stored_ok clash).
Notation wf_val := (wf_val clash).

Lemma unmark_mark u : good u = true -> unmark (mark u) = u.
Proof.
  intros H. unfold Ns.mark. destruct (mem_str u clash).
  - reflexivity.
  - now apply good_unmark.
Qed.

Lemma stored_ok_mark u : good u = true -> stored_ok (mark u) = true.
Proof.
  intros H. unfold NsGuard.stored_ok. rewrite (unmark_mark u H), H. apply str_eqb_refl.
Qed.

Lemma key_eqb u k : good u = true -> stored_ok k = true ->
  str_eqb u (unmark k) = str_eqb (mark u) k.
Proof.
  intros Hu Hk. apply andb_true_iff in Hk. destruct Hk as [Hg Hk]. apply str_eqb_spec in Hk.
  apply eq_true_iff_eq. rewrite !str_eqb_spec. split; intro E.
  - now subst u.
  - rewrite <- E. now rewrite unmark_mark.
Qed.

(* ---- association lists ------------------------------------------------------------------ *)
Lemma aget_aset_same k x d : aget k (aset k x d) = Some x.
Proof.
  induction d as [|[k' v'] d IH]; simpl.
  - now rewrite str_eqb_refl.
  - destruct (str_eqb k k') eqn:E; simpl; rewrite E; auto.
Qed.

Lemma aset_aset k a b d : aset k a (aset k b d) = aset k a d.
Proof.
  induction d as [|[k' v'] d IH]; simpl.
  - now rewrite str_eqb_refl.
  - destruct (str_eqb k k') eqn:E; simpl; rewrite E; congruence.
Qed.

Definition wf_d (d : alist) : Prop := wf_val (VNs d) = true.

Lemma user_node_ns d : user_node (VNs d) = Branch (abs_d d).
Proof. unfold user_node, abs_d. simpl. rewrite map_map. reflexivity. Qed.

Lemma wf_d_cons k x d : wf_d ((k, x) :: d) <-> stored_ok k = true /\ wf_val x = true /\ wf_d d.
Proof.
  unfold wf_d. simpl. rewrite !andb_true_iff. tauto.
Qed.

Lemma wf_d_nil : wf_d [].
Proof. reflexivity. Qed.

Lemma lookup_abs u d : wf_d d -> good u = true ->
  lookup u (abs_d d) = option_map user_node (aget (mark u) d).
Proof.
  intros Hd Hu. induction d as [|[k x] d IH]; simpl; [reflexivity|].
  apply wf_d_cons in Hd. destruct Hd as (Hk & Hx & Hd).
  rewrite (key_eqb u k Hu Hk). destruct (str_eqb (mark u) k); auto.
Qed.

Lemma insert_abs u x d : wf_d d -> good u = true ->
  abs_d (aset (mark u) x d) = insert u (user_node x) (abs_d d).
Proof.
  intros Hd Hu. induction d as [|[k y] d IH]; simpl.
  - now rewrite unmark_mark.
  - apply wf_d_cons in Hd. destruct Hd as (Hk & Hx & Hd).
    rewrite (key_eqb u k Hu Hk). destruct (str_eqb (mark u) k); simpl; [reflexivity|].
    now rewrite IH.
Qed.

Lemma remove_abs u d : wf_d d -> good u = true ->
  abs_d (adel (mark u) d) = remove u (abs_d d).
Proof.
  intros Hd Hu. induction d as [|[k y] d IH]; simpl; [reflexivity|].
  apply wf_d_cons in Hd. destruct Hd as (Hk & Hx & Hd).
  rewrite (key_eqb u k Hu Hk). destruct (str_eqb (mark u) k); simpl; [reflexivity|].
  now rewrite IH.
Qed.

Lemma wf_aset u x d : wf_d d -> good u = true -> wf_val x = true -> wf_d (aset (mark u) x d).
Proof.
  intros Hd Hu Hx. induction d as [|[k y] d IH]; simpl.
  - apply wf_d_cons. auto using stored_ok_mark, wf_d_nil.
  - apply wf_d_cons in Hd. destruct Hd as (Hk & Hy & Hd).
    destruct (str_eqb (mark u) k); apply wf_d_cons; auto.
Qed.

Lemma wf_adel k d : wf_d d -> wf_d (adel k d).
Proof.
  intros Hd. induction d as [|[k' y] d IH]; simpl; [exact Hd|].
  apply wf_d_cons in Hd. destruct Hd as (Hk & Hy & Hd).
  destruct (str_eqb k k'); [exact Hd|]. apply wf_d_cons; auto.
Qed.

Lemma wf_aget k d v : wf_d d -> aget k d = Some v -> wf_val v = true.
Proof.
  intros Hd. induction d as [|[k' y] d IH]; simpl; [discriminate|].
  apply wf_d_cons in Hd. destruct Hd as (Hk & Hy & Hd).
  destruct (str_eqb k k'); [intros E; now inversion E; subst|auto].
Qed.

(* ---- paths ------------------------------------------------------------------------------ *)
Notation mk := (map mark).

Lemma spec_get_cons k p d : p <> [] ->
  spec_get (k :: p) d =
  match lookup k d with
  | Some (Branch d') => spec_get p d'
  | Some (Leaf (VDict dd)) => option_map Leaf (vd_get p (VDict dd))
  | _ => None
  end.
Proof. destruct p; [contradiction|reflexivity]. Qed.

Lemma spec_set_cons k p x d : p <> [] ->
  spec_set (k :: p) x d =
  match lookup k d with
  | Some (Branch d') => insert k (Branch (spec_set p x d')) d
  | Some (Leaf (VDict dd)) => insert k (Leaf (vd_set p (val_of_node x) (VDict dd))) d
  | _ => insert k (Branch (spec_set p x [])) d
  end.
Proof. destruct p; [contradiction|reflexivity]. Qed.

Lemma spec_del_cons k p d : p <> [] ->
  spec_del (k :: p) d =
  match lookup k d with
  | Some (Branch d') => match spec_del p d' with
                        | Some r => Some (insert k (Branch r) d)
                        | None => None
                        end
  | Some (Leaf (VDict dd)) => match vd_del p (VDict dd) with
                              | Some r => Some (insert k (Leaf r) d)
                              | None => None
                              end
  | _ => None
  end.
Proof. destruct p; [contradiction|reflexivity]. Qed.

Lemma snoc_nonnil {A} (l : list A) a : l ++ [a] <> [].
Proof. destruct l; discriminate. Qed.

Lemma meets_dict_vdict ks dd : walk_meets_dict ks (VDict dd) = true.
Proof. destruct ks; reflexivity. Qed.

Lemma meets_dict_nil_root pp : walk_meets_dict (mk pp) (VNs []) = false.
Proof. destruct pp; reflexivity. Qed.

(* a value that is neither a Namespace nor a dict: the walk stops there, the spec sees a leaf *)
Definition scalar_like (v : val) : Prop :=
  match v with VNs _ | VDict _ => False | _ => True end.

Lemma user_node_scalar v : scalar_like v ->
  exists w, user_node v = Leaf w /\ match w with VDict _ => False | _ => True end.
Proof.
  destruct v; simpl; try contradiction; intros _; unfold user_node; simpl; eexists; split;
    try reflexivity; exact I.
Qed.

(* under the guard, a walk from a Namespace ends in a Namespace or nowhere *)
Lemma walk_guarded pp : forall d, walk_meets_dict (mk pp) (VNs d) = false ->
  walk (mk pp) (VNs d) = None \/ exists d', walk (mk pp) (VNs d) = Some (VNs d').
Proof.
  induction pp as [|k pp IH]; intros d G; simpl in *.
  - right. eauto.
  - destruct (aget (mark k) d) as [v|]; [|now left].
    destruct v; auto. now rewrite meets_dict_vdict in G.
Qed.

(* reading *)
Definition mget (pp : list str) (leaf : str) (d : alist) : option val :=
  match walk (mk pp) (VNs d) with
  | Some (VNs d') => aget (mark leaf) d'
  | _ => None
  end.

Lemma get_commutes leaf pp : good leaf = true -> forall d,
  wf_d d -> forallb good pp = true -> walk_meets_dict (mk pp) (VNs d) = false ->
  spec_get (pp ++ [leaf]) (abs_d d) = option_map user_node (mget pp leaf d).
Proof.
  intros Hl. induction pp as [|k pp IH]; intros d Hd Hp G.
  - unfold mget. simpl. now apply lookup_abs.
  - simpl in Hp. apply andb_true_iff in Hp. destruct Hp as [Hk Hp].
    change ((k :: pp) ++ [leaf]) with (k :: (pp ++ [leaf])).
    rewrite spec_get_cons by apply snoc_nonnil.
    rewrite (lookup_abs k d Hd Hk). unfold mget. simpl in *.
    destruct (aget (mark k) d) as [v|] eqn:E; simpl; [|reflexivity].
    destruct v; cbn [option_map]; try (unfold user_node; simpl; reflexivity).
    + now rewrite meets_dict_vdict in G.
    + rewrite user_node_ns. apply IH; auto. eapply wf_aget; eauto.
Qed.

(* writing *)
Definition mset (pp : list str) (leaf : str) (item : val) (d : alist) : val :=
  update_at (mk pp) (put (mark leaf) item)
    (VNs (match walk (mk pp) (VNs d) with Some _ => d | None => create_nested (mk pp) d end)).

Lemma mset_nil_root pp leaf item :
  mset pp leaf item [] = update_at (mk pp) (put (mark leaf) item) (VNs (create_nested (mk pp) [])).
Proof. destruct pp; reflexivity. Qed.

Lemma mset_cons_ns k pp leaf item d d' : aget (mark k) d = Some (VNs d') ->
  mset (k :: pp) leaf item d = VNs (aset (mark k) (mset pp leaf item d') d).
Proof.
  intros E. unfold mset. simpl. rewrite E.
  destruct (walk (mk pp) (VNs d')) eqn:W.
  - rewrite E. reflexivity.
  - rewrite aget_aset_same, aset_aset. reflexivity.
Qed.

Lemma mset_cons_other k pp leaf item d :
  match aget (mark k) d with Some v => scalar_like v | None => True end ->
  mset (k :: pp) leaf item d = VNs (aset (mark k) (mset pp leaf item []) d).
Proof.
  intros H. rewrite mset_nil_root. unfold mset. simpl.
  destruct (aget (mark k) d) as [v|] eqn:E.
  - destruct v; try contradiction; simpl; rewrite aget_aset_same, aset_aset; reflexivity.
  - simpl. rewrite aget_aset_same, aset_aset. reflexivity.
Qed.

Lemma set_commutes leaf item pp : good leaf = true -> wf_val item = true -> forall d,
  wf_d d -> forallb good pp = true -> walk_meets_dict (mk pp) (VNs d) = false ->
  exists r, mset pp leaf item d = VNs r /\
            abs_d r = spec_set (pp ++ [leaf]) (user_node item) (abs_d d) /\ wf_d r.
Proof.
  intros Hl Hi. induction pp as [|k pp IH]; intros d Hd Hp G.
  - exists (aset (mark leaf) item d). split; [reflexivity|]. split.
    + now apply insert_abs.
    + now apply wf_aset.
  - simpl in Hp. apply andb_true_iff in Hp. destruct Hp as [Hk Hp].
    change ((k :: pp) ++ [leaf]) with (k :: (pp ++ [leaf])).
    rewrite spec_set_cons by apply snoc_nonnil.
    rewrite (lookup_abs k d Hd Hk). simpl in G.
    destruct (aget (mark k) d) as [v|] eqn:E.
    + assert (Hv : wf_val v = true) by (eapply wf_aget; eauto).
      destruct v;
        try (destruct (IH [] wf_d_nil Hp (meets_dict_nil_root pp)) as (r & Hr & Ha & Hw);
             rewrite mset_cons_other by (rewrite E; exact I); rewrite Hr;
             eexists; split; [reflexivity|]; split;
             [ rewrite insert_abs by assumption; rewrite user_node_ns, Ha; reflexivity
             | apply wf_aset; assumption ]).
      * now rewrite meets_dict_vdict in G.
      * destruct (IH d0 Hv Hp G) as (r & Hr & Ha & Hw).
        rewrite (mset_cons_ns k pp leaf item d d0 E), Hr.
        eexists; split; [reflexivity|]; split.
        -- rewrite insert_abs by assumption. cbn [option_map]. rewrite !user_node_ns, Ha. reflexivity.
        -- apply wf_aset; assumption.
    + destruct (IH [] wf_d_nil Hp (meets_dict_nil_root pp)) as (r & Hr & Ha & Hw).
      rewrite mset_cons_other by (rewrite E; exact I). rewrite Hr.
      eexists; split; [reflexivity|]; split.
      * rewrite insert_abs by assumption. rewrite user_node_ns, Ha. reflexivity.
      * apply wf_aset; assumption.
Qed.

(* deleting *)
Definition delf (leaf : str) (p : val) : val :=
  match p with VNs d' => VNs (adel (mark leaf) d') | v => v end.

Lemma del_commutes leaf pp : good leaf = true -> forall d,
  wf_d d -> forallb good pp = true -> walk_meets_dict (mk pp) (VNs d) = false ->
  match mget pp leaf d with
  | Some _ => exists r, update_at (mk pp) (delf leaf) (VNs d) = VNs r /\
                        spec_del (pp ++ [leaf]) (abs_d d) = Some (abs_d r) /\ wf_d r
  | None => spec_del (pp ++ [leaf]) (abs_d d) = None
  end.
Proof.
  intros Hl. induction pp as [|k pp IH]; intros d Hd Hp G.
  - unfold mget. simpl. rewrite (lookup_abs leaf d Hd Hl).
    destruct (aget (mark leaf) d) as [v|] eqn:E; simpl; [|reflexivity].
    eexists; split; [reflexivity|]; split.
    + now rewrite remove_abs.
    + now apply wf_adel.
  - simpl in Hp. apply andb_true_iff in Hp. destruct Hp as [Hk Hp].
    change ((k :: pp) ++ [leaf]) with (k :: (pp ++ [leaf])).
    rewrite spec_del_cons by apply snoc_nonnil.
    rewrite (lookup_abs k d Hd Hk). unfold mget in *. simpl in G |- *.
    destruct (aget (mark k) d) as [v|] eqn:E; cbn [option_map]; [|reflexivity].
    assert (Hv : wf_val v = true) by (eapply wf_aget; eauto).
    destruct v; try (unfold user_node; simpl; reflexivity).
    + now rewrite meets_dict_vdict in G.
    + rewrite user_node_ns. specialize (IH d0 Hv Hp G).
      destruct (match walk (mk pp) (VNs d0) with Some (VNs d') => aget (mark leaf) d' | _ => None end).
      * destruct IH as (r & Hr & Hs & Hw). rewrite Hr, Hs.
        eexists; split; [reflexivity|]; split.
        -- rewrite insert_abs by assumption. now rewrite user_node_ns.
        -- apply wf_aset; assumption.
      * now rewrite IH.
Qed.

(* ---- keys ------------------------------------------------------------------------------- *)
Lemma split_dot_aux_nonnil s : forall cur, split_dot_aux s cur <> [].
Proof.
  induction s as [|c s IH]; intros cur; simpl; [discriminate|].
  destruct (N.eqb c DOT); [discriminate|apply IH].
Qed.

Lemma split_dot_aux_nodot s : forall cur, mem_N DOT s = false -> split_dot_aux s cur = [rev cur ++ s].
Proof.
  induction s as [|c s IH]; intros cur H; simpl in *.
  - now rewrite app_nil_r.
  - apply orb_false_iff in H. destruct H as [H1 H2]. rewrite N.eqb_sym, H1.
    rewrite IH by assumption. simpl. now rewrite <- app_assoc.
Qed.

Lemma parse_spec key : parse_key clash key = option_map mk (spec_key key).
Proof.
  unfold parse_key, spec_key. destruct (mem_N SPACE key); [reflexivity|].
  destruct (existsb is_empty (split_key key)); reflexivity.
Qed.

Lemma split_last_snoc pp leaf : split_last (mk (pp ++ [leaf])) = (mk pp, mark leaf).
Proof.
  unfold split_last. rewrite map_app. simpl. now rewrite removelast_last, last_last.
Qed.

(* a well-formed key either is rejected by model and spec alike, or parses to pp ++ [leaf] *)
Lemma key_cases key : wf_key key = true ->
  (spec_key key = None /\ parse_key clash key = None) \/
  exists pp leaf, spec_key key = Some (pp ++ [leaf]) /\ parse_key clash key = Some (mk (pp ++ [leaf])) /\
                  forallb good pp = true /\ good leaf = true.
Proof.
  intros W. rewrite parse_spec. destruct (spec_key key) as [p|] eqn:E; [right|left; auto].
  assert (p = split_key key).
  { unfold spec_key in E. destruct (mem_N SPACE key); [discriminate|].
    destruct (existsb is_empty (split_key key)); [discriminate|]. now inversion E. }
  assert (N : p <> []) by (subst p; apply split_dot_aux_nonnil).
  destruct (exists_last N) as (pp & leaf & Hp). exists pp, leaf.
  unfold wf_key in W. rewrite <- H, Hp, forallb_app in W. apply andb_true_iff in W.
  destruct W as [W1 W2]. simpl in W2. rewrite andb_true_r in W2.
  subst p. rewrite Hp. simpl. auto.
Qed.

Lemma meets_dict_parsed key pp leaf root : parse_key clash key = Some (mk (pp ++ [leaf])) ->
  meets_dict clash key root = walk_meets_dict (mk pp) (VNs root).
Proof.
  intros E. unfold meets_dict. rewrite E, map_app. simpl. now rewrite removelast_last.
Qed.

Lemma meets_dict_unparsed key root : parse_key clash key = None -> meets_dict clash key root = false.
Proof. intros E. unfold meets_dict. now rewrite E. Qed.

(* the model's operations on a parsed key *)
Lemma getitem_parsed key pp leaf root : parse_key clash key = Some (mk (pp ++ [leaf])) ->
  walk_meets_dict (mk pp) (VNs root) = false ->
  ns_getitem clash key root = match mget pp leaf root with Some v => Ok v | None => Fail end.
Proof.
  intros E G. unfold ns_getitem, mget. rewrite E, split_last_snoc.
  destruct (walk_guarded pp root G) as [W|(d' & W)]; rewrite W; reflexivity.
Qed.

Lemma setitem_parsed key pp leaf item root : parse_key clash key = Some (mk (pp ++ [leaf])) ->
  ns_setitem clash key item root =
  match mset pp leaf item root with VNs r => Ok r | _ => Fail end.
Proof.
  intros E. unfold ns_setitem, mset. rewrite E, split_last_snoc. reflexivity.
Qed.

Lemma delitem_parsed key pp leaf root : parse_key clash key = Some (mk (pp ++ [leaf])) ->
  walk_meets_dict (mk pp) (VNs root) = false ->
  ns_delitem clash key root =
  match mget pp leaf root with
  | Some _ => match update_at (mk pp) (delf leaf) (VNs root) with VNs r => Ok r | _ => Fail end
  | None => Fail
  end.
Proof.
  intros E G. unfold ns_delitem, mget, ahas. rewrite E, split_last_snoc.
  destruct (walk_guarded pp root G) as [W|(d' & W)]; rewrite W; [reflexivity|].
  destruct (aget (mark leaf) d'); reflexivity.
Qed.

Lemma pop_parsed key dflt pp leaf root : parse_key clash key = Some (mk (pp ++ [leaf])) ->
  walk_meets_dict (mk pp) (VNs root) = false ->
  ns_pop clash key dflt root =
  match mget pp leaf root with
  | Some v => match update_at (mk pp) (delf leaf) (VNs root) with VNs r => Ok (v, r) | _ => Fail end
  | None => Ok (dflt, root)
  end.
Proof.
  intros E G. unfold ns_pop, mget. rewrite E, split_last_snoc.
  destruct (walk_guarded pp root G) as [W|(d' & W)]; rewrite W; [reflexivity|].
  destruct d' as [|kv d']; [reflexivity|].
  destruct (aget (mark leaf) (kv :: d')); reflexivity.
Qed.

(* ---- items ------------------------------------------------------------------------------ *)
Definition unmark_items (l : list (str * val)) := map (fun kv => (fst kv, unmark_val (snd kv))) l.

Definition itF (br : bool) (kv : str * val) : list (str * val) :=
  let key := unmark (fst kv) in
  match snd kv with
  | VNs d' => (if br then [(key, VNs d')] else []) ++
              map (fun sk => (join_dot key (unmark (fst sk)), snd sk)) (ns_items_v br (snd kv))
  | x => [(key, x)]
  end.
Lemma ns_items_v_ns br d : ns_items_v br (VNs d) = flat_map (itF br) d.
Proof. reflexivity. Qed.

Definition itG (br : bool) (kn : str * node) : list (str * val) :=
  match snd kn with
  | Leaf v => [(fst kn, v)]
  | Branch _ => (if br then [(fst kn, val_of_node (snd kn))] else []) ++
                map (fun sk => (join_dot (fst kn) (fst sk), snd sk)) (node_items br (snd kn))
  end.
Lemma node_items_branch br sd : node_items br (Branch sd) = flat_map (itG br) sd.
Proof. reflexivity. Qed.

Lemma good_join a b : good a = true -> good (join_dot a b) = true.
Proof. destruct a; simpl; auto. Qed.

Definition items_ok (br : bool) (x : val) : Prop :=
  unmark_items (ns_items_v br x) = node_items br (user_node x) /\
  Forall (fun kv => good (fst kv) = true) (ns_items_v br x).

Lemma items_point br k x : stored_ok k = true -> items_ok br x ->
  unmark_items (itF br (k, x)) = itG br (unmark k, user_node x) /\
  Forall (fun kv => good (fst kv) = true) (itF br (k, x)).
Proof.
  intros Hk [Hx Hg]. apply andb_true_iff in Hk. destruct Hk as [Hk _].
  destruct x; try (unfold itF, itG, user_node; simpl; split; [reflexivity|repeat constructor; exact Hk]).
  unfold itF, itG. cbn [fst snd]. rewrite <- Hx.
  change val_of_node with node_val. rewrite node_val_user. rewrite user_node_ns. cbn iota.
  split.
  - unfold unmark_items. rewrite map_app. f_equal; [destruct br; reflexivity|].
    rewrite !map_map. apply map_ext_Forall. eapply Forall_impl; [|exact Hg].
    intros [k' x'] Hk'. cbn [fst snd] in *. now rewrite (good_unmark k') by assumption.
  - apply Forall_app. split; [destruct br; repeat constructor; exact Hk|].
    apply Forall_forall. intros kv Hin. apply in_map_iff in Hin. destruct Hin as (sk & <- & _).
    simpl. now apply good_join.
Qed.

Lemma items_commutes br v : wf_val v = true -> items_ok br v.
Proof.
  induction v using val_ind2; intros W;
    try (split; [unfold user_node; reflexivity|constructor]).
  unfold items_ok. rewrite ns_items_v_ns, user_node_ns, node_items_branch.
  change (wf_d d) in W.
  induction d as [|[k x] d IHd]; [split; [reflexivity|constructor]|].
  apply wf_d_cons in W. destruct W as (Hk & Hx & Hd).
  inversion H as [|? ? Hx' Hd']; subst.
  destruct (IHd Hd' Hd) as [I1 I2].
  destruct (items_point br k x Hk (Hx' Hx)) as [P1 P2].
  split.
  - cbn [flat_map abs_d map]. unfold unmark_items in *. rewrite map_app.
    cbn [fst snd]. rewrite P1. f_equal. exact I1.
  - cbn [flat_map]. apply Forall_app. auto.
Qed.

(* ---- as_dict --------------------------------------------------------------------------------
   No well-formedness is needed: as_dict removes the marks where the abstraction removes them. *)
Definition conv_child (x : val) : val :=
  match x with
  | VNs _ => ns_as_dict_v x
  | VDict dd =>
      if negb (is_nil dd) && all_ns (map snd dd)
      then VDict (map (fun kv' => (fst kv', match snd kv' with VNs _ => ns_as_dict_v (snd kv') | y => y end)) dd)
      else VDict dd
  | VList l =>
      if negb (is_nil l) && all_ns l
      then VList (map (fun y => match y with VNs _ => ns_as_dict_v y | z => z end) l) else VList l
  | y => y
  end.

Lemma as_dict_v_ns d :
  ns_as_dict_v (VNs d) = VDict (map (fun kv => (unmark (fst kv), conv_child (snd kv))) d).
Proof.
  simpl. f_equal. apply map_ext. intros [k v]. simpl. destruct v; reflexivity.
Qed.

Lemma all_ns_unmark l : all_ns (map unmark_val l) = all_ns l.
Proof. induction l as [|x l IH]; simpl; [reflexivity|]. destruct x; simpl; auto. Qed.

Lemma all_ns_unmark_d (dd : list (str * val)) :
  all_ns (map snd (map (fun kv => (fst kv, unmark_val (snd kv))) dd)) = all_ns (map snd dd).
Proof. rewrite map_map. simpl. rewrite <- (all_ns_unmark (map snd dd)), map_map. reflexivity. Qed.

Lemma all_ns_forall l : all_ns l = true -> Forall (fun x => exists d, x = VNs d) l.
Proof.
  induction l as [|x l IH]; simpl; intros H; constructor.
  - destruct x; try discriminate. eauto.
  - destruct x; try discriminate. auto.
Qed.

Definition CC (x : val) : Prop := unmark_val (conv_child x) = ns_to_dict_val (unmark_val x).

Lemma map_conv_list l : Forall CC l -> all_ns l = true ->
  map (fun x => unmark_val (match x with VNs _ => ns_as_dict_v x | z => z end)) l
  = map (fun x => ns_to_dict_val (unmark_val x)) l.
Proof.
  intros H A. apply all_ns_forall in A.
  induction l as [|y l IH]; [reflexivity|]. inversion H; subst. inversion A; subst.
  simpl. f_equal; [|auto]. destruct H4 as [d ->]. exact H2.
Qed.

Lemma map_conv_dict (l : list (str * val)) : Forall (fun kv => CC (snd kv)) l -> all_ns (map snd l) = true ->
  map (fun kv => (fst kv, unmark_val (match snd kv with VNs _ => ns_as_dict_v (snd kv) | z => z end))) l
  = map (fun kv => (fst kv, ns_to_dict_val (unmark_val (snd kv)))) l.
Proof.
  intros H A. apply all_ns_forall in A.
  induction l as [|[k y] l IH]; [reflexivity|]. inversion H; subst. simpl in A. inversion A; subst.
  simpl. f_equal; [|auto]. f_equal. destruct H4 as [d ->]. exact H2.
Qed.

Lemma conv_child_commutes x : CC x.
Proof.
  induction x using val_ind2; try reflexivity; unfold CC.
  - (* list *)
    pose proof (map_conv_list l H) as M.
    unfold conv_child. simpl unmark_val at 2. simpl ns_to_dict_val. rewrite all_ns_unmark.
    destruct (all_ns l) eqn:A.
    + destruct l as [|x0 l0]; [reflexivity|].
      change (negb (is_nil (x0 :: l0))) with true. rewrite andb_true_l.
      simpl unmark_val. f_equal. rewrite !map_map. exact (M eq_refl).
    + rewrite andb_false_r. reflexivity.
  - (* dict *)
    pose proof (map_conv_dict d H) as M.
    unfold conv_child. simpl unmark_val at 2. simpl ns_to_dict_val. rewrite all_ns_unmark_d.
    destruct (all_ns (map snd d)) eqn:A.
    + destruct d as [|e0 d0]; [reflexivity|].
      change (negb (is_nil (e0 :: d0))) with true. rewrite andb_true_l.
      simpl unmark_val. f_equal. rewrite !map_map. exact (M eq_refl).
    + rewrite andb_false_r. reflexivity.
  - (* namespace *)
    change (conv_child (VNs d)) with (ns_as_dict_v (VNs d)). rewrite as_dict_v_ns.
    simpl. f_equal. rewrite !map_map.
    induction d as [|[k v] d IH]; [reflexivity|]. inversion H; subst.
    simpl. f_equal; [|auto]. f_equal. exact H2.
Qed.

Lemma node_as_dict_of_val u : node_as_dict (node_of_val u) = ns_to_dict_val u.
Proof.
  induction u using val_ind2; try reflexivity.
  simpl. f_equal. rewrite map_map.
  induction d as [|[k v] d IH]; [reflexivity|]. inversion H; subst.
  simpl. f_equal; [|auto]. f_equal. exact H2.
Qed.

Lemma as_dict_agrees_proof root : unmark_val (ns_as_dict root) = spec_as_dict (abs_d root).
Proof.
  unfold ns_as_dict, spec_as_dict. rewrite <- user_node_ns. unfold user_node.
  rewrite node_as_dict_of_val.
  exact (conv_child_commutes (VNs root)).
Qed.

(* ---- one step --------------------------------------------------------------------------- *)
Definition rel_step (root : alist) (o : op) : Prop :=
  forall ou r, step_model clash root o = (ou, r, false) ->
    step_spec (abs_d root) o = (unmark_out ou, abs_d r) /\ wf_d r.

Lemma step_set root k v : wf_d root -> wf_key k = true -> wf_val v = true -> rel_step root (OSet k v).
Proof.
  intros Hd Hk Hv ou r H. unfold step_model in H. unfold step_spec, spec_set_key.
  assert (G : meets_dict clash k root = false) by (destruct (ns_setitem clash k v root); congruence).
  destruct (key_cases k Hk) as [[Es Ep]|(pp & leaf & Es & Ep & Hpp & Hl)].
  - unfold ns_setitem in H. rewrite Ep in H. inversion H; subst. rewrite Es. auto.
  - rewrite (meets_dict_parsed _ _ _ _ Ep) in G. rewrite (setitem_parsed _ _ _ _ _ Ep) in H.
    destruct (set_commutes leaf v pp Hl Hv root Hd Hpp G) as (r0 & Hr & Ha & Hw).
    rewrite Hr in H. inversion H; subst. rewrite Es, Ha. auto.
Qed.

Lemma spec_key_nodot k : mem_N DOT k = false -> mem_N SPACE k = false -> is_empty k = false ->
  spec_key k = Some [k].
Proof.
  intros H1 H2 H3. unfold spec_key, split_key. rewrite H2, split_dot_aux_nodot by assumption.
  simpl. now rewrite H3.
Qed.

Lemma step_setattr root k v : wf_d root -> wf_op clash (OSetAttr k v) = true -> rel_step root (OSetAttr k v).
Proof.
  intros Hd W. simpl in W. apply andb_true_iff in W. destruct W as [W Hn].
  apply andb_true_iff in W. destruct W as [Hk Hv].
  destruct (mem_N DOT k) eqn:D.
  - intros ou r H. apply (step_set root k v Hd Hk Hv ou r).
    unfold step_model, ns_setattr in *. now rewrite D in H.
  - simpl in Hn. apply andb_true_iff in Hn. destruct Hn as [Hs He].
    apply negb_true_iff in Hs, He.
    intros ou r H. unfold step_model, ns_setattr in H. rewrite D in H. inversion H; subst.
    unfold step_spec, spec_set_key. rewrite (spec_key_nodot k D Hs He). simpl.
    unfold wf_key, split_key in Hk. rewrite split_dot_aux_nodot in Hk by assumption.
    simpl in Hk. rewrite andb_true_r in Hk.
    rewrite insert_abs by assumption. split; [reflexivity|now apply wf_aset].
Qed.

Lemma getitem_refines root k : wf_d root -> wf_key k = true -> meets_dict clash k root = false ->
  match spec_key k with Some p => spec_get p (abs_d root) | None => None end =
  option_map user_node (match ns_getitem clash k root with Ok v => Some v | Fail => None end).
Proof.
  intros Hd Hk G.
  destruct (key_cases k Hk) as [[Es Ep]|(pp & leaf & Es & Ep & Hpp & Hl)].
  - unfold ns_getitem. now rewrite Es, Ep.
  - rewrite (meets_dict_parsed _ _ _ _ Ep) in G. rewrite (getitem_parsed _ _ _ _ Ep G), Es.
    rewrite (get_commutes leaf pp Hl root Hd Hpp G). destruct (mget pp leaf root); reflexivity.
Qed.

Lemma step_get root k : wf_d root -> wf_key k = true -> rel_step root (OGet k).
Proof.
  intros Hd Hk ou r H. unfold step_model in H.
  assert (G : meets_dict clash k root = false) by (destruct (ns_getitem clash k root); congruence).
  pose proof (getitem_refines root k Hd Hk G) as R. unfold step_spec.
  destruct (ns_getitem clash k root); inversion H; subst; simpl in R.
  - destruct (spec_key k); [|discriminate]. rewrite R. simpl. now rewrite node_val_user.
  - destruct (spec_key k); [rewrite R|]; auto.
Qed.

Lemma step_getd root k dflt : wf_d root -> wf_key k = true -> rel_step root (OGetD k dflt).
Proof.
  intros Hd Hk ou r H. unfold step_model in H. inversion H as [[H1 H2 G]]. subst ou r.
  pose proof (getitem_refines root k Hd Hk G) as R. unfold step_spec, ns_get.
  destruct (ns_getitem clash k root); simpl in R.
  - destruct (spec_key k); [|discriminate]. rewrite R. simpl. now rewrite node_val_user.
  - destruct (spec_key k); [rewrite R|]; auto.
Qed.

Lemma contains_refines root k : wf_d root -> wf_key k = true -> meets_dict clash k root = false ->
  match spec_key k with Some p => spec_contains p (abs_d root) | None => false end = ns_contains clash k root.
Proof.
  intros Hd Hk G. pose proof (getitem_refines root k Hd Hk G) as R.
  unfold ns_contains, spec_contains. destruct (spec_key k).
  - rewrite R. destruct (ns_getitem clash k root); reflexivity.
  - destruct (ns_getitem clash k root); [discriminate|reflexivity].
Qed.

Lemma step_contains root k : wf_d root -> wf_key k = true -> rel_step root (OContains k).
Proof.
  intros Hd Hk ou r H. unfold step_model in H. inversion H as [[H1 H2 G]]. subst ou r.
  pose proof (contains_refines root k Hd Hk G) as R. unfold step_spec.
  destruct (spec_key k); rewrite <- R; auto.
Qed.

Lemma step_del root k : wf_d root -> wf_key k = true -> rel_step root (ODel k).
Proof.
  intros Hd Hk ou r H. unfold step_model in H. unfold step_spec.
  assert (G : meets_dict clash k root = false) by (destruct (ns_delitem clash k root); congruence).
  destruct (key_cases k Hk) as [[Es Ep]|(pp & leaf & Es & Ep & Hpp & Hl)].
  - unfold ns_delitem in H. rewrite Ep in H. inversion H; subst. rewrite Es. auto.
  - rewrite (meets_dict_parsed _ _ _ _ Ep) in G. rewrite (delitem_parsed _ _ _ _ Ep G) in H.
    pose proof (del_commutes leaf pp Hl root Hd Hpp G) as R. rewrite Es.
    destruct (mget pp leaf root).
    + destruct R as (r0 & Hr & Hs & Hw). rewrite Hr in H. inversion H; subst. rewrite Hs. auto.
    + inversion H; subst. rewrite R. auto.
Qed.

Lemma step_pop root k dflt : wf_d root -> wf_key k = true -> rel_step root (OPop k dflt).
Proof.
  intros Hd Hk ou r H. unfold step_model in H. unfold step_spec.
  assert (G : meets_dict clash k root = false)
    by (destruct (ns_pop clash k dflt root) as [[? ?]|]; congruence).
  destruct (key_cases k Hk) as [[Es Ep]|(pp & leaf & Es & Ep & Hpp & Hl)].
  - unfold ns_pop in H. rewrite Ep in H. inversion H; subst. rewrite Es. auto.
  - rewrite (meets_dict_parsed _ _ _ _ Ep) in G. rewrite (pop_parsed _ _ _ _ _ Ep G) in H.
    pose proof (del_commutes leaf pp Hl root Hd Hpp G) as R. rewrite Es.
    rewrite (get_commutes leaf pp Hl root Hd Hpp G).
    destruct (mget pp leaf root); cbn [option_map].
    + destruct R as (r0 & Hr & Hs & Hw). rewrite Hr in H. inversion H; subst. rewrite Hs.
      simpl. now rewrite node_val_user.
    + inversion H; subst. auto.
Qed.

Lemma step_updv root v k ou' : wf_d root -> wf_val v = true -> wf_okey k = true ->
  rel_step root (OUpdV v k ou').
Proof.
  intros Hd Hv Hk ou r H. unfold step_model, ns_update_value in H. unfold step_spec.
  destruct k as [[|c k]|]; try (inversion H; subst; auto; fail).
  simpl in Hk. set (key := c :: k) in *.
  assert (G : meets_dict clash key root = false).
  { destruct (if ou' && ns_contains clash key root then Ok root else ns_setitem clash key v root);
      congruence. }
  pose proof (contains_refines root key Hd Hk G) as C.
  destruct (spec_key key) as [p|] eqn:Es.
  - rewrite C. destruct (ou' && ns_contains clash key root).
    + inversion H; subst. auto.
    + pose proof (step_set root key v Hd Hk Hv ou r) as S. unfold step_model, step_spec, spec_set_key in S.
      rewrite Es in S. apply S. exact H.
  - rewrite <- C in H. rewrite andb_false_r in H.
    pose proof (step_set root key v Hd Hk Hv ou r) as S. unfold step_model, step_spec, spec_set_key in S.
    rewrite Es in S. apply S. exact H.
Qed.

Lemma step_items root br : wf_d root -> rel_step root (OItems br).
Proof.
  intros Hd ou r H. unfold step_model in H. inversion H; subst ou r. unfold step_spec. simpl.
  destruct (items_commutes br (VNs root) Hd) as [I _]. unfold unmark_items in I.
  unfold ns_items, spec_items. rewrite I, user_node_ns. auto.
Qed.

Lemma step_commutes root o : wf_d root -> wf_op clash o = true -> core_op o = true -> rel_step root o.
Proof.
  intros Hd W C. destruct o; try discriminate C; simpl in W;
    repeat match goal with H : _ && _ = true |- _ => apply andb_true_iff in H; destruct H end.
  - now apply step_set.
  - apply step_setattr; auto. simpl. now rewrite H, H1, H0.
  - now apply step_get.
  - now apply step_getd.
  - now apply step_contains.
  - now apply step_del.
  - now apply step_pop.
  - now apply step_updv.
  - intros ou r E. inversion E; subst. auto.
  - now apply step_items.
  - intros ou r E. inversion E; subst. split; [|assumption].
    unfold step_spec, unmark_out. now rewrite (as_dict_agrees_proof r).
Qed.

(* ---- histories -------------------------------------------------------------------------- *)
Lemma run_refines ops : forall root, wf_d root ->
  forallb (wf_op clash) ops = true -> forallb core_op ops = true ->
  snd (run_model clash root ops) = false ->
  Forall2 rel_out (fst (run_model clash root ops)) (run_spec (abs_d root) ops).
Proof.
  induction ops as [|o ops IH]; intros root Hd W C G; simpl in *; [constructor|].
  apply andb_true_iff in W, C. destruct W as [Wo W], C as [Co C].
  destruct (step_model clash root o) as [[ou r] md] eqn:E.
  destruct (run_model clash r ops) as [rest md'] eqn:E'. simpl in G.
  apply orb_false_iff in G. destruct G as [-> G].
  destruct (step_commutes root o Hd Wo Co ou r E) as [S Hw]. rewrite S.
  specialize (IH r Hw W C). rewrite E' in IH. simpl in *.
  constructor; [split; reflexivity|]. now apply IH.
Qed.

Lemma hist_class_0 ops : hist_class clash ops = 0%N ->
  snd (run_model clash [] ops) = false /\ forallb (wf_op clash) ops = true /\ forallb core_op ops = true.
Proof.
  unfold hist_class. destruct (snd (run_model clash [] ops)); [discriminate|].
  destruct (forallb (wf_op clash) ops); [|discriminate].
  destruct (forallb core_op ops); [auto|discriminate].
Qed.

Lemma ns_refines_dict_proof ops : hist_class clash ops = 0%N ->
  Forall2 rel_out (fst (run_model clash [] ops)) (run_spec [] ops).
Proof.
  intros H. apply hist_class_0 in H. destruct H as (G & W & C).
  exact (run_refines ops [] wf_d_nil W C G).
Qed.

Lemma hist_class_0_iff ops : hist_class clash ops = 0%N <->
  snd (run_model clash [] ops) = false /\ forallb (wf_op clash) ops = true /\ forallb core_op ops = true.
Proof.
  split; [apply hist_class_0|]. intros (G & W & C). unfold hist_class. now rewrite G, W, C.
Qed.

Lemma abs_is_unmark r : node_val (Branch (abs_d r)) = unmark_val (VNs r).
Proof. rewrite <- user_node_ns. apply node_val_user. Qed.

(* a failing operation leaves the state as it was (update(ns) is the exception: no rollback) *)
Lemma failed_op_changes_nothing_proof root o r md :
  match o with OUpdNs _ _ _ => False | _ => True end ->
  step_model clash root o = (OutFail, r, md) -> r = root.
Proof.
  destruct o; simpl; intros N H; try contradiction; try congruence.
  - destruct (ns_setitem clash k v root); congruence.
  - destruct (ns_setattr clash k v root); congruence.
  - destruct (ns_getitem clash k root); congruence.
  - destruct (ns_delitem clash k root); congruence.
  - destruct (ns_pop clash k dflt root) as [[? ?]|]; congruence.
  - destruct (ns_update_value clash v k only_unset root); congruence.
  - destruct d; try congruence.
    destruct (fold_left _ d _) as [[r0 failed] md0]. destruct failed; congruence.
  - destruct (ns_get_steps clash k root); congruence.
  - destruct (ns_from_dict clash d); congruence.
Qed.

(* one dotted string = step by step (on the model itself, no guard needed except that the first
   step does not yield a dict) *)
Lemma split_dot_aux_app a rest : mem_N DOT a = false -> forall cur,
  split_dot_aux (a ++ DOT :: rest) cur = (rev cur ++ a) :: split_dot_aux rest [].
Proof.
  induction a as [|c a IH]; intros H cur; simpl in *.
  - change (N.eqb DOT DOT) with true. cbn iota. now rewrite app_nil_r.
  - apply orb_false_iff in H. destruct H as [H1 H2]. rewrite N.eqb_sym, H1.
    rewrite IH by assumption. simpl. now rewrite <- app_assoc.
Qed.

Lemma mem_N_app x a b : mem_N x (a ++ b) = mem_N x a || mem_N x b.
Proof. induction a; simpl; [reflexivity|]. now rewrite IHa, orb_assoc. Qed.

Lemma parse_key_dotted a rest : mem_N DOT a = false -> mem_N SPACE a = false -> is_empty a = false ->
  parse_key clash (a ++ DOT :: rest) = option_map (cons (mark a)) (parse_key clash rest).
Proof.
  intros H1 H2 H3. unfold parse_key, split_key. rewrite mem_N_app, H2. simpl.
  replace (N.eqb SPACE DOT) with false by reflexivity. simpl.
  destruct (mem_N SPACE rest); [reflexivity|].
  rewrite split_dot_aux_app by assumption. simpl. rewrite H3. simpl.
  destruct (existsb is_empty (split_dot_aux rest [])); reflexivity.
Qed.

Lemma parse_key_single a : mem_N DOT a = false -> mem_N SPACE a = false -> is_empty a = false ->
  parse_key clash a = Some [mark a].
Proof.
  intros H1 H2 H3. rewrite parse_spec, spec_key_nodot by assumption. reflexivity.
Qed.

Lemma parse_key_nonnil key ks : parse_key clash key = Some ks -> ks <> [].
Proof.
  rewrite parse_spec. destruct (spec_key key) eqn:E; [|discriminate]. intros H; inversion H; subst.
  unfold spec_key in E. destruct (mem_N SPACE key); [discriminate|].
  destruct (existsb is_empty (split_key key)); [discriminate|]. inversion E; subst.
  intros M. apply map_eq_nil in M. revert M. apply split_dot_aux_nonnil.
Qed.

Lemma dotted_eq_stepwise_proof a rest root :
  mem_N DOT a = false -> mem_N SPACE a = false -> is_empty a = false ->
  match ns_getitem clash a root with
  | Ok (VNs d') => ns_getitem clash (a ++ DOT :: rest) root = ns_getitem clash rest d'
  | Ok (VDict _) => True
  | _ => ns_getitem clash (a ++ DOT :: rest) root = Fail
  end.
Proof.
  intros H1 H2 H3. unfold ns_getitem at 1. rewrite (parse_key_single a H1 H2 H3).
  unfold split_last. simpl.
  assert (L : ns_getitem clash (a ++ DOT :: rest) root =
              match parse_key clash rest with
              | None => Fail
              | Some ks => match walk (mark a :: removelast ks) (VNs root) with
                           | Some (VNs d) => match aget (last ks []) d with Some v => Ok v | None => Fail end
                           | _ => Fail
                           end
              end).
  { unfold ns_getitem. rewrite (parse_key_dotted a rest H1 H2 H3).
    destruct (parse_key clash rest) as [ks|] eqn:E; [|reflexivity]. simpl.
    pose proof (parse_key_nonnil rest ks E) as N. unfold split_last.
    destruct ks as [|k0 ks]; [contradiction|]. reflexivity. }
  rewrite L. unfold ns_getitem. simpl.
  destruct (aget (mark a) root) as [v|]; [|destruct (parse_key clash rest); reflexivity].
  destruct v; destruct (parse_key clash rest); reflexivity.
Qed.

Lemma items_agree_proof br root : wf_val (VNs root) = true ->
  map (fun kv => (fst kv, unmark_val (snd kv))) (ns_items br root) = spec_items br (abs_d root).
Proof.
  intros W. unfold ns_items, spec_items. rewrite <- user_node_ns.
  exact (proj1 (items_commutes br (VNs root) W)).
Qed.

End WithClash.

(* the observable behaviour does not depend on the clash set *)
Lemma clash_names_transparent_proof c1 c2 ops :
  hist_class c1 ops = 0%N -> hist_class c2 ops = 0%N ->
  Forall2 (fun m1 m2 : out * alist => unmark_out (fst m1) = unmark_out (fst m2) /\ abs_d (snd m1) = abs_d (snd m2))
          (fst (run_model c1 [] ops)) (fst (run_model c2 [] ops)).
Proof.
  intros H1 H2. apply ns_refines_dict_proof in H1, H2. revert H1 H2.
  generalize (fst (run_model c1 [] ops)) (fst (run_model c2 [] ops)) (run_spec [] ops).
  intros l1. induction l1 as [|m1 l1 IH]; intros l2 ls A B; inversion A; subst; inversion B; subst;
    constructor.
  - unfold rel_out in *. intuition congruence.
  - eapply IH; eauto.
Qed.

(* C20 — the three regular expressions of range_deserializer, as translated from the source
   (Gen/C20Regexes.v), accept EXACTLY the texts the hand-written scanner `match_ints` of
   Model/C20Registered.v accepts: for every string, not per case. If the source's patterns change,
   the shape lemmas below (proved by reflexivity against the regenerated file) stop compiling. *)
From JV Require Import Lib.Base Lib.C20Text Lib.C20Regex Model.C20Base Gen.C20Regexes Model.C20Registered
  Proofs.C20RegisteredProofs.

Definition rD : rx := RCls [(48%N, 57%N)] false.
Definition rMinus : rx := RCls [(45%N, 45%N)] false.
Definition rComma : rx := RCls [(44%N, 44%N)] false.
Definition rInt : rx := RCat (RAlt REps rMinus) (RCat rD (RStar rD)).

Lemma shape1 : rx_re_range_stop = {| p_body := rInt; p_end := true; p_multi := false |}.
Proof. reflexivity. Qed.
Lemma shape2 : rx_re_range_start_stop = {| p_body := RCat rInt (RCat rComma rInt); p_end := true; p_multi := false |}.
Proof. reflexivity. Qed.
Lemma shape3 : rx_re_range_start_stop_step
               = {| p_body := RCat rInt (RCat rComma (RCat rInt (RCat rComma rInt))); p_end := true; p_multi := false |}.
Proof. reflexivity. Qed.

(* ---- single characters *)
Lemma cls_digit c : cls_match [(48%N, 57%N)] false c = is_digit c.
Proof. unfold cls_match, in_ranges, is_digit. simpl. rewrite orb_false_r, xorb_false_r. reflexivity. Qed.

Lemma cls_one k c : cls_match [(k, k)] false c = N.eqb c k.
Proof.
  unfold cls_match, in_ranges. simpl. rewrite orb_false_r, xorb_false_r.
  destruct (N.eqb_spec c k).
  - subst. rewrite N.leb_refl. reflexivity.
  - destruct (N.leb_spec k c), (N.leb_spec c k); simpl; auto. exfalso. apply n. lia.
Qed.

Lemma lang_D s : lang rD s <-> exists c, s = [c] /\ is_digit c = true.
Proof.
  split.
  - intros H. apply cls_inv in H. destruct H as [c [E H]]. rewrite cls_digit in H. eauto.
  - intros [c [E H]]. subst. constructor. rewrite cls_digit. exact H.
Qed.

Lemma lang_one k s : lang (RCls [(k, k)] false) s <-> s = [k].
Proof.
  split.
  - intros H. apply cls_inv in H. destruct H as [c [E H]]. rewrite cls_one in H. apply N.eqb_eq in H. congruence.
  - intros ->. constructor. rewrite cls_one. apply N.eqb_refl.
Qed.

(* ---- \d* *)
Lemma star_D_fwd r s : lang r s -> r = RStar rD -> forallb is_digit s = true.
Proof.
  induction 1; intros E; try discriminate.
  - reflexivity.
  - inversion E; subst. apply lang_D in H. destruct H as [c [-> Hc]]. simpl. rewrite Hc. auto.
Qed.

Lemma star_D s : lang (RStar rD) s <-> forallb is_digit s = true.
Proof.
  split.
  - intros H. eapply star_D_fwd; eauto.
  - induction s as [|c s IH]; simpl; intros H.
    + constructor.
    + apply andb_true_iff in H. destruct H as [H1 H2]. change (c :: s) with ([c] ++ s).
      constructor; [apply lang_D; eauto | auto].
Qed.

(* ---- -?\d+ *)
Lemma digit_not_minus c : is_digit c = true -> N.eqb c 45 = false.
Proof. intros H. apply digit_bounds in H. apply N.eqb_neq. lia. Qed.

Lemma lang_int s : lang rInt s <-> int_tok s = true.
Proof.
  unfold rInt. split.
  - intros H. apply cat_inv in H. destruct H as [s1 [s2 [-> [H1 H2]]]].
    apply cat_inv in H2. destruct H2 as [d [t [-> [Hd Ht]]]].
    apply lang_D in Hd. destruct Hd as [c [-> Hc]]. apply star_D in Ht.
    apply alt_inv in H1. destruct H1 as [H1|H1].
    + apply eps_inv in H1. subst. simpl. unfold int_tok. rewrite (digit_not_minus c Hc). simpl. rewrite Hc. exact Ht.
    + apply lang_one in H1. subst. simpl. unfold int_tok. simpl. rewrite Hc. exact Ht.
  - unfold int_tok. destruct s as [|c r]; [discriminate|].
    destruct (N.eqb c 45) eqn:E.
    + apply N.eqb_eq in E. subst. destruct r as [|d t]; [discriminate|]. simpl. intros H.
      apply andb_true_iff in H. destruct H as [Hd Ht].
      change (45%N :: d :: t) with ([45%N] ++ ([d] ++ t)).
      constructor; [apply LAltR; apply lang_one; reflexivity|].
      constructor; [apply lang_D; eauto | apply star_D; auto].
    + simpl. intros H. apply andb_true_iff in H. destruct H as [Hd Ht].
      change (c :: r) with ([] ++ ([c] ++ r)).
      constructor; [apply LAltL; constructor|].
      constructor; [apply lang_D; eauto | apply star_D; auto].
Qed.

(* an integer token has no comma and ends in a digit *)
Lemma int_tok_nocomma s : int_tok s = true -> forallb (fun c => negb (N.eqb c 44)) s = true.
Proof.
  unfold int_tok. intros H. apply andb_true_iff in H. destruct H as [_ H].
  assert (D : forall t, forallb is_digit t = true -> forallb (fun c => negb (N.eqb c 44)) t = true).
  { intros t. apply forallb_impl. intros c Hc. apply digit_bounds in Hc. apply negb_true_iff. apply N.eqb_neq. lia. }
  destruct s as [|c r]; [reflexivity|]. destruct (N.eqb c 45) eqn:E.
  - apply N.eqb_eq in E. subst. simpl. apply D. exact H.
  - apply D. exact H.
Qed.

Lemma int_tok_last s : int_tok s = true -> exists u d, s = u ++ [d] /\ is_digit d = true.
Proof.
  unfold int_tok. intros H. apply andb_true_iff in H. destruct H as [N H].
  assert (L : forall t, is_nil t = false -> forallb is_digit t = true -> exists u d, t = u ++ [d] /\ is_digit d = true).
  { intros t Hn Hd. destruct (exists_last' t Hn) as [u [d E]]. subst. exists u, d. split; auto.
    rewrite forallb_app in Hd. apply andb_true_iff in Hd. destruct Hd as [_ Hd]. simpl in Hd.
    rewrite andb_true_r in Hd. exact Hd. }
  apply negb_true_iff in N.
  destruct s as [|c r]; [discriminate|]. destruct (N.eqb c 45) eqn:E.
  - destruct (L r N H) as [u [d [-> Hd]]]. exists (c :: u), d. auto.
  - apply (L (c :: r) N H).
Qed.

(* ---- split_on inversions *)
Lemma split_on_single_inv sep t p : split_on sep t = [p] -> t = p.
Proof.
  revert p. induction t as [|c t IH]; simpl; intros p H.
  - congruence.
  - destruct (split_on sep t) as [|hd tl] eqn:E; [exfalso; eapply split_on_nonnil; eauto|].
    destruct (N.eqb c sep); [discriminate|]. inversion H; subst. f_equal. apply IH. reflexivity.
Qed.

Lemma split_on_cons_inv sep t p q rest :
  split_on sep t = p :: q :: rest -> exists t', t = p ++ sep :: t' /\ split_on sep t' = q :: rest.
Proof.
  revert p. induction t as [|c t IH]; simpl; intros p H.
  - discriminate.
  - destruct (split_on sep t) as [|hd tl] eqn:E; [exfalso; eapply split_on_nonnil; eauto|].
    destruct (N.eqb_spec c sep).
    + inversion H; subst. exists t. split; auto.
    + inversion H; subst. destruct (IH hd eq_refl) as [t' [-> E']]. exists t'. split; auto.
Qed.

(* ---- the three bodies *)
Definition parts_ok (n : nat) (t : str) : bool :=
  Nat.eqb (length (split_on 44 t)) n && forallb int_tok (split_on 44 t).

Lemma body1 t : lang rInt t <-> parts_ok 1 t = true.
Proof.
  rewrite lang_int. unfold parts_ok. split.
  - intros H. rewrite (split_on_nosep 44 t (int_tok_nocomma t H)). simpl. rewrite H. reflexivity.
  - intros H. apply andb_true_iff in H. destruct H as [L F].
    destruct (split_on 44 t) as [|p [|q r]] eqn:E; try discriminate.
    apply split_on_single_inv in E. subst. simpl in F. rewrite andb_true_r in F. exact F.
Qed.

Lemma body_step r n t :
  (forall u, lang r u <-> parts_ok (S n) u = true) ->
  (lang (RCat rInt (RCat rComma r)) t <-> parts_ok (S (S n)) t = true).
Proof.
  intros IH. split.
  - intros H. apply cat_inv in H. destruct H as [a [x [-> [Ha Hx]]]].
    apply cat_inv in Hx. destruct Hx as [k [u [-> [Hk Hu]]]].
    apply lang_one in Hk. subst. apply lang_int in Ha. apply IH in Hu.
    unfold parts_ok in *. simpl. rewrite (split_on_app 44 a u (int_tok_nocomma a Ha)).
    apply andb_true_iff in Hu. destruct Hu as [L F]. simpl. rewrite Ha, F.
    simpl in L. rewrite L. reflexivity.
  - intros H. unfold parts_ok in H. apply andb_true_iff in H. destruct H as [L F].
    destruct (split_on 44 t) as [|p [|q rest]] eqn:E; try discriminate.
    destruct (split_on_cons_inv 44 t p q rest E) as [t' [-> E']].
    simpl in F. apply andb_true_iff in F. destruct F as [Fp Fr].
    constructor; [apply lang_int; exact Fp|].
    change (44%N :: t') with ([44%N] ++ t'). constructor; [apply lang_one; reflexivity|].
    apply IH. unfold parts_ok. rewrite E'. simpl in L. simpl. rewrite L. exact Fr.
Qed.

Lemma body2 t : lang (RCat rInt (RCat rComma rInt)) t <-> parts_ok 2 t = true.
Proof. apply body_step. apply body1. Qed.

Lemma body3 t : lang (RCat rInt (RCat rComma (RCat rInt (RCat rComma rInt)))) t <-> parts_ok 3 t = true.
Proof. apply body_step. apply body2. Qed.

(* texts with all parts integer tokens end in a digit: never in a newline *)
Lemma parts_ok_last n t : parts_ok n t = true -> exists u d, t = u ++ [d] /\ is_digit d = true.
Proof.
  unfold parts_ok. intros H. apply andb_true_iff in H. destruct H as [_ F]. clear n.
  remember (split_on 44 t) as ps eqn:E. revert t E. induction ps as [|p ps IH]; intros t E.
  - exfalso. eapply split_on_nonnil; eauto.
  - simpl in F. apply andb_true_iff in F. destruct F as [Fp Fr]. destruct ps as [|q rest].
    + symmetry in E. apply split_on_single_inv in E. subst. apply int_tok_last. exact Fp.
    + symmetry in E. destruct (split_on_cons_inv 44 t p q rest E) as [t' [-> E']].
      destruct (IH Fr t' (eq_sym E')) as [u [d [-> Hd]]].
      exists (p ++ 44%N :: u), d. split; auto. rewrite <- app_assoc. reflexivity.
Qed.

Lemma chop_nl_snoc s : chop_nl (s ++ [10%N]) = s.
Proof.
  unfold chop_nl, ends_with. rewrite rev_app_distr. simpl. apply removelast_last.
Qed.

Lemma chop_nl_none s : chop_final_nl s = None -> chop_nl s = s.
Proof.
  unfold chop_final_nl, chop_nl, ends_with. change (rev [10%N]) with [10%N].
  destruct (rev s) as [|x r]; [reflexivity|]. cbn [starts_with].
  destruct (N.eqb_spec 10 x) as [<-|Hne]; [intros H; simpl in H; discriminate|]. reflexivity.
Qed.

Lemma end_match body n :
  (forall t, lang body t <-> parts_ok n t = true) ->
  forall w, re_match {| p_body := body; p_end := true; p_multi := false |} w = parts_ok n (chop_nl w).
Proof.
  intros B w. unfold re_match. cbn [p_end p_body p_multi].
  assert (FM : forall t, fullmatch body t = parts_ok n t).
  { intros t. destruct (fullmatch body t) eqn:E.
    - apply fullmatch_iff in E. apply B in E. auto.
    - destruct (parts_ok n t) eqn:P; auto. apply B in P. apply fullmatch_iff in P. congruence. }
  destruct (chop_final_nl w) as [w'|] eqn:E.
  - apply chop_final_nl_iff in E. subst. rewrite chop_nl_snoc. rewrite !FM.
    destruct (parts_ok n (w' ++ [10%N])) eqn:P; auto.
    apply parts_ok_last in P. destruct P as [u [d [E Hd]]]. apply app_inj_tail in E. destruct E as [_ E].
    subst. discriminate.
  - rewrite (chop_nl_none w E), FM. apply orb_false_r.
Qed.

Lemma match_ints_parts n w : is_some (match_ints n w) = parts_ok n (chop_nl w).
Proof. unfold match_ints, parts_ok. destruct (_ && _); reflexivity. Qed.

Theorem range_regexes_lemma w :
  re_match rx_re_range_stop w = is_some (match_ints 1 w)
  /\ re_match rx_re_range_start_stop w = is_some (match_ints 2 w)
  /\ re_match rx_re_range_start_stop_step w = is_some (match_ints 3 w).
Proof.
  rewrite shape1, shape2, shape3, !match_ints_parts.
  repeat split; apply end_match; [apply body1 | apply body2 | apply body3].
Qed.

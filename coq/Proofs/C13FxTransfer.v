(* C13 — inside the guard of the theorems (klass = 0) the four repairs change nothing: the repaired
   resolver (Model/C13KwargsFx.v, all flags set) returns what the faithful model returns.  So
   C13_resolver_sound also speaks about the repaired implementation on those programs. *)
From JV Require Import Lib.Base Model.Kwargs Model.KwargsGuard Model.C13KwargsFx Spec.KwargsSpec
  Proofs.KwargsProofs.

Lemma callee_frame_allfx f P fr k :
  callee_agree f P fr k = true ->
  callee_frame_fx all_fixes f P fr k = callee_frame Resolver f P fr k.
Proof.
  intro Hag. destruct k as [|i|c|m|c]; try reflexivity.
  - rewrite <- (callee_agree_eq f P fr (KClass c) Hag). reflexivity.
  - rewrite <- (callee_agree_eq f P fr (KMeth m) Hag). reflexivity.
Qed.

Lemma filter_removed_noop g ps pre :
  (forall n, In n g -> ~ In n pre) ->
  filter (fun n => negb (mem_str n pre)) (removed_of g ps) = removed_of g ps.
Proof.
  intro H. unfold removed_of. induction (names ps) as [|x l IH]; [reflexivity|].
  simpl. destruct (mem_str x g) eqn:E; [|exact IH].
  simpl. assert (Hx : mem_str x pre = false).
  { apply mem_str_false. apply H. apply mem_str_In. exact E. }
  rewrite Hx. simpl. rewrite IH. reflexivity.
Qed.

Lemma pg_names_cons_pg pop n k z body : pg_names (SPG pop n k z :: body) = n :: pg_names body.
Proof. reflexivity. Qed.
Lemma pg_names_cons_call c np g body : pg_names (SCall c np g :: body) = pg_names body.
Proof. reflexivity. Qed.

Lemma collect_allfx_eq rec1 rec2 cf1 cf2 : forall body pre,
  (forall c np g, In (SCall c np g) body ->
     cf1 c = cf2 c /\ (forall fr', cf2 c = Ok (Some fr') -> rec1 fr' = rec2 fr')
     /\ (forall n, In n g -> ~ In n (pre ++ pg_names body))) ->
  collect_fx all_fixes rec1 cf1 body pre = collect rec2 cf2 body.
Proof.
  induction body as [|s body IH]; intros pre H; [reflexivity|].
  destruct s as [pop n k z|c np g]; cbn [collect_fx collect].
  - rewrite IH; [reflexivity|].
    intros c np g Hin. destruct (H c np g (or_intror Hin)) as (H1 & H2 & H3).
    split; [exact H1|]. split; [exact H2|].
    intros n0 Hg Hn. apply (H3 n0 Hg). rewrite pg_names_cons_pg.
    apply in_app_or in Hn. apply in_or_app. destruct Hn as [Hn|Hn].
    + destruct pop; [destruct Hn as [Hn|Hn]; [right; left; exact Hn|left; exact Hn]|left; exact Hn].
    + right. right. exact Hn.
  - destruct (H c np g (or_introl eq_refl)) as (H1 & H2 & H3).
    rewrite H1.
    assert (Hps : match cf2 c with Err e => Err e | Ok None => Ok [] | Ok (Some fr') => rec1 fr' end
                  = match cf2 c with Err e => Err e | Ok None => Ok [] | Ok (Some fr') => rec2 fr' end).
    { destruct (cf2 c) as [[fr'|]|e]; try reflexivity. apply H2. reflexivity. }
    rewrite Hps. clear Hps.
    destruct (match cf2 c with Err e => Err e | Ok None => Ok [] | Ok (Some fr') => rec2 fr' end) as [ps|e];
      [|reflexivity].
    rewrite IH.
    + destruct (collect rec2 cf2 body) as [[ls rm]|e]; [|reflexivity].
      cbn [all_fixes fx_pop]. rewrite filter_removed_noop; [reflexivity|].
      intros n0 Hg Hn. apply (H3 n0 Hg). apply in_or_app. left. exact Hn.
    + intros c0 np0 g0 Hin. destruct (H c0 np0 g0 (or_intror Hin)) as (H1' & H2' & H3').
      split; [exact H1'|]. split; [exact H2'|]. rewrite pg_names_cons_call in H3'. exact H3'.
Qed.

Lemma group_allfx lists g : group lists = Ok g -> group_fx all_fixes lists = Ok g.
Proof.
  unfold group, group_fx. destruct lists as [|[b l] [|x r]]; cbn [all_fixes fx_crash negb andb];
    try (intro H; exact H);
    match goal with |- context [if ?c then _ else _] => destruct c end;
    intro H; try discriminate; exact H.
Qed.

Lemma existsb_false_In (given pgs : list str) :
  existsb (fun n => mem_str n given) pgs = false -> forall n, In n given -> ~ In n pgs.
Proof.
  intros H n Hg Hp.
  assert (E : existsb (fun n => mem_str n given) pgs = true).
  { apply existsb_exists. exists n. split; [exact Hp|]. apply mem_str_In. exact Hg. }
  rewrite E in H. discriminate.
Qed.

Theorem fx_same_in_guard : forall fuel P fr,
  klass fuel P fr = 0%N -> resolve_frame_fx all_fixes fuel P fr = resolve_frame fuel P fr.
Proof.
  induction fuel as [|f' IH]; intros P fr Hk; [discriminate|].
  pose proof (klass_inv f' P fr Hk) as (Hnd & Hnokw & Hkw).
  cbn [resolve_frame_fx resolve_frame].
  assert (Hstep : ast_step_fx all_fixes (resolve_frame_fx all_fixes f' P) (callee_frame_fx all_fixes f' P fr) fr
                  = ast_step (resolve_frame f' P) (callee_frame Resolver f' P fr) fr).
  { unfold ast_step_fx, ast_step.
    destruct (f_kw (fr_fn fr)) eqn:Ekw; [|reflexivity]. cbn [negb].
    destruct (Hkw eq_refl) as (Hsu & (R0 & Ha) & Hfc).
    assert (Hcol : collect_fx all_fixes (resolve_frame_fx all_fixes f' P) (callee_frame_fx all_fixes f' P fr)
                     (f_body (fr_fn fr)) []
                   = collect (resolve_frame f' P) (callee_frame Resolver f' P fr) (f_body (fr_fn fr))).
    { apply collect_allfx_eq. intros c np g Hin.
      destruct (find_call (f_body (fr_fn fr)) []) as [[[[k npos] given] pre]|] eqn:Hf.
      - destruct (find_call_unique k npos given pre _ _ c np g Hf Hsu Hin) as (-> & -> & ->).
        destruct Hfc as (Hag & Hcf).
        assert (Hfr : callee_frame_fx all_fixes f' P fr k = callee_frame Resolver f' P fr k).
        { apply callee_frame_allfx. exact Hag. }
        split; [exact Hfr|].
        destruct (callee_frame Resolver f' P fr k) as [[fr0|]|e] eqn:Ecf; [| |contradiction].
        + destruct Hcf as (Hk0 & R' & Hr & H3 & _).
          split.
          * intros fr' Efr. inversion Efr; subst fr'. apply IH. exact Hk0.
          * cbn [app]. apply existsb_false_In. exact H3.
        + destruct Hcf as (_ & _ & Hg & _). subst given.
          split; [intros fr' Efr; discriminate|]. intros n [].
      - exfalso. apply find_call_None in Hf.
        assert (Hp : is_pg (SCall c np g) = true).
        { eapply forallb_forall in Hf; [exact Hf|exact Hin]. }
        discriminate. }
    rewrite Hcol. unfold ast_step in Ha. rewrite Ekw in Ha. cbn [negb] in Ha.
    destruct (collect (resolve_frame f' P) (callee_frame Resolver f' P fr) (f_body (fr_fn fr)))
      as [[lists removed]|e]; [|reflexivity].
    destruct (group lists) as [g|e] eqn:Eg; [|discriminate].
    rewrite (group_allfx lists g Eg). reflexivity. }
  rewrite Hstep. reflexivity.
Qed.

Theorem fx_same_in_guard_top fuel P c :
  klass_top fuel P c = 0%N -> resolve_fx all_fixes fuel P c = resolve fuel P c.
Proof.
  intro H. pose proof (klass_top_inv fuel P c H) as Hinv.
  unfold resolve_fx, resolve, class_frame_fx. cbn [all_fixes fx_mro].
  destruct Hinv as (Hag & Hinv).
  rewrite (class_agree_eq fuel P c Hag).
  destruct (class_frame Resolver fuel P c) as [[fr|]|e]; try reflexivity.
  apply fx_same_in_guard. exact Hinv.
Qed.

Lemma sound_class_fx fuel P c R kws :
  klass_top fuel P c = 0%N ->
  resolve_fx all_fixes fuel P c = Ok R ->
  NoDup kws ->
  (forall n, In n kws -> In n (names R)) ->
  good_outcome (fst (call fuel P c kws)) = true.
Proof.
  intros H Hr. rewrite (fx_same_in_guard_top fuel P c H) in Hr. apply sound_class; assumption.
Qed.

(* ---- classes that inherit __init__ (repaired resolver, fx_mro) ------------------------------------- *)
Lemma klass_top_inh_widens fuel P c : klass_top fuel P c = 0%N -> klass_top_inh fuel P c = 0%N.
Proof.
  intro H. destruct (klass_top_inv _ _ _ H) as [Hag Hfr]. unfold klass_top_inh.
  rewrite (class_agree_eq _ _ _ Hag).
  destruct (class_frame Resolver fuel P c) as [[fr|]|]; [exact Hfr|reflexivity|destruct Hfr].
Qed.

Lemma sound_class_inh fuel P c R kws :
  klass_top_inh fuel P c = 0%N ->
  resolve_fx all_fixes fuel P c = Ok R ->
  NoDup kws ->
  (forall n, In n kws -> In n (names R)) ->
  good_outcome (fst (call fuel P c kws)) = true.
Proof.
  unfold klass_top_inh, resolve_fx, class_frame_fx, call. cbn [all_fixes fx_mro].
  intros Hk Hr Hnd Hin.
  destruct (class_frame Interp fuel P c) as [[fr|]|e]; [| |discriminate].
  - rewrite (fx_same_in_guard fuel P fr Hk) in Hr.
    eapply sound_frame; eauto. lia.
  - inversion Hr; subst R. destruct kws as [|n r]; [reflexivity|].
    destruct (Hin n (or_introl eq_refl)).
Qed.

(* what the repaired resolver offers for a class that inherits __init__ is what the faithful model offers for
   the frame of the inherited __init__ at its own MRO position *)
Lemma resolve_inh_frame fuel P c fr :
  class_frame Interp fuel P c = Ok (Some fr) -> klass fuel P fr = 0%N ->
  resolve_fx all_fixes fuel P c = resolve_frame fuel P fr.
Proof.
  intros Hcf Hk. unfold resolve_fx, class_frame_fx. cbn [all_fixes fx_mro]. rewrite Hcf.
  apply fx_same_in_guard. exact Hk.
Qed.


(* C10 — namespace level: the configuration parse_object returns validates, and handed back to
   parse_object (every declared key with its value) it is returned unchanged — defaults are applied
   once, values are normalised once.  For ANY text readers, any parser with distinct keys. *)
From JV Require Import Lib.Base Model.C10Adapt Model.C10Parser Proofs.C10AdaptProofs.

Section ParserProofs.
Variable jload : str -> lres.
Variable pval : bool -> str -> lres.
Variable ikey : str -> option Z.

Notation check_type := (check_type jload pval ikey).
Notation key_guard := (key_guard jload pval ikey).
Notation apply_action := (apply_action jload pval ikey).
Notation key_value := (key_value jload pval ikey).
Notation sub_defaults := (sub_defaults jload pval ikey).
Notation default_value := (default_value jload pval ikey).
Notation validate_all := (validate_all jload pval ikey).
Notation parse_flat := (parse_flat jload pval ikey).
Notation decl_guard := (decl_guard jload pval ikey).
Notation ns_guard := (ns_guard jload pval ikey).

Lemma mapM_change {A B} (f g : A -> option B) : forall l r,
  mapM f l = Some r ->
  (forall x y, In (x, y) (combine l r) -> f x = Some y -> g x = Some y) ->
  mapM g l = Some r.
Proof.
  induction l as [|x l IH]; intros r H K; simpl in *.
  - exact H.
  - destruct (f x) as [y|] eqn:E; [|discriminate]. destruct (mapM f l) as [r0|] eqn:E0; [|discriminate].
    inversion H; subst. simpl in K.
    rewrite (K x y (or_introl eq_refl) E).
    rewrite (IH r0 eq_refl); [reflexivity|]. intros x0 y0 I. apply K. now right.
Qed.

Lemma mapM_length {A B} (f : A -> option B) : forall l r, mapM f l = Some r -> length r = length l.
Proof.
  induction l as [|x l IH]; intros r H; simpl in *.
  - now inversion H.
  - destruct (f x); [|discriminate]. destruct (mapM f l) as [r0|]; [|discriminate].
    inversion H; subst. simpl. now rewrite (IH r0).
Qed.

Lemma str_eqb_sym a b : str_eqb a b = str_eqb b a.
Proof.
  destruct (str_eqb a b) eqn:E.
  - apply str_eqb_spec in E. subst. symmetry. apply str_eqb_refl.
  - destruct (str_eqb b a) eqn:E'; [|reflexivity]. apply str_eqb_spec in E'. subst.
    rewrite str_eqb_refl in E. discriminate.
Qed.

Lemma lookup_combine : forall (p : parser) (cfg : list val) d w,
  nodup_keys p = true -> In (d, w) (combine p cfg) ->
  lookup (combine (map d_key p) cfg) (d_key d) = Some w.
Proof.
  induction p as [|d0 p IH]; intros cfg d w N I; simpl in *; [contradiction|].
  destruct cfg as [|w0 cfg]; simpl in *; [contradiction|].
  apply andb_true_iff in N. destruct N as [N1 N2].
  destruct I as [I|I].
  - inversion I; subst. now rewrite str_eqb_refl.
  - assert (Id : In d p) by (eapply in_combine_l; eauto).
    assert (F : str_eqb (d_key d0) (d_key d) = false).
    { apply negb_true_iff in N1. rewrite str_eqb_sym.
      destruct (str_eqb (d_key d) (d_key d0)) eqn:E; [|reflexivity].
      assert (X : existsb (fun d' => str_eqb (d_key d') (d_key d0)) p = true)
        by (apply existsb_exists; exists d; auto).
      congruence. }
    rewrite F. now apply IH.
Qed.

Lemma find_decl_in : forall (p : parser) d, In d p -> exists d', find_decl p (d_key d) = Some d'.
Proof.
  induction p as [|d0 p IH]; intros d I; simpl in *; [contradiction|].
  destruct (str_eqb (d_key d0) (d_key d)) eqn:E; [eauto|].
  destruct I as [I|I]; [subst; rewrite str_eqb_refl in E; discriminate|]. now apply IH.
Qed.

(* re-applying an action to what it produced *)
Lemma apply_action_fixed d y w :
  (is_none y || key_guard (d_default d) (d_ty d) y) = true ->
  apply_action d y = Some w -> apply_action d w = Some w.
Proof.
  unfold apply_action. intros G H. destruct (is_none y) eqn:Ny.
  - inversion H; subst. reflexivity.
  - simpl in G. destruct (check_type (d_default d) (d_ty d) y) as [x|] eqn:C; [|discriminate].
    inversion H; subst. destruct (is_none w) eqn:Nw; [destruct w; try discriminate; reflexivity|].
    now rewrite (check_type_fixed jload pval ikey _ _ _ _ G C).
Qed.

(* ... and add_sub_defaults leaves it alone *)
Lemma sub_defaults_fixed d w : apply_action d w = Some w -> sub_defaults d w = Some w.
Proof.
  unfold apply_action, sub_defaults. destruct (is_str w) eqn:S; [|reflexivity].
  destruct w; try discriminate. simpl.
  destruct (check_type (d_default d) (d_ty d) (VStr s)); intro H; inversion H; subst; reflexivity.
Qed.

Lemma validate_all_In : forall (p : parser) cfg, validate_all p cfg = true -> length cfg = length p.
Proof.
  induction p as [|d p IH]; destruct cfg as [|w cfg]; simpl; intro H; try discriminate; [reflexivity|].
  apply andb_true_iff in H. destruct H as [_ H]. now rewrite (IH cfg H).
Qed.

Theorem parse_flat_fixed p asg cfg :
  nodup_keys p = true -> ns_guard p asg = true -> parse_flat p asg = Some cfg ->
  validate_all p cfg = true /\ parse_flat p (as_assignments p cfg) = Some cfg.
Proof.
  intros N G H. unfold parse_flat in H.
  destruct (negb (forallb _ asg)); [discriminate|].
  destruct (mapM (key_value asg) p) as [c|] eqn:M; [|discriminate].
  destruct (validate_all p c) eqn:V; [|discriminate]. inversion H; subst c. clear H.
  split; [exact V|].
  unfold parse_flat.
  assert (K : forallb (fun kv => match find_decl p (fst kv) with Some _ => true | None => false end)
                      (as_assignments p cfg) = true).
  { apply forallb_forall. intros [k w] I. unfold as_assignments in I. apply in_combine_l in I.
    apply in_map_iff in I. destruct I as (d & E & I). subst k. simpl.
    destruct (find_decl_in p d I) as (d' & F). now rewrite F. }
  rewrite K. simpl.
  rewrite (mapM_change (key_value asg) (key_value (as_assignments p cfg)) p cfg M).
  - now rewrite V.
  - intros d w I Kv.
    assert (Gd : decl_guard asg d = true).
    { unfold ns_guard in G. rewrite forallb_forall in G. apply G. eapply in_combine_l; eauto. }
    unfold key_value in Kv |- *. unfold decl_guard in Gd.
    destruct (default_value d) as [dv|] eqn:A; [|discriminate].
    unfold as_assignments. rewrite (lookup_combine p cfg d w N I).
    (* in the first pass the value before add_sub_defaults is already a fixed point of the action *)
    assert (X : exists w0, apply_action d w0 = Some w0 /\ sub_defaults d w0 = Some w).
    { destruct (lookup asg (d_key d)) as [y|].
      - destruct (apply_action d y) as [w0|] eqn:Ay; [|discriminate]. exists w0. split; [|exact Kv].
        eapply apply_action_fixed; eauto.
      - exists dv. split; [|exact Kv]. unfold default_value in A.
        destruct (sub_defaults d (d_default d)) as [d1|]; [|discriminate].
        eapply apply_action_fixed; eauto. }
    destruct X as (w0 & F0 & S0). rewrite (sub_defaults_fixed _ _ F0) in S0. inversion S0; subst w0.
    rewrite F0. now apply sub_defaults_fixed.
Qed.

(* and the round trip can be repeated: the result of the re-parse is again a fixed point
   (its guard is the key-level guard on already-adapted values) *)
Corollary parse_flat_validates p asg cfg :
  parse_flat p asg = Some cfg -> validate_all p cfg = true.
Proof.
  unfold parse_flat. destruct (negb _); [discriminate|].
  destruct (mapM _ p) as [c|]; [|discriminate].
  destruct (validate_all p c) eqn:V; [|discriminate]. intro H. now inversion H; subst.
Qed.

End ParserProofs.

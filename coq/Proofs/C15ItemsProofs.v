(* C15 — the invariant for targets that are parameters of the ITEMS of a list of classes
   (link_arguments("u", "cs.init_args.q") with cs : List[Base]): after a successful parse every item of the list
   that takes the parameter holds compute_fn(final sources). [holds] (Proofs/C15Proofs.v) speaks about keys of the
   configuration only, which do not reach into list items; this file adds the statement about the items. *)
From JV Require Import Lib.Base Lib.C15Val Model.C15Links Proofs.C15Proofs.

Lemma get_set_below k : forall v x r, get (set v k x) (k ++ r) = get x r.
Proof.
  induction k as [|s k IH]; intros v x r; [reflexivity|].
  simpl. rewrite alookup_aset_same. apply IH.
Qed.

Lemma get_set_above d : forall v c x, c <> [] -> exists m, get (set v (d ++ c) x) d = Some (VMap m).
Proof.
  induction d as [|s d IH]; intros v c x N.
  - destruct c as [|t c]; [congruence|]. simpl. eexists. reflexivity.
  - simpl. rewrite alookup_aset_same. apply IH. exact N.
Qed.

Lemma comparable_app_same d : forall a b, comparable (d ++ a) (d ++ b) = comparable a b.
Proof.
  induction d as [|s d IH]; intros a b; [reflexivity|].
  unfold comparable in *. simpl. rewrite str_eqb_refl. simpl. apply IH.
Qed.

Lemma existsb_false_in {A} (f : A -> bool) l x : existsb f l = false -> In x l -> f x = false.
Proof.
  induction l as [|y l IH]; intros E Hin; [destruct Hin|].
  simpl in E. apply orb_false_iff in E. destruct E as [E1 E2].
  destruct Hin as [->|Hin]; auto.
Qed.

Lemma get_list_cons l s k : get (VList l) (s :: k) = None.
Proof. reflexivity. Qed.

(* what [set cfg k x] can do to the list found at d *)
Lemma set_list_cases cfg k x d items :
  get (set cfg k x) d = Some (VList items) ->
  (comparable k d = false /\ get cfg d = Some (VList items)) \/
  (exists r, d = k ++ r /\ get x r = Some (VList items)).
Proof.
  intro G. destruct (comparable k d) eqn:C.
  - right. unfold comparable in C. apply orb_true_iff in C. destruct C as [C|C].
    + pose proof (is_prefix_split _ _ C) as S. exists (skipn (length k) d). split; [exact S|].
      rewrite S in G. rewrite get_set_below in G. exact G.
    + pose proof (is_prefix_split _ _ C) as S.
      destruct (skipn (length d) k) as [|t r] eqn:R.
      * rewrite app_nil_r in S. subst k. exists []. split; [symmetry; apply app_nil_r|].
        rewrite get_set_same in G. exact G.
      * exfalso. rewrite S in G.
        destruct (get_set_above d cfg (t :: r) x) as [m Hm]; [discriminate|]. rewrite Hm in G. discriminate.
  - left. split; [reflexivity|]. rewrite get_set_incomp in G by exact C. exact G.
Qed.

Definition item_ok (c : key) (v : val) (i : val) : Prop := get i c = None \/ get i c = Some v.

(* the statement about the items of the list at the dest of a target dest.init_args.x *)
Definition items_ok (a : alink) (v : val) (cfg : val) : Prop :=
  match al_kind a with
  | TgtPlain => True
  | TgtInit d c => forall items, get cfg d = Some (VList items) -> forall i, In i items -> item_ok c v i
  end.

Lemma set_target_items_post a v cfg : wf_alink a -> items_ok a v (set_target a v cfg).
Proof.
  intros [_ W]. unfold items_ok, set_target. destruct (al_kind a) as [|d c]; [exact I|].
  destruct W as [T C]. intros items.
  assert (F : (forall its, get cfg d <> Some (VList its)) ->
              get (if has cfg (al_tgt a) then set cfg (al_tgt a) v else cfg) d = Some (VList items) -> False).
  { intros X Y. destruct (has cfg (al_tgt a)).
    - rewrite T in Y. destruct (get_set_above d cfg c v C) as [m Hm]. rewrite Hm in Y. discriminate.
    - exact (X _ Y). }
  destruct (get cfg d) as [[| | |its|]|] eqn:G0;
    try (intros G i Hi; exfalso; apply F; [intros l0 X; discriminate X|exact G]).
  intros G i Hi.
  destruct (existsb (fun i0 => is_map i0 && has i0 c) its) eqn:E.
  - rewrite get_set_same in G. inversion G; subst items; clear G.
    apply in_map_iff in Hi. destruct Hi as [j [<- Hj]]. unfold item_ok.
    destruct (has j c) eqn:Hh.
    + right. apply get_set_same.
    + left. unfold has in Hh. destruct (get j c); [discriminate|reflexivity].
  - assert (Hn : has cfg (al_tgt a) = false).
      { unfold has. rewrite T, get_app, G0. destruct c; [congruence|reflexivity]. }
      rewrite Hn in G. rewrite G0 in G. inversion G; subst items; clear G.
      pose proof (existsb_false_in _ _ _ E Hi) as X. simpl in X. unfold item_ok. left.
      destruct i as [| | | |m]; try (destruct c; [congruence|reflexivity]).
      simpl in X. unfold has in X. destruct (get (VMap m) c); [discriminate|reflexivity].
Qed.

(* another link's set_target_value does not disturb the items, when the two targets do not overlap *)
Lemma set_target_items_frame a v b w cfg :
  wf_alink a -> wf_alink b -> comparable (al_tgt b) (al_tgt a) = false ->
  items_ok a v cfg -> items_ok a v (set_target b w cfg).
Proof.
  intros [_ Wa] [_ Wb] H P. unfold items_ok in *. destruct (al_kind a) as [|d c]; [exact I|].
  destruct Wa as [Ta Ca]. rewrite Ta in H.
  assert (PL : forall k x, comparable k (d ++ c) = false ->
               forall items, get (set cfg k x) d = Some (VList items) -> forall i, In i items -> item_ok c v i).
  { intros k x Hk items G. destruct (set_list_cases _ _ _ _ _ G) as [[_ G0]|[r [E _]]].
    - apply P. exact G0.
    - exfalso. unfold comparable in Hk. rewrite E in Hk. rewrite <- app_assoc in Hk.
      rewrite is_prefix_app in Hk. discriminate. }
  unfold set_target. destruct (al_kind b) as [|db cb].
  - apply PL. exact H.
  - destruct Wb as [Tb Cb].
    assert (F : forall items, get (if has cfg (al_tgt b) then set cfg (al_tgt b) w else cfg) d = Some (VList items) ->
                forall i, In i items -> item_ok c v i).
    { destruct (has cfg (al_tgt b)); [apply PL; exact H|exact P]. }
    destruct (get cfg db) as [[| | |its|]|] eqn:G0; try exact F.
    destruct (existsb (fun i0 => is_map i0 && has i0 cb) its); [|exact F].
    intros items G i Hi.
    destruct (set_list_cases _ _ _ _ _ G) as [[_ G1]|[r [E G1]]].
    + eapply P; eauto.
    + destruct r as [|t r]; [|discriminate].
      rewrite app_nil_r in E. subst db. simpl in G1. inversion G1; subst items; clear G1.
      apply in_map_iff in Hi. destruct Hi as [j [<- Hj]].
      pose proof (P its G0 j Hj) as Q.
      destruct (has j cb); [|exact Q].
      rewrite Tb in H. rewrite comparable_app_same in H.
      unfold item_ok in *. rewrite get_set_incomp by exact H. exact Q.
Qed.

Section WithFn.
Variable fn : nat -> list val -> option val.
Variable classes : list cls.

(* when all sources of the link are present, compute_fn succeeds on their values and every item of a list of
   classes at the target's dest either does not take the parameter or holds exactly the result *)
Definition holds_items (a : alink) (cfg : val) : Prop :=
  forall args, mapM (get cfg) (al_src a) = Some args ->
    exists v, compute fn (al_link a) args = Some v /\ items_ok a v cfg.

Lemma apply1_items_step a cfg cfg' :
  wf_alink a -> (forall s, In s (al_src a) -> comparable (al_tgt a) s = false) ->
  apply1 fn cfg a = Ok cfg' -> holds_items a cfg'.
Proof.
  intros W SF H. unfold apply1 in H.
  destruct (gather cfg (al_srcs a)) as [[args|]|e] eqn:G; try discriminate.
  - destruct (compute fn (al_link a) args) as [v|] eqn:C; [|discriminate].
    inversion H; subst cfg'; clear H.
    intros args' M.
    rewrite (mapM_ext_in _ (get cfg)) in M by (intros s Hs; apply set_target_frame; auto).
    apply gather_some in G. destruct W as [W1 W2]. rewrite W1 in G.
    rewrite G in M. inversion M; subst args'. exists v. split; auto.
    apply set_target_items_post. split; auto.
  - inversion H; subst cfg'; clear H.
    intros args M. apply gather_skip in G. destruct W as [W1 _]. rewrite W1 in G. congruence.
Qed.

Lemma apply1_items_frame a b cfg cfg' :
  wf_alink a -> wf_alink b -> comparable (al_tgt b) (al_tgt a) = false ->
  (forall s, In s (al_src a) -> comparable (al_tgt b) s = false) ->
  apply1 fn cfg b = Ok cfg' -> holds_items a cfg -> holds_items a cfg'.
Proof.
  intros Wa Wb HT HS H P. unfold apply1 in H.
  destruct (gather cfg (al_srcs b)) as [[bargs|]|e]; try discriminate.
  - destruct (compute fn (al_link b) bargs) as [w|]; [|discriminate]. inversion H; subst cfg'; clear H.
    intros args M.
    rewrite (mapM_ext_in _ (get cfg)) in M by (intros s Hs; apply set_target_frame; auto).
    destruct (P args M) as [v [C Q]]. exists v. split; [exact C|].
    apply set_target_items_frame; auto.
  - inversion H; subst cfg'. exact P.
Qed.

Lemma apply_links_items_frame a ls : forall cfg cfg',
  wf_alink a -> Forall wf_alink ls ->
  (forall b, In b ls -> comparable (al_tgt b) (al_tgt a) = false /\
                        forall s, In s (al_src a) -> comparable (al_tgt b) s = false) ->
  apply_links fn cfg ls = Ok cfg' -> holds_items a cfg -> holds_items a cfg'.
Proof.
  induction ls as [|b ls IH]; intros cfg cfg' Wa W I H P; simpl in H.
  - inversion H; subst. exact P.
  - destruct (apply1 fn cfg b) as [c1|e] eqn:A; [|discriminate].
    inversion W as [|? ? Wb Wl]; subst.
    destruct (I b (or_introl eq_refl)) as [I1 I2].
    apply (IH c1 cfg' Wa Wl); auto.
    + intros b' Hb'. apply I. right. exact Hb'.
    + eapply apply1_items_frame; eauto.
Qed.

Lemma apply_links_items_inv ls : forall cfg cfg',
  Forall wf_alink ls -> indep ls -> apply_links fn cfg ls = Ok cfg' ->
  forall a, In a ls -> holds_items a cfg'.
Proof.
  induction ls as [|a ls IH]; intros cfg cfg' W I H b Hb; [destruct Hb|].
  simpl in H. destruct (apply1 fn cfg a) as [c1|e] eqn:A; [|discriminate].
  inversion W as [|? ? Wa Wl]; subst.
  destruct I as [I1 [I2 I3]].
  destruct Hb as [<-|Hb].
  - apply (apply_links_items_frame a ls c1 cfg' Wa Wl I2 H).
    eapply apply1_items_step; eauto.
  - eapply IH; eauto.
Qed.

Lemma link_items_generic p pre cfg :
  links_good p -> overlap_free (map al_link (p_links p)) = true ->
  finish fn classes p pre = Ok cfg -> forall a, In a (p_links p) -> holds_items a cfg.
Proof.
  intros [W E] O F a Ha. unfold finish in F.
  destruct (apply_links fn pre (p_links p)) as [c|e] eqn:A; [|discriminate].
  destruct (validate classes p c); [|discriminate]. inversion F; subst c.
  eapply apply_links_items_inv; eauto. apply indep_of_checks; auto.
Qed.

Theorem link_items_finish ds ls pre cfg :
  let p := fst (build ds ls) in
  overlap_free (map al_link (p_links p)) = true ->
  finish fn classes p pre = Ok cfg -> forall a, In a (p_links p) -> holds_items a cfg.
Proof. intros p O F. apply (link_items_generic p pre cfg (build_good ds ls) O F). Qed.

End WithFn.

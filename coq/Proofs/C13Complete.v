(* C13 — completeness ("no reachable parameter is missing") under the hypothesis klass = 0:
   every keyword that ANYTHING receives when the callable is called (a declared parameter not bound
   positionally, a kwargs.pop / kwargs.get of some body on the call chain, a parameter of a callee
   reached through **kwargs) is one of the names the resolver offers.  Spec.call records who receives
   each keyword (the `binding` list); the statement is about every binding of every call, whatever its
   outcome.  Induction on the call-chain fuel, mirror image of KwargsProofs.sound_frame. *)
From JV Require Import Lib.Base Model.Kwargs Model.KwargsGuard Model.C13KwargsFx Spec.KwargsSpec
  Proofs.KwargsProofs Proofs.C13FxTransfer.

(* ---- CPython's keyword loop: who is bound, what is left over (no hypothesis) ------------------- *)
Lemma find_param_skipn_In n : forall ps npos k i p,
  find_param n ps k = Some (i, p) -> k + npos <= i -> In n (map sp_name (skipn npos ps)).
Proof.
  induction ps as [|q r IH]; intros npos k i p H Hle; [discriminate|].
  destruct npos as [|m].
  - cbn [skipn]. eapply find_param_In. exact H.
  - simpl in H. destruct (str_eqb n (sp_name q)) eqn:E.
    + inversion H; subst. lia.
    + cbn [skipn]. eapply IH; [exact H|lia].
Qed.

Lemma bind_sub own npos haskw : forall kws o kw bs,
  bind own npos haskw kws = (o, kw, bs) ->
  (forall n, In n (map fst bs) -> In n kws /\ In n (map sp_name (skipn npos own))) /\
  (forall n, In n kw -> In n kws /\ ~ In n (map sp_name own)).
Proof.
  induction kws as [|n r IH]; intros o kw bs H.
  - cbn in H. inversion H; subst. split; intros ? [].
  - cbn [bind] in H. destruct (find_param n own 0) as [[i p]|] eqn:F.
    + destruct (i <? npos) eqn:E.
      * inversion H; subst. split; intros ? [].
      * destruct (bind own npos haskw r) as [[o' kw'] bs'] eqn:B. inversion H; subst.
        destruct (IH _ _ _ eq_refl) as [I1 I2]. split.
        -- intros x Hx. cbn in Hx. destruct Hx as [Hx|Hx].
           ++ subst x. split; [left; reflexivity|]. apply Nat.ltb_ge in E.
              eapply find_param_skipn_In; [exact F|lia].
           ++ destruct (I1 x Hx). split; [right|]; assumption.
        -- intros x Hx. destruct (I2 x Hx). split; [right|]; assumption.
    + destruct haskw.
      * destruct (bind own npos true r) as [[o' kw'] bs'] eqn:B. inversion H; subst.
        destruct (IH _ _ _ eq_refl) as [I1 I2]. split.
        -- intros x Hx. destruct (I1 x Hx). split; [right|]; assumption.
        -- intros x [Hx|Hx].
           ++ subst x. split; [left; reflexivity|]. eapply find_param_None. exact F.
           ++ destruct (I2 x Hx). split; [right|]; assumption.
      * inversion H; subst. split; intros ? [].
Qed.

(* ---- bodies: where a binding of the body comes from (no hypothesis) ---------------------------- *)
Lemma run_tail_bs (r0 rest : outcome * list binding) (g : list str) n :
  In n (map fst (snd (match r0 with
                      | (COk, bs1) =>
                          let '(o, bs2) := rest in
                          (o, filter (fun b => negb (mem_str (fst b) g)) bs1 ++ bs2)
                      | (o, _) => (o, [])
                      end))) ->
  (In n (map fst (snd r0)) /\ ~ In n g) \/ In n (map fst (snd rest)).
Proof.
  destruct r0 as [o1 bs1]. destruct rest as [o bs2].
  destruct o1; cbn [snd map]; try (intros []).
  rewrite map_app. intro H. apply in_app_or in H. destruct H as [H|H]; [left|right; exact H].
  apply in_map_iff in H. destruct H as (b & Hb & Hin). apply filter_In in Hin. destruct Hin as [Hin Hf].
  split.
  - apply in_map_iff. exists b. auto.
  - apply negb_true_iff in Hf. apply mem_str_false in Hf. subst n. exact Hf.
Qed.

Lemma run_body_sub rec cf
  (Hrec : forall fr' np kws' n, In n (map fst (snd (rec fr' np kws'))) -> In n kws') :
  forall body kw n, In n (map fst (snd (run_body rec cf body kw))) ->
    In n kw /\
    (In n (pg_names body)
     \/ exists c np g fr', In (SCall c np g) body /\ cf c = Ok (Some fr') /\ ~ In n g
          /\ exists kw1, In n (map fst (snd (rec fr' np (g ++ kw1))))).
Proof.
  induction body as [|s r IH]; intros kw n H; [destruct H|].
  destruct s as [pop n0 k z|c np g].
  - cbn [run_body] in H.
    destruct (run_body rec cf r (if pop then remove_str n0 kw else kw)) as [o bs] eqn:Rb.
    cbn [snd] in H. rewrite map_app in H. apply in_app_or in H. destruct H as [H|H].
    + destruct (mem_str n0 kw) eqn:M; [|destruct H].
      cbn in H. destruct H as [H|[]]. subst n0. split; [apply mem_str_In; exact M|].
      left. left. reflexivity.
    + assert (H' : In n (map fst (snd (run_body rec cf r (if pop then remove_str n0 kw else kw)))))
        by (rewrite Rb; exact H).
      destruct (IH _ _ H') as [Hk Hor]. split.
      * destruct pop; [apply remove_str_In in Hk; tauto|exact Hk].
      * destruct Hor as [Hp|(c & np & g & fr' & Hin & Hcf & Hng & kw1 & Hb)].
        -- left. right. exact Hp.
        -- right. exists c, np, g, fr'. split; [right; exact Hin|]. split; [exact Hcf|]. split; [exact Hng|].
           exists kw1. exact Hb.
  - cbn [run_body] in H.
    destruct (existsb (fun g0 => mem_str g0 kw) g); [destruct H|].
    apply run_tail_bs in H. destruct H as [[H1 H2]|H].
    + destruct (cf c) as [[fr'|]|e] eqn:Ecf.
      * split.
        -- apply Hrec in H1. apply in_app_or in H1. destruct H1 as [H1|H1]; [contradiction|exact H1].
        -- right. exists c, np, g, fr'. split; [left; reflexivity|]. split; [exact Ecf|]. split; [exact H2|].
           exists kw. exact H1.
      * exfalso. destruct c; try (destruct (Nat.eqb np 0 && is_nil (g ++ kw))); exact H1.
      * exfalso. exact H1.
    + destruct (IH _ _ H) as [Hk Hor]. split; [exact Hk|].
      destruct Hor as [Hp|(c' & np' & g' & fr' & Hin & Hcf & Hng & kw1 & Hb)].
      * left. exact Hp.
      * right. exists c', np', g', fr'. split; [right; exact Hin|]. split; [exact Hcf|]. split; [exact Hng|].
        exists kw1. exact Hb.
Qed.

(* a binding is always one of the keywords that were passed (no hypothesis) *)
Lemma bindings_sub : forall fuel P fr npos kws n,
  In n (map fst (snd (call_frame fuel P fr npos kws))) -> In n kws.
Proof.
  induction fuel as [|f' IH]; intros P fr npos kws n H; [destruct H|].
  cbn [call_frame] in H. unfold call_step in H. cbv zeta in H.
  destruct (bind (f_params (fr_fn fr)) npos (f_kw (fr_fn fr)) kws) as [[o kw] bs] eqn:B.
  destruct (bind_sub _ _ _ _ _ _ _ B) as [Hbs Hkw].
  destruct o; try (exfalso; exact H). cbv beta iota in H.
  destruct (npos_cap (fr_fn fr) <? npos); [destruct H|].
  destruct (missing (f_params (fr_fn fr)) 0 npos kws); [destruct H|].
  destruct (run_body (call_frame f' P) (callee_frame Interp f' P fr) (f_body (fr_fn fr)) kw) as [o2 bs2] eqn:Rb.
  cbn [snd] in H. rewrite map_app in H. apply in_app_or in H. destruct H as [H|H].
  - apply Hbs. exact H.
  - assert (H' : In n (map fst (snd (run_body (call_frame f' P) (callee_frame Interp f' P fr)
                                             (f_body (fr_fn fr)) kw)))) by (rewrite Rb; exact H).
    apply (run_body_sub _ _ (IH P)) in H'. apply Hkw. tauto.
Qed.

(* ---- the resolver's side: converses of collect_names / group_names / remove_given_sub ---------- *)
Lemma collect_conv rec cf : forall body lists rm,
  collect rec cf body = Ok (lists, rm) ->
  (forall n, In n (pg_names body) -> In n (names (concat (map snd lists)))) /\
  (forall c np g ps n, In (SCall c np g) body -> call_params rec cf c = Ok ps ->
      In n (names (remove_given np g ps)) -> In n (names (concat (map snd lists)))) /\
  (forall x, In x rm -> exists c np g ps, In (SCall c np g) body /\ call_params rec cf c = Ok ps
                                           /\ In x (removed_of g ps)).
Proof.
  induction body as [|s r IH]; intros lists rm H.
  - simpl in H. inversion H; subst. split; [intros n []|split; [intros ? ? ? ? ? []|intros x []]].
  - destruct s as [pop n k z|c npos given]; simpl in H.
    + destruct (collect rec cf r) as [[ls rm']|e] eqn:E; [|discriminate].
      inversion H; subst. destruct (IH _ _ eq_refl) as (I1 & I2 & I3). split; [|split].
      * intros x Hx. simpl in Hx. simpl. destruct Hx as [Hx|Hx]; [left; exact Hx|right; apply I1; exact Hx].
      * intros c np g ps x [Hin|Hin] Hc Hx; [discriminate|]. simpl. right. eapply I2; eauto.
      * intros x Hx. destruct (I3 x Hx) as (c & np & g & ps & Hin & Hc & Hr).
        exists c, np, g, ps. split; [right; exact Hin|auto].
    + fold (call_params rec cf c) in H.
      destruct (call_params rec cf c) as [ps|e] eqn:Ec; [|discriminate].
      destruct (collect rec cf r) as [[ls rm']|e] eqn:E; [|discriminate].
      inversion H; subst. destruct (IH _ _ eq_refl) as (I1 & I2 & I3).
      assert (Hsup : forall x, In x (names (remove_given npos given ps)) \/ In x (names (concat (map snd ls))) ->
                In x (names (concat (map snd (if is_nil (remove_given npos given ps) then ls
                                               else (true, remove_given npos given ps) :: ls))))).
      { intros x Hx. destruct (remove_given npos given ps) as [|p0 l0] eqn:Er.
        - cbn [is_nil]. destruct Hx as [[]|Hx]. exact Hx.
        - cbn [is_nil map snd concat]. unfold names. rewrite map_app. apply in_or_app. exact Hx. }
      split; [|split].
      * intros x Hx. apply Hsup. right. apply I1. exact Hx.
      * intros c' np g ps' x [Hin|Hin] Hc Hx.
        -- inversion Hin; subst. rewrite Ec in Hc. inversion Hc; subst. apply Hsup. left. exact Hx.
        -- apply Hsup. right. eapply I2; eauto.
      * intros x Hx. apply in_app_or in Hx. destruct Hx as [Hx|Hx].
        -- exists c, npos, given, ps. split; [left; reflexivity|auto].
        -- destruct (I3 x Hx) as (c' & np & g & ps' & Hin & Hc & Hr).
           exists c', np, g, ps'. split; [right; exact Hin|auto].
Qed.

Lemma nodup_by_complete x : forall l seen, In x l -> ~ In x seen -> In x (nodup_by str_eqb l seen).
Proof.
  induction l as [|y r IH]; intros seen Hx Hns; [destruct Hx|].
  simpl. destruct (str_eqb y x) eqn:Eyx.
  - apply str_eqb_spec in Eyx. subst y.
    destruct (existsb (str_eqb x) seen) eqn:E.
    + exfalso. apply existsb_exists in E. destruct E as (z & Hz & Ez).
      apply str_eqb_spec in Ez. subst z. exact (Hns Hz).
    + left. reflexivity.
  - assert (Hxr : In x r).
    { destruct Hx as [Hx|Hx]; [|exact Hx]. subst y. rewrite str_eqb_refl in Eyx. discriminate. }
    destruct (existsb (str_eqb y) seen).
    + apply IH; assumption.
    + right. apply IH; [exact Hxr|]. intros [Hy|Hs]; [|exact (Hns Hs)].
      subst y. rewrite str_eqb_refl in Eyx. discriminate.
Qed.

Lemma group_conv lists g : group lists = Ok g ->
  forall n, In n (names (concat (map snd lists))) -> In n (names g).
Proof.
  intros H n Hn.
  assert (Gen : forall g',
    (if existsb (fun bl => head_otup (snd bl)) lists then Err ECrash
     else Ok (map (fun k => merge_occ (length (filter fst lists))
                              (filter (fun p => str_eqb (r_name p) k) (concat (map snd lists))))
                  (nodup_by str_eqb (names (concat (map snd lists))) []))) = Ok g' ->
    In n (names g')).
  { intros g' H'. destruct (existsb _ lists); [discriminate|]. inversion H'; subst g'.
    unfold names at 1. rewrite map_map. apply in_map_iff. exists n. split.
    - unfold names in Hn. apply in_map_iff in Hn. destruct Hn as (p & Hpn & Hp).
      destruct (filter (fun p0 => str_eqb (r_name p0) n) (concat (map snd lists))) as [|p0 rest] eqn:F.
      + assert (In p []) as [].
        rewrite <- F. apply filter_In. split; [exact Hp|]. apply str_eqb_spec. exact Hpn.
      + rewrite merge_occ_name.
        assert (Hp0 : In p0 (p0 :: rest)) by (left; reflexivity).
        rewrite <- F in Hp0. apply filter_In in Hp0. destruct Hp0 as [_ Hp0].
        apply str_eqb_spec in Hp0. exact Hp0.
    - apply nodup_by_complete; [exact Hn|intros []]. }
  unfold group in H.
  destruct lists as [|[b l] [|x r]].
  - eapply Gen; eauto.
  - inversion H; subst. simpl in Hn. rewrite app_nil_r in Hn. exact Hn.
  - eapply Gen; eauto.
Qed.

Lemma remove_given_conv np g ps n :
  In n (names (skipn np ps)) -> ~ In n g -> In n (names (remove_given np g ps)).
Proof.
  unfold names, remove_given. intros H Hg. apply in_map_iff in H. destruct H as (p & Hp & Hin).
  apply in_map_iff. exists p. split; [exact Hp|]. apply filter_In. split; [exact Hin|].
  apply negb_true_iff. apply mem_str_false. rewrite Hp. exact Hg.
Qed.

(* ---- completeness -------------------------------------------------------------------------------- *)
Lemma complete_frame : forall fuel P fr R npos kws n,
  klass fuel P fr = 0%N ->
  resolve_frame fuel P fr = Ok R ->
  npos <= npos_cap (fr_fn fr) ->
  In n (map fst (snd (call_frame fuel P fr npos kws))) ->
  In n (names (skipn npos R)).
Proof.
  induction fuel as [|f' IH]; intros P fr R npos kws n Hk Hr Hnp Hn; [discriminate|].
  destruct (klass_inv _ _ _ Hk) as (Hown & Hnokw & Hkw).
  pose proof (own_kept _ _ _ _ Hr) as Hok.
  assert (HR : R = own_rparams (fr_fn fr) ++ skipn (length (f_params (fr_fn fr))) R).
  { rewrite <- Hok. symmetry. apply firstn_skipn. }
  assert (Hle : npos <= length (own_rparams (fr_fn fr))).
  { rewrite length_own. pose proof (npos_cap_le (fr_fn fr)). lia. }
  assert (Hownin : In n (map sp_name (skipn npos (f_params (fr_fn fr)))) -> In n (names (skipn npos R))).
  { intro H. rewrite HR. rewrite skipn_app_le by exact Hle. unfold names. rewrite map_app.
    apply in_or_app. left. unfold own_rparams. rewrite skipn_map', map_map. exact H. }
  cbn [call_frame] in Hn. unfold call_step in Hn. cbv zeta in Hn.
  destruct (bind (f_params (fr_fn fr)) npos (f_kw (fr_fn fr)) kws) as [[o kw] bs] eqn:B.
  destruct (bind_sub _ _ _ _ _ _ _ B) as [Hbs Hkwsub].
  destruct o; try (exfalso; exact Hn). cbv beta iota in Hn.
  destruct (npos_cap (fr_fn fr) <? npos); [destruct Hn|].
  destruct (missing (f_params (fr_fn fr)) 0 npos kws); [destruct Hn|].
  destruct (run_body (call_frame f' P) (callee_frame Interp f' P fr) (f_body (fr_fn fr)) kw) as [o2 bs2] eqn:Rb.
  cbn [snd] in Hn. rewrite map_app in Hn. apply in_app_or in Hn. destruct Hn as [Hn|Hn].
  { apply Hownin. apply Hbs. exact Hn. }
  assert (Hsub : In n (map fst (snd (run_body (call_frame f' P) (callee_frame Interp f' P fr)
                                              (f_body (fr_fn fr)) kw)))) by (rewrite Rb; exact Hn).
  clear Hownin HR Hok.
  destruct (f_kw (fr_fn fr)) eqn:Ekw.
  2:{ exfalso. rewrite (Hnokw eq_refl) in Hsub. exact Hsub. }
  destruct (Hkw eq_refl) as (Hs & [R0 Ha] & Hcall). clear Hkw Hnokw.
  cbn [resolve_frame] in Hr. rewrite Ha in Hr. inversion Hr; subst R0. clear Hr.
  unfold ast_step in Ha. rewrite Ekw in Ha. cbn [negb] in Ha.
  destruct (collect (resolve_frame f' P) (callee_frame Resolver f' P fr) (f_body (fr_fn fr)))
    as [[lists rm]|e] eqn:Ec; [|discriminate].
  destruct (group lists) as [g|e] eqn:Eg; [|discriminate].
  inversion Ha; subst R. clear Ha.
  destruct (run_body_sub (call_frame f' P) (callee_frame Interp f' P fr) (bindings_sub f' P) _ _ _ Hsub)
    as [Hnkw Hor].
  destruct (Hkwsub n Hnkw) as [_ Hnotown].
  destruct (collect_conv _ _ _ _ _ Ec) as (C1 & C2 & C3).
  assert (Hgoal : ~ In n rm -> In n (names (concat (map snd lists))) ->
            In n (names (skipn npos (replace_kwargs (own_rparams (fr_fn fr))
                                       (filter (fun p => negb (mem_str (r_name p) rm)) g))))).
  { intros Hrm Hall. pose proof (group_conv _ _ Eg n Hall) as Hg.
    unfold replace_kwargs. rewrite skipn_app_le by exact Hle. unfold names. rewrite map_app.
    apply in_or_app. right.
    unfold names in Hg. apply in_map_iff in Hg. destruct Hg as (p & Hpn & Hp).
    apply in_map_iff. exists p. split; [exact Hpn|].
    apply filter_In. split.
    - apply filter_In. split; [exact Hp|]. apply negb_true_iff. apply mem_str_false. rewrite Hpn. exact Hrm.
    - apply negb_true_iff. apply mem_str_false. rewrite Hpn, names_own. exact Hnotown. }
  assert (Hrm_given : forall x, In x rm ->
            exists c np gv, In (SCall c np gv) (f_body (fr_fn fr)) /\ In x gv).
  { intros x Hx. destruct (C3 x Hx) as (c & np & gv & ps & Hin & _ & Hrem). exists c, np, gv.
    split; [exact Hin|]. unfold removed_of in Hrem. apply filter_In in Hrem. destruct Hrem as [_ Hm].
    apply mem_str_In. exact Hm. }
  destruct (find_call (f_body (fr_fn fr)) []) as [[[[k np] gv] pre]|] eqn:Hf.
  2:{ (* no forwarding call in the body *)
      pose proof (find_call_None _ _ Hf) as Hpg.
      assert (Hnocall : forall c np gv, ~ In (SCall c np gv) (f_body (fr_fn fr))).
      { intros c np gv Hin. eapply forallb_forall in Hpg; [|exact Hin]. discriminate. }
      apply Hgoal.
      - intro Hx. destruct (Hrm_given n Hx) as (c & np & gv & Hin & _). exact (Hnocall _ _ _ Hin).
      - destruct Hor as [Hpgn|(c & np & gv & fr' & Hin & _)]; [apply C1; exact Hpgn|].
        destruct (Hnocall _ _ _ Hin). }
  destruct Hcall as [Hag Hcal].
  destruct Hor as [Hpgn|(c & np' & gv' & fr' & Hin & Hcf & Hng & kw1 & Hb1)].
  - (* received by a kwargs.pop / kwargs.get of this body *)
    apply Hgoal; [|apply C1; exact Hpgn].
    intro Hx. destruct (Hrm_given n Hx) as (c & np' & gv' & Hin & Hg').
    destruct (find_call_unique _ _ _ _ _ _ _ _ _ Hf Hs Hin) as (-> & -> & ->).
    destruct (callee_frame Resolver f' P fr k) as [[fr'|]|e'] eqn:Hcf; [| |destruct Hcal].
    + destruct Hcal as (_ & R' & _ & H3 & _).
      assert (existsb (fun n0 => mem_str n0 gv) (pg_names (f_body (fr_fn fr))) = true).
      { apply existsb_exists. exists n. split; [exact Hpgn|]. apply mem_str_In. exact Hg'. }
      congruence.
    + destruct Hcal as (_ & _ & Hgv & _). subst gv. destruct Hg'.
  - (* received inside the callee of the forwarding call *)
    destruct (find_call_unique _ _ _ _ _ _ _ _ _ Hf Hs Hin) as (-> & -> & ->).
    rewrite (callee_agree_eq _ _ _ _ Hag) in Hcf. rewrite Hcf in Hcal.
    destruct Hcal as (Hk' & R' & Hr' & H3 & H1 & Hnp' & Hgnd & Hgin).
    pose proof (IH _ _ _ _ _ _ Hk' Hr' Hnp' Hb1) as Hin'.
    apply Hgoal.
    + intro Hx. destruct (Hrm_given n Hx) as (c & np' & gv' & Hin2 & Hg').
      destruct (find_call_unique _ _ _ _ _ _ _ _ _ Hf Hs Hin2) as (-> & -> & ->). exact (Hng Hg').
    + eapply C2; [exact Hin| |apply remove_given_conv; [exact Hin'|exact Hng]].
      unfold call_params. rewrite Hcf. exact Hr'.
Qed.

(* ---- classes ------------------------------------------------------------------------------------ *)
Lemma complete_class fuel P c R kws n :
  klass_top fuel P c = 0%N ->
  resolve fuel P c = Ok R ->
  In n (map fst (snd (call fuel P c kws))) -> In n (names R).
Proof.
  intros Hk Hr Hn. destruct (klass_top_inv _ _ _ Hk) as [Hag Hfr].
  unfold resolve in Hr. unfold call in Hn. rewrite (class_agree_eq _ _ _ Hag) in Hn.
  destruct (class_frame Resolver fuel P c) as [[fr|]|]; [| |destruct Hfr].
  - apply (complete_frame fuel P fr R 0 kws n Hfr Hr); [lia|exact Hn].
  - exfalso. destruct (is_nil kws); exact Hn.
Qed.

(* the repaired resolver, classes that inherit __init__ included *)
Lemma complete_class_inh fuel P c R kws n :
  klass_top_inh fuel P c = 0%N ->
  resolve_fx all_fixes fuel P c = Ok R ->
  In n (map fst (snd (call fuel P c kws))) -> In n (names R).
Proof.
  unfold klass_top_inh, resolve_fx, class_frame_fx, call. cbn [all_fixes fx_mro].
  intros Hk Hr Hn.
  destruct (class_frame Interp fuel P c) as [[fr|]|e]; [| |discriminate].
  - rewrite (fx_same_in_guard fuel P fr Hk) in Hr.
    apply (complete_frame fuel P fr R 0 kws n Hk Hr); [lia|exact Hn].
  - exfalso. destruct (is_nil kws); exact Hn.
Qed.

(* ---- the same, as the executable predicate the correspondence judge evaluates (Spec.complete_b) ---- *)
Definition complete_names_b (fuel : nat) (P : prog) (c : nat) (offered : list rparam) : bool :=
  forallb (fun n => mem_str n (names offered)
                    || match call fuel P c (with_name (required_names offered) n) with
                       | (COk, bs) => negb (mem_str n (map fst bs))
                       | _ => true
                       end) (universe P).

Lemma complete_b_split fuel P c offered :
  complete_b fuel P c offered =
  negb (outcome_eqb (fst (call fuel P c (names offered))) CMissing) && complete_names_b fuel P c offered.
Proof. reflexivity. Qed.

Lemma complete_names_of (fuel : nat) (P : prog) (c : nat) (R : list rparam) :
  (forall kws n, In n (map fst (snd (call fuel P c kws))) -> In n (names R)) ->
  complete_names_b fuel P c R = true.
Proof.
  intro H. unfold complete_names_b. apply forallb_forall. intros n _.
  destruct (mem_str n (names R)) eqn:M; [reflexivity|]. cbn [orb].
  specialize (H (with_name (required_names R) n) n).
  destruct (call fuel P c (with_name (required_names R) n)) as [o bs]. cbn [snd] in H.
  destruct o; try reflexivity.
  destruct (mem_str n (map fst bs)) eqn:M2; [|reflexivity].
  apply mem_str_In in M2. apply H in M2. apply mem_str_In in M2. congruence.
Qed.

Lemma complete_names_class fuel P c R :
  klass_top fuel P c = 0%N -> resolve fuel P c = Ok R -> complete_names_b fuel P c R = true.
Proof. intros Hk Hr. apply complete_names_of. intros kws n. apply (complete_class fuel P c R kws n Hk Hr). Qed.

Lemma complete_names_class_inh fuel P c R :
  klass_top_inh fuel P c = 0%N -> resolve_fx all_fixes fuel P c = Ok R -> complete_names_b fuel P c R = true.
Proof. intros Hk Hr. apply complete_names_of. intros kws n. apply (complete_class_inh fuel P c R kws n Hk Hr). Qed.

(* C11 — equality: Python's == on the stored trees (argparse's Namespace.__eq__ = equality of __dict__, dict equality
   order-insensitive) is equality of the user-visible nested dictionaries, for trees whose Namespaces — at ANY depth,
   also inside lists / tuples / dicts — carry names in stored form. *)
From JV Require Import Lib.Base Model.Ns Model.NsRun Model.NsGuard Spec.NestedDict Spec.NestedDictRun Proofs.NsProofs.

Arguments mark : simpl never.
Arguments unmark : simpl never.
Arguments str_eqb : simpl never.
Arguments N.eqb : simpl never.

(* py_eq with its two local fixpoints named *)
Fixpoint seq_eq (x y : list val) : bool :=
  match x, y with
  | [], [] => true
  | u :: x', w :: y' => py_eq u w && seq_eq x' y'
  | _, _ => false
  end.

Fixpoint sub_eq (x y : list (str * val)) : bool :=
  match x with
  | [] => true
  | (k, u) :: x' => match aget k y with Some w => py_eq u w | None => false end && sub_eq x' y
  end.

Lemma py_eq_seq x : forall y, py_eq (VList x) (VList y) = seq_eq x y.
Proof. induction x as [|u x IH]; intros [|w y]; simpl; auto; try (f_equal; exact (IH y)). Qed.

Lemma py_eq_seq_t x : forall y, py_eq (VTup x) (VTup y) = seq_eq x y.
Proof. induction x as [|u x IH]; intros [|w y]; simpl; auto; try (f_equal; exact (IH y)). Qed.

Lemma py_eq_sub_aux x : forall y,
  (fix sub (x y : list (str * val)) {struct x} : bool :=
     match x with
     | [] => true
     | (k, u) :: x' => match aget k y with Some w => py_eq u w | None => false end && sub x' y
     end) x y = sub_eq x y.
Proof. induction x as [|[k u] x IH]; intros y; simpl; auto; try (f_equal; exact (IH y)). Qed.

Lemma py_eq_ns x y : py_eq (VNs x) (VNs y) = Nat.eqb (length x) (length y) && sub_eq x y.
Proof. simpl; f_equal; try apply py_eq_sub_aux. Qed.

Lemma py_eq_dict x y : py_eq (VDict x) (VDict y) = Nat.eqb (length x) (length y) && sub_eq x y.
Proof. simpl; f_equal; try apply py_eq_sub_aux. Qed.

Section WithClash.
Variable clash : list str.
Notation stored_ok := (stored_ok clash).

(* stored form at every depth *)
Fixpoint wf_deep (v : val) : bool :=
  match v with
  | VNs d => forallb (fun kv => stored_ok (fst kv) && wf_deep (snd kv)) d
  | VDict d => forallb (fun kv => wf_deep (snd kv)) d
  | VList l | VTup l => forallb wf_deep l
  | _ => true
  end.

Lemma unmark_inj k1 k2 : stored_ok k1 = true -> stored_ok k2 = true ->
  str_eqb (unmark k1) (unmark k2) = str_eqb k1 k2.
Proof.
  intros H1 H2. apply andb_true_iff in H1, H2. destruct H1 as [_ H1], H2 as [_ H2].
  apply str_eqb_spec in H1, H2. apply eq_true_iff_eq. rewrite !str_eqb_spec. split; intro E.
  - rewrite <- H1, <- H2, E. reflexivity.
  - now subst.
Qed.

Lemma aget_unmark_ns k (F : val -> val) y : stored_ok k = true ->
  forallb (fun kv => stored_ok (fst kv)) y = true ->
  aget (unmark k) (map (fun kv => (unmark (fst kv), F (snd kv))) y) = option_map F (aget k y).
Proof.
  intros Hk. induction y as [|[k' v] y IH]; simpl; intros H; [reflexivity|].
  apply andb_true_iff in H. destruct H as [Hk' H]. rewrite (unmark_inj k k' Hk Hk').
  destruct (str_eqb k k'); [reflexivity|]. exact (IH H).
Qed.

Lemma aget_map_dict k (F : val -> val) y :
  aget k (map (fun kv => (fst kv, F (snd kv))) y) = option_map F (aget k y).
Proof.
  induction y as [|[k' v] y IH]; simpl; [reflexivity|]. destruct (str_eqb k k'); [reflexivity|]. exact IH.
Qed.

Definition EQ (a : val) : Prop :=
  forall b, wf_deep a = true -> wf_deep b = true -> py_eq a b = py_eq (unmark_val a) (unmark_val b).

Lemma seq_commutes x : Forall EQ x -> forall y, forallb wf_deep x = true -> forallb wf_deep y = true ->
  seq_eq x y = seq_eq (map unmark_val x) (map unmark_val y).
Proof.
  induction 1 as [|u x Hu Hx IH]; intros [|w y] Wx Wy; simpl; auto.
  simpl in Wx, Wy. apply andb_true_iff in Wx, Wy. destruct Wx as [Wu Wx], Wy as [Ww Wy].
  rewrite (Hu w Wu Ww). f_equal. exact (IH y Wx Wy).
Qed.

Lemma wf_aget_deep_ns k y w : forallb (fun kv => stored_ok (fst kv) && wf_deep (snd kv)) y = true ->
  aget k y = Some w -> wf_deep w = true.
Proof.
  induction y as [|[k' v] y IH]; simpl; [discriminate|]. intros H. apply andb_true_iff in H. destruct H as [H1 H].
  apply andb_true_iff in H1. destruct H1 as [_ Hv].
  destruct (str_eqb k k'); [intros E; inversion E; subst; exact Hv|exact (IH H)].
Qed.

Lemma wf_aget_deep_dict k y w : forallb (fun kv => wf_deep (snd kv)) y = true ->
  aget k y = Some w -> wf_deep w = true.
Proof.
  induction y as [|[k' v] y IH]; simpl; [discriminate|]. intros H. apply andb_true_iff in H. destruct H as [Hv H].
  destruct (str_eqb k k'); [intros E; inversion E; subst; exact Hv|exact (IH H)].
Qed.

Lemma keys_ok_of y : forallb (fun kv => stored_ok (fst kv) && wf_deep (snd kv)) y = true ->
  forallb (fun kv : str * val => stored_ok (fst kv)) y = true.
Proof.
  induction y as [|[k v] y IH]; simpl; [reflexivity|]. intros H. apply andb_true_iff in H. destruct H as [H1 H].
  apply andb_true_iff in H1. destruct H1 as [Hk _]. rewrite Hk. exact (IH H).
Qed.

Lemma sub_commutes_ns x : Forall (fun kv => EQ (snd kv)) x -> forall y,
  forallb (fun kv => stored_ok (fst kv) && wf_deep (snd kv)) x = true ->
  forallb (fun kv => stored_ok (fst kv) && wf_deep (snd kv)) y = true ->
  sub_eq x y = sub_eq (map (fun kv => (unmark (fst kv), unmark_val (snd kv))) x)
                      (map (fun kv => (unmark (fst kv), unmark_val (snd kv))) y).
Proof.
  induction 1 as [|[k u] x Hu Hx IH]; intros y Wx Wy; simpl; auto.
  simpl in Wx. apply andb_true_iff in Wx. destruct Wx as [W1 Wx]. apply andb_true_iff in W1. destruct W1 as [Hk Wu].
  rewrite (aget_unmark_ns k unmark_val y Hk (keys_ok_of y Wy)).
  rewrite <- (IH y Wx Wy). f_equal.
  destruct (aget k y) as [w|] eqn:E; simpl; [|reflexivity].
  exact (Hu w Wu (wf_aget_deep_ns k y w Wy E)).
Qed.

Lemma sub_commutes_dict x : Forall (fun kv => EQ (snd kv)) x -> forall y,
  forallb (fun kv => wf_deep (snd kv)) x = true ->
  forallb (fun kv => wf_deep (snd kv)) y = true ->
  sub_eq x y = sub_eq (map (fun kv => (fst kv, unmark_val (snd kv))) x)
                      (map (fun kv => (fst kv, unmark_val (snd kv))) y).
Proof.
  induction 1 as [|[k u] x Hu Hx IH]; intros y Wx Wy; simpl; auto.
  simpl in Wx. apply andb_true_iff in Wx. destruct Wx as [Wu Wx].
  rewrite (aget_map_dict k unmark_val y).
  rewrite <- (IH y Wx Wy). f_equal.
  destruct (aget k y) as [w|] eqn:E; simpl; [|reflexivity].
  exact (Hu w Wu (wf_aget_deep_dict k y w Wy E)).
Qed.

Lemma eq_commutes a : EQ a.
Proof.
  induction a using val_ind2; intros b Wa Wb; try (destruct b; reflexivity).
  - (* list *)
    destruct b; try reflexivity. simpl unmark_val. rewrite !py_eq_seq.
    exact (seq_commutes l H l0 Wa Wb).
  - (* tuple *)
    destruct b; try reflexivity. simpl unmark_val. rewrite !py_eq_seq_t.
    exact (seq_commutes l H l0 Wa Wb).
  - (* dict *)
    destruct b; try reflexivity. simpl unmark_val. rewrite !py_eq_dict, !map_length.
    f_equal. exact (sub_commutes_dict d H d0 Wa Wb).
  - (* namespace *)
    destruct b; try reflexivity. simpl unmark_val. rewrite !py_eq_ns, !map_length.
    f_equal. exact (sub_commutes_ns d H d0 Wa Wb).
Qed.

Lemma eq_agrees_proof a b : wf_deep a = true -> wf_deep b = true ->
  py_eq a b = py_eq (unmark_val a) (unmark_val b).
Proof. exact (eq_commutes a b). Qed.

End WithClash.

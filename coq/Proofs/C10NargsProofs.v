(* C10 — list-valued options: what _check_type (islist) accepted it returns unchanged; the parsed key validates
   and re-parses to itself.  By induction on the list of items over the key-level theorem check_type_fixed. *)
From JV Require Import Lib.Base Model.C10Adapt Model.C10Nargs Proofs.C10AdaptProofs.

Section NargsProofs.
Variable jload : str -> lres.
Variable pval : bool -> str -> lres.
Variable ikey : str -> option Z.

Notation check_type := (check_type jload pval ikey).
Notation key_guard := (key_guard jload pval ikey).
Notation check_items := (check_items jload pval ikey).
Notation check_type_list := (check_type_list jload pval ikey).
Notation parse_list_key := (parse_list_key jload pval ikey).
Notation validate_list_key := (validate_list_key jload pval ikey).
Notation list_guard := (list_guard jload pval ikey).

Lemma check_items_fixed dflt t : forall l ws,
  forallb (key_guard dflt t) l = true -> check_items dflt t l = Some ws -> check_items dflt t ws = Some ws.
Proof.
  induction l as [|x l IH]; intros ws G H; simpl in *.
  - inversion H; subst. reflexivity.
  - apply andb_true_iff in G. destruct G as [G1 G2].
    destruct (check_type dflt t x) as [w|] eqn:C; [|discriminate].
    destruct (check_items dflt t l) as [ws0|] eqn:E; [|discriminate].
    inversion H; subst. simpl.
    rewrite (check_type_fixed jload pval ikey _ _ _ _ G1 C).
    rewrite (IH ws0 G2 eq_refl). reflexivity.
Qed.

Lemma check_items_length dflt t : forall l ws, check_items dflt t l = Some ws -> length ws = length l.
Proof.
  induction l as [|x l IH]; intros ws H; simpl in *.
  - inversion H; reflexivity.
  - destruct (check_type dflt t x); [|discriminate].
    destruct (check_items dflt t l) as [ws0|]; [|discriminate].
    inversion H; subst. simpl. now rewrite (IH ws0).
Qed.

Theorem check_type_list_fixed dflt t v0 w :
  list_guard dflt t v0 = true -> check_type_list dflt t v0 = AOk w -> check_type_list dflt t w = AOk w.
Proof.
  intros G H. unfold check_type_list in H.
  destruct v0 as [ | b | z | f | s | l | l | l | d | c m | k r ];
    try (cbv beta iota in H; destruct (is_empty_seq _) eqn:E; [|discriminate]; inversion H; subst;
         unfold check_type_list; cbv beta iota; rewrite E; reflexivity).
  cbv beta iota in H. unfold list_guard in G.
  destruct (check_items dflt t l) as [ws|] eqn:C; [|discriminate].
  inversion H; subst. unfold check_type_list. cbv beta iota.
  now rewrite (check_items_fixed dflt t l ws G C).
Qed.

Theorem parse_list_key_fixed dflt t v0 w :
  list_guard dflt t v0 = true -> parse_list_key dflt t v0 = AOk w ->
  validate_list_key dflt t w = true /\ parse_list_key dflt t w = AOk w.
Proof.
  intros G H. unfold parse_list_key in H.
  destruct (check_type_list dflt t v0) as [x|] eqn:C; [|discriminate].
  assert (Ex : x = w).
  { destruct x; try (now inversion H);
      match type of H with match ?X with _ => _ end = _ => destruct X; now inversion H end. }
  subst x. pose proof (check_type_list_fixed _ _ _ _ G C) as F.
  split.
  - unfold validate_list_key. destruct w; try reflexivity; now rewrite F.
  - unfold parse_list_key. rewrite F. destruct w; try reflexivity; now rewrite F.
Qed.

(* the items are normalised once: the result has as many items as the input *)
Theorem check_type_list_length dflt t l ws :
  check_type_list dflt t (VList l) = AOk (VList ws) -> length ws = length l.
Proof.
  unfold check_type_list. destruct (check_items dflt t l) as [ws0|] eqn:C; [|discriminate].
  intro H. inversion H; subst. exact (check_items_length dflt t l ws C).
Qed.

End NargsProofs.

(* C19 — the mode x facts product: guard (finding classes), the finite table closed by vm_compute,
   and its lifting to all mode strings. *)
From JV Require Import Lib.Base Gen.C19PathFlags Model.C19PathMode Spec.C19Spec Spec.C19Guard.

(* one row of the product (`if` rather than implb: the VM is strict) *)
Definition row_ok_fx (fxs : fixes) (fl : mfl) (f : facts) : bool :=
  if consistent f then
    let o := path_check_fl_fx fxs fl f in
    outcome_eqb o (defect_outcome_fx fxs fl f)
    && (if guard_fx fxs fl f then outcome_eqb o (spec_fl fl f) else negb (outcome_eqb o (spec_fl fl f)))
  else true.

(* every combination of landed repairs (fx_lf and fx_rp do not concern this half) *)
Definition fixes_of_vec (v : list bool) : fixes :=
  match v with
  | [a; b; c; d; e] => {| fx_F := a; fx_fifo := b; fx_cc := c; fx_lf := d; fx_rp := e |}
  | _ => no_fixes
  end.
Definition vec_of_fixes (x : fixes) : list bool := [fx_F x; fx_fifo x; fx_cc x; fx_lf x; fx_rp x].
Definition mode_fixes : list fixes :=
  [ {| fx_F := false; fx_fifo := false; fx_cc := false; fx_lf := false; fx_rp := false |};
    {| fx_F := true;  fx_fifo := false; fx_cc := false; fx_lf := false; fx_rp := false |};
    {| fx_F := false; fx_fifo := true;  fx_cc := false; fx_lf := false; fx_rp := false |};
    {| fx_F := true;  fx_fifo := true;  fx_cc := false; fx_lf := false; fx_rp := false |};
    {| fx_F := false; fx_fifo := false; fx_cc := true;  fx_lf := false; fx_rp := false |};
    {| fx_F := true;  fx_fifo := false; fx_cc := true;  fx_lf := false; fx_rp := false |};
    {| fx_F := false; fx_fifo := true;  fx_cc := true;  fx_lf := false; fx_rp := false |};
    {| fx_F := true;  fx_fifo := true;  fx_cc := true;  fx_lf := false; fx_rp := false |} ].

(* the same row with sat evaluated once and shared by all combinations of repairs *)
Definition row_s (s : bool) (fxs : fixes) (fl : mfl) (f : facts) : bool :=
  let o := path_check_fl_fx fxs fl f in
  let k := finding_class_s s fxs fl f in
  let sp := if s then Accept else PathErr in
  outcome_eqb o (defect_outcome_k k s fxs fl)
  && (if N.eqb k 0 then outcome_eqb o sp else negb (outcome_eqb o sp)).

Definition row_ok (fl : mfl) (f : facts) : bool :=
  if consistent f then let s := sat fl f in forallb (fun x => row_s s x fl f) mode_fixes else true.

Lemma row_ok_fx_row_s fxs fl f :
  row_ok_fx fxs fl f = if consistent f then row_s (sat fl f) fxs fl f else true.
Proof. reflexivity. Qed.

(* ---- exhaustive enumeration: records <-> bit vectors ------------------------------------------ *)
Fixpoint all_vec (n : nat) : list (list bool) :=
  match n with
  | O => [[]]
  | S n' => flat_map (fun v => [true :: v; false :: v]) (all_vec n')
  end.

Lemma in_all_vec : forall n v, length v = n -> In v (all_vec n).
Proof.
  induction n as [|n IH]; intros v H.
  - destruct v; [simpl; auto|discriminate].
  - destruct v as [|b v]; [discriminate|]. simpl in H. injection H as H.
    simpl. apply in_flat_map. exists v. split; [apply IH; exact H|]. destruct b; simpl; auto.
Qed.

Definition fl_of_vec (v : list bool) : mfl :=
  match v with
  | [b1; b2; b3; b4; b5; b6; b7; b8; b9; b10; b11; b12; b13; b14] =>
      {| ff := b1; fd := b2; fr := b3; fw := b4; fx := b5; fc := b6; fcc := b7;
         fu := b8; fs := b9; fF := b10; fD := b11; fR := b12; fW := b13; fX := b14 |}
  | _ => {| ff := false; fd := false; fr := false; fw := false; fx := false; fc := false;
            fcc := false; fu := false; fs := false; fF := false; fD := false; fR := false;
            fW := false; fX := false |}
  end.

Definition vec_of_fl (fl : mfl) : list bool :=
  [ff fl; fd fl; fr fl; fw fl; fx fl; fc fl; fcc fl; fu fl; fs fl; fF fl; fD fl; fR fl; fW fl; fX fl].

Definition kind_of_bits (a b : bool) : kind :=
  if a then (if b then KReg else KDir) else (if b then KFifo else KOther).

Definition facts_of_vec (v : list bool) : facts :=
  match v with
  | [e; k1; k2; r; w; x; p; a; dw] =>
      {| exists_ := e; kd := kind_of_bits k1 k2; ar := r; aw := w; ax := x;
         par_dir := p; anc_dir := a; dir_w := dw |}
  | _ => {| exists_ := false; kd := KReg; ar := false; aw := false; ax := false;
            par_dir := false; anc_dir := false; dir_w := false |}
  end.

Definition vec_of_facts (f : facts) : list bool :=
  [exists_ f;
   match kd f with KReg | KDir => true | _ => false end;
   match kd f with KReg | KFifo => true | _ => false end;
   ar f; aw f; ax f; par_dir f; anc_dir f; dir_w f].

Lemma fl_vec_roundtrip fl : fl_of_vec (vec_of_fl fl) = fl.
Proof. destruct fl; reflexivity. Qed.

Lemma facts_vec_roundtrip f : facts_of_vec (vec_of_facts f) = f.
Proof. destruct f as [e k r w x p a dw]; destruct k; reflexivity. Qed.

Definition facts_row (fl : mfl) (v : list bool) : bool := row_ok fl (facts_of_vec v).
Definition facts_ok (fl : mfl) : bool := forallb (facts_row fl) (all_vec 9).
Definition fl_row (v : list bool) : bool :=
  let fl := fl_of_vec v in if valid_fl fl && local_fl fl then facts_ok fl else true.

(* the whole product: every flag record (2^14, of which 2304 valid local ones) x every fact record
   (512, of which 70 consistent), evaluated by the kernel's VM *)
Lemma table_ok_true : forallb fl_row (all_vec 14) = true.
Proof. vm_compute. reflexivity. Qed.

Lemma facts_ok_all : forall fl, valid_fl fl = true -> local_fl fl = true -> facts_ok fl = true.
Proof.
  intros fl Hv Hl.
  pose proof table_ok_true as T. rewrite forallb_forall in T.
  assert (I1 : In (vec_of_fl fl) (all_vec 14)) by (apply in_all_vec; reflexivity).
  specialize (T _ I1). unfold fl_row in T. rewrite fl_vec_roundtrip in T. cbv zeta in T.
  rewrite Hv, Hl in T. exact T.
Qed.

Lemma rows_ok : forall fl f, valid_fl fl = true -> local_fl fl = true -> row_ok fl f = true.
Proof.
  intros fl f Hv Hl. pose proof (facts_ok_all fl Hv Hl) as T.
  unfold facts_ok in T. rewrite forallb_forall in T.
  assert (I2 : In (vec_of_facts f) (all_vec 9)) by (apply in_all_vec; reflexivity).
  specialize (T _ I2). unfold facts_row in T. rewrite facts_vec_roundtrip in T. exact T.
Qed.

Lemma row_ok_fx_lf_irrelevant a b c d e fl f :
  row_ok_fx {| fx_F := a; fx_fifo := b; fx_cc := c; fx_lf := d; fx_rp := e |} fl f
  = row_ok_fx {| fx_F := a; fx_fifo := b; fx_cc := c; fx_lf := false; fx_rp := false |} fl f.
Proof. reflexivity. Qed.

Lemma rows_ok_fx : forall fxs fl f, valid_fl fl = true -> local_fl fl = true -> row_ok_fx fxs fl f = true.
Proof.
  intros fxs fl f Hv Hl. pose proof (rows_ok fl f Hv Hl) as R.
  destruct fxs as [a b c d e]. rewrite row_ok_fx_lf_irrelevant, row_ok_fx_row_s.
  unfold row_ok in R. destruct (consistent f); [|reflexivity].
  cbv zeta in R. rewrite forallb_forall in R. apply R.
  destruct a, b, c; simpl; tauto.
Qed.

(* ---- from mode strings to flag records -------------------------------------------------------- *)
Lemma fl_has_flags_of : forall c m, In c c19_alphabet -> fl_has c (flags_of m) = has c m.
Proof.
  intros c m H. unfold c19_alphabet in H. simpl in H.
  repeat (destruct H as [H|H]; [subst c; reflexivity|]). contradiction.
Qed.

Lemma has_In c m : has c m = true -> In c m.
Proof.
  unfold has. rewrite existsb_exists. intros [x [Hx E]]. apply N.eqb_eq in E. subst. exact Hx.
Qed.

Lemma has_false_outside alpha m c :
  forallb (fun c => has c alpha) m = true -> has c alpha = false -> has c m = false.
Proof.
  intros Ha Hc. destruct (has c m) eqn:E; [|reflexivity].
  apply has_In in E. rewrite forallb_forall in Ha. apply Ha in E. congruence.
Qed.

Lemma count_pos_has c m : has c m = false -> count c m = 0%N.
Proof.
  induction m as [|x m IH]; simpl; [reflexivity|].
  destruct (N.eqb c x); simpl; [discriminate|exact IH].
Qed.

Lemma check_mode_valid_fl : forall m, check_mode m = true -> valid_fl (flags_of m) = true.
Proof.
  intros m H. unfold check_mode, check_mode_with in H.
  apply andb_true_iff in H. destruct H as [H He]. apply andb_true_iff in H. destruct H as [Ha _].
  unfold valid_fl, valid_fl_with. apply andb_true_iff. split.
  - rewrite forallb_forall in *. intros [a b] Hab. specialize (He _ Hab). simpl in *.
    (* both members of an exclusion pair are either in the alphabet or absent from m *)
    assert (X : forall c, fl_has c (flags_of m) = true -> has c m = true).
    { intros c Hc. destruct (has c c19_alphabet) eqn:Hin.
      - apply has_In in Hin. rewrite <- (fl_has_flags_of c m Hin). exact Hc.
      - exfalso. revert Hc Hin. unfold fl_has, c19_alphabet.
        repeat match goal with |- context [N.eqb c ?k] =>
          let E := fresh in destruct (N.eqb c k) eqn:E;
          [apply N.eqb_eq in E; subst c; intros _ Hin; vm_compute in Hin; discriminate|] end.
        discriminate. }
    destruct (fl_has a (flags_of m)) eqn:Ea; [|reflexivity].
    destruct (fl_has b (flags_of m)) eqn:Eb; [|reflexivity].
    apply X in Ea. apply X in Eb. rewrite Ea, Eb in He. exact He.
  - simpl. destruct (N.eqb (count 99 m) 2) eqn:E; [|reflexivity]. simpl.
    destruct (has 99 m) eqn:Hh; [reflexivity|].
    apply count_pos_has in Hh. rewrite Hh in E. discriminate.
Qed.

(* ---- the lifted statement ---------------------------------------------------------------------- *)
Lemma outcome_eqb_eq a b : outcome_eqb a b = true <-> a = b.
Proof. destruct a, b; simpl; split; intro H; try reflexivity; try discriminate. Qed.

Lemma mode_exact_fl_fx : forall fxs fl f,
  valid_fl fl = true -> local_fl fl = true -> consistent f = true -> guard_fx fxs fl f = true ->
  (path_check_fl_fx fxs fl f = Accept <-> sat fl f = true) /\
  (path_check_fl_fx fxs fl f <> Accept -> path_check_fl_fx fxs fl f = PathErr).
Proof.
  intros fxs fl f Hv Hl Hc Hg. pose proof (rows_ok_fx fxs fl f Hv Hl) as R.
  unfold row_ok_fx in R. rewrite Hc, Hg in R. cbv zeta in R.
  apply andb_true_iff in R. destruct R as [_ R].
  apply outcome_eqb_eq in R. unfold spec_fl in R. rewrite R.
  destruct (sat fl f); split; try split; intros; try reflexivity; try discriminate; congruence.
Qed.

Lemma mode_exact_str_fx : forall fxs m f,
  check_mode m = true -> has 117 m = false -> has 115 m = false ->
  consistent f = true -> guard_fx fxs (flags_of m) f = true ->
  (path_check_fx fxs m false f = Accept <-> sat (flags_of m) f = true) /\
  (path_check_fx fxs m false f <> Accept -> path_check_fx fxs m false f = PathErr).
Proof.
  intros fxs m f Hm Hu Hs Hc Hg. unfold path_check_fx. rewrite Hm. simpl.
  apply mode_exact_fl_fx; auto.
  - apply check_mode_valid_fl; exact Hm.
  - unfold local_fl. simpl. rewrite Hu, Hs. reflexivity.
Qed.

Lemma mode_exact_fl : forall fl f,
  valid_fl fl = true -> local_fl fl = true -> consistent f = true -> guard fl f = true ->
  (path_check_fl fl f = Accept <-> sat fl f = true) /\
  (path_check_fl fl f <> Accept -> path_check_fl fl f = PathErr).
Proof. exact (mode_exact_fl_fx no_fixes). Qed.

Lemma mode_exact_str : forall m f,
  check_mode m = true -> has 117 m = false -> has 115 m = false ->
  consistent f = true -> guard (flags_of m) f = true ->
  (path_check m false f = Accept <-> sat (flags_of m) f = true) /\
  (path_check m false f <> Accept -> path_check m false f = PathErr).
Proof. exact (mode_exact_str_fx no_fixes). Qed.

(* with the three repairs the guard is trivially true: the full statement *)
Lemma guard_all_fixes : forall fl f, guard_fx all_fixes fl f = true.
Proof. reflexivity. Qed.

Lemma mode_exact_str_repaired : forall m f,
  check_mode m = true -> has 117 m = false -> has 115 m = false -> consistent f = true ->
  (path_check_fx all_fixes m false f = Accept <-> sat (flags_of m) f = true) /\
  (path_check_fx all_fixes m false f <> Accept -> path_check_fx all_fixes m false f = PathErr).
Proof. intros m f Hm Hu Hs Hc. apply mode_exact_str_fx; auto. Qed.

(* outside the guard the code does exactly the listed wrong thing, and it is wrong *)
Lemma findings_exact_fx : forall fxs fl f,
  valid_fl fl = true -> local_fl fl = true -> consistent f = true ->
  path_check_fl_fx fxs fl f = defect_outcome_fx fxs fl f /\
  (guard_fx fxs fl f = false -> path_check_fl_fx fxs fl f <> spec_fl fl f).
Proof.
  intros fxs fl f Hv Hl Hc. pose proof (rows_ok_fx fxs fl f Hv Hl) as R.
  unfold row_ok_fx in R. rewrite Hc in R. cbv zeta in R.
  apply andb_true_iff in R. destruct R as [R1 R3].
  apply outcome_eqb_eq in R1. split; [exact R1|].
  intros Hg. rewrite Hg in R3. intro E.
  apply outcome_eqb_eq in E. rewrite E in R3. discriminate.
Qed.

Lemma findings_exact : forall fl f,
  valid_fl fl = true -> local_fl fl = true -> consistent f = true ->
  path_check_fl fl f = defect_outcome fl f /\
  (guard fl f = false -> path_check_fl fl f <> spec_fl fl f).
Proof. exact (findings_exact_fx no_fixes). Qed.

(* the mode language the code accepts is the documented one *)
Lemma check_mode_is_documented : forall m, check_mode m = spec_check_mode m.
Proof. intro m. reflexivity. Qed.

(* ---- relative / absolute ------------------------------------------------------------------------ *)
Lemma is_abs_app a b : is_abs a = true -> is_abs (a ++ b) = true.
Proof. destruct a; simpl; [discriminate|auto]. Qed.

Lemma join_abs a b : is_abs a = true -> is_abs (join a b) = true.
Proof.
  intro H. unfold join. destruct (is_abs b) eqn:E; [exact E|].
  destruct a as [|c a]; [discriminate|].
  destruct (ends_slash (c :: a)); apply is_abs_app; exact H.
Qed.

Lemma names_spec : forall home cwd given,
  is_abs cwd = true ->
  let '(rel, ab) := path_names home cwd given in
  spec_names_ok home cwd given rel ab = true.
Proof.
  intros home cwd given Hc. unfold path_names, spec_names_ok.
  set (e := expanduser home given).
  rewrite str_eqb_refl. simpl.
  destruct (is_abs e) eqn:E.
  - rewrite E. simpl. apply str_eqb_refl.
  - rewrite (join_abs cwd e Hc). simpl. unfold join. rewrite E.
    destruct cwd as [|c cwd]; [discriminate|].
    destruct (ends_slash (c :: cwd)).
    + rewrite (str_eqb_refl ((c :: cwd) ++ e)). simpl. apply orb_true_r.
    + rewrite (str_eqb_refl ((c :: cwd) ++ slash :: e)). reflexivity.
Qed.

(* C20 — the registry of restricted number types: a type handed back by restricted_number_type validates
   exactly the comparisons STATED IN THAT CALL, along any history of creations. *)
From Coq Require Import Sorting.Permutation.
From JV Require Import Lib.Base Lib.C20Text Model.C20Base Gen.C20Operators Model.C20Restricted Spec.C20RestrictedSpec
  Model.C20NumRegistry Proofs.C20RestrictedProofs.
Local Open Scope Z_scope.

Lemma insert_sorted_perm e l : Permutation (insert_sorted e l) (e :: l).
Proof.
  induction l as [|x l IH]; simpl; [apply Permutation_refl|].
  destruct (entry_leb e x); [apply Permutation_refl|].
  eapply perm_trans; [apply perm_skip, IH | apply perm_swap].
Qed.

Lemma sorted_perm l : Permutation (sorted l) l.
Proof.
  induction l as [|e l IH]; simpl; [apply perm_nil|].
  eapply perm_trans; [apply insert_sorted_perm | apply perm_skip, IH].
Qed.

Lemma forallb_perm {A} (f : A -> bool) l l' : Permutation l l' -> forallb f l = forallb f l'.
Proof.
  induction 1; simpl; try congruence.
  destruct (f x), (f y); reflexivity.
Qed.

Lemma existsb_perm {A} (f : A -> bool) l l' : Permutation l l' -> existsb f l = existsb f l'.
Proof.
  induction 1; simpl; try congruence.
  destruct (f x), (f y); reflexivity.
Qed.

Lemma ext_eqb_eq a b : ext_eqb a b = true -> a = b.
Proof. destruct a, b; simpl; try discriminate; auto. intros H. apply Z.eqb_eq in H. congruence. Qed.

(* a comparison cannot tell two spellings of one reference apart *)
Lemma holdsb_entry_eqb v a b : entry_eqb a b = true -> holdsb (fst a) v (snd a) = holdsb (fst b) v (snd b).
Proof.
  unfold entry_eqb, num_numeq. intros H. apply andb_true_iff in H. destruct H as [H1 H2].
  apply str_eqb_spec in H1. apply ext_eqb_eq in H2. unfold holdsb. rewrite H1, H2. reflexivity.
Qed.

Lemma forallb_pointwise {A} (eqb : A -> A -> bool) (f : A -> bool) :
  (forall a b, eqb a b = true -> f a = f b) ->
  forall l l', list_eqb eqb l l' = true -> forallb f l = forallb f l' /\ existsb f l = existsb f l'.
Proof.
  intros Hf. induction l as [|a l IH]; destruct l' as [|b l']; simpl; try discriminate; auto.
  intros H. apply andb_true_iff in H. destruct H as [H1 H2].
  destruct (IH l' H2) as [E1 E2]. rewrite (Hf a b H1), E1, E2. auto.
Qed.

Lemma satb_key rs1 rs2 j x :
  list_eqb entry_eqb (sorted rs1) (sorted rs2) = true -> satb rs1 j x = satb rs2 j x.
Proof.
  intros H.
  destruct (forallb_pointwise entry_eqb (fun sr => holdsb (fst sr) x (snd sr))
              (fun a b => holdsb_entry_eqb x a b) _ _ H) as [E1 E2].
  unfold satb. destruct j.
  - rewrite <- (forallb_perm _ _ _ (sorted_perm rs1)), <- (forallb_perm _ _ _ (sorted_perm rs2)). exact E1.
  - rewrite <- (existsb_perm _ _ _ (sorted_perm rs1)), <- (existsb_perm _ _ _ (sorted_perm rs2)). exact E2.
Qed.

Lemma base_eqb_eq a b : base_eqb a b = true -> a = b.
Proof. destruct a, b; simpl; auto; discriminate. Qed.
Lemma join_eqb_eq a b : join_eqb a b = true -> a = b.
Proof. destruct a, b; simpl; auto; discriminate. Qed.

Lemma known_op_valid sym : known_op sym = true -> valid_sym sym = true.
Proof.
  unfold known_op, operators2. intros H.
  (* the generated table has six rows: a symbol it knows is one of the six *)
  unfold valid_sym.
  destruct (mem_str sym [s_gt; s_ge; s_lt; s_le; s_eq; s_ne]) eqn:E; auto.
  exfalso. simpl in E.
  assert (F : forall s, str_eqb s sym = str_eqb sym s).
  { intros s. destruct (str_eqb s sym) eqn:A; destruct (str_eqb sym s) eqn:B; auto.
    - apply str_eqb_spec in A. subst. rewrite str_eqb_refl in B. discriminate.
    - apply str_eqb_spec in B. subst. rewrite str_eqb_refl in A. discriminate. }
  vm_compute operators1 in H. simpl in H.
  change [62%N] with s_gt in H. change [62%N; 61%N] with s_ge in H. change [60%N] with s_lt in H.
  change [60%N; 61%N] with s_le in H. change [61%N; 61%N] with s_eq in H. change [33%N; 61%N] with s_ne in H.
  rewrite !F in H.
  repeat match type of E with context [str_eqb sym ?s] => destruct (str_eqb sym s) eqn:?; try discriminate end.
Qed.

Lemma creation_ok_valid b rs : creation_ok b rs = true -> valid_syms rs = true.
Proof.
  unfold creation_ok, valid_syms. induction rs as [|e rs IH]; simpl; auto.
  intros H. apply andb_true_iff in H. destruct H as [H1 H2]. apply andb_true_iff in H1. destruct H1 as [H1 _].
  rewrite (known_op_valid _ H1), (IH H2). reflexivity.
Qed.

(* equal keys, both creations admissible: the same verdict on every value *)
Lemma nkey_construct t1 t2 v :
  creation_ok (r_base t1) (r_restr t1) = true -> creation_ok (r_base t2) (r_restr t2) = true ->
  nkey_eqb (nkey_of t1) (nkey_of t2) = true -> construct t1 v = construct t2 v.
Proof.
  intros C1 C2 K. unfold nkey_eqb, nkey_of in K. simpl in K.
  apply andb_true_iff in K. destruct K as [K K3]. apply andb_true_iff in K. destruct K as [K1 K2].
  apply base_eqb_eq in K2. apply join_eqb_eq in K3.
  rewrite !construct_spec by (unfold valid_type; eapply creation_ok_valid; eauto).
  unfold spec_construct. rewrite K2, K3. destruct (conv (r_base t2) v) as [x|]; auto.
  rewrite (satb_key _ _ _ _ K1). reflexivity.
Qed.

(* every entry sits under the key of the type it holds, and that type passed the creation checks *)
Definition nreg_wf (st : nstate) : Prop :=
  forall k n t, In (k, (n, t)) (ns_reg st) -> k = nkey_of t /\ creation_ok (r_base t) (r_restr t) = true.

Lemma nreg_find_in reg k n t : nreg_find reg k = Some (n, t) -> exists k', In (k', (n, t)) reg /\ nkey_eqb k' k = true.
Proof.
  induction reg as [|[k' e] reg IH]; simpl; [discriminate|].
  destruct (nkey_eqb k' k) eqn:E.
  - intros H. inversion H; subst. exists k'. auto.
  - intros H. destruct (IH H) as [k2 [I E2]]. exists k2. auto.
Qed.

Theorem create_num_stated_lemma st name t r st' :
  nreg_wf st -> create_num st name t = (Some r, st') ->
  (forall v, construct r v = construct t v) /\ nreg_wf st'.
Proof.
  intros W. unfold create_num.
  destruct (creation_ok (r_base t) (r_restr t)) eqn:C; simpl; [|discriminate].
  destruct (nreg_find (ns_reg st) (nkey_of t)) as [[n t0]|] eqn:F.
  - destruct (str_eqb n name); intros H; inversion H; subst. split; auto.
    apply nreg_find_in in F. destruct F as [k' [I E]]. destruct (W _ _ _ I) as [-> C0].
    intros v. apply nkey_construct; auto.
  - destruct (mem_str name (ns_names st)); intros H; inversion H; subst. split; auto.
    intros k n t0 [I|I]; [inversion I; subst; auto | eapply W; eauto].
Qed.

Lemma create_num_wf st name t r st' : nreg_wf st -> create_num st name t = (r, st') -> nreg_wf st'.
Proof.
  intros W H. destruct r as [r|]; [eapply create_num_stated_lemma; eauto|].
  unfold create_num in H. destruct (negb (creation_ok (r_base t) (r_restr t))); [inversion H; subst; auto|].
  destruct (nreg_find (ns_reg st) (nkey_of t)) as [[n t0]|].
  - destruct (str_eqb n name); inversion H; subst; auto.
  - destruct (mem_str name (ns_names st)); inversion H; subst; auto.
Qed.

(* along any history, from any well-formed registry (the empty one is): every type handed back validates the
   comparisons stated in its own call *)
Theorem create_all_stated_lemma calls : forall st rs st',
  nreg_wf st -> create_all st calls = (rs, st') ->
  Forall2 (fun call r => match r with Some t' => forall v, construct t' v = construct (snd call) v | None => True end) calls rs
  /\ nreg_wf st'.
Proof.
  induction calls as [|[name t] calls IH]; simpl; intros st rs st' W H.
  - inversion H; subst. split; [constructor | auto].
  - destruct (create_num st name t) as [r st1] eqn:E1. destruct (create_all st1 calls) as [rs2 st2] eqn:E2.
    inversion H; subst. pose proof (create_num_wf _ _ _ _ _ W E1) as W1.
    destruct (IH _ _ _ W1 E2) as [F W2]. split; [|exact W2]. constructor; [|exact F].
    destruct r as [r|]; [|exact I]. simpl. intros v. exact (proj1 (create_num_stated_lemma _ _ _ _ _ W E1) v).
Qed.

Lemma nreg_wf_empty names : nreg_wf {| ns_reg := []; ns_names := names |}.
Proof. intros k n t []. Qed.

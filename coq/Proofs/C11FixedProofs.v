(* C11 — the model of the PATCHED code (Model/C11NsFixed.v, fixes/C11-path-through-dict.patch) refines the nested
   dictionary on histories THROUGH dict-valued leaves: a kernel-evaluated finite product (every history of length
   <= 2 over 73 operations, and every history of length 3 whose first operation stores a dict / a namespace
   holding dicts), complementing the unbounded refinement theorem that holds inside the guard. *)
From JV Require Import Lib.Base Model.Ns Model.NsRun Model.NsGuard Model.C11NsFixed Spec.NestedDict Spec.NestedDictRun
  Gen.C11Clash Corr.C11Judge.

Definition fx_keys : list str :=
  [ n_a; dk [n_a; n_b]; dk [n_a; n_items]; dk [n_a; n_b; n_items]; dk [n_a; n_c; n_d]; dk [n_items; n_a; n_keys] ].

Definition fx_vals : list val :=
  [ VDict [(n_b, VInt 1); (n_items, VInt 2)];
    VDict [(n_b, VDict [(n_items, VInt 1)]); (n_c, VNone)];
    VInt 5;
    VNs [(mk_ n_items, VDict [(n_a, VInt 1)]); (n_b, VDict [])] ].

Definition fx_ops : list op :=
  flat_map (fun k => map (OSet k) fx_vals ++
                     [OGet k; OContains k; ODel k; OPop k (VInt 9); OGetD k (VInt 9); OGetSteps k;
                      OUpdV (VInt 7) (Some k) true]) fx_keys
  ++ [OSetAttr (dk [n_a; n_items]) (VInt 7); OSetAttr n_items (VDict [(n_a, VDict [(n_keys, VInt 3)])]);
      OItems true; OAsDict;
      OInitDict (VDict [(dk [n_a; n_b], VInt 1); (n_a, VDict [(n_items, VInt 2)]); (dk [n_a; n_items; n_b], VInt 3)]);
      OUpdNs (VNs [(n_a, VNs [(mk_ n_items, VInt 4)])]) None false;
      OUpdNs (VNs [(n_b, VInt 4)]) (Some n_a) true].

(* first operations of the length-3 histories: they put a dict (or a namespace holding dicts) at a / a.b / items *)
Definition fx_firsts : list op :=
  [ OSet n_a (VDict [(n_b, VInt 1); (n_items, VInt 2)]);
    OSet n_a (VDict [(n_b, VDict [(n_items, VInt 1)]); (n_c, VNone)]);
    OSet n_a (VNs [(mk_ n_items, VDict [(n_a, VInt 1)]); (n_b, VDict [])]);
    OSet (dk [n_a; n_b]) (VDict [(n_b, VDict [(n_items, VInt 1)]); (n_c, VNone)]);
    OSetAttr n_items (VDict [(n_a, VDict [(n_keys, VInt 3)])]);
    OInitDict (VDict [(dk [n_a; n_b], VInt 1); (n_a, VDict [(n_items, VInt 2)]); (dk [n_a; n_items; n_b], VInt 3)]) ].

Definition fx_ok := fixed_refines_b clash_names.

(* the boolean product and its lifting to quantifiers, for ANY lists and predicate (nothing is computed here) *)
Section Product.
Variables (ops firsts : list op) (ok : list op -> bool).

Definition all_ok : bool :=
  forallb (fun a => ok [a]) ops
  && forallb (fun a => forallb (fun b => ok [a; b]) ops) ops
  && forallb (fun a => forallb (fun b => forallb (fun c => ok [a; b; c]) ops) ops) firsts.

Lemma product_lift : all_ok = true ->
  (forall a, In a ops -> ok [a] = true) /\
  (forall a b, In a ops -> In b ops -> ok [a; b] = true) /\
  (forall a b c, In a firsts -> In b ops -> In c ops -> ok [a; b; c] = true).
Proof.
  unfold all_ok. intros H.
  apply andb_true_iff in H. destruct H as [H H3]. apply andb_true_iff in H. destruct H as [H1 H2].
  rewrite forallb_forall in H1, H2, H3.
  split; [|split].
  - exact H1.
  - intros a b Ha Hb. specialize (H2 a Ha). rewrite forallb_forall in H2. exact (H2 b Hb).
  - intros a b c Ha Hb Hc. specialize (H3 a Ha). rewrite forallb_forall in H3. specialize (H3 b Hb).
    rewrite forallb_forall in H3. exact (H3 c Hc).
Qed.
End Product.

Lemma fx_all_ok_true : all_ok fx_ops fx_firsts fx_ok = true.
Proof. vm_compute. reflexivity. Qed.

Definition fixed_refines_through_dicts_proof := product_lift fx_ops fx_firsts fx_ok fx_all_ok_true.

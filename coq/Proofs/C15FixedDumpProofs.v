(* C15 — the dump statements for the REPAIRED code, i.e. for the model variant the judge ties the current /repo to
   (both fixes landed: link_arguments = build_fixed, strip_link_target_keys = strip_fixed):
     - no target key of any accepted link is left in strip_fixed p cfg (any configuration),
     - every key that overlaps no target is dumped unchanged,
     - the same through the TOP parser of a parser tree (strip_tree strip_fixed).
   Until round 6 these were proved for the unrepaired pair (build, strip) only; for strip_fixed only the list-item
   statement (fixed_dump_items_clean) was. *)
From JV Require Import Lib.Base Lib.C15Val Model.C15Links Model.C15Tree
  Proofs.C15Proofs Proofs.C15DumpProofs Proofs.C15ItemsProofs Proofs.C15FixedProofs Proofs.C15Witness Proofs.C15TreeProofs.

(* writing a list over a list never makes a key appear *)
Lemma get_set_list_none c d old new x :
  get c d = Some (VList old) -> get c x = None -> get (set c d (VList new)) x = None.
Proof.
  intros G H. destruct (comparable d x) eqn:C.
  - unfold comparable in C. apply orb_true_iff in C. destruct C as [C|C].
    + pose proof (is_prefix_split _ _ C) as S. destruct (skipn (length d) x) as [|s r] eqn:R.
      * rewrite app_nil_r in S. subst x. rewrite G in H. discriminate.
      * rewrite S. rewrite get_set_below. reflexivity.
    + pose proof (is_prefix_split _ _ C) as S. rewrite S in G. rewrite get_app in G. rewrite H in G. discriminate.
  - rewrite get_set_incomp by exact C. exact H.
Qed.

Lemma del_target_fixed_none cfg a x : get cfg x = None -> get (del_target_fixed cfg a) x = None.
Proof.
  intro H. rewrite del_target_fixed_unfold. destruct (al_kind a) as [|d c]; [exact H|].
  pose proof (del_target_key_none cfg (al_tgt a) x H) as H1.
  destruct (get (del_target_key cfg (al_tgt a)) d) as [[| | |its|]|] eqn:G; try exact H1.
  eapply get_set_list_none; eauto.
Qed.

Lemma fold_del_fixed_none ls : forall cfg x, get cfg x = None -> get (fold_left del_target_fixed ls cfg) x = None.
Proof.
  induction ls as [|a ls IH]; intros cfg x H; simpl; auto.
  apply IH. apply del_target_fixed_none. exact H.
Qed.

Lemma del_target_fixed_same cfg a d c :
  al_kind a = TgtInit d c -> al_tgt a <> [] -> get (del_target_fixed cfg a) (al_tgt a) = None.
Proof.
  intros K N. rewrite del_target_fixed_unfold. rewrite K.
  pose proof (del_target_key_same cfg (al_tgt a) N) as H1.
  destruct (get (del_target_key cfg (al_tgt a)) d) as [[| | |its|]|] eqn:G; try exact H1.
  eapply get_set_list_none; eauto.
Qed.

Lemma fold_del_fixed_target ls : forall cfg a d c,
  In a ls -> al_kind a = TgtInit d c -> al_tgt a <> [] -> get (fold_left del_target_fixed ls cfg) (al_tgt a) = None.
Proof.
  induction ls as [|b ls IH]; intros cfg a d c Hin K N; [destruct Hin|].
  simpl. destruct Hin as [->|Hin].
  - apply fold_del_fixed_none. eapply del_target_fixed_same; eauto.
  - eapply IH; eauto.
Qed.

(* any parser whose replaced actions are recorded (marks_good): no target key survives the repaired strip *)
Lemma strip_fixed_target_absent p cfg a :
  marks_good p -> In a (p_links p) -> al_tgt a <> [] -> get (strip_fixed p cfg) (al_tgt a) = None.
Proof.
  intros M Ha N. unfold strip_fixed. destruct (al_kind a) as [|d c] eqn:K.
  - apply fold_del_fixed_none. apply fold_del_in; [|exact N].
    destruct (M a Ha K) as [d Hd]. apply find_act_in in Hd. destruct Hd as [Hin Hk].
    apply in_map_iff. exists (d, true). split; [exact Hk|]. apply filter_In. split; [exact Hin|reflexivity].
  - eapply fold_del_fixed_target; eauto.
Qed.

(* outside the target nothing changes: neither the pop, nor the removal of an emptied parent, nor the rewritten list *)
Lemma del_target_fixed_frame cfg a k :
  wf_alink a -> comparable (al_tgt a) k = false -> get (del_target_fixed cfg a) k = get cfg k.
Proof.
  intros [_ W] H. rewrite del_target_fixed_unfold. destruct (al_kind a) as [|d c]; [reflexivity|].
  destruct W as [T C].
  pose proof (del_target_key_frame cfg (al_tgt a) k H) as H1.
  destruct (get (del_target_key cfg (al_tgt a)) d) as [[| | |its|]|] eqn:G; try exact H1.
  rewrite <- H1. eapply get_set_list; eauto. rewrite <- T. exact H.
Qed.

Lemma fold_del_fixed_frame ls : forall cfg k,
  (forall a, In a ls -> wf_alink a /\ comparable (al_tgt a) k = false) ->
  get (fold_left del_target_fixed ls cfg) k = get cfg k.
Proof.
  induction ls as [|a ls IH]; intros cfg k H; simpl; auto.
  rewrite IH by (intros b Hb; apply H; right; exact Hb).
  destruct (H a (or_introl eq_refl)) as [W C]. apply del_target_fixed_frame; assumption.
Qed.

Lemma strip_fixed_frame p cfg k :
  Forall wf_alink (p_links p) -> marks_sound p ->
  (forall a, In a (p_links p) -> comparable (al_tgt a) k = false) -> get (strip_fixed p cfg) k = get cfg k.
Proof.
  intros W M H. unfold strip_fixed. rewrite Forall_forall in W.
  rewrite fold_del_fixed_frame by (intros a Ha; split; [apply W; exact Ha|apply H; exact Ha]).
  apply fold_del_frame. intros t Ht.
  apply in_map_iff in Ht. destruct Ht as [[d b] [E Hf]]. apply filter_In in Hf. destruct Hf as [Hf Hb].
  simpl in Hb, E. subst b. destruct (M d Hf) as [a [Ha Ta]]. rewrite <- E. rewrite <- Ta. apply H. exact Ha.
Qed.

(* ------------------------------------------------------------------ the repaired link_arguments keeps the marks *)
Lemma build_fixed_marks_good ds ls : marks_good (fst (build_fixed ds ls)).
Proof.
  unfold build_fixed. apply (add_links_fixed_inv marks_good).
  - intros p l p' G H. apply add_link_fixed_ok in H. destruct H as [H _]. eapply add_link_marks; eauto.
  - intros ? [].
Qed.

Lemma build_fixed_marks_sound ds ls : marks_sound (fst (build_fixed ds ls)).
Proof.
  unfold build_fixed. apply (add_links_fixed_inv marks_sound).
  - intros p l p' G H. apply add_link_fixed_ok in H. destruct H as [H _]. eapply add_link_marks_sound; eauto.
  - intros d Hd. simpl in Hd. apply in_map_iff in Hd. destruct Hd as [x [E _]]. discriminate.
Qed.

(* ------------------------------------------------------------------ the statements, for the repaired pair *)
Theorem fixed_target_absent_from_dump ds ls cfg a :
  let p := fst (build_fixed ds ls) in
  In a (p_links p) -> al_tgt a <> [] -> get (strip_fixed p cfg) (al_tgt a) = None.
Proof. intros p. apply strip_fixed_target_absent. apply build_fixed_marks_good. Qed.

Theorem fixed_dump_frame ds ls cfg k :
  let p := fst (build_fixed ds ls) in
  (forall a, In a (p_links p) -> comparable (al_tgt a) k = false) -> get (strip_fixed p cfg) k = get cfg k.
Proof.
  intros p. apply strip_fixed_frame.
  - destruct (build_fixed_good ds ls) as [[W _] _]. exact W.
  - apply build_fixed_marks_sound.
Qed.

(* the dump of the TOP parser of a tree, both parsers built by the repaired link_arguments, repaired strip *)
Theorem fixed_tree_targets_absent_from_dump ds ls ds' ls' n cfg :
  let p := fst (build_fixed ds ls) in
  let q := fst (build_fixed ds' ls') in
  (forall a, In a (p_links p) -> al_tgt a <> [] ->
     comparable (al_tgt a) [n] = false -> get (strip_tree strip_fixed p q n cfg) (al_tgt a) = None) /\
  (forall a, In a (p_links q) -> al_tgt a <> [] -> get (strip_tree strip_fixed p q n cfg) (n :: al_tgt a) = None) /\
  (forall a d c, In a (p_links q) -> al_kind a = TgtInit d c ->
     forall items, get (strip_tree strip_fixed p q n cfg) (n :: d) = Some (VList items) ->
     forall i, In i items -> get i c = None).
Proof.
  intros p q. unfold strip_tree. split; [|split].
  - intros a Ha N Inc.
    pose proof (strip_fixed_target_absent p cfg a (build_fixed_marks_good ds ls) Ha N) as T.
    destruct (get (strip_fixed p cfg) [n]) as [s|]; [|exact T].
    rewrite get_set_incomp; [exact T|]. rewrite comparable_sym. exact Inc.
  - intros a Ha N.
    destruct (get (strip_fixed p cfg) [n]) as [s|] eqn:G.
    + change (n :: al_tgt a) with ([n] ++ al_tgt a). rewrite get_set_below.
      apply (strip_fixed_target_absent q s a (build_fixed_marks_good ds' ls') Ha N).
    + change (n :: al_tgt a) with ([n] ++ al_tgt a). rewrite get_app. rewrite G. reflexivity.
  - intros a d c Ha K items.
    destruct (get (strip_fixed p cfg) [n]) as [s|] eqn:G.
    + change (n :: d) with ([n] ++ d). rewrite get_set_below.
      apply (fixed_dump_items_clean_build ds' ls' s a d c Ha K).
    + change (n :: d) with ([n] ++ d). rewrite get_app. rewrite G. discriminate.
Qed.

(* ------------------------------------------------------------------ the hypotheses are satisfiable
   the parser of Proofs/C15Witness.v (a, b --add--> required t) built by the REPAIRED link_arguments: an accepted link
   whose target is present in the parsed configuration, absent from the repaired dump, the sources dumped unchanged *)
Example fx_dump_hyps :
  let p := fst (build_fixed ex_decls ex_links) in
  exists a, In a (p_links p) /\ al_tgt a = [sT] /\ get ex_cfg (al_tgt a) = Some (VInt 12) /\
            (forall b, In b (p_links p) -> comparable (al_tgt b) [sA] = false) /\
            strip_fixed p ex_cfg = VMap [(sA, VInt 5); (sB, VInt 7)].
Proof.
  eexists. split; [vm_compute; left; reflexivity|]. split; [reflexivity|]. split; [reflexivity|].
  split; [|vm_compute; reflexivity].
  intros b Hb. vm_compute in Hb. destruct Hb as [<-|[]]. reflexivity.
Qed.

(* links only in the subcommand parser (Proofs/C15TreeProofs.v), repaired pair: nothing of fit.t in the top-level dump *)
Example fx_tree_dump :
  strip_tree strip_fixed (fst (build_fixed tr_top [])) (fst (build_fixed ex_decls ex_links)) sFit tr_cfg
  = VMap [(sS, VInt 3); (sFit, VMap [(sA, VInt 5); (sB, VInt 7)])].
Proof. vm_compute. reflexivity. Qed.

(* ------------------------------------------------------------------ the tree invariant for the repaired link_arguments:
   no overlap guard left (build_fixed accepts overlap-free link sets only) *)
Theorem fixed_tree_link_invariant (fn : nat -> list val -> option val) (classes : list cls) ds ls ds' ls' n pre cfg :
  let p := fst (build_fixed ds ls) in
  let q := fst (build_fixed ds' ls') in
  (forall a, In a (p_links p) -> comparable (al_tgt a) [n] = false) ->
  finish_tree fn classes p q n pre = Ok cfg ->
  (forall a, In a (p_links p) -> holds fn a cfg) /\
  (forall subpre, get pre [n] = Some subpre ->
     exists s, get cfg [n] = Some s /\ forall a, In a (p_links q) -> holds fn a s).
Proof.
  intros p q Inc F.
  destruct (build_fixed_good ds ls) as [Gp Op]. destruct (build_fixed_good ds' ls') as [Gq Oq].
  eapply tree_invariant_generic; eauto.
Qed.

Example fx_tree_finish :
  p_links (fst (build_fixed tr_top [])) = [] /\
  finish_tree wfn [] (fst (build_fixed tr_top [])) (fst (build_fixed ex_decls ex_links)) sFit tr_pre = Ok tr_cfg.
Proof. split; vm_compute; reflexivity. Qed.

(* C07 — the four declaration compilers of Model/C07Decl.v give related tables, for EVERY group key and
   EVERY field list:
     as_dataclass      = as_class_group                                 (key not starting with '-')
     as_class_group fs = with_load (as_dotted (norm fs))                (something is left by the signature rules)
     as_inner_parser   = with_load (as_dotted ..)                       (hyphen_safe; always, on the repaired tree)
   and the signature rules are a normal form: norm fs is explicit, norm is idempotent. *)
From JV Require Import Lib.Base Model.C07Decl.

(* ---- the signature rules ---- *)
Lemma sig_norm_explicit f f' :
  starts_underscore (f_name f) = false -> In f' (sig_norm f) -> explicit_field f' = true.
Proof.
  unfold sig_norm, explicit_field. destruct f as [n t d]; simpl. intro Hu. rewrite Hu. simpl.
  destruct d as [|v]; simpl.
  - destruct (is_optional t) eqn:Eo; simpl.
    + intros [<-|[]]; simpl. rewrite Hu, Eo. reflexivity.
    + intros [<-|[]]; simpl. rewrite Eo. reflexivity.
  - destruct (is_none v) eqn:En; simpl.
    + destruct (is_optional t) eqn:Eo; simpl; intros [<-|[]]; simpl; rewrite Hu, ?En, ?Eo; reflexivity.
    + intros [<-|[]]; simpl. rewrite Hu, En. reflexivity.
Qed.

Lemma sig_norm_id f : explicit_field f = true -> sig_norm f = [f].
Proof.
  unfold sig_norm, explicit_field. destruct f as [n t d]; simpl.
  destruct d as [|v]; simpl.
  - intro H. apply negb_true_iff in H. rewrite H. simpl. rewrite ?andb_false_r. reflexivity.
  - intro H. apply andb_true_iff in H. destruct H as [Hu Hv].
    apply negb_true_iff in Hu. rewrite Hu. simpl.
    destruct (is_none v) eqn:En; simpl in *; [|reflexivity].
    rewrite Hv. simpl. reflexivity.
Qed.

Lemma norm_explicit fs : public fs = true -> explicit (norm fs) = true.
Proof.
  unfold explicit, norm, public. intro Hp. apply forallb_forall. intros f' Hin.
  apply in_flat_map in Hin. destruct Hin as [f [Hf Hf']].
  eapply sig_norm_explicit; [|exact Hf'].
  apply negb_true_iff. exact (proj1 (forallb_forall _ _) Hp f Hf).
Qed.

Lemma explicit_norm fs : explicit fs = true -> norm fs = fs.
Proof.
  unfold explicit, norm. induction fs as [|f fs IH]; simpl; [reflexivity|].
  intro H. apply andb_true_iff in H. destruct H as [Hf Hfs].
  rewrite (sig_norm_id f Hf), (IH Hfs). reflexivity.
Qed.

Lemma norm_idem fs : public fs = true -> norm (norm fs) = norm fs.
Proof. intro H. apply explicit_norm, norm_explicit, H. Qed.

(* ---- strings ---- *)
Lemma replace_dash_app a b : replace_dash (a ++ b) = replace_dash a ++ replace_dash b.
Proof. apply map_app. Qed.

Lemma replace_dash_nodash s : has_dash s = false -> replace_dash s = s.
Proof.
  unfold has_dash, replace_dash. induction s as [|c s IH]; simpl; [reflexivity|].
  intro H. apply orb_false_iff in H. destruct H as [Hc Hs]. rewrite Hc, (IH Hs). reflexivity.
Qed.

Lemma lstrip_dash_key gk : starts_dash gk = false -> lstrip_dash (dashes ++ gk) = gk.
Proof.
  unfold dashes. simpl. destruct gk as [|c s]; simpl; [reflexivity|].
  intro H. rewrite H. reflexivity.
Qed.

(* ---- style 3 = style 2 ---- *)
Lemma dataclass_table gk fs :
  starts_dash gk = false -> as_dataclass (dashes ++ gk) fs = as_class_group gk fs.
Proof. intro H. unfold as_dataclass. rewrite (lstrip_dash_key gk H). reflexivity. Qed.

(* ---- style 2 = load row + style 1 on the normal form ---- *)
Lemma sig_params_norm nk fs :
  flat_map (sig_param nk) fs
  = map (fun f => add_typed_argument (dotted_key nk f) (f_ty f) (f_default f)) (norm fs).
Proof.
  unfold norm, sig_param. induction fs as [|f fs IH]; simpl; [reflexivity|].
  rewrite map_app, IH. reflexivity.
Qed.

Lemma norm_nonempty fs : norm fs <> [] -> Nat.eqb (length fs) 0 = false.
Proof. destruct fs; simpl; [intro H; contradiction H; reflexivity | reflexivity]. Qed.

Lemma class_group_table gk fs :
  norm fs <> [] -> as_class_group gk fs = with_load gk (as_dotted gk (norm fs)).
Proof.
  intro H. unfold as_class_group, with_load, as_dotted, create_group.
  rewrite (norm_nonempty fs H), sig_params_norm. reflexivity.
Qed.

(* ---- style 4 = load row + style 1 ---- *)
Lemma skipn_dashes gk : skipn 2 (dashes ++ gk) = gk.
Proof. reflexivity. Qed.

Lemma add_prefix_dashes p s : add_prefix p (dashes ++ s) = dashes ++ p ++ [c_dot] ++ s.
Proof. reflexivity. Qed.

Lemma replace_dash_dotted gk n :
  replace_dash (gk ++ [c_dot] ++ n) = replace_dash gk ++ [c_dot] ++ replace_dash n.
Proof. rewrite !replace_dash_app. reflexivity. Qed.

Lemma replace_dash_dotted_c gk n :
  replace_dash (gk ++ c_dot :: n) = replace_dash gk ++ c_dot :: replace_dash n.
Proof. apply (replace_dash_dotted gk n). Qed.

Lemma inner_rows gk fs :
  t_rows (as_inner_parser (dashes ++ gk) fs) = group_load_row gk :: t_rows (as_dotted gk fs).
Proof.
  unfold as_inner_parser, move_parser_actions. rewrite skipn_dashes. simpl. f_equal.
  unfold inner_table, as_dotted, table_of. simpl. rewrite !map_map.
  apply map_ext. intro f. unfold add_typed_argument, dotted_key. simpl.
  change (gk ++ c_dot :: f_name f) with (gk ++ [c_dot] ++ f_name f).
  rewrite replace_dash_dotted. f_equal.
  destruct (supports_append (f_ty f)); simpl; rewrite <- ?app_assoc; reflexivity.
Qed.

Lemma required_of_map (h : field -> row * bool) fs :
  map (fun rb : row * bool => r_dest (fst rb)) (filter snd (map h fs))
  = map (fun f => r_dest (fst (h f))) (filter (fun f => snd (h f)) fs).
Proof.
  induction fs as [|f fs IH]; simpl; [reflexivity|].
  destruct (snd (h f)); simpl; rewrite IH; reflexivity.
Qed.

Lemma inner_required_fixed gk fs :
  t_required (as_inner_parser_fixed (dashes ++ gk) fs) = t_required (as_dotted gk fs).
Proof.
  unfold as_inner_parser_fixed, move_parser_actions_fixed, as_dotted, inner_table.
  rewrite skipn_dashes. simpl t_required. rewrite !required_of_map, map_map.
  unfold add_typed_argument, dotted_key. simpl.
  apply map_ext. intro f. rewrite replace_dash_dotted_c. reflexivity.
Qed.

Lemma no_required_filter fs :
  has_required fs = false ->
  filter (fun f => match f_default f with NoDefault => true | Dflt _ => false end) fs = [].
Proof.
  unfold has_required. induction fs as [|f fs IH]; simpl; [reflexivity|].
  intro H. apply orb_false_iff in H. destruct H as [Hf Hfs].
  destruct (f_default f); [discriminate|]. apply IH, Hfs.
Qed.

Lemma inner_required gk fs :
  hyphen_safe gk fs = true ->
  t_required (as_inner_parser (dashes ++ gk) fs) = t_required (as_dotted gk fs).
Proof.
  intro H. unfold as_inner_parser, move_parser_actions, as_dotted, inner_table.
  rewrite skipn_dashes. simpl t_required. rewrite !required_of_map, map_map.
  unfold add_typed_argument, dotted_key. simpl.
  unfold hyphen_safe in H. apply negb_true_iff, andb_false_iff in H. destruct H as [H|H].
  - apply map_ext. intro f. rewrite replace_dash_dotted_c, (replace_dash_nodash gk H). reflexivity.
  - rewrite (no_required_filter fs H). reflexivity.
Qed.

Lemma table_ext (a b : table) : t_rows a = t_rows b -> t_required a = t_required b -> a = b.
Proof. destruct a, b; simpl; intros -> ->; reflexivity. Qed.

Lemma inner_table_eq gk fs :
  hyphen_safe gk fs = true -> as_inner_parser (dashes ++ gk) fs = with_load gk (as_dotted gk fs).
Proof.
  intro H. apply table_ext; [apply inner_rows | simpl; apply inner_required, H].
Qed.

Lemma inner_table_fixed_eq gk fs :
  as_inner_parser_fixed (dashes ++ gk) fs = with_load gk (as_dotted gk fs).
Proof.
  apply table_ext; [apply inner_rows | simpl; apply inner_required_fixed].
Qed.

(* ---- the three grouped styles build ONE table ---- *)
Lemma grouped_tables_equal gk fs :
  starts_dash gk = false -> norm fs <> [] -> hyphen_safe gk (norm fs) = true ->
  as_dataclass (dashes ++ gk) fs = as_class_group gk fs
  /\ as_inner_parser (dashes ++ gk) (norm fs) = as_class_group gk fs.
Proof.
  intros Hd Hn Hh. split; [apply dataclass_table, Hd|].
  rewrite class_group_table by exact Hn. apply inner_table_eq, Hh.
Qed.

Lemma grouped_tables_equal_fixed gk fs :
  starts_dash gk = false -> norm fs <> [] ->
  as_dataclass (dashes ++ gk) fs = as_class_group gk fs
  /\ as_inner_parser_fixed (dashes ++ gk) (norm fs) = as_class_group gk fs.
Proof.
  intros Hd Hn. split; [apply dataclass_table, Hd|].
  rewrite class_group_table by exact Hn. apply inner_table_fixed_eq.
Qed.

(* ---- the dotted table is a leaf table below the group key ---- *)
Lemma dotted_rows_leaf gk fs r : In r (t_rows (as_dotted gk fs)) -> r_kind r = KLeaf.
Proof.
  unfold as_dotted, table_of. simpl. rewrite map_map. intro H.
  apply in_map_iff in H. destruct H as [f [<- _]]. reflexivity.
Qed.

Lemma dotted_rows_dest gk fs r :
  In r (t_rows (as_dotted gk fs)) -> exists n, r_dest r = replace_dash gk ++ [c_dot] ++ n.
Proof.
  unfold as_dotted, table_of. simpl. rewrite map_map. intro H.
  apply in_map_iff in H. destruct H as [f [<- _]]. simpl.
  exists (replace_dash (f_name f)). unfold dotted_key. apply replace_dash_dotted.
Qed.

Lemma dotted_rows_nonempty gk fs : fs <> [] -> t_rows (as_dotted gk fs) <> [].
Proof. destruct fs; [intro H; contradiction H; reflexivity | discriminate]. Qed.

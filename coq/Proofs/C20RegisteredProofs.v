(* C20 — round trips of the registered types whose conversions are jsonargparse's own code. *)
From JV Require Import Lib.Base Lib.C20Text Model.C20Base Model.C20Registered.
Local Open Scope Z_scope.
Ltac Zify.zify_post_hook ::= Z.to_euclidean_division_equations.

(* ---------------------------------------------------------------- list facts *)
Lemma starts_with_app p x : starts_with p (p ++ x) = true.
Proof. induction p; simpl; auto. rewrite N.eqb_refl. auto. Qed.

Lemma ends_with_app p x : ends_with p (x ++ p) = true.
Proof. unfold ends_with. rewrite rev_app_distr. apply starts_with_app. Qed.

Lemma filter_keep (p : N -> bool) s : forallb p s = true -> filter p s = s.
Proof. induction s; simpl; auto. intros H. apply andb_true_iff in H. destruct H as [H1 H2].
  rewrite H1, IHs; auto. Qed.

Lemma split_on_nosep sep s : forallb (fun c => negb (N.eqb c sep)) s = true -> split_on sep s = [s].
Proof.
  induction s as [|c s IH]; simpl; auto. intros H. apply andb_true_iff in H. destruct H as [H1 H2].
  rewrite IH by auto. apply negb_true_iff in H1. rewrite H1. reflexivity.
Qed.

Lemma split_on_nonnil sep s : split_on sep s <> [].
Proof. induction s as [|c s IH]; simpl; [discriminate|].
  destruct (split_on sep s); [discriminate|]. destruct (N.eqb c sep); discriminate. Qed.

Lemma split_on_app sep s t :
  forallb (fun c => negb (N.eqb c sep)) s = true -> split_on sep (s ++ sep :: t) = s :: split_on sep t.
Proof.
  induction s as [|c s IH]; simpl; intros H.
  - rewrite N.eqb_refl. destruct (split_on sep t) eqn:E; [exfalso; eapply split_on_nonnil; eauto|]. reflexivity.
  - apply andb_true_iff in H. destruct H as [H1 H2]. rewrite IH by auto.
    apply negb_true_iff in H1. rewrite H1. reflexivity.
Qed.

Lemma numch_all (q : N -> bool) s :
  (forall c, numch c = true -> q c = true) -> forallb numch s = true -> forallb q s = true.
Proof. apply forallb_impl. Qed.

Lemma numch_ne c k : numch c = true -> k <> 45%N -> ~ (48 <= k <= 57)%N -> negb (N.eqb c k) = true.
Proof. intros H H1 H2. apply numch_cases in H. apply negb_true_iff, N.eqb_neq. lia. Qed.

Lemma print_Z_nonneg z : 0 <= z -> print_Z z = print_nat z.
Proof. intros. unfold print_Z. destruct (Z.ltb_spec z 0); [lia|reflexivity]. Qed.

Lemma print_Z_last z : exists a d, print_Z z = a ++ [d] /\ numch d = true.
Proof.
  destruct (exists_last' (print_Z z) (print_Z_nonnil z)) as [a [d E]]. exists a, d. split; auto.
  pose proof (print_Z_numch z) as H. rewrite E, forallb_app in H. apply andb_true_iff in H.
  destruct H as [_ H]. simpl in H. rewrite andb_true_r in H. exact H.
Qed.

Lemma chop_nl_print x z : chop_nl (x ++ print_Z z) = x ++ print_Z z.
Proof.
  destruct (print_Z_last z) as [a [d [E Hd]]]. rewrite E. unfold chop_nl, ends_with.
  rewrite app_assoc, rev_app_distr. cbn [rev app starts_with].
  apply numch_cases in Hd. destruct (N.eqb_spec 10 d); [lia|]. reflexivity.
Qed.

Lemma chop_nl_print0 z : chop_nl (print_Z z) = print_Z z.
Proof. exact (chop_nl_print [] z). Qed.

Lemma int_tok_print z : int_tok (print_Z z) = true.
Proof.
  unfold int_tok, print_Z. destruct (Z.ltb_spec z 0).
  - rewrite N.eqb_refl. rewrite print_nat_nonnil, print_nat_digits by lia. reflexivity.
  - assert (Hn := print_nat_nonnil z). assert (Hd := print_nat_digits z H).
    destruct (print_nat z) as [|c r]; [discriminate|].
    assert (Hc : is_digit c = true) by (simpl in Hd; apply andb_true_iff in Hd; tauto).
    apply digit_bounds in Hc. destruct (N.eqb_spec c 45); [lia|]. rewrite Hd. reflexivity.
Qed.

Lemma no_comma z : forallb (fun c => negb (N.eqb c 44)) (print_Z z) = true.
Proof. eapply numch_all; [|apply print_Z_numch]. intros c H. apply numch_ne; auto; lia. Qed.

Lemma no_space32 z : forallb not_space32 (print_Z z) = true.
Proof. eapply numch_all; [|apply print_Z_numch]. intros c H. apply numch_ne; auto; lia. Qed.

(* ---------------------------------------------------------------- range *)
Lemma range_frame body :
  strip (s_range_open ++ body ++ s_close) = s_range_open ++ body ++ s_close /\
  starts_with s_range_open (s_range_open ++ body ++ s_close) = true /\
  ends_with s_close (s_range_open ++ body ++ s_close) = true /\
  removelast (skipn 6 (s_range_open ++ body ++ s_close)) = body.
Proof.
  split; [|split; [|split]].
  - apply strip_ends; [reflexivity|].
    intros a c E. rewrite !app_assoc in E. apply app_inj_tail in E. destruct E as [_ <-]. reflexivity.
  - apply starts_with_app.
  - rewrite (app_assoc s_range_open body s_close). apply ends_with_app.
  - simpl. unfold s_close. apply removelast_last.
Qed.

Lemma match1_one z : match_ints 1 (print_Z z) = Some [print_Z z].
Proof.
  unfold match_ints. rewrite chop_nl_print0.
  rewrite split_on_nosep by apply no_comma. cbn [length Nat.eqb forallb]. rewrite int_tok_print. reflexivity.
Qed.

Lemma split2 a b : split_on 44 (chop_nl (print_Z a ++ 44%N :: print_Z b)) = [print_Z a; print_Z b].
Proof.
  change (print_Z a ++ 44%N :: print_Z b) with (print_Z a ++ [44%N] ++ print_Z b).
  rewrite app_assoc, chop_nl_print, <- app_assoc. simpl app.
  rewrite split_on_app by apply no_comma. rewrite split_on_nosep by apply no_comma. reflexivity.
Qed.

Lemma split3 a b c :
  split_on 44 (chop_nl (print_Z a ++ 44%N :: print_Z b ++ 44%N :: print_Z c))
  = [print_Z a; print_Z b; print_Z c].
Proof.
  change (print_Z a ++ 44%N :: print_Z b ++ 44%N :: print_Z c)
    with (print_Z a ++ [44%N] ++ print_Z b ++ [44%N] ++ print_Z c).
  rewrite !app_assoc, chop_nl_print, <- !app_assoc. simpl app.
  rewrite split_on_app by apply no_comma. rewrite split_on_app by apply no_comma.
  rewrite split_on_nosep by apply no_comma. reflexivity.
Qed.

Lemma filter2 a b :
  filter not_space32 (print_Z a ++ s_comma_sp ++ print_Z b) = print_Z a ++ 44%N :: print_Z b.
Proof. rewrite !filter_app. rewrite (filter_keep _ (print_Z a) (no_space32 a)).
  rewrite (filter_keep _ (print_Z b) (no_space32 b)). reflexivity. Qed.

Lemma filter3 a b c :
  filter not_space32 (print_Z a ++ s_comma_sp ++ print_Z b ++ s_comma_sp ++ print_Z c)
  = print_Z a ++ 44%N :: print_Z b ++ 44%N :: print_Z c.
Proof. rewrite !filter_app.
  rewrite (filter_keep _ (print_Z a) (no_space32 a)), (filter_keep _ (print_Z b) (no_space32 b)).
  rewrite (filter_keep _ (print_Z c) (no_space32 c)). reflexivity. Qed.

(* range_roundtrip: for EVERY range (all start/stop/step in Z, step <> 0, empty ranges included)
   deserialising the serialised form gives back the same start, stop and step. *)
Theorem range_roundtrip_lemma r :
  rg_step r <> 0 -> range_deserializer (PStr (range_serializer r)) = Some r.
Proof.
  destruct r as [a b c]. cbn [rg_step]. intros Hc. unfold range_serializer, range_deserializer.
  cbn [rg_start rg_stop rg_step].
  destruct (Z.eqb_spec c 1) as [->|N1]; [destruct (Z.eqb_spec a 0) as [->|N0]|].
  - destruct (range_frame (print_Z b)) as [S1 [S2 [S3 S4]]].
    rewrite S1, S2, S3, S4. simpl andb. cbv iota.
    rewrite filter_keep by apply no_space32. rewrite match1_one, parse_int_print. reflexivity.
  - destruct (range_frame (print_Z a ++ s_comma_sp ++ print_Z b)) as [S1 [S2 [S3 S4]]].
    rewrite <- !app_assoc in *.
    rewrite S1, S2, S3, S4. simpl andb. cbv iota.
    rewrite filter2. unfold match_ints. rewrite split2. simpl length. simpl Nat.eqb. simpl andb. cbv iota.
    simpl forallb. rewrite !int_tok_print. simpl andb. cbv iota.
    rewrite !parse_int_print. reflexivity.
  - destruct (range_frame (print_Z a ++ s_comma_sp ++ print_Z b ++ s_comma_sp ++ print_Z c)) as [S1 [S2 [S3 S4]]].
    rewrite <- !app_assoc in *.
    rewrite S1, S2, S3, S4. simpl andb. cbv iota.
    rewrite filter3. unfold match_ints. rewrite split3. simpl length. simpl Nat.eqb. simpl andb. cbv iota.
    simpl forallb. rewrite !int_tok_print. simpl andb. cbv iota.
    rewrite !parse_int_print. unfold make_range. destruct (Z.eqb_spec c 0); [contradiction|]. reflexivity.
Qed.

Lemma range_eqb_refl r : range_eqb r r = true.
Proof. unfold range_eqb. rewrite !Z.eqb_refl. simpl. rewrite !orb_true_r. reflexivity. Qed.

(* ---------------------------------------------------------------- timedelta *)
Lemma pad2_digits n : 0 <= n < 100 -> forallb is_digit (pad2 n) = true.
Proof. intros. unfold pad2. cbn [forallb]. rewrite !digit_chr_is_digit by lia. reflexivity. Qed.

Lemma pad2_val n : 0 <= n < 100 -> horner 0 (pad2 n) = n.
Proof. intros. unfold pad2. cbn [horner]. rewrite !digit_val_chr by lia. lia. Qed.

Lemma pad6_digits n : 0 <= n < 1000000 -> forallb is_digit (pad6 n) = true.
Proof. intros. unfold pad6. cbn [forallb]. rewrite !digit_chr_is_digit by lia. reflexivity. Qed.

Lemma pad6_val n : 0 <= n < 1000000 -> horner 0 (pad6 n) = n.
Proof. intros. unfold pad6. cbn [horner]. rewrite !digit_val_chr by lia. lia. Qed.

Lemma digit_secch s : forallb is_digit s = true -> forallb secch s = true.
Proof. apply forallb_impl. intros c H. unfold secch. rewrite H. reflexivity. Qed.

Definition frac_of (us : Z) : str := if us =? 0 then [] else 46%N :: pad6 us.

Lemma frac_secch us : 0 <= us < 1000000 -> forallb secch (frac_of us) = true.
Proof. intros. unfold frac_of. destruct (us =? 0); [reflexivity|].
  cbn [forallb]. rewrite digit_secch by (apply pad6_digits; auto). reflexivity. Qed.

Lemma hms_match h m s us :
  0 <= h -> 0 <= m < 100 -> 0 <= s < 100 -> 0 <= us < 1000000 ->
  match_hms (print_Z h ++ 58%N :: pad2 m ++ 58%N :: pad2 s ++ frac_of us)
  = Some (print_Z h, pad2 m, pad2 s ++ frac_of us).
Proof.
  intros Hh Hm Hs Hus. unfold match_hms.
  rewrite print_Z_nonneg by auto.
  rewrite span_all; [| apply print_nat_digits; auto | reflexivity].
  rewrite print_nat_nonnil. cbn [negb N.eqb Pos.eqb].
  rewrite span_all; [| apply pad2_digits; auto | reflexivity].
  change (is_nil (pad2 m)) with false. cbn [negb N.eqb Pos.eqb].
  unfold pad2 at 1. cbn [app]. rewrite digit_chr_is_digit by lia.
  rewrite span_all_nil.
  - reflexivity.
  - cbn [forallb]. rewrite frac_secch by auto. unfold secch. rewrite digit_chr_is_digit by lia. reflexivity.
Qed.

Lemma days_match d (plural : bool) rest :
  match_days (print_Z d ++ s_sp_day ++ (if plural then [115%N] else []) ++ s_comma_sp ++ rest)
  = Some (print_Z d, rest).
Proof.
  unfold match_days.
  rewrite span_all; [| apply print_Z_numch | reflexivity].
  rewrite print_Z_nonnil. rewrite starts_with_app.
  destruct plural; reflexivity.
Qed.

Lemma contains_app_r p a b : contains p b = true -> contains p (a ++ b) = true.
Proof. intros H. induction a; simpl; auto. rewrite IHa. apply orb_true_r. Qed.

Definition nod (c : N) : bool := negb (N.eqb c 100).

Lemma contains_no_d s : forallb nod s = true -> contains s_day s = false.
Proof.
  induction s as [|c s IH]; [reflexivity|]. intros H. cbn [forallb] in H.
  apply andb_true_iff in H. destruct H as [H1 H2].
  cbn [contains]. rewrite IH by auto. unfold s_day. cbn [starts_with].
  unfold nod in H1. apply negb_true_iff in H1. rewrite N.eqb_sym in H1. rewrite H1. reflexivity.
Qed.

Lemma secch_nod s : forallb secch s = true -> forallb nod s = true.
Proof.
  apply forallb_impl. intros c H. unfold secch in H. unfold nod. apply negb_true_iff, N.eqb_neq.
  apply orb_true_iff in H. destruct H as [H|H]; [apply orb_true_iff in H; destruct H as [H|H]|].
  - apply digit_bounds in H. lia.
  - apply N.eqb_eq in H. lia.
  - apply N.eqb_eq in H. lia.
Qed.

Lemma hms_no_d h m s us :
  0 <= h -> 0 <= m < 100 -> 0 <= s < 100 -> 0 <= us < 1000000 ->
  forallb nod (print_Z h ++ 58%N :: pad2 m ++ 58%N :: pad2 s ++ frac_of us) = true.
Proof.
  intros. rewrite forallb_app. cbn [forallb]. rewrite forallb_app. cbn [forallb]. rewrite forallb_app.
  rewrite print_Z_nonneg by auto.
  rewrite !secch_nod; try reflexivity.
  - apply frac_secch; auto.
  - apply digit_secch, pad2_digits; auto.
  - apply digit_secch, pad2_digits; auto.
  - apply digit_secch, print_nat_digits; auto.
Qed.

Lemma sec_float s us :
  0 <= s < 100 -> 0 <= us < 1000000 ->
  fin_of (parse_float_str (pad2 s ++ frac_of us)) = Some (s * 1000000 + us).
Proof.
  intros Hs Hus. unfold frac_of. destruct (Z.eqb_spec us 0) as [->|N0].
  - rewrite app_nil_r, parse_float_digits; [| reflexivity | apply pad2_digits; auto].
    rewrite pad2_val by auto. cbn [fin_of]. f_equal. lia.
  - rewrite parse_float_frac6; [| reflexivity | apply pad2_digits; auto | apply pad6_digits; auto | reflexivity].
    rewrite pad2_val, pad6_val by auto. reflexivity.
Qed.

Lemma int_float z : fin_of (parse_float_str (print_Z z)) = Some (z * 1000000).
Proof. rewrite parse_float_print. reflexivity. Qed.

Lemma pad2_float n : 0 <= n < 100 -> fin_of (parse_float_str (pad2 n)) = Some (n * 1000000).
Proof. intros. rewrite parse_float_digits; [| reflexivity | apply pad2_digits; auto].
  rewrite pad2_val by auto. reflexivity. Qed.

(* timedelta_roundtrip: for EVERY timedelta (negative, sub-second, |days| up to 999999999)
   timedelta_deserializer(str(td)) = td. *)
Theorem timedelta_roundtrip_lemma total :
  td_valid total = true -> timedelta_deserializer (PStr (td_str total)) = TdOk total.
Proof.
  intros Hv. unfold timedelta_deserializer, td_str.
  set (days := total / us_per_day). set (rem := total mod us_per_day).
  set (secs := rem / 1000000). set (us := rem mod 1000000).
  set (h := secs / 3600). set (m := secs mod 3600 / 60). set (s := secs mod 60).
  assert (Hrem : 0 <= rem < us_per_day) by (subst rem; unfold us_per_day; lia).
  assert (Hsecs : 0 <= secs < 86400) by (subst secs; unfold us_per_day in Hrem; lia).
  assert (Hus : 0 <= us < 1000000) by (subst us; lia).
  assert (Hh : 0 <= h) by (subst h; lia).
  assert (Hm : 0 <= m < 100) by (subst m; lia).
  assert (Hs : 0 <= s < 100) by (subst s; lia).
  assert (Htot : days * 1000000 * 86400 + h * 1000000 * 3600 + m * 1000000 * 60 + (s * 1000000 + us) = total).
  { subst days rem secs us h m s. unfold us_per_day in *. lia. }
  change (if us =? 0 then [] else 46%N :: pad6 us) with (frac_of us).
  destruct (Z.eqb_spec days 0) as [E0|N0].
  - cbn [app]. rewrite contains_no_d by (apply hms_no_d; auto).
    rewrite hms_match by auto.
    rewrite int_float, pad2_float, sec_float by auto.
    unfold td_build. rewrite E0 in Htot.
    replace (0 * 86400 + h * 1000000 * 3600 + m * 1000000 * 60 + (s * 1000000 + us)) with total by lia.
    rewrite Hv. reflexivity.
  - set (plural := negb ((days =? 1) || (days =? -1))).
    replace (if (days =? 1) || (days =? -1) then [] else [115%N]) with (if plural then [115%N] else [])
      by (subst plural; destruct ((days =? 1) || (days =? -1)); reflexivity).
    rewrite <- !app_assoc.
    rewrite contains_app_r by reflexivity.
    rewrite days_match, hms_match by auto.
    rewrite !int_float, pad2_float, sec_float by auto.
    unfold td_build. rewrite Htot, Hv. reflexivity.
Qed.

(* ---------------------------------------------------------------- SecretStr *)
Theorem timedelta_registered_roundtrip_lemma c total :
  td_valid total = true -> td_registered c (PStr (td_str total)) = TdOk total.
Proof. intros H. unfold td_registered. rewrite (timedelta_roundtrip_lemma total H). reflexivity. Qed.

Theorem secret_never_dumped_lemma : forall secret, secret_serializer secret = s_stars.
Proof. reflexivity. Qed.

(* ---------------------------------------------------------------- Decimal through float *)
Lemma pow2_mod5 n : 0 <= n -> (2 ^ n) mod 5 <> 0.
Proof.
  intros Hn. pattern n. apply natlike_ind; auto.
  - discriminate.
  - intros x Hx IH. rewrite Z.pow_succ_r by auto. lia.
Qed.

(* no binary floating point number equals 1/10: whatever float() returns for Decimal('0.1'),
   Decimal(that double) differs from Decimal('0.1') *)
Lemma tenth_not_dyadic y : dec_dy_eqb {| d_mant := 1; d_exp := -1 |} y = false.
Proof.
  unfold dec_dy_eqb. cbn [d_mant d_exp]. destruct y as [k e]. cbn [y_num y_exp].
  apply Z.eqb_neq. change (pos_part (-1)) with 0. change (pos_part (- -1)) with 1.
  intros H. unfold pos_part in H. destruct (Z_lt_le_dec 0 e).
  - rewrite (Z.max_r (- e) 0), (Z.max_l e 0) in H by lia.
    change (2 ^ 0) with 1 in H. change (10 ^ 0) with 1 in H. change (10 ^ 1) with 10 in H. lia.
  - rewrite (Z.max_l (- e) 0), (Z.max_r e 0) in H by lia.
    assert (Hz : 0 <= - e) by lia. pose proof (pow2_mod5 (- e) Hz).
    change (2 ^ 0) with 1 in H. change (10 ^ 0) with 1 in H. change (10 ^ 1) with 10 in H. lia.
Qed.

Theorem decimal_via_float_refuted_lemma :
  exists d, forall to_double to_text, decimal_file_equal to_double to_text RegFloat d = false.
Proof.
  exists {| d_mant := 1; d_exp := -1 |}. intros f g. unfold decimal_file_equal, decimal_serialize.
  destruct (f _) as [y|]; [apply tenth_not_dyadic | reflexivity].
Qed.

Lemma dec_eqb_refl d : dec_eqb d d = true.
Proof. unfold dec_eqb. apply Z.eqb_refl. Qed.

(* the repaired registration (fixes/C20-decimal-via-float.patch): every finite decimal comes back equal on
   every channel, whatever float() and repr() do *)
Theorem decimal_hybrid_roundtrip_lemma to_double to_text d :
  decimal_file_equal to_double to_text RegHybrid d = true /\ decimal_argv_equal to_double to_text RegHybrid d = true.
Proof.
  unfold decimal_file_equal, decimal_argv_equal, decimal_serialize, text_denotes.
  destruct (to_text d) as [t|] eqn:E.
  - destruct (dec_eqb d t) eqn:Q; [auto | split; apply dec_eqb_refl].
  - split; apply dec_eqb_refl.
Qed.

(* either registration, inside its guard (RegFloat: d is a binary double with <= 15 digits, on which float()
   and repr() are exact; RegHybrid: no condition) *)
Theorem decimal_guarded_roundtrip_lemma reg to_double to_text d :
  float_faithful to_double to_text -> dec_class (Some reg) d = 0%N ->
  decimal_file_equal to_double to_text reg d = true /\ decimal_argv_equal to_double to_text reg d = true.
Proof.
  intros F C. destruct reg; [| apply decimal_hybrid_roundtrip_lemma].
  cbn [dec_class] in C. destruct (dec_guard d) eqn:G; [| discriminate].
  destruct (F d G) as [[y [Ey Hy]] [t [Et Ht]]].
  unfold decimal_file_equal, decimal_argv_equal, decimal_serialize. rewrite Ey, Et. auto.
Qed.

(* the guard is not needed for the file channel alone: Decimal(float(d)) = d as soon as float() is exact on d *)
Theorem decimal_exact_roundtrip_lemma to_double to_text d y :
  to_double d = Some y -> dec_dy_eqb d y = true -> decimal_file_equal to_double to_text RegFloat d = true.
Proof. intros E H. unfold decimal_file_equal, decimal_serialize. rewrite E. exact H. Qed.

(* float_faithful is satisfiable: inside the guard d IS a dyadic rational (an idealised float() returns it,
   an idealised repr() prints it) *)
Definition dy_of_dec (d : decimal) : option dyadic :=
  Some (if 0 <=? d_exp d then {| y_num := d_mant d * 10 ^ d_exp d; y_exp := 0 |}
        else {| y_num := d_mant d / 5 ^ (- d_exp d); y_exp := d_exp d |}).

Lemma float_faithful_witness : float_faithful dy_of_dec (fun d => Some d).
Proof.
  intros d G. split; [| exists d; split; [reflexivity | apply dec_eqb_refl]].
  unfold dy_of_dec. eexists; split; [reflexivity|].
  unfold dec_guard in G. unfold dec_dy_eqb, pos_part.
  destruct (0 <=? d_exp d) eqn:E.
  - apply Z.leb_le in E. cbn [y_num y_exp]. rewrite (Z.max_l (d_exp d) 0), (Z.max_r (- d_exp d) 0) by lia.
    change (Z.max (- 0) 0) with 0. change (Z.max 0 0) with 0. apply Z.eqb_eq. change (2 ^ 0) with 1. change (10 ^ 0) with 1. ring.
  - apply Z.leb_gt in E. cbn [y_num y_exp]. rewrite (Z.max_r (d_exp d) 0), (Z.max_l (- d_exp d) 0) by lia.
    apply andb_prop in G. destruct G as [_ G]. apply andb_prop in G. destruct G as [M _]. apply Z.eqb_eq in M.
    apply Z.eqb_eq. set (k := - d_exp d) in *. change (10 ^ 0) with 1. change (2 ^ 0) with 1.
    assert (Hk : 0 <= k) by (unfold k; lia).
    assert (H5 : 0 < 5 ^ k) by (apply Z.pow_pos_nonneg; lia).
    pose proof (Z.div_mod (d_mant d) (5 ^ k) ltac:(lia)) as D. rewrite M in D.
    change 10 with (5 * 2). rewrite Z.pow_mul_l. rewrite D at 1. ring.
Qed.

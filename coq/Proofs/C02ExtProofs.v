(* C02, Model/C02Ext.v: the Union trial loop with ARBITRARY member results (registered / restricted members included)
   accepts independently of the member order; a declared default that conforms keeps the first pass sound. *)
From JV Require Import Lib.Base Model.TyVal Model.Scalar Model.Ty Model.C02Ext Spec.Conforms Spec.ConformsRx Spec.C02Defs
  Proofs.C02Proofs.
From Coq Require Import Permutation.

Lemma union_loop_perm fx orig v rs rs' : Permutation rs rs' ->
  is_ok (adapt_union fx orig v rs) = is_ok (adapt_union fx orig v rs').
Proof.
  intro HP. rewrite !adapt_union_ok.
  now rewrite (existsb_perm _ _ _ HP), (existsb_perm (fun r => is_str_ty (fst r)) _ _ HP).
Qed.

Lemma members_perm fx yl tbl orig v ms ms' : Permutation ms ms' ->
  is_ok (adapt_union fx orig v (map (member_result fx yl tbl orig v) ms))
  = is_ok (adapt_union fx orig v (map (member_result fx yl tbl orig v) ms')).
Proof. intro HP. apply union_loop_perm. now apply Permutation_map. Qed.

Lemma members_iff fx yl tbl orig v ms :
  is_ok (adapt_union fx orig v (map (member_result fx yl tbl orig v) ms))
  = existsb (fun m => is_ok (snd (member_result fx yl tbl orig v m))) ms
    || (is_some orig && negb (is_str v) && existsb (fun m => is_str_ty (member_key m)) ms).
Proof. rewrite adapt_union_ok, !existsb_map'. reflexivity. Qed.

Ltac ct_all :=
  repeat match goal with
  | H : AOk _ = AOk _ |- _ => inversion H; subst; clear H
  | H : AErr _ = AOk _ |- _ => discriminate H
  | H : (if ?c then _ else _) = AOk _ |- _ => destruct c eqn:?
  | H : match ?x with _ => _ end = AOk _ |- _ => destruct x eqn:?
  end.

(* a plain hint with a declared default that has the declared shape: the first pass still yields the declared shape *)
Lemma check_type_default_sound yl tbl d t v0 w :
  (forall dv, d = Some dv -> shaped t dv = true) ->
  check_type_x all_fixed yl tbl d [MTy t] v0 = AOk w -> shaped t w = true.
Proof.
  intros Hd H. unfold check_type_x, adapt_ms, valid_string_ms in H. cbv zeta in H.
  ct_all;
    try (eapply adapt_sound; eassumption);
    try (apply valid_string_shaped; assumption).
  all: match goal with E : equals_default _ _ = true |- _ =>
         unfold equals_default in E; destruct d as [[]|]; try discriminate;
         apply str_eqb_spec in E; subst; now apply Hd end.
Qed.

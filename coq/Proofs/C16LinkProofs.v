(* C16, link half: theorems about Model/LinkOrder.v for ALL component lists, link lists and key strings, and for
   every variant `fx` of the code (pinned tree / after the proposed repairs):
     - reorder / comp_sequence is a permutation of the components (every component is instantiated exactly once);
     - sources_before_targets: for a link set the parser accepted, inside the guard enclosing_ok, the component of
       every link source stands before every component that encloses the link's target in the instantiation sequence;
     - add_links_spec / cycle_rejected: link_arguments raises at exactly the first link whose addition makes the
       link graph cyclic, and accepts a sequence iff the graph is acyclic after every addition. *)
From JV Require Import Lib.Base Model.Graph Proofs.GraphProofs Spec.GraphSpec Proofs.C16BuildProofs Model.LinkOrder.
From Coq Require Import Permutation Lia.

(* ---- strings ------------------------------------------------------------------------------------------------- *)

Lemma prefix_b_app p : forall s, prefix_b p s = true <-> exists r, s = p ++ r.
Proof.
  induction p as [|a p IH]; intros s; simpl.
  - split; [intros _; exists s; reflexivity | reflexivity].
  - destruct s as [|b s].
    + split; [discriminate | intros [r H]; discriminate].
    + rewrite andb_true_iff, N.eqb_eq, IH. split.
      * intros [-> [r ->]]. exists r. reflexivity.
      * intros [r H]. inversion H; subst. split; [reflexivity | exists r; reflexivity].
Qed.

Lemma matches_refl a : matches a a = true.
Proof. unfold matches. rewrite str_eqb_refl. reflexivity. Qed.

Lemma matches_trans a b c : matches a b = true -> matches b c = true -> matches a c = true.
Proof.
  unfold matches. rewrite !orb_true_iff, !str_eqb_spec, !prefix_b_app.
  intros [Hab|[r1 H1]] [Hbc|[r2 H2]].
  - left. congruence.
  - right. exists r2. congruence.
  - right. exists r1. congruence.
  - right. exists (r1 ++ [dot] ++ r2). rewrite H2, H1. rewrite <- !app_assoc. reflexivity.
Qed.

(* ---- reorder ------------------------------------------------------------------------------------------------- *)

Definition precedes {A} (l : list A) (x y : A) : Prop := exists a b, l = a ++ x :: b /\ In y b.

(* position of the first key of `order` that pulls a component with dest d *)
Fixpoint pull_idx (order : list str) (d : str) : option nat :=
  match order with
  | [] => None
  | k :: r => if matches k d then Some 0 else option_map S (pull_idx r d)
  end.

Lemma partition_perm {A} (f : A -> bool) (l : list A) :
  Permutation (filter f l ++ filter (fun x => negb (f x)) l) l.
Proof.
  induction l as [|a l IH]; simpl; [constructor|].
  destruct (f a); simpl.
  - constructor. exact IH.
  - apply Permutation_sym. apply Permutation_cons_app. apply Permutation_sym. exact IH.
Qed.

Section ReorderFacts.
  Context {A : Type} (dest : A -> str).

  Lemma reorder_perm order : forall cs, Permutation (reorder dest order cs) cs.
  Proof.
    induction order as [|k order IH]; simpl; intros cs; [reflexivity|].
    rewrite IH. apply partition_perm.
  Qed.

  Lemma reorder_In order cs x : In x (reorder dest order cs) <-> In x cs.
  Proof.
    split; apply Permutation_in; [|apply Permutation_sym]; apply reorder_perm.
  Qed.

  Lemma reorder_before : forall order cs x y i,
    In x cs -> In y cs -> pull_idx order (dest x) = Some i ->
    (forall j, pull_idx order (dest y) = Some j -> i < j) ->
    precedes (reorder dest order cs) x y.
  Proof.
    induction order as [|k order IH]; simpl; intros cs x y i Hx Hy Hi Hj; [discriminate|].
    destruct (matches k (dest y)) eqn:Ey.
    { specialize (Hj 0 eq_refl). lia. }
    assert (Hy' : In y (filter (fun c => negb (matches k (dest c))) cs)).
    { apply filter_In. rewrite Ey. auto. }
    destruct (matches k (dest x)) eqn:Ex.
    - assert (Hx' : In x (filter (fun c => matches k (dest c)) cs)) by (apply filter_In; auto).
      apply in_split in Hx'. destruct Hx' as (a & b & E). rewrite E.
      exists a, (b ++ reorder dest order (filter (fun c => negb (matches k (dest c))) cs)). split.
      + rewrite <- app_assoc. reflexivity.
      + apply in_or_app. right. apply reorder_In. exact Hy'.
    - destruct (pull_idx order (dest x)) as [i'|] eqn:Ei; simpl in Hi; [|discriminate].
      inversion Hi; subst i.
      destruct (IH (filter (fun c => negb (matches k (dest c))) cs) x y i') as (a & b & E & Hb).
      + apply filter_In. rewrite Ex. auto.
      + exact Hy'.
      + exact Ei.
      + intros j Hjj. specialize (Hj (S j)). rewrite Hjj in Hj. specialize (Hj eq_refl). lia.
      + rewrite E. exists (filter (fun c => matches k (dest c)) cs ++ a), b. split; [|exact Hb].
        rewrite <- app_assoc. reflexivity.
  Qed.
End ReorderFacts.

Lemma pull_idx_le_index : forall o s n d,
  index_str s o = Some n -> matches s d = true -> exists i, pull_idx o d = Some i /\ i <= n.
Proof.
  induction o as [|a o IH]; simpl; intros s n d H Hm; [discriminate|].
  destruct (str_eqb s a) eqn:E.
  - inversion H; subst. apply str_eqb_spec in E; subst. rewrite Hm. exists 0. auto.
  - destruct (index_str s o) as [n0|] eqn:E2; simpl in H; [|discriminate]. inversion H; subst.
    destruct (matches a d).
    + exists 0. split; [reflexivity|lia].
    + destruct (IH s n0 d E2 Hm) as (i & Hi & Hle). rewrite Hi. simpl. exists (S i). split; [reflexivity|lia].
Qed.

Lemma pull_idx_Some : forall o d j,
  pull_idx o d = Some j -> exists k m, matches k d = true /\ index_str k o = Some m /\ m <= j /\ In k o.
Proof.
  induction o as [|a o IH]; simpl; intros d j H; [discriminate|].
  destruct (matches a d) eqn:E.
  - inversion H; subst. exists a, 0. rewrite str_eqb_refl. auto.
  - destruct (pull_idx o d) as [n|] eqn:E2; simpl in H; [|discriminate]. inversion H; subst.
    destruct (IH d n E2) as (k & m & Hk & Hm & Hle & Hin). exists k.
    destruct (str_eqb k a) eqn:E3.
    + exists 0. repeat split; auto. lia.
    + rewrite Hm. exists (S m). simpl. repeat split; auto. lia.
Qed.

(* ---- components ---------------------------------------------------------------------------------------------- *)

Lemma deepest_In : forall cs best c, deepest best cs = Some c -> In c cs \/ best = Some c.
Proof.
  induction cs as [|a cs IH]; simpl; intros best c H; [right; exact H|].
  apply IH in H. destruct H as [H|H]; [left; right; exact H|].
  destruct best as [b|].
  - destruct (Nat.ltb (depth (c_dest b)) (depth (c_dest a))).
    + inversion H; subst. left; left; reflexivity.
    + right; exact H.
  - inversion H; subst. left; left; reflexivity.
Qed.

Lemma resolve_src_In cs k c : resolve_src cs k = Some c -> In c cs.
Proof.
  unfold resolve_src.
  destruct (deepest None (filter (fun c0 => is_type c0 && matches (c_dest c0) k) cs)) as [c0|] eqn:E.
  - intros H; inversion H; subst. apply deepest_In in E. destruct E as [E|E]; [|discriminate].
    apply filter_In in E. tauto.
  - intros H. apply find_some in H. tauto.
Qed.

Lemma insert_desc_perm c : forall l, Permutation (insert_desc c l) (c :: l).
Proof.
  induction l as [|x l IH]; simpl; [reflexivity|].
  destruct (Nat.leb (depth (c_dest x)) (depth (c_dest c))); [reflexivity|].
  rewrite IH. apply perm_swap.
Qed.

Lemma depth_sort_perm cs : Permutation (depth_sort cs) cs.
Proof.
  induction cs as [|c cs IH]; simpl; [constructor|].
  rewrite insert_desc_perm. constructor. exact IH.
Qed.

(* every component is instantiated exactly once: the sequence that the component loop of instantiate_classes walks
   through is a permutation of the components, whatever `order` is *)
Theorem comp_sequence_perm cs order : Permutation (comp_sequence cs order) cs.
Proof. unfold comp_sequence. rewrite reorder_perm. apply depth_sort_perm. Qed.

(* ---- the order ------------------------------------------------------------------------------------------------ *)

Lemma inst_order_nonempty fx cs ls :
  ls <> [] -> inst_order fx cs ls = topo (build (link_edges fx cs ls)).
Proof. destruct ls; [congruence|reflexivity]. Qed.

Lemma phase1_in fx cs ls l k c :
  In l ls -> In k (l_srcs l) -> resolve_src cs k = Some c ->
  In (c_dest c, target_node l) (link_edges fx cs ls).
Proof.
  intros Hl Hk Hr. unfold link_edges, phase1. apply in_or_app; left.
  apply in_flat_map. exists l. split; [exact Hl|].
  apply in_map_iff. exists (c_dest c). split; [reflexivity|].
  unfold src_dests. apply in_flat_map. exists k. split; [exact Hk|]. rewrite Hr. left; reflexivity.
Qed.

Lemma edge_in_In e es : edge_in e es = true -> In e es.
Proof.
  unfold edge_in. rewrite existsb_exists. intros (x & Hx & H).
  apply andb_true_iff in H. destruct H as [H1 H2]. apply str_eqb_spec in H1, H2.
  destruct e as [a b], x as [a' b']; simpl in *. subst. exact Hx.
Qed.

Theorem sources_before_targets :
  forall fx cs ls o l k cS cT,
    inst_order fx cs ls = Order o ->          (* the order computed for the accepted links *)
    enclosing_ok fx cs ls = true ->           (* the guard *)
    In l ls -> In k (l_srcs l) -> resolve_src cs k = Some cS ->      (* cS: the component of a source of link l *)
    In cT cs -> matches (c_dest cT) (l_target l) = true ->           (* cT: a component that encloses l's target *)
    precedes (comp_sequence cs o) cS cT.
Proof.
  intros fx cs ls o l k cS cT Ho Hg Hl Hk Hr HcT HmT.
  rewrite inst_order_nonempty in Ho by (intro E; subst; contradiction).
  set (es := link_edges fx cs ls) in *.
  pose proof (topo_build_spec_ok es) as Hs. rewrite Ho in Hs. simpl in Hs.
  unfold order_ok in Hs. rewrite !andb_true_iff, !forallb_forall in Hs.
  destruct Hs as [[[_ _] Hm2] Hbef].
  pose proof (phase1_in fx cs ls l k cS Hl Hk Hr) as He. fold es in He.
  pose proof (Hbef _ He) as Hb1. unfold edge_before in Hb1; simpl in Hb1.
  destruct (index_str (c_dest cS) o) as [n|] eqn:En; [|discriminate].
  destruct (index_str (target_node l) o) as [m|] eqn:Em; [|discriminate].
  apply Nat.ltb_lt in Hb1.
  destruct (pull_idx_le_index o (c_dest cS) n (c_dest cS) En (matches_refl _)) as (i & Hi & Hle).
  unfold comp_sequence. apply reorder_before with (i := i).
  - apply (Permutation_in _ (Permutation_sym (depth_sort_perm cs))). eapply resolve_src_In; exact Hr.
  - apply (Permutation_in _ (Permutation_sym (depth_sort_perm cs))). exact HcT.
  - exact Hi.
  - intros j Hj. destruct (pull_idx_Some o (c_dest cT) j Hj) as (p & m' & Hp & Hm' & Hlej & Hin).
    pose proof (matches_trans _ _ _ Hp HmT) as HpT.
    assert (Hnode : In p (graph_nodes es)).
    { apply Hm2 in Hin. apply mem_str_In in Hin. exact Hin. }
    unfold enclosing_ok in Hg. fold es in Hg. rewrite forallb_forall in Hg.
    specialize (Hg l Hl). rewrite forallb_forall in Hg. specialize (Hg p Hnode).
    rewrite HpT in Hg. simpl in Hg. apply orb_true_iff in Hg. destruct Hg as [Hg|Hg].
    + apply str_eqb_spec in Hg. subst p. rewrite Em in Hm'. inversion Hm'; subst. lia.
    + apply edge_in_In in Hg. pose proof (Hbef _ Hg) as Hb2. unfold edge_before in Hb2; simpl in Hb2.
      rewrite Em, Hm' in Hb2. apply Nat.ltb_lt in Hb2. lia.
Qed.

(* ---- the cycle check of link_arguments ------------------------------------------------------------------------ *)

Definition acyclic (es : list (str * str)) : Prop := forall s t, In (s, t) es -> ~ reach_es es t s.
Definition cyclic (es : list (str * str)) : Prop := exists u v, In (u, v) es /\ reach_es es v u.

Lemma cyclic_not_acyclic es : cyclic es -> ~ acyclic es.
Proof. intros (u & v & He & Hr) Ha. exact (Ha u v He Hr). Qed.

Lemma inst_order_verdict fx cs ls : ls <> [] ->
  match inst_order fx cs ls with
  | Order _ => acyclic (link_edges fx cs ls)
  | _ => cyclic (link_edges fx cs ls)
  end.
Proof.
  intros Hne. rewrite inst_order_nonempty by exact Hne.
  pose proof (topo_build_correct (link_edges fx cs ls)) as H.
  destruct (topo (build (link_edges fx cs ls))) as [o|u v|].
  - destruct H as (_ & _ & _ & H). exact H.
  - exists u, v. exact H.
  - contradiction.
Qed.

Lemma firstn_len_app {A} (a b : list A) : firstn (length a) (a ++ b) = a.
Proof. induction a as [|x a IH]; simpl; [destruct b; reflexivity|]. rewrite IH. reflexivity. Qed.

Lemma add_links_from_spec fx cs : forall todo done,
  match add_links_from fx cs done todo (length done) with
  | None => forall n, length done < n <= length (done ++ todo) ->
                      acyclic (link_edges fx cs (firstn n (done ++ todo)))
  | Some k => length done <= k < length (done ++ todo)
              /\ (forall n, length done < n <= k -> acyclic (link_edges fx cs (firstn n (done ++ todo))))
              /\ cyclic (link_edges fx cs (firstn (S k) (done ++ todo)))
  end.
Proof.
  induction todo as [|l todo IH]; intros done; cbn [add_links_from].
  - intros n Hn. rewrite app_nil_r in Hn. lia.
  - assert (Hne : done ++ [l] <> []) by (destruct done; discriminate).
    pose proof (inst_order_verdict fx cs (done ++ [l]) Hne) as Hv.
    assert (Hfirst : firstn (S (length done)) (done ++ l :: todo) = done ++ [l]).
    { replace (done ++ l :: todo) with ((done ++ [l]) ++ todo) by (rewrite <- app_assoc; reflexivity).
      replace (S (length done)) with (length (done ++ [l])) by (rewrite app_length; simpl; lia).
      apply firstn_len_app. }
    assert (Hlen : length (done ++ l :: todo) = S (length done) + length todo).
    { rewrite app_length. simpl. lia. }
    destruct (inst_order fx cs (done ++ [l])) as [o|u v|].
    + specialize (IH (done ++ [l])).
      replace (length (done ++ [l])) with (S (length done)) in IH by (rewrite app_length; simpl; lia).
      replace ((done ++ [l]) ++ todo) with (done ++ l :: todo) in IH by (rewrite <- app_assoc; reflexivity).
      destruct (add_links_from fx cs (done ++ [l]) todo (S (length done))) as [k|].
      * destruct IH as (Hk & Hall & Hcyc). split; [lia|]. split; [|exact Hcyc].
        intros n Hn. destruct (Nat.eq_dec n (S (length done))) as [->|Hneq].
        -- rewrite Hfirst. exact Hv.
        -- apply Hall. lia.
      * intros n Hn. destruct (Nat.eq_dec n (S (length done))) as [->|Hneq].
        -- rewrite Hfirst. exact Hv.
        -- apply IH. lia.
    + split; [lia|]. split; [intros n Hn; lia|]. rewrite Hfirst. exact Hv.
    + split; [lia|]. split; [intros n Hn; lia|]. rewrite Hfirst. exact Hv.
Qed.

(* add_links = the sequence of link_arguments calls: None = all accepted, Some k = the k-th call raised *)
Theorem add_links_spec fx cs ls :
  match add_links fx cs ls with
  | None => forall n, 1 <= n <= length ls -> acyclic (link_edges fx cs (firstn n ls))
  | Some k => k < length ls
              /\ (forall n, 1 <= n <= k -> acyclic (link_edges fx cs (firstn n ls)))
              /\ cyclic (link_edges fx cs (firstn (S k) ls))
  end.
Proof.
  unfold add_links. pose proof (add_links_from_spec fx cs ls []) as H. simpl in H.
  destruct (add_links_from fx cs [] ls 0) as [k|].
  - destruct H as (Hk & Hall & Hc). split; [lia|]. split; [|exact Hc]. intros n Hn. apply Hall. lia.
  - intros n Hn. apply H. lia.
Qed.

(* a link that closes a cycle is rejected when it is added, and not later *)
Theorem cycle_rejected fx cs ls n :
  1 <= n <= length ls -> cyclic (link_edges fx cs (firstn n ls)) ->
  exists k, add_links fx cs ls = Some k /\ k < n.
Proof.
  intros Hn Hc. pose proof (add_links_spec fx cs ls) as H.
  destruct (add_links fx cs ls) as [k|].
  - exists k. split; [reflexivity|]. destruct H as (_ & Hall & _).
    destruct (Nat.lt_ge_cases k n) as [Hlt|Hge]; [exact Hlt|].
    exfalso. apply (cyclic_not_acyclic _ Hc). apply Hall. lia.
  - exfalso. apply (cyclic_not_acyclic _ Hc). apply H. exact Hn.
Qed.

Theorem run_cycle_rejected fx ds ls n :
  1 <= n <= length ls -> cyclic (link_edges fx (components ds) (firstn n ls)) ->
  exists k, k < n /\ run fx ds ls = (OLinkErr k, []).
Proof.
  intros Hn Hc. destruct (cycle_rejected fx (components ds) ls n Hn Hc) as (k & Hk & Hlt).
  exists k. split; [exact Hlt|]. unfold run. rewrite Hk. reflexivity.
Qed.

Theorem run_accepts_acyclic fx ds ls :
  (forall n, 1 <= n <= length ls -> acyclic (link_edges fx (components ds) (firstn n ls))) ->
  run fx ds ls = instantiate fx (components ds) (sinks_of ds) ls.
Proof.
  intros Ha. unfold run. pose proof (add_links_spec fx (components ds) ls) as H.
  destruct (add_links fx (components ds) ls) as [k|]; [|reflexivity].
  destruct H as (Hk & _ & Hc). exfalso. apply (cyclic_not_acyclic _ Hc). apply Ha. lia.
Qed.

(* histories that go on after rejected links: what the parser holds in the end is acyclic, so the order theorems above
   (sources_before_targets, order_respects_links) apply to it as to any accepted set *)
Lemma add_links_cont_from_acyclic fx cs : forall todo done k,
  (done = [] \/ acyclic (link_edges fx cs done)) ->
  let a := fst (add_links_cont_from fx cs done todo k) in a = [] \/ acyclic (link_edges fx cs a).
Proof.
  induction todo as [|l todo IH]; intros done k Hd; cbn [add_links_cont_from]; [exact Hd|].
  assert (Hne : done ++ [l] <> []) by (destruct done; discriminate).
  pose proof (inst_order_verdict fx cs (done ++ [l]) Hne) as Hv.
  destruct (inst_order fx cs (done ++ [l])) as [o|u v|].
  - apply IH. right. exact Hv.
  - specialize (IH done (S k) Hd). destruct (add_links_cont_from fx cs done todo (S k)) as [a r]. exact IH.
  - specialize (IH done (S k) Hd). destruct (add_links_cont_from fx cs done todo (S k)) as [a r]. exact IH.
Qed.

Theorem add_links_cont_acyclic fx cs ls :
  let a := fst (add_links_cont fx cs ls) in a = [] \/ acyclic (link_edges fx cs a).
Proof. apply add_links_cont_from_acyclic. left; reflexivity. Qed.

(* and instantiate_classes then finds an order for it: it never raises "Graph has cycles" for the accepted set *)
Theorem add_links_cont_has_order fx cs ls :
  exists o, inst_order fx cs (fst (add_links_cont fx cs ls)) = Order o.
Proof.
  pose proof (add_links_cont_acyclic fx cs ls) as H. cbv zeta in H.
  destruct (fst (add_links_cont fx cs ls)) as [|l a] eqn:E.
  - exists []. reflexivity.
  - destruct H as [H|H]; [discriminate|].
    assert (Hne : l :: a <> []) by discriminate.
    pose proof (inst_order_verdict fx cs (l :: a) Hne) as Hv.
    destruct (inst_order fx cs (l :: a)) as [o|u v|].
    + exists o. reflexivity.
    + exfalso. exact (cyclic_not_acyclic _ Hv H).
    + exfalso. exact (cyclic_not_acyclic _ Hv H).
Qed.

(* the order of an accepted link set lists every link's source component dest before the link's target node *)
Theorem order_respects_links fx cs ls o l k cS :
  inst_order fx cs ls = Order o -> In l ls -> In k (l_srcs l) -> resolve_src cs k = Some cS ->
  edge_before o (c_dest cS, target_node l) = true.
Proof.
  intros Ho Hl Hk Hr.
  rewrite inst_order_nonempty in Ho by (intro E; subst; contradiction).
  pose proof (topo_build_spec_ok (link_edges fx cs ls)) as Hs. rewrite Ho in Hs. simpl in Hs.
  unfold order_ok in Hs. rewrite !andb_true_iff, !forallb_forall in Hs.
  destruct Hs as [_ Hbef]. apply Hbef. eapply phase1_in; eauto.
Qed.

Print Assumptions sources_before_targets.
Print Assumptions add_links_spec.
Print Assumptions comp_sequence_perm.
Print Assumptions add_links_cont_has_order.

(* C04 — algebra of the nested namespace tree of Model/C04Sources.v: get/set/pop/items, the
   unique-names invariant, and folds of assignments over a tree. *)
From JV Require Import Lib.Base Lib.C04Base Model.C04Sources.

(* ---- names and paths ------------------------------------------------------------------------------ *)
Lemma name_eqb_spec a b : name_eqb a b = true <-> a = b.
Proof.
  destruct a as [s x], b as [t y]; unfold name_eqb; simpl.
  rewrite andb_true_iff, str_eqb_spec, Bool.eqb_true_iff. split.
  - intros [-> ->]; reflexivity.
  - intros E; inversion E; auto.
Qed.

Lemma name_eqb_refl a : name_eqb a a = true.
Proof. apply name_eqb_spec; reflexivity. Qed.

Lemma name_eqb_neq a b : name_eqb a b = false <-> a <> b.
Proof.
  split.
  - intros E H. apply name_eqb_spec in H. congruence.
  - intros H. destruct (name_eqb a b) eqn:E; auto. apply name_eqb_spec in E. contradiction.
Qed.

Lemma path_eqb_spec a b : path_eqb a b = true <-> a = b.
Proof. apply list_eqb_spec. apply name_eqb_spec. Qed.

Lemma path_eqb_refl a : path_eqb a a = true.
Proof. apply path_eqb_spec; reflexivity. Qed.

Lemma path_eqb_neq a b : path_eqb a b = false <-> a <> b.
Proof.
  split.
  - intros E H. apply path_eqb_spec in H. congruence.
  - intros H. destruct (path_eqb a b) eqn:E; auto. apply path_eqb_spec in E. contradiction.
Qed.

Lemma path_eqb_sym a b : path_eqb a b = path_eqb b a.
Proof.
  destruct (path_eqb a b) eqn:E.
  - apply path_eqb_spec in E; subst. symmetry; apply path_eqb_refl.
  - symmetry. apply path_eqb_neq. apply path_eqb_neq in E. congruence.
Qed.

Lemma path_eqb_cons a b k k' : path_eqb (a :: k) (b :: k') = name_eqb a b && path_eqb k k'.
Proof. reflexivity. Qed.

(* ---- one __dict__ ------------------------------------------------------------------------------------ *)
Lemma f_get_set_same a x f : f_get a (f_set a x f) = Some x.
Proof.
  induction f as [|n c r IH]; simpl.
  - rewrite name_eqb_refl; reflexivity.
  - destruct (name_eqb a n) eqn:E; simpl; rewrite E; auto.
Qed.

Lemma f_get_set_other a b x f : a <> b -> f_get b (f_set a x f) = f_get b f.
Proof.
  intros N. induction f as [|n c r IH]; simpl.
  - assert (name_eqb b a = false) as -> by (apply name_eqb_neq; congruence). reflexivity.
  - destruct (name_eqb a n) eqn:E; simpl.
    + apply name_eqb_spec in E; subst n.
      assert (name_eqb b a = false) as -> by (apply name_eqb_neq; congruence). reflexivity.
    + destruct (name_eqb b n); auto.
Qed.

Lemma f_get_del_other a b f : a <> b -> f_get b (f_del a f) = f_get b f.
Proof.
  intros N. induction f as [|n c r IH]; simpl; auto.
  destruct (name_eqb a n) eqn:E; simpl.
  - apply name_eqb_spec in E; subst n.
    assert (name_eqb b a = false) as -> by (apply name_eqb_neq; congruence). reflexivity.
  - destruct (name_eqb b n); auto.
Qed.

(* ---- unique names, hereditarily ---------------------------------------------------------------------- *)
Definition f_mem (a : name) (f : forest) : bool := match f_get a f with Some _ => true | None => false end.

Fixpoint uniq (t : node) : bool :=
  match t with
  | Leaf _ => true
  | Br f => uniq_f f
  end
with uniq_f (f : forest) : bool :=
  match f with
  | FNil => true
  | FCons n c r => negb (f_mem n r) && uniq c && uniq_f r
  end.

Lemma uniq_f_cons n c r : uniq_f (FCons n c r) = true <-> f_mem n r = false /\ uniq c = true /\ uniq_f r = true.
Proof.
  simpl. rewrite !andb_true_iff, negb_true_iff. tauto.
Qed.

Lemma f_get_del_same a f : uniq_f f = true -> f_get a (f_del a f) = None.
Proof.
  induction f as [|n c r IH]; simpl; auto. intros U.
  apply uniq_f_cons in U. destruct U as (M & _ & Ur).
  destruct (name_eqb a n) eqn:E.
  - apply name_eqb_spec in E; subst n. unfold f_mem in M. destruct (f_get a r); congruence.
  - simpl. rewrite E. auto.
Qed.

Lemma f_mem_set_other a b x f : a <> b -> f_mem b (f_set a x f) = f_mem b f.
Proof. intros N. unfold f_mem. rewrite f_get_set_other; auto. Qed.

Lemma uniq_f_set a x f : uniq_f f = true -> uniq x = true -> uniq_f (f_set a x f) = true.
Proof.
  intros U X. induction f as [|n c r IH]; simpl.
  - rewrite X. reflexivity.
  - apply uniq_f_cons in U. destruct U as (M & Uc & Ur).
    destruct (name_eqb a n) eqn:E.
    + apply uniq_f_cons. auto.
    + apply uniq_f_cons. split; [|split]; auto.
      rewrite f_mem_set_other; auto. apply name_eqb_neq; auto.
Qed.

Lemma f_mem_del a b f : f_mem b (f_del a f) = true -> f_mem b f = true.
Proof.
  unfold f_mem. induction f as [|n c r IH]; simpl; auto.
  destruct (name_eqb a n) eqn:E; simpl.
  - destruct (name_eqb b n); auto.
  - destruct (name_eqb b n); auto.
Qed.

Lemma uniq_f_del a f : uniq_f f = true -> uniq_f (f_del a f) = true.
Proof.
  induction f as [|n c r IH]; simpl; auto. intros U.
  apply uniq_f_cons in U. destruct U as (M & Uc & Ur).
  destruct (name_eqb a n) eqn:E; auto.
  apply uniq_f_cons. split; [|split]; auto.
  destruct (f_mem n (f_del a r)) eqn:F; auto. apply f_mem_del in F. congruence.
Qed.

Lemma f_get_uniq a f c : uniq_f f = true -> f_get a f = Some c -> uniq c = true.
Proof.
  induction f as [|n c' r IH]; simpl; [discriminate|]. intros U G.
  apply uniq_f_cons in U. destruct U as (M & Uc & Ur).
  destruct (name_eqb a n); [inversion G; subst; auto | auto].
Qed.

Lemma uniq_kids t : uniq t = true -> uniq_f (kids t) = true.
Proof. destruct t; simpl; auto. Qed.

Lemma uniq_set k x : uniq x = true -> forall t, uniq t = true -> uniq (ns_set k x t) = true.
Proof.
  intros X. induction k as [|a k IH]; intros t U; simpl; auto.
  apply uniq_f_set; [apply uniq_kids; auto|].
  apply IH. destruct (f_get a (kids t)) eqn:G; auto.
  eapply f_get_uniq; eauto. apply uniq_kids; auto.
Qed.

Lemma ns_pop_cons a k t :
  ns_pop (a :: k) t =
  match t with
  | Br f =>
      match k with
      | [] => Br (f_del a f)
      | _ :: _ => match f_get a f with Some c => Br (f_set a (ns_pop k c) f) | None => t end
      end
  | Leaf _ => t
  end.
Proof. destruct k, t; reflexivity. Qed.

Lemma uniq_pop k : forall t, uniq t = true -> uniq (ns_pop k t) = true.
Proof.
  induction k as [|a k IH]; intros t U; [destruct t; auto|].
  rewrite ns_pop_cons. destruct t as [v|f]; auto.
  destruct k as [|b k'].
  - simpl. apply uniq_f_del; auto.
  - destruct (f_get a f) eqn:G; auto. simpl. apply uniq_f_set; auto.
    apply IH. eapply f_get_uniq; eauto.
Qed.

(* ---- get after set / pop ------------------------------------------------------------------------------- *)
Lemma lget_cons a k t :
  lget (a :: k) t = match f_get a (kids t) with Some c => lget k c | None => None end.
Proof. destruct t; reflexivity. Qed.

Lemma lget_empty k : lget k (Br FNil) = None.
Proof. destruct k; reflexivity. Qed.

Lemma lget_nil_br f : lget [] (Br f) = None.
Proof. reflexivity. Qed.

(* keys k k' of which neither is a proper prefix of the other *)
Lemma lget_set k' v : forall k t,
  ppb k k' = false -> ppb k' k = false ->
  lget k (ns_set k' (Leaf v) t) = if path_eqb k k' then Some v else lget k t.
Proof.
  induction k' as [|a k' IH]; intros k t P1 P2.
  - destruct k as [|b k]; simpl in *; [reflexivity | discriminate].
  - destruct k as [|b k]; [simpl in *; discriminate|].
    simpl in P1, P2. rewrite path_eqb_cons.
    change (ns_set (a :: k') (Leaf v) t) with
      (Br (f_set a (ns_set k' (Leaf v) (match f_get a (kids t) with Some c => c | None => Br FNil end)) (kids t))).
    rewrite lget_cons. cbn [kids].
    destruct (name_eqb b a) eqn:E.
    + apply name_eqb_spec in E; subst b. try rewrite name_eqb_refl in P1; try rewrite name_eqb_refl in P2; cbn [andb] in *.
      rewrite f_get_set_same, IH; auto.
      destruct (path_eqb k k'); auto.
      rewrite lget_cons. destruct (f_get a (kids t)); auto. apply lget_empty.
    + cbn [andb]. rewrite f_get_set_other by (apply name_eqb_neq in E; congruence).
      rewrite lget_cons. reflexivity.
Qed.

(* setting a leaf creates no other leaf *)
Lemma lget_set_inv k v : forall k2 t v2,
  lget k2 (ns_set k (Leaf v) t) = Some v2 -> k2 = k \/ lget k2 t = Some v2.
Proof.
  induction k as [|a k IH]; intros k2 t v2 H.
  - simpl in H. destruct k2; simpl in H; [auto | discriminate].
  - destruct k2 as [|b k2]; [simpl in H; discriminate|].
    change (ns_set (a :: k) (Leaf v) t) with
      (Br (f_set a (ns_set k (Leaf v) (match f_get a (kids t) with Some c => c | None => Br FNil end)) (kids t))) in H.
    rewrite lget_cons in H. cbn [kids] in H.
    destruct (name_eqb b a) eqn:E.
    + apply name_eqb_spec in E; subst b. rewrite f_get_set_same in H.
      apply IH in H. destruct H as [-> | H]; auto. right.
      rewrite lget_cons. destruct (f_get a (kids t)); auto. rewrite lget_empty in H. discriminate.
    + rewrite f_get_set_other in H by (apply name_eqb_neq in E; congruence).
      right. rewrite lget_cons. exact H.
Qed.

Lemma lget_pop k' : forall k t,
  k' <> [] -> uniq t = true -> ppb k k' = false -> ppb k' k = false ->
  lget k (ns_pop k' t) = if path_eqb k k' then None else lget k t.
Proof.
  induction k' as [|a k' IH]; intros k t NE U P1 P2; [congruence|].
  rewrite ns_pop_cons. destruct t as [v0|f].
  - destruct k as [|b k]; [reflexivity|]. destruct (path_eqb (b :: k) (a :: k')); reflexivity.
  - destruct k as [|b k].
    + simpl in P1. discriminate.
    + simpl in P1, P2. rewrite path_eqb_cons. simpl in U.
      destruct k' as [|a2 k''].
      * rewrite !lget_cons. cbn [kids].
        destruct (name_eqb b a) eqn:E.
        -- apply name_eqb_spec in E; subst b. rewrite f_get_del_same by auto.
           rewrite name_eqb_refl in P2. cbn [andb] in *. destruct k; [reflexivity | simpl in P2; discriminate].
        -- cbn [andb]. rewrite f_get_del_other by (apply name_eqb_neq in E; congruence).
           reflexivity.
      * destruct (f_get a f) as [c|] eqn:G.
        -- rewrite !lget_cons. cbn [kids].
           destruct (name_eqb b a) eqn:E.
           ++ apply name_eqb_spec in E; subst b. rewrite name_eqb_refl in P2. cbn [andb] in *.
              rewrite f_get_set_same. rewrite IH; auto; [|congruence| eapply f_get_uniq; eauto].
              rewrite G. reflexivity.
           ++ cbn [andb]. rewrite f_get_set_other by (apply name_eqb_neq in E; congruence). reflexivity.
        -- destruct (name_eqb b a) eqn:E; cbn [andb]; auto.
           apply name_eqb_spec in E; subst b. rewrite lget_cons. cbn [kids]. rewrite G.
           destruct (path_eqb k (a2 :: k'')); reflexivity.
Qed.

(* popping creates no leaf *)
Lemma lget_pop_inv k : forall k2 t v2,
  uniq t = true -> lget k2 (ns_pop k t) = Some v2 -> lget k2 t = Some v2.
Proof.
  induction k as [|a k IH]; intros k2 t v2 U H; [destruct t; exact H|].
  rewrite ns_pop_cons in H. destruct t as [v0|f]; auto.
  simpl in U.
  destruct k2 as [|b k2]; [destruct k; [simpl in H; discriminate|destruct (f_get a f); simpl in H; discriminate]|].
  destruct k as [|a2 k'].
  - rewrite lget_cons in *. cbn [kids] in *.
    destruct (name_eqb b a) eqn:E.
    + apply name_eqb_spec in E; subst b. rewrite f_get_del_same in H by auto. discriminate.
    + rewrite f_get_del_other in H by (apply name_eqb_neq in E; congruence). exact H.
  - destruct (f_get a f) as [c|] eqn:G; auto.
    rewrite lget_cons in *. cbn [kids] in *.
    destruct (name_eqb b a) eqn:E.
    + apply name_eqb_spec in E; subst b. rewrite f_get_set_same in H. rewrite G.
      apply IH in H; auto. eapply f_get_uniq; eauto.
    + rewrite f_get_set_other in H by (apply name_eqb_neq in E; congruence). exact H.
Qed.

(* ---- items and get ---------------------------------------------------------------------------------------- *)
Scheme node_mut := Induction for node Sort Prop
  with forest_mut := Induction for forest Sort Prop.

Lemma items_lget t :
  uniq t = true -> forall k v, In (k, v) (items t) <-> lget k t = Some v.
Proof.
  apply (node_mut
    (fun t => uniq t = true -> forall k v, In (k, v) (items t) <-> lget k t = Some v)
    (fun f => uniq_f f = true -> forall k v, In (k, v) (items_f f) <-> lget k (Br f) = Some v)).
  - intros v0 _ k v. simpl. split.
    + intros [E|[]]. inversion E; subst. reflexivity.
    + destruct k; simpl; [|discriminate]. intros E; inversion E; auto.
  - intros f IH U k v. simpl in *. apply IH; auto.
  - intros _ k v. simpl. rewrite lget_empty. split; [tauto | discriminate].
  - intros n c IHc r IHr U k v.
    apply uniq_f_cons in U. destruct U as (M & Uc & Ur).
    specialize (IHc Uc). specialize (IHr Ur).
    simpl items_f. rewrite in_app_iff, in_map_iff.
    destruct k as [|b k].
    + rewrite lget_nil_br. split; [|discriminate].
      intros [(kv & E & _) | H]; [inversion E|]. apply IHr in H. rewrite lget_nil_br in H. discriminate.
    + rewrite lget_cons. cbn [kids]. simpl f_get.
      destruct (name_eqb b n) eqn:E.
      * apply name_eqb_spec in E; subst b. split.
        -- intros [(kv & E & H) | H].
           ++ destruct kv as [k0 v0]. simpl in E. inversion E; subst. apply IHc; auto.
           ++ apply IHr in H. rewrite lget_cons in H. cbn [kids] in H.
              unfold f_mem in M. destruct (f_get n r); congruence.
        -- intros H. left. exists (k, v). split; auto. apply IHc; auto.
      * split.
        -- intros [(kv & E' & H) | H].
           ++ inversion E'; subst. rewrite name_eqb_refl in E. discriminate.
           ++ apply IHr in H. rewrite lget_cons in H. exact H.
        -- intros H. right. apply IHr. rewrite lget_cons. exact H.
Qed.

(* ---- a fold of leaf assignments --------------------------------------------------------------------------- *)
Definition setf (t : node) (kv : tpath * val) : node := ns_set (fst kv) (Leaf (snd kv)) t.

Definition key_is (k : tpath) (kv : tpath * val) : bool := path_eqb k (fst kv).

Lemma find_app {A} (f : A -> bool) l1 l2 :
  find f (l1 ++ l2) = match find f l1 with Some x => Some x | None => find f l2 end.
Proof. induction l1 as [|x l1 IH]; simpl; auto. destruct (f x); auto. Qed.

(* its is functional: entries with the same key carry the same value *)
Lemma fold_setf_lget its : forall to k,
  (forall kv, In kv its -> ppb k (fst kv) = false /\ ppb (fst kv) k = false) ->
  (forall kv kv', In kv its -> In kv' its -> fst kv = fst kv' -> snd kv = snd kv') ->
  lget k (fold_left setf its to) =
  match find (key_is k) its with Some kv => Some (snd kv) | None => lget k to end.
Proof.
  induction its as [|x its IH] using rev_ind; intros to k INC FUN; [reflexivity|].
  rewrite fold_left_app. simpl. unfold setf at 1.
  destruct (INC x) as [P1 P2]; [apply in_or_app; right; left; auto|].
  rewrite lget_set by auto. rewrite find_app. simpl. fold (key_is k x).
  rewrite IH.
  - destruct (find (key_is k) its) as [y|] eqn:F.
    + destruct (key_is k x) eqn:E; auto.
      apply find_some in F. destruct F as [Iy Ey].
      unfold key_is in *. apply path_eqb_spec in E, Ey.
      f_equal. symmetry. apply FUN; [apply in_or_app; auto | apply in_or_app; right; left; auto | congruence].
    + destruct (key_is k x); reflexivity.
  - intros kv I. apply INC. apply in_or_app; auto.
  - intros kv kv' I I'. apply FUN; apply in_or_app; auto.
Qed.

Lemma fold_setf_uniq its : forall to, uniq to = true -> uniq (fold_left setf its to) = true.
Proof.
  induction its as [|x its IH]; intros to U; simpl; auto.
  apply IH. unfold setf. apply uniq_set; auto.
Qed.

(* no leaf appears out of nothing *)
Lemma fold_setf_inv its : forall to k v,
  lget k (fold_left setf its to) = Some v -> (exists kv, In kv its /\ fst kv = k) \/ lget k to = Some v.
Proof.
  induction its as [|x its IH]; intros to k v H; simpl in *; auto.
  apply IH in H. destruct H as [(kv & I & E) | H].
  - left. exists kv. auto.
  - unfold setf in H. apply lget_set_inv in H. destruct H as [-> | H]; auto.
    left. exists x. auto.
Qed.

(* ---- cfg.__dict__.update(other.__dict__) ----------------------------------------------------------------- *)
Lemma f_get_update a g : forall f, uniq_f g = true ->
  f_get a (f_update f g) = match f_get a g with Some c => Some c | None => f_get a f end.
Proof.
  induction g as [|n c r IH]; intros f U; simpl; auto.
  apply uniq_f_cons in U. destruct U as (M & Uc & Ur).
  rewrite IH by auto. destruct (name_eqb a n) eqn:E.
  - apply name_eqb_spec in E; subst n.
    unfold f_mem in M. destruct (f_get a r) eqn:G; [discriminate|]. apply f_get_set_same.
  - destruct (f_get a r); auto. apply f_get_set_other. apply name_eqb_neq in E. congruence.
Qed.

Lemma uniq_f_update g : forall f, uniq_f f = true -> uniq_f g = true -> uniq_f (f_update f g) = true.
Proof.
  induction g as [|n c r IH]; intros f Uf Ug; simpl; auto.
  apply uniq_f_cons in Ug. destruct Ug as (M & Uc & Ur).
  apply IH; auto. apply uniq_f_set; auto.
Qed.

(* C04 — the statements of Properties/C04.v, derived from precedence_lemma (Proofs/C04Proofs.v). *)
From JV Require Import Lib.Base Lib.C04Base Model.C04Sources Spec.C04Spec Model.C04Wf
  Proofs.C04Tree Proofs.C04Merge Proofs.C04Proofs.
From Coq Require Import List Bool ZArith NArith.
Import ListNotations.

Definition precedence_statement (c : call) : Prop :=
  wf_call c = true ->
  exists t, pipeline c = Ok t /\
            observe_values (c_parser c) t = final_values c /\
            observe_extra (c_parser c) t = false.

Lemma wf_call_parser c : wf_call c = true -> wf_parser (c_parser c) = true.
Proof.
  unfold wf_call. intros W. apply andb_true_iff in W. destruct W as [W _].
  do 3 (apply andb_true_iff in W; destruct W as [W _]). exact W.
Qed.

Lemma precedence_observed c : envcfg_append c = false -> precedence_statement c.
Proof.
  intros G W. destruct (precedence_lemma c W G) as (t & E & R).
  exists t. split; [exact E|].
  destruct (rep_observe (c_parser c) t (fold_sources c) (wf_call_parser c W) R) as [OV OE].
  split; [|exact OE]. rewrite OV. reflexivity.
Qed.

Lemma call_class_0 c : call_class c = 0%N <-> (wf_call c = true /\ envcfg_append c = false).
Proof.
  unfold call_class. destruct (wf_call c); simpl.
  - destruct (envcfg_append c); split; intros H; try discriminate; auto. destruct H; discriminate.
  - split; intros H; try discriminate. destruct H; discriminate.
Qed.

(* later wins *)
Lemma later_wins c d pre post v :
  wf_call c = true -> envcfg_append c = false -> In d (c_parser c) ->
  concat (sources_in_documented_order c) = pre ++ (d_key d, Set_ v) :: post ->
  (forall a, In a post -> fst a <> d_key d) ->
  exists t, pipeline c = Ok t /\ prev_val d t = v.
Proof.
  intros W G I E NT. destruct (precedence_lemma c W G) as (t & Et & R).
  exists t. split; [exact Et|].
  rewrite (rep_lookup (c_parser c) t (fold_sources c) d R I).
  unfold fold_sources. rewrite E, fold_left_app. simpl fold_left.
  unfold lookup. rewrite (fold_untouched post _ (d_key d) NT).
  rewrite alist_get_put, path_eqb_refl. reflexivity.
Qed.

(* ---- the finding: parser with one list key l = [1,2], environment enabled, the config named by the
   config environment variable says "l+: [9]".  The documented fold gives [1,2,9]; the code-shaped
   pipeline (like the real parser) gives [9]. *)
Definition k_l : tpath := [([108%N], false)].
Definition refuting_call : call :=
  {| c_parser := [{| d_key := k_l; d_kind := KList; d_default := VList [1; 2]%Z |}];
     c_default_env := true; c_os_default_env := None; c_env_arg := None;
     c_patterns := [];
     c_envcfg := Some [(k_l, Append (VList [9]%Z))];
     c_envvars := [];
     c_entry := EArgs [] |}.

Lemma refuting_call_facts :
  wf_call refuting_call = true /\ call_class refuting_call = 1%N /\
  final_values refuting_call = [VList [1; 2; 9]%Z] /\
  option_map (observe_values (c_parser refuting_call))
    (match pipeline refuting_call with Ok t => Some t | _ => None end) = Some [VList [9]%Z].
Proof. vm_compute. repeat split; reflexivity. Qed.

Lemma precedence_unguarded_refuted : exists c, ~ precedence_statement c.
Proof.
  exists refuting_call. intros H.
  destruct refuting_call_facts as (W & _ & F & O).
  destruct (H W) as (t & E & OV & _).
  rewrite E in O. cbn [option_map] in O. rewrite F in OV. rewrite OV in O. discriminate.
Qed.

(* ---- a non-trivial call inside the guard: scalar k and list l, a default config file, two environment
   variables and three command-line items, one of them an append *)
Definition k_k : tpath := [([107%N], false)].
Definition ex_call : call :=
  {| c_parser := [{| d_key := k_k; d_kind := KScalar; d_default := VTok 1 |};
                  {| d_key := k_l; d_kind := KList; d_default := VList [1]%Z |}];
     c_default_env := true; c_os_default_env := None; c_env_arg := None;
     c_patterns := [[([97%N], [(k_l, Append (VList [2]%Z))])]];
     c_envcfg := None;
     c_envvars := [(k_k, VTok 3)];
     c_entry := EArgs [AAsg (k_l, Append (VTok 9)); AAsg (k_k, Set_ (VTok 7)); AAsg (k_l, Append (VTok 5))] |}.

(* ---- a call with a subcommand (Model/C04Sub.v): parent key k, subcommand "f" with scalar x and list l;
   environment variable for f.x, two parent-level --cfg items (the first sets f.x, the second another key of
   the subcommand), an append after the token *)
From JV Require Import Model.C04Sub.
Definition k_x : tpath := [([120%N], false)].
Definition n_f : name := ([102%N], false).
Definition ex_scall : scall :=
  {| s_parent :=
       {| c_parser := [{| d_key := k_k; d_kind := KScalar; d_default := VTok 1 |}];
          c_default_env := true; c_os_default_env := None; c_env_arg := None;
          c_patterns := []; c_envcfg := None; c_envvars := [];
          c_entry := EArgs [ACfg [(n_f :: k_x, Set_ (VTok 5))]; ACfg [(n_f :: k_l, Set_ (VList [6]%Z)); (k_k, Set_ (VTok 2))]] |};
     s_name := n_f;
     s_sub := [{| d_key := k_x; d_kind := KScalar; d_default := VTok 0 |};
               {| d_key := k_l; d_kind := KList; d_default := VList [4]%Z |}];
     s_subenv := [(k_x, VTok 3)]; s_envsub := None;
     s_subargv := [AAsg (k_l, Append (VTok 9))] |}.

(* ---- the subcommand level: statement and three witnesses of the unchanged code's deviations --------------- *)
Definition sub_precedence_statement (sc : scall) : Prop :=
  wf_scall sc = true ->
  exists t, pipeline_sub sc = Ok t /\ observe_values (all_decls sc) t = final_values_sub sc.

Definition sub_outcome (sc : scall) : option (list val) :=
  match pipeline_sub sc with Ok t => Some (observe_values (all_decls sc) t) | Unrecognized => None end.

Lemma sub_refute sc o :
  wf_scall sc = true -> sub_outcome sc = o -> o <> Some (final_values_sub sc) -> ~ sub_precedence_statement sc.
Proof.
  intros W E N H. destruct (H W) as (t & P & V). unfold sub_outcome in E. rewrite P, V in E. congruence.
Qed.

Definition mk_parent (p : parser) (pats : list (list (str * doc))) (envcfg : option doc) (argv : list arg) : call :=
  {| c_parser := p; c_default_env := true; c_os_default_env := None; c_env_arg := None;
     c_patterns := pats; c_envcfg := envcfg; c_envvars := []; c_entry := EArgs argv |}.

(* class 3: CFG='{"f": {"x": 8}}', F__X=11, parse_args(['f']): the code gives f.x = 8, the documented order 11 *)
Definition shadowed_scall : scall :=
  {| s_parent := mk_parent [{| d_key := k_k; d_kind := KScalar; d_default := VTok 1 |}] [] (Some [(n_f :: k_x, Set_ (VTok 8))]) [];
     s_name := n_f; s_sub := [{| d_key := k_x; d_kind := KScalar; d_default := VTok 2 |}];
     s_subenv := [(k_x, VTok 11)]; s_envsub := None; s_subargv := [] |}.

Lemma shadowed_facts :
  wf_scall shadowed_scall = true /\ scall_class shadowed_scall = 3%N /\
  final_values_sub shadowed_scall = [VTok 1; VTok 11] /\ sub_outcome shadowed_scall = Some [VTok 1; VTok 8].
Proof. vm_compute. repeat split; reflexivity. Qed.

Lemma subenv_shadowed_refuted : exists sc, scall_class sc = 3%N /\ ~ sub_precedence_statement sc.
Proof.
  exists shadowed_scall. destruct shadowed_facts as (W & C & F & O). split; [exact C|].
  eapply sub_refute; eauto. rewrite F. discriminate.
Qed.

(* class 5: parent l = [1], subcommand f with l = [4]; --cfg '{"f": {"l+": [7]}}' f: the code gives
   f.l = [1; 7] (the parent's list), the documented fold [4; 7] *)
Definition section_append_scall : scall :=
  {| s_parent := mk_parent [{| d_key := k_l; d_kind := KList; d_default := VList [1]%Z |}] [] None
                           [ACfg [(n_f :: k_l, Append (VList [7]%Z))]];
     s_name := n_f; s_sub := [{| d_key := k_l; d_kind := KList; d_default := VList [4]%Z |}];
     s_subenv := []; s_envsub := None; s_subargv := [] |}.

Lemma section_append_facts :
  wf_scall section_append_scall = true /\ scall_class section_append_scall = 5%N /\
  final_values_sub section_append_scall = [VList [1]%Z; VList [4; 7]%Z] /\
  sub_outcome section_append_scall = Some [VList [1]%Z; VList [1; 7]%Z].
Proof. vm_compute. repeat split; reflexivity. Qed.

Lemma section_append_refuted : exists sc, scall_class sc = 5%N /\ ~ sub_precedence_statement sc.
Proof.
  exists section_append_scall. destruct section_append_facts as (W & C & F & O). split; [exact C|].
  eapply sub_refute; eauto. rewrite F. discriminate.
Qed.

(* class 4: a default config file "k: 6" and parse_args(['f']): the code raises, the documented order applies the file *)
Definition dcf_scall : scall :=
  {| s_parent := mk_parent [{| d_key := k_k; d_kind := KScalar; d_default := VTok 1 |}] [[([97%N], [(k_k, Set_ (VTok 6))])]] None [];
     s_name := n_f; s_sub := [{| d_key := k_x; d_kind := KScalar; d_default := VTok 2 |}];
     s_subenv := []; s_envsub := None; s_subargv := [] |}.

Lemma dcf_facts :
  wf_scall dcf_scall = true /\ scall_class dcf_scall = 4%N /\
  final_values_sub dcf_scall = [VTok 6; VTok 2] /\ sub_outcome dcf_scall = None.
Proof. vm_compute. repeat split; reflexivity. Qed.

Lemma dcf_without_section_refuted : exists sc, scall_class sc = 4%N /\ ~ sub_precedence_statement sc.
Proof.
  exists dcf_scall. destruct dcf_facts as (W & C & F & O). split; [exact C|].
  eapply sub_refute; eauto. discriminate.
Qed.

(* class 6: a default config file "f: {x: 9}", F_SUBCOMMAND=f (the subcommand the command line names as well),
   parse_args(['f']): the code gives f.x = 2 — the subcommand's DEFAULT — the documented order 9 (a default
   config file comes after the defaults in the source code) *)
Definition envsub_scall : scall :=
  {| s_parent := mk_parent [{| d_key := k_k; d_kind := KScalar; d_default := VTok 1 |}]
                           [[([97%N], [(n_f :: k_x, Set_ (VTok 9))])]] None [];
     s_name := n_f; s_sub := [{| d_key := k_x; d_kind := KScalar; d_default := VTok 2 |}];
     s_subenv := []; s_envsub := Some n_f; s_subargv := [] |}.

Lemma envsub_facts :
  wf_scall envsub_scall = true /\ scall_class envsub_scall = 6%N /\
  final_values_sub envsub_scall = [VTok 1; VTok 9] /\ sub_outcome envsub_scall = Some [VTok 1; VTok 2].
Proof. vm_compute. repeat split; reflexivity. Qed.

Lemma envsub_resets_refuted : exists sc, scall_class sc = 6%N /\ ~ sub_precedence_statement sc.
Proof.
  exists envsub_scall. destruct envsub_facts as (W & C & F & O). split; [exact C|].
  eapply sub_refute; eauto. rewrite F. discriminate.
Qed.

(* ---- PREFIX_SUBCOMMAND is not a source of values unless it names the chosen subcommand while the environment is read ---- *)
Definition with_envsub (sc : scall) (v : option name) : scall :=
  {| s_parent := s_parent sc; s_name := s_name sc; s_sub := s_sub sc; s_subenv := s_subenv sc;
     s_envsub := v; s_subargv := s_subargv sc |}.

Lemma envsub_inert sc v :
  (match v with Some w => name_eqb w (s_name sc) | None => false end && env_is_source (s_parent sc))%bool = false ->
  pipeline_sub (with_envsub sc v) = pipeline_sub (with_envsub sc None) /\
  final_values_sub (with_envsub sc v) = final_values_sub (with_envsub sc None).
Proof.
  intros H. split; [|reflexivity].
  unfold pipeline_sub, pipeline_sub_fx. cbn [with_envsub s_parent s_name s_sub s_subenv s_subargv].
  assert (defaults_and_environ_sub nofix (with_envsub sc v) = defaults_and_environ_sub nofix (with_envsub sc None)) as ->; [|reflexivity].
  unfold defaults_and_environ_sub. cbn [with_envsub s_parent].
  rewrite env_enabled_spec. destruct (env_is_source (s_parent sc)) eqn:E; [|reflexivity].
  rewrite andb_true_r in H. unfold load_env_vars_sub. cbn [with_envsub s_parent s_name s_sub s_subenv s_envsub].
  destruct v as [w|]; [|reflexivity]. rewrite H. reflexivity.
Qed.

Example envsub_inert_satisfiable :
  exists sc v, v <> None /\ wf_scall (with_envsub sc v) = true /\
    (match v with Some w => name_eqb w (s_name sc) | None => false end && env_is_source (s_parent sc))%bool = false.
Proof. exists ex_scall, (Some ([122%N], false)). vm_compute. repeat split; congruence. Qed.

(* ---- residual of class 6 once _load_env_vars asks the named subcommand for its environment only (fx_envsub, /repo 3663e43):
   the result is still copied by top-level entry.  CFG='{"f": {"g": {"d": 8}}}', F_SUBCOMMAND=f, F__G__X=3, parse_args(['f']):
   the group f.g of the environment namespace is replaced by {x: 3}, f.g.d falls back to its default 2; the fold gives 8.
   With the leaf-wise copy (fx_leaf) the pipeline gives the fold. *)
Definition n_g : name := ([103%N], false).
Definition n_d : name := ([100%N], false).
Definition n_x : name := ([120%N], false).
Definition fx_repo : fixes := {| fx_append := false; fx_section := true; fx_envsub := true; fx_leaf := false |}.
Definition fx_repo_leaf : fixes := {| fx_append := false; fx_section := true; fx_envsub := true; fx_leaf := true |}.
Definition group_scall : scall :=
  {| s_parent := mk_parent [{| d_key := k_k; d_kind := KScalar; d_default := VTok 1 |}] [] (Some [([n_f; n_g; n_d], Set_ (VTok 8))]) [];
     s_name := n_f;
     s_sub := [{| d_key := [n_g; n_x]; d_kind := KScalar; d_default := VTok 1 |};
               {| d_key := [n_g; n_d]; d_kind := KScalar; d_default := VTok 2 |}];
     s_subenv := [([n_g; n_x], VTok 3)]; s_envsub := Some n_f; s_subargv := [] |}.

Definition sub_outcome_fx (fx : fixes) (sc : scall) : option (list val) :=
  match pipeline_sub_fx fx sc with Ok t => Some (observe_values (all_decls sc) t) | Unrecognized => None end.

Lemma envsub_group_residual :
  wf_scall group_scall = true /\ scall_class_fx false true true false group_scall = 6%N /\
  scall_class_fx false true true true group_scall = 2%N /\
  final_values_sub group_scall = [VTok 1; VTok 3; VTok 8] /\
  sub_outcome_fx fx_repo group_scall = Some [VTok 1; VTok 3; VTok 2] /\
  sub_outcome_fx fx_repo_leaf group_scall = Some (final_values_sub group_scall).
Proof. vm_compute. repeat split; reflexivity. Qed.

(* C04 — the statements of Properties/C04.v, derived from precedence_lemma (Proofs/C04Proofs.v). *)
From JV Require Import Lib.Base Lib.C04Base Model.C04Sources Spec.C04Spec Model.C04Wf
  Proofs.C04Tree Proofs.C04Merge Proofs.C04Proofs.
From Coq Require Import List Bool ZArith NArith.
Import ListNotations.

Definition precedence_statement (c : call) : Prop :=
  wf_call c = true ->
  exists t, pipeline c = Ok t /\
            observe_values (c_parser c) t = final_values c /\
            observe_extra (c_parser c) t = false.

Lemma wf_call_parser c : wf_call c = true -> wf_parser (c_parser c) = true.
Proof.
  unfold wf_call. intros W. apply andb_true_iff in W. destruct W as [W _].
  do 3 (apply andb_true_iff in W; destruct W as [W _]). exact W.
Qed.

Lemma precedence_observed c : envcfg_append c = false -> precedence_statement c.
Proof.
  intros G W. destruct (precedence_lemma c W G) as (t & E & R).
  exists t. split; [exact E|].
  destruct (rep_observe (c_parser c) t (fold_sources c) (wf_call_parser c W) R) as [OV OE].
  split; [|exact OE]. rewrite OV. reflexivity.
Qed.

Lemma call_class_0 c : call_class c = 0%N <-> (wf_call c = true /\ envcfg_append c = false).
Proof.
  unfold call_class. destruct (wf_call c); simpl.
  - destruct (envcfg_append c); split; intros H; try discriminate; auto. destruct H; discriminate.
  - split; intros H; try discriminate. destruct H; discriminate.
Qed.

(* later wins *)
Lemma later_wins c d pre post v :
  wf_call c = true -> envcfg_append c = false -> In d (c_parser c) ->
  concat (sources_in_documented_order c) = pre ++ (d_key d, Set_ v) :: post ->
  (forall a, In a post -> fst a <> d_key d) ->
  exists t, pipeline c = Ok t /\ prev_val d t = v.
Proof.
  intros W G I E NT. destruct (precedence_lemma c W G) as (t & Et & R).
  exists t. split; [exact Et|].
  rewrite (rep_lookup (c_parser c) t (fold_sources c) d R I).
  unfold fold_sources. rewrite E, fold_left_app. simpl fold_left.
  unfold lookup. rewrite (fold_untouched post _ (d_key d) NT).
  rewrite alist_get_put, path_eqb_refl. reflexivity.
Qed.

(* ---- the finding: parser with one list key l = [1,2], environment enabled, the config named by the
   config environment variable says "l+: [9]".  The documented fold gives [1,2,9]; the code-shaped
   pipeline (like the real parser) gives [9]. *)
Definition k_l : tpath := [([108%N], false)].
Definition refuting_call : call :=
  {| c_parser := [{| d_key := k_l; d_kind := KList; d_default := VList [1; 2]%Z |}];
     c_default_env := true; c_os_default_env := None; c_env_arg := None;
     c_patterns := [];
     c_envcfg := Some [(k_l, Append (VList [9]%Z))];
     c_envvars := [];
     c_entry := EArgs [] |}.

Lemma refuting_call_facts :
  wf_call refuting_call = true /\ call_class refuting_call = 1%N /\
  final_values refuting_call = [VList [1; 2; 9]%Z] /\
  option_map (observe_values (c_parser refuting_call))
    (match pipeline refuting_call with Ok t => Some t | _ => None end) = Some [VList [9]%Z].
Proof. vm_compute. repeat split; reflexivity. Qed.

Lemma precedence_unguarded_refuted : exists c, ~ precedence_statement c.
Proof.
  exists refuting_call. intros H.
  destruct refuting_call_facts as (W & _ & F & O).
  destruct (H W) as (t & E & OV & _).
  rewrite E in O. cbn [option_map] in O. rewrite F in OV. rewrite OV in O. discriminate.
Qed.

(* ---- a non-trivial call inside the guard: scalar k and list l, a default config file, two environment
   variables and three command-line items, one of them an append *)
Definition k_k : tpath := [([107%N], false)].
Definition ex_call : call :=
  {| c_parser := [{| d_key := k_k; d_kind := KScalar; d_default := VTok 1 |};
                  {| d_key := k_l; d_kind := KList; d_default := VList [1]%Z |}];
     c_default_env := true; c_os_default_env := None; c_env_arg := None;
     c_patterns := [[([97%N], [(k_l, Append (VList [2]%Z))])]];
     c_envcfg := None;
     c_envvars := [(k_k, VTok 3)];
     c_entry := EArgs [AAsg (k_l, Append (VTok 9)); AAsg (k_k, Set_ (VTok 7)); AAsg (k_l, Append (VTok 5))] |}.

(* ---- a call with a subcommand (Model/C04Sub.v): parent key k, subcommand "f" with scalar x and list l;
   environment variable for f.x, two parent-level --cfg items (the first sets f.x, the second another key of
   the subcommand), an append after the token *)
From JV Require Import Model.C04Sub.
Definition k_x : tpath := [([120%N], false)].
Definition n_f : name := ([102%N], false).
Definition ex_scall : scall :=
  {| s_parent :=
       {| c_parser := [{| d_key := k_k; d_kind := KScalar; d_default := VTok 1 |}];
          c_default_env := true; c_os_default_env := None; c_env_arg := None;
          c_patterns := []; c_envcfg := None; c_envvars := [];
          c_entry := EArgs [ACfg [(n_f :: k_x, Set_ (VTok 5))]; ACfg [(n_f :: k_l, Set_ (VList [6]%Z)); (k_k, Set_ (VTok 2))]] |};
     s_name := n_f;
     s_sub := [{| d_key := k_x; d_kind := KScalar; d_default := VTok 0 |};
               {| d_key := k_l; d_kind := KList; d_default := VList [4]%Z |}];
     s_subenv := [(k_x, VTok 3)];
     s_subargv := [AAsg (k_l, Append (VTok 9))] |}.

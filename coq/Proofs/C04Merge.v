(* C04 — what merge_config / apply_appends / load_config compute, key by key, for a well-formed parser. *)
From JV Require Import Lib.Base Lib.C04Base Model.C04Sources Spec.C04Spec Model.C04Wf Proofs.C04Tree.

(* ---- the '+' flag ------------------------------------------------------------------------------------ *)
Definition unflagged (k : tpath) : bool := forallb (fun n : name => negb (snd n)) k.

Lemma set_flag_cons b a k : k <> [] -> set_flag b (a :: k) = a :: set_flag b k.
Proof. destruct k; [congruence|]. destruct a; reflexivity. Qed.

Lemma is_plus_cons a k : k <> [] -> is_plus (a :: k) = is_plus k.
Proof. destruct k; [congruence|]. destruct a; reflexivity. Qed.

Lemma is_plus_unflagged k : unflagged k = true -> is_plus k = false.
Proof.
  induction k as [|a k IH]; auto. intros U. simpl in U. apply andb_true_iff in U. destruct U as [Ua Uk].
  destruct k as [|b k'].
  - destruct a as [s f]. simpl in *. destruct f; auto; discriminate.
  - rewrite is_plus_cons by congruence. auto.
Qed.

Lemma strip_unflagged k : unflagged k = true -> strip k = k.
Proof.
  unfold strip. induction k as [|a k IH]; auto. intros U. simpl in U. apply andb_true_iff in U. destruct U as [Ua Uk].
  destruct k as [|b k'].
  - destruct a as [s f]. simpl in *. destruct f; auto; discriminate.
  - rewrite set_flag_cons by congruence. rewrite IH; auto.
Qed.

Lemma set_flag_nonempty b k : k <> [] -> set_flag b k <> [].
Proof. destruct k as [|a k]; [congruence|]. intros _. destruct k; destruct a; simpl; congruence. Qed.

Lemma is_plus_mark k : k <> [] -> is_plus (mark k) = true.
Proof.
  unfold mark. induction k as [|a k IH]; [congruence|]. intros _.
  destruct k as [|b k'].
  - destruct a; reflexivity.
  - rewrite (set_flag_cons true a (b :: k')) by congruence.
    rewrite is_plus_cons by (apply set_flag_nonempty; congruence). apply IH; congruence.
Qed.

Lemma set_flag_idem b b' k : set_flag b' (set_flag b k) = set_flag b' k.
Proof.
  induction k as [|a k IH]; auto.
  destruct k as [|c k'].
  - destruct a; reflexivity.
  - rewrite (set_flag_cons b a (c :: k')) by congruence.
    rewrite (set_flag_cons b' a (c :: k')) by congruence.
    rewrite (set_flag_cons b' a (set_flag b (c :: k'))) by (apply set_flag_nonempty; congruence).
    rewrite IH. reflexivity.
Qed.

Lemma strip_mark k : unflagged k = true -> strip (mark k) = k.
Proof. intros U. unfold strip, mark. rewrite set_flag_idem. apply strip_unflagged; auto. Qed.

Lemma mark_neq k k' : k <> [] -> unflagged k' = true -> mark k <> k'.
Proof.
  intros N U E. apply is_plus_mark in N. apply is_plus_unflagged in U. congruence.
Qed.

Lemma mark_inj k k' : unflagged k = true -> unflagged k' = true -> mark k = mark k' -> k = k'.
Proof. intros U U' E. rewrite <- (strip_mark k), <- (strip_mark k'); auto. congruence. Qed.

(* ---- small list facts ---------------------------------------------------------------------------------- *)
Lemma existsb_path_In k l : existsb (path_eqb k) l = true <-> In k l.
Proof.
  rewrite existsb_exists. split.
  - intros (x & I & E). apply path_eqb_spec in E. subst. auto.
  - intros I. exists k. split; auto. apply path_eqb_refl.
Qed.

Lemma nodup_paths_inj {A} (key : A -> tpath) (l : list A) :
  nodup_paths (map key l) = true -> forall a b, In a l -> In b l -> key a = key b -> a = b.
Proof.
  induction l as [|x l IH]; simpl; [tauto|]. intros N a b Ia Ib E.
  apply andb_true_iff in N. destruct N as [N1 N2]. apply negb_true_iff in N1.
  assert (forall y, In y l -> key x <> key y) as NX.
  { intros y Iy E'. assert (existsb (path_eqb (key x)) (map key l) = true); [|congruence].
    apply existsb_path_In. rewrite E'. apply in_map; auto. }
  destruct Ia as [<-|Ia], Ib as [<-|Ib]; auto.
  - exfalso. eapply NX; eauto.
  - exfalso. eapply NX; eauto.
Qed.

Lemma fold_left_map {A B C} (f : A -> B -> A) (g : C -> B) l : forall a,
  fold_left f (map g l) a = fold_left (fun acc x => f acc (g x)) l a.
Proof. induction l; simpl; auto. Qed.

Lemma find_key_some {A} (key : A -> tpath) (l : list A) k a :
  find (fun x => path_eqb k (key x)) l = Some a -> In a l /\ key a = k.
Proof. intros F. apply find_some in F. destruct F as [I E]. apply path_eqb_spec in E. auto. Qed.

Lemma find_key_none {A} (key : A -> tpath) (l : list A) k :
  find (fun x => path_eqb k (key x)) l = None -> forall a, In a l -> key a <> k.
Proof.
  intros F a I E. eapply find_none in F; eauto. simpl in F. rewrite E, path_eqb_refl in F. discriminate.
Qed.

Lemma find_key_in {A} (key : A -> tpath) (l : list A) a :
  nodup_paths (map key l) = true -> In a l -> find (fun x => path_eqb (key a) (key x)) l = Some a.
Proof.
  intros N I. destruct (find (fun x => path_eqb (key a) (key x)) l) as [b|] eqn:F.
  - apply find_key_some in F. destruct F as [Ib E]. f_equal. eapply nodup_paths_inj; eauto.
  - eapply find_key_none in F; eauto. congruence.
Qed.

Section WithParser.
Variable p : parser.
Hypothesis WF : wf_parser p = true.

(* ---- consequences of wf_parser ------------------------------------------------------------------------- *)
Lemma wf_decl d : In d p -> d_key d <> [] /\ unflagged (d_key d) = true.
Proof.
  intros I. unfold wf_parser in WF. apply andb_true_iff in WF. destruct WF as [W _].
  apply andb_true_iff in W. destruct W as [W _].
  rewrite forallb_forall in W. specialize (W d I).
  apply andb_true_iff in W. destruct W as [W _]. apply andb_true_iff in W. destruct W as [W1 W2].
  split; auto. destruct (d_key d); [discriminate|congruence].
Qed.

Lemma wf_nodup : nodup_paths (map d_key p) = true.
Proof.
  unfold wf_parser in WF. apply andb_true_iff in WF. destruct WF as [W _].
  apply andb_true_iff in W. destruct W as [_ W]. exact W.
Qed.

Lemma wf_incomp k k' : In k (all_keys p) -> In k' (all_keys p) -> ppb k k' = false.
Proof.
  intros I I'. unfold wf_parser in WF. apply andb_true_iff in WF. destruct WF as [_ W].
  rewrite forallb_forall in W. specialize (W k I). rewrite forallb_forall in W. specialize (W k' I').
  apply negb_true_iff in W. exact W.
Qed.

Lemma in_all_keys d : In d p -> In (d_key d) (all_keys p) /\ In (mark (d_key d)) (all_keys p).
Proof.
  intros I. unfold all_keys. split; apply in_flat_map; exists d; simpl; auto.
Qed.

Lemma find_action_some k d : find_action p k = Some d -> In d p /\ d_key d = k.
Proof.
  unfold find_action. intros F. apply find_some in F. destruct F as [I E]. apply path_eqb_spec in E. auto.
Qed.

Lemma find_action_in d : In d p -> find_action p (d_key d) = Some d.
Proof.
  intros I. unfold find_action.
  destruct (find (fun d0 => path_eqb (d_key d0) (d_key d)) p) as [d'|] eqn:F.
  - apply find_some in F. destruct F as [I' E]. apply path_eqb_spec in E.
    f_equal. eapply nodup_paths_inj; eauto. apply wf_nodup.
  - eapply find_none in F; eauto. simpl in F. rewrite path_eqb_refl in F. discriminate.
Qed.

Lemma find_action_mark d : In d p -> find_action p (mark (d_key d)) = None.
Proof.
  intros I. destruct (find_action p (mark (d_key d))) as [d'|] eqn:F; auto.
  apply find_action_some in F. destruct F as [I' E].
  destruct (wf_decl d I) as [N _]. destruct (wf_decl d' I') as [_ U'].
  exfalso. eapply mark_neq; eauto.
Qed.

Lemma find_decl_eq k : find_decl p k = find_action p k.
Proof. reflexivity. Qed.

Lemma same_key d d' : In d p -> In d' p -> d_key d = d_key d' -> d = d'.
Proof. intros. eapply nodup_paths_inj; eauto. apply wf_nodup. Qed.

(* ---- shapes of the namespaces that occur ------------------------------------------------------------------- *)
(* a namespace in "to" position: only declared keys *)
Definition declared_leaves (t : node) : Prop :=
  forall k v, lget k t = Some v -> exists d, In d p /\ k = d_key d.
(* a namespace in "from" position: declared keys, and "key+" for list-typed keys *)
Definition from_leaves (t : node) : Prop :=
  forall k v, lget k t = Some v ->
    exists d, In d p /\ (k = d_key d \/ (k = mark (d_key d) /\ d_kind d = KList)).

Definition good (t : node) : Prop := uniq t = true /\ declared_leaves t.
Definition goodfrom (t : node) : Prop := uniq t = true /\ from_leaves t.

Lemma good_goodfrom t : good t -> goodfrom t.
Proof. intros [U D]. split; auto. intros k v H. destruct (D k v H) as (d & I & E). exists d. auto. Qed.

Lemma from_leaves_all_keys t k v : from_leaves t -> lget k t = Some v -> In k (all_keys p).
Proof.
  intros F H. destruct (F k v H) as (d & I & [->|[-> _]]); apply in_all_keys; auto.
Qed.

Lemma good_no_mark t d : good t -> In d p -> lget (mark (d_key d)) t = None.
Proof.
  intros [_ D] I. destruct (lget (mark (d_key d)) t) eqn:H; auto.
  destruct (D _ _ H) as (d' & I' & E).
  destruct (wf_decl d I) as [N _]. destruct (wf_decl d' I') as [_ U'].
  exfalso. eapply mark_neq; eauto.
Qed.

Lemma good_empty : good (Br FNil).
Proof. split; auto. intros k v H. rewrite lget_empty in H. discriminate. Qed.

(* ---- update ---------------------------------------------------------------------------------------------------- *)
Lemma update_is_fold to from : update to from = fold_left setf (items from) to.
Proof. reflexivity. Qed.

Lemma update_lget to from k :
  uniq from = true -> from_leaves from -> In k (all_keys p) ->
  lget k (update to from) = match lget k from with Some v => Some v | None => lget k to end.
Proof.
  intros U F I. rewrite update_is_fold. rewrite fold_setf_lget.
  - destruct (find (key_is k) (items from)) as [kv|] eqn:E.
    + apply find_some in E. destruct E as [Ikv E]. unfold key_is in E. apply path_eqb_spec in E.
      destruct kv as [k' v]. simpl in *. subst k'. apply items_lget in Ikv; auto. rewrite Ikv. reflexivity.
    + destruct (lget k from) as [v|] eqn:G; auto.
      apply items_lget in G; auto. eapply find_none in E; eauto.
      unfold key_is in E. simpl in E. rewrite path_eqb_refl in E. discriminate.
  - intros [k' v'] Ikv. simpl. apply items_lget in Ikv; auto.
    assert (In k' (all_keys p)) by (eapply from_leaves_all_keys; eauto).
    split; apply wf_incomp; auto.
  - intros [k1 v1] [k2 v2] I1 I2 E. simpl in *. subst k2.
    apply items_lget in I1, I2; auto. congruence.
Qed.

Lemma update_uniq to from : uniq to = true -> uniq (update to from) = true.
Proof. intros. rewrite update_is_fold. apply fold_setf_uniq; auto. Qed.

Lemma update_from_leaves to from :
  uniq from = true -> from_leaves from -> from_leaves to -> from_leaves (update to from).
Proof.
  intros U F T k v H. rewrite update_is_fold in H. apply fold_setf_inv in H.
  destruct H as [([k' v'] & I & E) | H].
  - simpl in E. subst k'. apply items_lget in I; auto. eapply F; eauto.
  - eapply T; eauto.
Qed.

(* ---- apply_appends --------------------------------------------------------------------------------------------- *)
Definition aa_step (cfg : node) (key : tpath) : node :=
  match find_action p (strip key) with
  | Some d =>
      if supports_append d then
        match lget key cfg with
        | Some v => ns_pop key (ns_set (strip key) (Leaf (check_append (prev_val d cfg) v)) cfg)
        | None => cfg
        end
      else cfg
  | None => cfg
  end.

Lemma apply_appends_is_fold cfg : apply_appends p cfg = fold_left aa_step (filter is_plus (keys cfg)) cfg.
Proof. reflexivity. Qed.

Definition list_mark (k : tpath) : Prop := exists d, In d p /\ d_kind d = KList /\ k = mark (d_key d).

Lemma key_neq_mark d d' : In d p -> In d' p -> path_eqb (d_key d) (mark (d_key d')) = false.
Proof.
  intros I I'. apply path_eqb_neq. intros E.
  destruct (wf_decl d I) as [_ U]. destruct (wf_decl d' I') as [N _].
  eapply mark_neq; eauto.
Qed.

Lemma mark_eq_key d d' : In d p -> In d' p -> path_eqb (mark (d_key d)) (mark (d_key d')) = path_eqb (d_key d) (d_key d').
Proof.
  intros I I'. destruct (path_eqb (d_key d) (d_key d')) eqn:E.
  - apply path_eqb_spec in E. rewrite E. apply path_eqb_refl.
  - apply path_eqb_neq. apply path_eqb_neq in E. intros M. apply E.
    apply mark_inj; auto; apply wf_decl; auto.
Qed.

(* one step of apply_appends on "key+" of a list-typed key that is present *)
Lemma aa_step_some cfg d1 v :
  In d1 p -> d_kind d1 = KList -> uniq cfg = true -> from_leaves cfg ->
  lget (mark (d_key d1)) cfg = Some v ->
  let new := check_append (prev_val d1 cfg) v in
  let cfg1 := aa_step cfg (mark (d_key d1)) in
  uniq cfg1 = true /\ from_leaves cfg1 /\
  (forall d, In d p -> lget (d_key d) cfg1 = if path_eqb (d_key d) (d_key d1) then Some new else lget (d_key d) cfg) /\
  (forall d, In d p -> lget (mark (d_key d)) cfg1 =
                       if path_eqb (d_key d) (d_key d1) then None else lget (mark (d_key d)) cfg).
Proof.
  intros I1 K1 U F G new cfg1.
  destruct (wf_decl d1 I1) as [N1 U1].
  assert (cfg1 = ns_pop (mark (d_key d1)) (ns_set (d_key d1) (Leaf new) cfg)) as E1.
  { unfold cfg1, aa_step. rewrite strip_mark by auto. rewrite find_action_in by auto.
    unfold supports_append. rewrite K1. rewrite G. reflexivity. }
  assert (uniq (ns_set (d_key d1) (Leaf new) cfg) = true) as U2 by (apply uniq_set; auto).
  assert (mark (d_key d1) <> []) as NM.
  { intros E. pose proof (is_plus_mark _ N1) as P. rewrite E in P. discriminate. }
  destruct (in_all_keys d1 I1) as [A1 A1'].
  rewrite E1. split; [apply uniq_pop; auto|]. split; [|split].
  - intros k v' H. apply lget_pop_inv in H; auto. apply lget_set_inv in H.
    destruct H as [-> | H]; [exists d1; auto | eapply F; eauto].
  - intros d I. destruct (in_all_keys d I) as [A A'].
    rewrite lget_pop; auto; try (apply wf_incomp; auto).
    rewrite key_neq_mark by auto.
    rewrite lget_set; auto; apply wf_incomp; auto.
  - intros d I. destruct (in_all_keys d I) as [A A'].
    rewrite lget_pop; auto; try (apply wf_incomp; auto).
    rewrite mark_eq_key by auto.
    destruct (path_eqb (d_key d) (d_key d1)); auto.
    rewrite lget_set; auto; try (apply wf_incomp; auto).
    rewrite path_eqb_sym, key_neq_mark by auto. reflexivity.
Qed.

Lemma aa_step_none cfg d1 :
  In d1 p -> lget (mark (d_key d1)) cfg = None -> aa_step cfg (mark (d_key d1)) = cfg.
Proof.
  intros I1 G. destruct (wf_decl d1 I1) as [N1 U1].
  unfold aa_step. rewrite strip_mark by auto. rewrite find_action_in by auto.
  rewrite G. destruct (supports_append d1); reflexivity.
Qed.

Lemma prev_val_ext d c1 c2 : lget (d_key d) c1 = lget (d_key d) c2 -> prev_val d c1 = prev_val d c2.
Proof. unfold prev_val. intros ->. reflexivity. Qed.

Lemma aa_fold ks : forall cfg,
  (forall k, In k ks -> list_mark k) -> uniq cfg = true -> from_leaves cfg ->
  let F := fold_left aa_step ks cfg in
  uniq F = true /\ from_leaves F /\
  (forall d, In d p ->
     lget (d_key d) F =
     if existsb (path_eqb (mark (d_key d))) ks
     then match lget (mark (d_key d)) cfg with
          | Some v => Some (check_append (prev_val d cfg) v)
          | None => lget (d_key d) cfg
          end
     else lget (d_key d) cfg) /\
  (forall d, In d p ->
     lget (mark (d_key d)) F =
     if existsb (path_eqb (mark (d_key d))) ks then None else lget (mark (d_key d)) cfg).
Proof.
  induction ks as [|k1 ks IH]; intros cfg LM U Fr; simpl.
  - repeat split; auto.
  - destruct (LM k1 (or_introl eq_refl)) as (d1 & I1 & K1 & ->).
    assert (forall k, In k ks -> list_mark k) as LM' by (intros; apply LM; right; auto).
    destruct (lget (mark (d_key d1)) cfg) as [v1|] eqn:G1.
    + destruct (aa_step_some cfg d1 v1 I1 K1 U Fr G1) as (U1 & F1 & A & B).
      specialize (IH _ LM' U1 F1). destruct IH as (UF & FF & IA & IB).
      split; auto. split; auto. split.
      * intros d I. rewrite IA by auto. rewrite mark_eq_key by auto.
        rewrite A, B by auto.
        destruct (path_eqb (d_key d) (d_key d1)) eqn:E.
        -- apply path_eqb_spec in E. simpl. rewrite E, G1.
           assert (prev_val d cfg = prev_val d1 cfg) as -> by (unfold prev_val; rewrite E; reflexivity).
           destruct (existsb (path_eqb (mark (d_key d1))) ks); reflexivity.
        -- simpl. rewrite (prev_val_ext d (aa_step cfg (mark (d_key d1))) cfg); [reflexivity|].
           rewrite A by auto. rewrite E. reflexivity.
      * intros d I. rewrite IB by auto. rewrite mark_eq_key by auto. rewrite B by auto.
        destruct (path_eqb (d_key d) (d_key d1)); simpl; auto.
        destruct (existsb (path_eqb (mark (d_key d))) ks); reflexivity.
    + rewrite aa_step_none by auto.
      specialize (IH _ LM' U Fr). destruct IH as (UF & FF & IA & IB).
      split; auto. split; auto. split.
      * intros d I. rewrite IA by auto. rewrite mark_eq_key by auto.
        destruct (path_eqb (d_key d) (d_key d1)) eqn:E; simpl; auto.
        apply path_eqb_spec in E. rewrite E, G1.
        destruct (existsb (path_eqb (mark (d_key d1))) ks); reflexivity.
      * intros d I. rewrite IB by auto. rewrite mark_eq_key by auto.
        destruct (path_eqb (d_key d) (d_key d1)) eqn:E; simpl; auto.
        apply path_eqb_spec in E. rewrite E, G1.
        destruct (existsb (path_eqb (mark (d_key d1))) ks); reflexivity.
Qed.

Lemma apply_appends_sem cfg :
  uniq cfg = true -> from_leaves cfg ->
  good (apply_appends p cfg) /\
  forall d, In d p ->
    lget (d_key d) (apply_appends p cfg) =
    match lget (mark (d_key d)) cfg with
    | Some v => Some (check_append (prev_val d cfg) v)
    | None => lget (d_key d) cfg
    end.
Proof.
  intros U Fr. rewrite apply_appends_is_fold.
  set (ks := filter is_plus (keys cfg)).
  assert (forall k, In k ks -> list_mark k) as LM.
  { intros k I. unfold ks in I. apply filter_In in I. destruct I as [I P].
    unfold keys in I. apply in_map_iff in I. destruct I as ([k' v] & E & I). simpl in E. subst k'.
    apply items_lget in I; auto. destruct (Fr _ _ I) as (d & Id & [-> | [-> K]]).
    - destruct (wf_decl d Id) as [_ Ud]. apply is_plus_unflagged in Ud. congruence.
    - exists d. auto. }
  assert (forall d v, In d p -> lget (mark (d_key d)) cfg = Some v ->
                      existsb (path_eqb (mark (d_key d))) ks = true) as EX.
  { intros d v I G. apply existsb_path_In. unfold ks. apply filter_In. split.
    - unfold keys. apply in_map_iff. exists (mark (d_key d), v). split; auto. apply items_lget; auto.
    - apply is_plus_mark. apply wf_decl; auto. }
  destruct (aa_fold ks cfg LM U Fr) as (UF & FF & A & B).
  split; [split; auto|].
  - intros k v H. destruct (FF _ _ H) as (d & I & [-> | [-> K]]); [exists d; auto|].
    exfalso. rewrite B in H by auto.
    destruct (existsb (path_eqb (mark (d_key d))) ks) eqn:E; [discriminate|].
    erewrite EX in E; eauto. discriminate.
  - intros d I. rewrite A by auto.
    destruct (lget (mark (d_key d)) cfg) as [v|] eqn:G.
    + erewrite EX; eauto.
    + destruct (existsb (path_eqb (mark (d_key d))) ks); reflexivity.
Qed.

(* ---- merge_config ------------------------------------------------------------------------------------------------- *)
Lemma merge_sem from to :
  goodfrom from -> good to ->
  good (merge_config p from to) /\
  forall d, In d p ->
    lget (d_key d) (merge_config p from to) =
    match lget (mark (d_key d)) from with
    | Some v =>
        Some (check_append
                (match lget (d_key d) from with
                 | Some w => w
                 | None => match lget (d_key d) to with Some w => w | None => VNone end
                 end) v)
    | None =>
        match lget (d_key d) from with Some w => Some w | None => lget (d_key d) to end
    end.
Proof.
  intros [Uf Ff] Gt. pose proof Gt as [Ut Dt].
  unfold merge_config, clone.
  assert (uniq (update to from) = true) as Uu by (apply update_uniq; auto).
  assert (from_leaves (update to from)) as Fu.
  { apply update_from_leaves; auto. apply good_goodfrom in Gt. apply Gt. }
  destruct (apply_appends_sem _ Uu Fu) as [G A]. split; auto.
  intros d I. rewrite A by auto. destruct (in_all_keys d I) as [A1 A2].
  rewrite (update_lget to from (mark (d_key d))) by auto.
  rewrite (good_no_mark to d Gt I).
  unfold prev_val. rewrite (update_lget to from (d_key d)) by auto.
  destruct (lget (mark (d_key d)) from); [|reflexivity].
  destruct (lget (d_key d) from); reflexivity.
Qed.

End WithParser.

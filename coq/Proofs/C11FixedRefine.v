(* C11 — the model of the PATCHED code (Model/C11NsFixed.v) refines the nested dictionary for ALL histories, with no
   path-through-dict guard. Two layers:
     (1) model vs. path operations on the un-marked VALUE tree (vd_get / vd_set / vd_del), by induction on the path,
         uniformly for Namespace and dict parents (the "entry" lemmas hide the kind of the parent);
     (2) the spec's operations on nodes (spec_get / spec_set / spec_del) are those same value operations
         (pure spec-side lemmas, no marks). *)
From JV Require Import Lib.Base Model.Ns Model.NsRun Model.NsGuard Model.C11NsFixed Model.C11FixedGuard
  Spec.NestedDict Spec.NestedDictRun Proofs.NsProofs Proofs.C11EqProofs Proofs.C11MoreProofs.

Arguments mark : simpl never.
Arguments unmark : simpl never.
Arguments str_eqb : simpl never.
Arguments N.eqb : simpl never.
Arguments user_node : simpl never.

Notation U := unmark_val.

(* ---- generic association-list facts ---------------------------------------------------------------------- *)
Lemma lookup_aget k (d : list (str * val)) : lookup k d = aget k d.
Proof. induction d as [|[k' v] d IH]; simpl; [reflexivity|]. now rewrite IH. Qed.

Lemma lookup_map {A B} (F : A -> B) k (d : list (str * A)) :
  lookup k (map (fun kv => (fst kv, F (snd kv))) d) = option_map F (lookup k d).
Proof. induction d as [|[k' v] d IH]; simpl; [reflexivity|]. destruct (str_eqb k k'); auto. Qed.

Lemma insert_map {A B} (F : A -> B) k x (d : list (str * A)) :
  map (fun kv => (fst kv, F (snd kv))) (insert k x d) = insert k (F x) (map (fun kv => (fst kv, F (snd kv))) d).
Proof. induction d as [|[k' v] d IH]; simpl; [reflexivity|]. destruct (str_eqb k k'); simpl; congruence. Qed.

Lemma remove_map {A B} (F : A -> B) k (d : list (str * A)) :
  map (fun kv => (fst kv, F (snd kv))) (remove k d) = remove k (map (fun kv => (fst kv, F (snd kv))) d).
Proof. induction d as [|[k' v] d IH]; simpl; [reflexivity|]. destruct (str_eqb k k'); simpl; congruence. Qed.

Lemma insert_aset k x (d : list (str * val)) : insert k x d = aset k x d.
Proof. induction d as [|[k' v] d IH]; simpl; [reflexivity|]. now rewrite IH. Qed.

Lemma remove_adel k (d : list (str * val)) : remove k d = adel k d.
Proof. induction d as [|[k' v] d IH]; simpl; [reflexivity|]. now rewrite IH. Qed.

(* ---- layer 2: the spec's node operations are the value operations --------------------------------------- *)
Definition sd (dd : list (str * val)) : sdict := map (fun kv => (fst kv, node_of_val (snd kv))) dd.

Lemma node_of_ns dd : node_of_val (VNs dd) = Branch (sd dd).
Proof. reflexivity. Qed.

Lemma vd_get_cons k p v : p <> [] ->
  vd_get (k :: p) v = match entries v with
                      | Some dd => match lookup k dd with Some v' => vd_get p v' | None => None end
                      | None => None
                      end.
Proof. intros _. destruct v; reflexivity. Qed.

Lemma vd_get_one k v : vd_get [k] v = match entries v with Some dd => lookup k dd | None => None end.
Proof. destruct v; simpl; try reflexivity; destruct (lookup k d); reflexivity. Qed.

Lemma vd_get_nomap p v : p <> [] -> entries v = None -> vd_get p v = None.
Proof. destruct p; [contradiction|]. intros _ H. destruct v; try reflexivity; discriminate. Qed.

Lemma vd_set_cons k p x cur : p <> [] ->
  vd_set (k :: p) x cur =
  match entries cur with
  | None => cur
  | Some dd =>
      with_entries cur (insert k (vd_set p x (match lookup k dd with
                                              | Some (VDict s) => VDict s
                                              | Some (VNs s) => VNs s
                                              | _ => fresh_like cur
                                              end)) dd)
  end.
Proof. destruct p; [contradiction|reflexivity]. Qed.

Lemma vd_set_one k x cur :
  vd_set [k] x cur = match entries cur with None => cur | Some dd => with_entries cur (insert k x dd) end.
Proof. reflexivity. Qed.

Lemma vd_del_cons k p cur : p <> [] ->
  vd_del (k :: p) cur =
  match entries cur with
  | None => None
  | Some dd => match lookup k dd with
               | Some v' => match vd_del p v' with
                            | Some r => Some (with_entries cur (insert k r dd))
                            | None => None
                            end
               | None => None
               end
  end.
Proof. destruct p; [contradiction|reflexivity]. Qed.

Lemma vd_del_one k cur :
  vd_del [k] cur = match entries cur with
                   | None => None
                   | Some dd => match lookup k dd with Some _ => Some (with_entries cur (remove k dd)) | None => None end
                   end.
Proof. reflexivity. Qed.

Lemma vd_del_nomap p v : entries v = None -> vd_del p v = None.
Proof. destruct p; [reflexivity|]. intros H. simpl. now rewrite H. Qed.

Lemma vd_set_ns p x dd : exists dd', vd_set p x (VNs dd) = VNs dd'.
Proof. destruct p as [|k [|k' p]]; simpl; eauto. Qed.

Lemma vd_set_dict p x dd : exists dd', vd_set p x (VDict dd) = VDict dd'.
Proof. destruct p as [|k [|k' p]]; simpl; eauto. Qed.

Lemma vd_del_ns p dd r : vd_del p (VNs dd) = Some r -> exists dd', r = VNs dd'.
Proof.
  destruct p as [|k p]; [simpl; intros; congruence|]. destruct p as [|k' p'].
  - rewrite vd_del_one. cbn [entries]. destruct (lookup k dd); intros E; inversion E; simpl; eauto.
  - rewrite vd_del_cons by discriminate. cbn [entries].
    destruct (lookup k dd); [|intros; congruence].
    destruct (vd_del (k' :: p') v); intros E; inversion E; simpl; eauto.
Qed.

Lemma vd_del_dict p dd r : vd_del p (VDict dd) = Some r -> exists dd', r = VDict dd'.
Proof.
  destruct p as [|k p]; [simpl; intros; congruence|]. destruct p as [|k' p'].
  - rewrite vd_del_one. cbn [entries]. destruct (lookup k dd); intros E; inversion E; simpl; eauto.
  - rewrite vd_del_cons by discriminate. cbn [entries].
    destruct (lookup k dd); [|intros; congruence].
    destruct (vd_del (k' :: p') v); intros E; inversion E; simpl; eauto.
Qed.

Lemma lookup_sd k dd : lookup k (sd dd) = option_map node_of_val (lookup k dd).
Proof. unfold sd. apply lookup_map. Qed.

(* reading *)
Lemma spec_get_is_vd p : p <> [] -> forall dd,
  option_map val_of_node (spec_get p (sd dd)) = vd_get p (VNs dd).
Proof.
  induction p as [|k p IH]; [contradiction|]. intros _ dd.
  destruct p as [|k' p'].
  - change (spec_get [k] (sd dd)) with (lookup k (sd dd)). rewrite lookup_sd, vd_get_one. cbn [entries].
    destruct (lookup k dd) as [v|]; cbn [option_map]; [|reflexivity]. now rewrite val_of_node_of_val.
  - assert (N : k' :: p' <> []) by discriminate.
    rewrite (spec_get_cons k (k' :: p') (sd dd) N), (vd_get_cons k (k' :: p') (VNs dd) N), lookup_sd. cbn [entries].
    destruct (lookup k dd) as [v|]; cbn [option_map]; [|reflexivity].
    destruct v; try rewrite node_of_ns; cbn [node_of_val]; try reflexivity.
    + (* dict *) destruct (vd_get (k' :: p') (VDict d)); reflexivity.
    + (* namespace *) exact (IH N d).
Qed.

(* writing *)
Lemma spec_set_is_vd p : p <> [] -> forall x dd,
  node_of_val (vd_set p x (VNs dd)) = Branch (spec_set p (node_of_val x) (sd dd)).
Proof.
  induction p as [|k p IH]; [contradiction|]. intros _ x dd.
  destruct p as [|k' p'].
  - rewrite vd_set_one. cbn [entries with_entries]. rewrite node_of_ns. unfold sd. rewrite insert_map. reflexivity.
  - assert (N : k' :: p' <> []) by discriminate.
    rewrite (vd_set_cons k (k' :: p') x (VNs dd) N), (spec_set_cons k (k' :: p') (node_of_val x) (sd dd) N), lookup_sd.
    cbn [entries with_entries fresh_like]. rewrite node_of_ns. f_equal. unfold sd at 1. rewrite insert_map. fold (sd dd).
    destruct (lookup k dd) as [v|]; cbn [option_map].
    + destruct v; try rewrite node_of_ns; cbn [node_of_val];
        try (rewrite (IH N x []); reflexivity).
      * (* dict *) rewrite val_of_node_of_val.
        destruct (vd_set_dict (k' :: p') x d) as [d' E]. rewrite E. reflexivity.
      * (* namespace *) rewrite (IH N x d). reflexivity.
    + rewrite (IH N x []). reflexivity.
Qed.

(* deleting *)
Lemma spec_del_is_vd p : p <> [] -> forall dd,
  option_map node_of_val (vd_del p (VNs dd)) = option_map Branch (spec_del p (sd dd)).
Proof.
  induction p as [|k p IH]; [contradiction|]. intros _ dd.
  destruct p as [|k' p'].
  - rewrite vd_del_one.
    change (spec_del [k] (sd dd)) with (match lookup k (sd dd) with Some _ => Some (remove k (sd dd)) | None => None end).
    rewrite lookup_sd. cbn [entries with_entries].
    destruct (lookup k dd) as [v|]; cbn [option_map]; [|reflexivity]. rewrite node_of_ns. unfold sd. now rewrite remove_map.
  - assert (N : k' :: p' <> []) by discriminate.
    rewrite (vd_del_cons k (k' :: p') (VNs dd) N), (spec_del_cons k (k' :: p') (sd dd) N), lookup_sd.
    cbn [entries with_entries].
    destruct (lookup k dd) as [v|]; cbn [option_map]; [|reflexivity].
    destruct v; try rewrite node_of_ns; cbn [node_of_val];
      try (rewrite vd_del_nomap by reflexivity; reflexivity).
    + (* dict *)
      destruct (vd_del (k' :: p') (VDict d)) as [r|] eqn:E; [|reflexivity].
      destruct (vd_del_dict _ _ _ E) as [d' ->]. cbn [option_map]. rewrite node_of_ns. unfold sd.
      rewrite insert_map. reflexivity.
    + (* namespace *)
      pose proof (IH N d) as H.
      destruct (vd_del (k' :: p') (VNs d)) as [r|] eqn:E; cbn [option_map] in *.
      * destruct (spec_del (k' :: p') (sd d)) as [r'|]; [|discriminate H]. inversion H as [H1].
        rewrite node_of_ns. unfold sd at 1. rewrite insert_map. fold (sd dd). rewrite H1. reflexivity.
      * destruct (spec_del (k' :: p') (sd d)); [discriminate H|reflexivity].
Qed.

(* ---- layer 1: the model of the patched code vs. the value operations ------------------------------------- *)
Section WithClash.
Variable clash : list str.
Notation mark := (mark clash).
Notation mk := (map mark).
Notation stored_ok := (stored_ok clash).
Notation wf2 := (wf2 clash).

(* the entries of the un-marked view of a mapping value *)
Definition E (c : val) : list (str * val) :=
  match c with
  | VNs d => map (fun kv => (unmark (fst kv), U (snd kv))) d
  | VDict d => map (fun kv => (fst kv, U (snd kv))) d
  | _ => []
  end.

(* the key under which the user-visible name u lives in the mapping c *)
Definition kin (c : val) (u : str) : str := key_in c (mark u).

Lemma kin_ns d u : kin (VNs d) u = mark u. Proof. reflexivity. Qed.
Lemma kin_dict d u : good u = true -> kin (VDict d) u = u.
Proof. intros H. unfold kin, key_in. now apply unmark_mark. Qed.

Lemma entries_U c d : attrs c = Some d -> entries (U c) = Some (E c).
Proof. destruct c; simpl; intros H; try discriminate; reflexivity. Qed.

Lemma entries_U_none c : attrs c = None -> entries (U c) = None.
Proof. destruct c; simpl; intros H; try discriminate; reflexivity. Qed.

Lemma with_entries_U c d e : attrs c = Some d -> with_entries (U c) e = match c with VNs _ => VNs e | _ => VDict e end.
Proof. destruct c; simpl; intros H; try discriminate; reflexivity. Qed.

Lemma fresh_U c d : attrs c = Some d ->
  fresh_like (U c) = U (match c with VDict _ => VDict [] | _ => VNs [] end).
Proof. destruct c; simpl; intros H; try discriminate; reflexivity. Qed.

Lemma wf2_ns_cons k x d : wf2 (VNs ((k, x) :: d)) = true <-> stored_ok k = true /\ wf2 x = true /\ wf2 (VNs d) = true.
Proof. simpl. rewrite !andb_true_iff. tauto. Qed.

Lemma wf2_dict_cons k x d : wf2 (VDict ((k, x) :: d)) = true <-> wf2 x = true /\ wf2 (VDict d) = true.
Proof. simpl. rewrite !andb_true_iff. tauto. Qed.

Lemma keys_ok2 d : wf2 (VNs d) = true -> forallb (fun kv : str * val => stored_ok (fst kv)) d = true.
Proof.
  induction d as [|[k v] d IH]; [reflexivity|]. intros H. apply wf2_ns_cons in H. destruct H as (Hk & _ & Hd).
  simpl. rewrite Hk. exact (IH Hd).
Qed.

(* reading an entry *)
Lemma entry_get c d u : attrs c = Some d -> wf2 c = true -> good u = true ->
  lookup u (E c) = option_map U (aget (kin c u) d).
Proof.
  intros A W G. destruct c; try discriminate; inversion A; subst.
  - (* dict *) rewrite (kin_dict d u G). cbn [E]. rewrite (lookup_map U u d), lookup_aget. reflexivity.
  - (* namespace *) rewrite kin_ns. cbn [E]. rewrite lookup_aget.
    rewrite <- (unmark_mark clash u G) at 1.
    exact (aget_unmark_ns clash (mark u) U d (stored_ok_mark clash u G) (keys_ok2 d W)).
Qed.

Lemma wf2_aget c d k v : attrs c = Some d -> wf2 c = true -> aget k d = Some v -> wf2 v = true.
Proof.
  intros A W. destruct c; try discriminate; inversion A; subst; clear A.
  - induction d as [|[k' y] d IH]; simpl; [discriminate|]. apply wf2_dict_cons in W. destruct W as [Wy W].
    destruct (str_eqb k k'); [intros E0; inversion E0; subst; exact Wy|exact (IH W)].
  - induction d as [|[k' y] d IH]; simpl; [discriminate|]. apply wf2_ns_cons in W. destruct W as (_ & Wy & W).
    destruct (str_eqb k k'); [intros E0; inversion E0; subst; exact Wy|exact (IH W)].
Qed.

(* writing an entry *)
Lemma ns_set_entries u x d : wf2 (VNs d) = true -> good u = true ->
  map (fun kv => (unmark (fst kv), U (snd kv))) (aset (mark u) x d)
  = insert u (U x) (map (fun kv => (unmark (fst kv), U (snd kv))) d).
Proof.
  intros W G. induction d as [|[k y] d IH]; simpl.
  - now rewrite unmark_mark.
  - apply wf2_ns_cons in W. destruct W as (Hk & _ & W).
    rewrite (key_eqb clash u k G Hk). destruct (str_eqb (mark u) k); simpl; [reflexivity|]. now rewrite (IH W).
Qed.

Lemma dict_set_entries u x (d : list (str * val)) :
  map (fun kv => (fst kv, U (snd kv))) (aset u x d) = insert u (U x) (map (fun kv => (fst kv, U (snd kv))) d).
Proof. rewrite <- insert_aset. apply insert_map. Qed.

Lemma entry_set c d u x : attrs c = Some d -> wf2 c = true -> good u = true ->
  U (rebuild c (aset (kin c u) x d)) = with_entries (U c) (insert u (U x) (E c)).
Proof.
  intros A W G. destruct c; try discriminate; inversion A; subst.
  - rewrite (kin_dict d u G). simpl. now rewrite dict_set_entries.
  - rewrite kin_ns. simpl. now rewrite (ns_set_entries u x d W G).
Qed.

Lemma wf2_set c d u x : attrs c = Some d -> wf2 c = true -> good u = true -> wf2 x = true ->
  wf2 (rebuild c (aset (kin c u) x d)) = true.
Proof.
  intros A W G X. destruct c; try discriminate; inversion A; subst; clear A.
  - rewrite (kin_dict d u G). cbn [rebuild].
    induction d as [|[k y] d IH]; simpl; [now rewrite X|].
    apply wf2_dict_cons in W. destruct W as [Wy W].
    destruct (str_eqb u k); apply wf2_dict_cons; auto.
  - rewrite kin_ns. cbn [rebuild].
    induction d as [|[k y] d IH]; simpl.
    + now rewrite (stored_ok_mark clash u G), X.
    + apply wf2_ns_cons in W. destruct W as (Hk & Wy & W).
      destruct (str_eqb (mark u) k); apply wf2_ns_cons; auto.
Qed.

(* deleting an entry *)
Lemma ns_del_entries u d : wf2 (VNs d) = true -> good u = true ->
  map (fun kv => (unmark (fst kv), U (snd kv))) (adel (mark u) d)
  = remove u (map (fun kv => (unmark (fst kv), U (snd kv))) d).
Proof.
  intros W G. induction d as [|[k y] d IH]; simpl; [reflexivity|].
  apply wf2_ns_cons in W. destruct W as (Hk & _ & W).
  rewrite (key_eqb clash u k G Hk). destruct (str_eqb (mark u) k); simpl; [reflexivity|]. now rewrite (IH W).
Qed.

Lemma entry_del c d u : attrs c = Some d -> wf2 c = true -> good u = true ->
  U (rebuild c (adel (kin c u) d)) = with_entries (U c) (remove u (E c)).
Proof.
  intros A W G. destruct c; try discriminate; inversion A; subst.
  - rewrite (kin_dict d u G). simpl. rewrite <- remove_adel. now rewrite (remove_map U u d).
  - rewrite kin_ns. simpl. now rewrite (ns_del_entries u d W G).
Qed.

Lemma wf2_del c d k : attrs c = Some d -> wf2 c = true -> wf2 (rebuild c (adel k d)) = true.
Proof.
  intros A W. destruct c; try discriminate; inversion A; subst; clear A; cbn [rebuild].
  - induction d as [|[k' y] d IH]; simpl; [reflexivity|]. apply wf2_dict_cons in W. destruct W as [Wy W].
    destruct (str_eqb k k'); [exact W|]. apply wf2_dict_cons; auto.
  - induction d as [|[k' y] d IH]; simpl; [reflexivity|]. apply wf2_ns_cons in W. destruct W as (Hk & Wy & W).
    destruct (str_eqb k k'); [exact W|]. apply wf2_ns_cons; auto.
Qed.

Lemma attrs_rebuild c d e : attrs c = Some d -> attrs (rebuild c e) = Some e.
Proof. destruct c; simpl; intros H; try discriminate; reflexivity. Qed.

Lemma key_in_rebuild c d e k : attrs c = Some d -> key_in (rebuild c e) k = key_in c k.
Proof. destruct c; simpl; intros H; try discriminate; reflexivity. Qed.

Lemma rebuild_rebuild c d e e' : attrs c = Some d -> rebuild (rebuild c e) e' = rebuild c e'.
Proof. destruct c; simpl; intros H; try discriminate; reflexivity. Qed.

(* ---- paths: reading ----------------------------------------------------------------------------------------- *)
(* __getitem__ on parsed segments *)
Definition fget (ks : list str) (leaf : str) (cur : val) : option val :=
  match walk_fx ks cur with
  | Some p => match attrs p with Some d => aget (key_in p leaf) d | None => None end
  | None => None
  end.

Lemma fget_nomap ks leaf c : attrs c = None -> fget ks leaf c = None.
Proof. intros A. unfold fget. destruct ks; simpl; now rewrite A. Qed.

Lemma fget_cons k ks leaf c :
  fget (k :: ks) leaf c =
  match attrs c with
  | Some d => match aget (key_in c k) d with Some v => fget ks leaf v | None => None end
  | None => None
  end.
Proof.
  unfold fget at 1. simpl. destruct (attrs c) as [d|]; [|reflexivity].
  destruct (aget (key_in c k) d) as [v|]; [|reflexivity].
  destruct v; try reflexivity; symmetry; apply fget_nomap; reflexivity.
Qed.

Lemma get1 pp leaf : forallb good pp = true -> good leaf = true -> forall c, wf2 c = true ->
  option_map U (fget (mk pp) (mark leaf) c) = vd_get (pp ++ [leaf]) (U c).
Proof.
  intros Gp Gl. induction pp as [|k pp IH]; intros c W.
  - cbn [map app]. rewrite vd_get_one. unfold fget. cbn [walk_fx].
    destruct (attrs c) as [d|] eqn:A.
    + rewrite (entries_U c d A). fold (kin c leaf). now rewrite (entry_get c d leaf A W Gl).
    + now rewrite (entries_U_none c A).
  - cbn [forallb] in Gp. apply andb_true_iff in Gp. destruct Gp as [Gk Gp].
    cbn [map]. rewrite fget_cons. change ((k :: pp) ++ [leaf]) with (k :: (pp ++ [leaf])).
    rewrite (vd_get_cons k (pp ++ [leaf]) (U c) (snoc_nonnil pp leaf)).
    destruct (attrs c) as [d|] eqn:A.
    + rewrite (entries_U c d A). fold (kin c k). rewrite (entry_get c d k A W Gk).
      destruct (aget (kin c k) d) as [v|] eqn:Ev; cbn [option_map]; [|reflexivity].
      exact (IH Gp v (wf2_aget c d _ v A W Ev)).
    + now rewrite (entries_U_none c A).
Qed.

(* ---- paths: writing ----------------------------------------------------------------------------------------- *)
Definition fresh (c : val) : val := match c with VDict _ => VDict [] | _ => VNs [] end.

(* __setitem__ as ONE recursion on the parsed segments *)
Fixpoint fset (ks : list str) (leaf : str) (item : val) (cur : val) : val :=
  match ks with
  | [] => put_fx leaf item cur
  | k :: ks' =>
      match attrs cur with
      | None => cur
      | Some d =>
          let key := key_in cur k in
          let sub := match aget key d with
                     | Some (VNs x) => VNs x
                     | Some (VDict x) => VDict x
                     | _ => fresh cur
                     end in
          rebuild cur (aset key (fset ks' leaf item sub) d)
      end
  end.

Lemma create_then_put ks leaf item : forall c,
  update_at_fx ks (put_fx leaf item) (create_nested_fx ks c) = fset ks leaf item c.
Proof.
  induction ks as [|k ks IH]; intros c; [reflexivity|].
  cbn [create_nested_fx fset]. destruct (attrs c) as [d|] eqn:A.
  - set (key := key_in c k).
    set (sub := match aget key d with Some (VNs x) => VNs x | Some (VDict x) => VDict x | _ => _ end).
    cbn [update_at_fx]. rewrite (attrs_rebuild c d _ A), (key_in_rebuild c d _ k A). fold key.
    rewrite aget_aset_same, (rebuild_rebuild c d _ _ A), aset_aset.
    assert (S : sub = match aget key d with Some (VNs x) => VNs x | Some (VDict x) => VDict x | _ => fresh c end).
    { unfold sub, fresh. destruct c; reflexivity. }
    rewrite IH, S. reflexivity.
  - cbn [update_at_fx]. now rewrite A.
Qed.

Lemma aset_same k v d : aget k d = Some v -> aset k v d = d.
Proof.
  induction d as [|[k' y] d IH]; simpl; [discriminate|].
  destruct (str_eqb k k') eqn:Ek; [intros H; inversion H; reflexivity|intros H; now rewrite (IH H)].
Qed.

Lemma rebuild_same c d : attrs c = Some d -> rebuild c d = c.
Proof. destruct c; simpl; intros H; try discriminate; inversion H; reflexivity. Qed.

Lemma create_when_walk ks : forall c p, walk_fx ks c = Some p -> create_nested_fx ks c = c.
Proof.
  induction ks as [|k ks IH]; intros c p; [reflexivity|]. cbn [walk_fx create_nested_fx].
  destruct (attrs c) as [d|] eqn:A; [|reflexivity].
  destruct (aget (key_in c k) d) as [v|] eqn:Ev; [|discriminate].
  destruct v; try discriminate; intros H; rewrite (IH _ _ H), (aset_same _ _ _ Ev); apply rebuild_same; assumption.
Qed.

Lemma setitem_is_fset ks leaf item c :
  update_at_fx ks (put_fx leaf item) (match walk_fx ks c with Some _ => c | None => create_nested_fx ks c end)
  = fset ks leaf item c.
Proof.
  rewrite <- create_then_put. destruct (walk_fx ks c) eqn:Wk; [|reflexivity].
  now rewrite (create_when_walk ks c v Wk).
Qed.

Lemma set1 pp leaf item : forallb good pp = true -> good leaf = true -> wf2 item = true -> forall c, wf2 c = true ->
  U (fset (mk pp) (mark leaf) item c) = vd_set (pp ++ [leaf]) (U item) (U c) /\
  wf2 (fset (mk pp) (mark leaf) item c) = true.
Proof.
  intros Gp Gl Wi. induction pp as [|k pp IH]; intros c W.
  - cbn [map app fset]. rewrite vd_set_one. unfold put_fx.
    destruct (attrs c) as [d|] eqn:A.
    + rewrite (entries_U c d A). fold (kin c leaf). split.
      * exact (entry_set c d leaf item A W Gl).
      * exact (wf2_set c d leaf item A W Gl Wi).
    + rewrite (entries_U_none c A). auto.
  - cbn [forallb] in Gp. apply andb_true_iff in Gp. destruct Gp as [Gk Gp].
    cbn [map fset]. change ((k :: pp) ++ [leaf]) with (k :: (pp ++ [leaf])).
    rewrite (vd_set_cons k (pp ++ [leaf]) (U item) (U c) (snoc_nonnil pp leaf)).
    destruct (attrs c) as [d|] eqn:A.
    + rewrite (entries_U c d A). fold (kin c k). rewrite (entry_get c d k A W Gk).
      set (sub := match aget (kin c k) d with Some (VNs x) => VNs x | Some (VDict x) => VDict x | _ => fresh c end).
      assert (Ws : wf2 sub = true).
      { unfold sub. destruct (aget (kin c k) d) as [v|] eqn:Ev.
        - pose proof (wf2_aget c d _ v A W Ev) as Wv. destruct v; try exact Wv; destruct c; reflexivity.
        - destruct c; reflexivity. }
      assert (Us : match option_map U (aget (kin c k) d) with
                   | Some (VDict s) => VDict s
                   | Some (VNs s) => VNs s
                   | _ => fresh_like (U c)
                   end = U sub).
      { unfold sub. rewrite (fresh_U c d A). unfold fresh.
        destruct (aget (kin c k) d) as [v|]; cbn [option_map]; [destruct v; reflexivity|reflexivity]. }
      rewrite Us. destruct (IH Gp sub Ws) as [IH1 IH2]. rewrite <- IH1. split.
      * exact (entry_set c d k _ A W Gk).
      * exact (wf2_set c d k _ A W Gk IH2).
    + rewrite (entries_U_none c A). auto.
Qed.

(* ---- paths: deleting ---------------------------------------------------------------------------------------- *)
Definition fdel (ks : list str) (leaf : str) (cur : val) : val := update_at_fx ks (del_fx leaf) cur.

Lemma del1 pp leaf : forallb good pp = true -> good leaf = true -> forall c, wf2 c = true ->
  match fget (mk pp) (mark leaf) c with
  | Some _ => vd_del (pp ++ [leaf]) (U c) = Some (U (fdel (mk pp) (mark leaf) c)) /\
              wf2 (fdel (mk pp) (mark leaf) c) = true
  | None => vd_del (pp ++ [leaf]) (U c) = None
  end.
Proof.
  intros Gp Gl. induction pp as [|k pp IH]; intros c W.
  - cbn [map app]. rewrite vd_del_one. unfold fget, fdel. cbn [walk_fx update_at_fx]. unfold del_fx.
    destruct (attrs c) as [d|] eqn:A.
    + rewrite (entries_U c d A). fold (kin c leaf). rewrite (entry_get c d leaf A W Gl).
      destruct (aget (kin c leaf) d) as [v|]; cbn [option_map]; [|reflexivity]. split.
      * f_equal. symmetry. exact (entry_del c d leaf A W Gl).
      * exact (wf2_del c d _ A W).
    + now rewrite (entries_U_none c A).
  - cbn [forallb] in Gp. apply andb_true_iff in Gp. destruct Gp as [Gk Gp].
    cbn [map]. rewrite fget_cons. change ((k :: pp) ++ [leaf]) with (k :: (pp ++ [leaf])).
    rewrite (vd_del_cons k (pp ++ [leaf]) (U c) (snoc_nonnil pp leaf)).
    unfold fdel. cbn [update_at_fx]. fold (fdel (mk pp) (mark leaf)).
    destruct (attrs c) as [d|] eqn:A.
    + rewrite (entries_U c d A). fold (kin c k). rewrite (entry_get c d k A W Gk).
      destruct (aget (kin c k) d) as [v|] eqn:Ev; cbn [option_map]; [|reflexivity].
      pose proof (IH Gp v (wf2_aget c d _ v A W Ev)) as H.
      destruct (fget (mk pp) (mark leaf) v).
      * destruct H as [H1 H2]. rewrite H1. split.
        -- f_equal. symmetry. exact (entry_set c d k _ A W Gk).
        -- exact (wf2_set c d k _ A W Gk H2).
      * now rewrite H.
    + now rewrite (entries_U_none c A).
Qed.

(* ---- operations on keys -------------------------------------------------------------------------------------- *)
Lemma abs_sd root : abs_d root = sd (E (VNs root)).
Proof. unfold abs_d, sd, user_node. cbn [E]. rewrite map_map. reflexivity. Qed.

Lemma U_ns root : U (VNs root) = VNs (E (VNs root)).
Proof. reflexivity. Qed.

Lemma wf2_wf_val v : wf2 v = true -> wf_val clash v = true.
Proof.
  induction v using val_ind2; try reflexivity. intros W.
  induction d as [|[k x] d IHd]; [reflexivity|]. inversion H; subst.
  apply wf2_ns_cons in W. destruct W as (Hk & Wx & Wd). simpl in H2. simpl. rewrite Hk, (H2 Wx). exact (IHd H3 Wd).
Qed.

Lemma fset_ns ks leaf item d : exists r, fset ks leaf item (VNs d) = VNs r.
Proof. destruct ks; simpl; unfold put_fx; simpl; eauto. Qed.

Lemma update_at_ns ks leaf d : exists r, update_at_fx ks (del_fx leaf) (VNs d) = VNs r.
Proof.
  destruct ks as [|k ks]; simpl.
  - unfold del_fx. simpl. eauto.
  - destruct (aget k d); simpl; eauto.
Qed.

Lemma getitem_fx_parsed key pp leaf root : parse_key clash key = Some (mk (pp ++ [leaf])) ->
  fx_getitem clash key root = match fget (mk pp) (mark leaf) (VNs root) with Some v => Ok v | None => Fail end.
Proof.
  intros Ep. unfold fx_getitem, fget. rewrite Ep, split_last_snoc.
  destruct (walk_fx (mk pp) (VNs root)) as [p|]; [|reflexivity].
  destruct (attrs p) as [d|]; [|reflexivity]. destruct (aget (key_in p (mark leaf)) d); reflexivity.
Qed.

Lemma setitem_fx_parsed key pp leaf item root : parse_key clash key = Some (mk (pp ++ [leaf])) ->
  fx_setitem clash key item root =
  match fset (mk pp) (mark leaf) item (VNs root) with VNs r => Ok r | _ => Fail end.
Proof.
  intros Ep. unfold fx_setitem. rewrite Ep, split_last_snoc.
  rewrite <- (setitem_is_fset (mk pp) (mark leaf) item (VNs root)).
  destruct (walk_fx (mk pp) (VNs root)); reflexivity.
Qed.

Lemma delitem_fx_parsed key pp leaf root : parse_key clash key = Some (mk (pp ++ [leaf])) ->
  fx_delitem clash key root =
  match fget (mk pp) (mark leaf) (VNs root) with
  | Some _ => match fdel (mk pp) (mark leaf) (VNs root) with VNs r => Ok r | _ => Fail end
  | None => Fail
  end.
Proof.
  intros Ep. unfold fx_delitem. rewrite (getitem_fx_parsed key pp leaf root Ep), Ep, split_last_snoc.
  destruct (fget (mk pp) (mark leaf) (VNs root)); reflexivity.
Qed.

Lemma pop_fx_parsed key dflt pp leaf root : parse_key clash key = Some (mk (pp ++ [leaf])) ->
  fx_pop clash key dflt root =
  match fget (mk pp) (mark leaf) (VNs root) with
  | Some v => match fdel (mk pp) (mark leaf) (VNs root) with VNs r => Ok (v, r) | _ => Fail end
  | None => Ok (dflt, root)
  end.
Proof.
  intros Ep. unfold fx_pop, fget, fdel. rewrite Ep, split_last_snoc.
  destruct (walk_fx (mk pp) (VNs root)) as [p|]; [|reflexivity].
  destruct (attrs p) as [d|]; [|reflexivity].
  destruct d as [|kv d]; [reflexivity|].
  destruct (aget (key_in p (mark leaf)) (kv :: d)); reflexivity.
Qed.

Definition wf_r (root : alist) : Prop := wf2 (VNs root) = true.

(* reading through the whole stack *)
Lemma getitem_fx_refines root k : wf_r root -> wf_key k = true ->
  match spec_key k with Some p => option_map node_val (spec_get p (abs_d root)) | None => None end =
  option_map U (match fx_getitem clash k root with Ok v => Some v | Fail => None end).
Proof.
  intros W Hk. destruct (key_cases clash k Hk) as [[Es Ep]|(pp & leaf & Es & Ep & Hpp & Hl)].
  - rewrite Es. unfold fx_getitem. now rewrite Ep.
  - rewrite Es, (getitem_fx_parsed k pp leaf root Ep), abs_sd.
    replace (option_map node_val (spec_get (pp ++ [leaf]) (sd (E (VNs root)))))
      with (option_map val_of_node (spec_get (pp ++ [leaf]) (sd (E (VNs root)))))
      by (destruct (spec_get (pp ++ [leaf]) (sd (E (VNs root)))); reflexivity).
    rewrite (spec_get_is_vd (pp ++ [leaf]) (snoc_nonnil pp leaf) (E (VNs root))), <- U_ns.
    rewrite <- (get1 pp leaf Hpp Hl (VNs root) W).
    destruct (fget (mk pp) (mark leaf) (VNs root)); reflexivity.
Qed.

Lemma contains_fx_refines root k : wf_r root -> wf_key k = true ->
  match spec_key k with Some p => spec_contains p (abs_d root) | None => false end = fx_contains clash k root.
Proof.
  intros W Hk. pose proof (getitem_fx_refines root k W Hk) as R.
  unfold fx_contains, spec_contains. destruct (spec_key k).
  - destruct (spec_get l (abs_d root)); destruct (fx_getitem clash k root); simpl in R; congruence.
  - destruct (fx_getitem clash k root); [discriminate|reflexivity].
Qed.

Definition rel_step_fx (root : alist) (o : op) : Prop :=
  forall ou r md, step_fixed clash root o = (ou, r, md) ->
    step_spec (abs_d root) o = (unmark_out ou, abs_d r) /\ wf_r r.

Lemma set_fx_refines root k v : wf_r root -> wf_key k = true -> wf2 v = true ->
  match fx_setitem clash k v root with
  | Ok r => spec_set_key k (user_node v) (abs_d root) = Some (abs_d r) /\ wf_r r
  | Fail => spec_set_key k (user_node v) (abs_d root) = None
  end.
Proof.
  intros W Hk Hv. unfold spec_set_key.
  destruct (key_cases clash k Hk) as [[Es Ep]|(pp & leaf & Es & Ep & Hpp & Hl)].
  - unfold fx_setitem. now rewrite Ep, Es.
  - rewrite Es, (setitem_fx_parsed k pp leaf v root Ep).
    destruct (set1 pp leaf v Hpp Hl Hv (VNs root) W) as [S1 S2].
    destruct (fset_ns (mk pp) (mark leaf) v root) as [r Er]. rewrite Er in *. split; [|exact S2].
    pose proof (spec_set_is_vd (pp ++ [leaf]) (snoc_nonnil pp leaf) (U v) (E (VNs root))) as L.
    rewrite <- U_ns, <- S1, U_ns, node_of_ns, <- !abs_sd in L. unfold user_node. inversion L. reflexivity.
Qed.

Lemma step_set_fx root k v : wf_r root -> wf_key k = true -> wf2 v = true -> rel_step_fx root (OSet k v).
Proof.
  intros W Hk Hv ou r md H. cbn [step_fixed] in H. unfold step_spec.
  pose proof (set_fx_refines root k v W Hk Hv) as R.
  destruct (fx_setitem clash k v root); inversion H; subst.
  - destruct R as [R1 R2]. rewrite R1. auto.
  - rewrite R. auto.
Qed.

Lemma step_setattr_fx root k v : wf_r root -> wf_op_fx clash (OSetAttr k v) = true -> rel_step_fx root (OSetAttr k v).
Proof.
  intros W Wo. simpl in Wo. apply andb_true_iff in Wo. destruct Wo as [Wo Hn].
  apply andb_true_iff in Wo. destruct Wo as [Hk Hv].
  destruct (mem_N DOT k) eqn:D.
  - intros ou r md H. apply (step_set_fx root k v W Hk Hv ou r md).
    cbn [step_fixed] in *. unfold fx_setattr in H. now rewrite D in H.
  - simpl in Hn. apply andb_true_iff in Hn. destruct Hn as [Hs He]. apply negb_true_iff in Hs, He.
    intros ou r md H. cbn [step_fixed] in H. unfold fx_setattr in H. rewrite D in H. inversion H; subst.
    unfold step_spec, spec_set_key. rewrite (spec_key_nodot k D Hs He). cbn [spec_set].
    unfold wf_key, split_key in Hk. rewrite split_dot_aux_nodot in Hk by assumption.
    simpl in Hk. rewrite andb_true_r in Hk.
    rewrite (insert_abs clash k v root (wf2_wf_val _ W) Hk). split; [reflexivity|].
    exact (wf2_set (VNs root) root k v eq_refl W Hk Hv).
Qed.

Lemma step_get_fx root k : wf_r root -> wf_key k = true -> rel_step_fx root (OGet k).
Proof.
  intros W Hk ou r md H. cbn [step_fixed] in H. unfold step_spec.
  pose proof (getitem_fx_refines root k W Hk) as R.
  destruct (fx_getitem clash k root); inversion H; subst; cbn [option_map] in R.
  - destruct (spec_key k); [|discriminate]. destruct (spec_get l (abs_d r)); [|discriminate].
    inversion R as [R1]. simpl. rewrite R1. auto.
  - destruct (spec_key k); [|auto]. destruct (spec_get l (abs_d r)); [discriminate|auto].
Qed.

Lemma step_getd_fx root k dflt : wf_r root -> wf_key k = true -> rel_step_fx root (OGetD k dflt).
Proof.
  intros W Hk ou r md H. cbn [step_fixed] in H. inversion H; subst. unfold step_spec, fx_get.
  pose proof (getitem_fx_refines r k W Hk) as R.
  destruct (fx_getitem clash k r); cbn [option_map] in R.
  - destruct (spec_key k); [|discriminate]. destruct (spec_get l (abs_d r)); [|discriminate].
    inversion R as [R1]. simpl. rewrite R1. auto.
  - destruct (spec_key k); [|auto]. destruct (spec_get l (abs_d r)); [discriminate|auto].
Qed.

Lemma step_contains_fx root k : wf_r root -> wf_key k = true -> rel_step_fx root (OContains k).
Proof.
  intros W Hk ou r md H. cbn [step_fixed] in H. inversion H; subst.
  pose proof (contains_fx_refines r k W Hk) as R. unfold step_spec.
  destruct (spec_key k); rewrite <- R; auto.
Qed.

Lemma del_fx_refines root k : wf_r root -> wf_key k = true ->
  match fx_delitem clash k root with
  | Ok r => match spec_key k with Some p => spec_del p (abs_d root) | None => None end = Some (abs_d r) /\ wf_r r
  | Fail => match spec_key k with Some p => spec_del p (abs_d root) | None => None end = None
  end.
Proof.
  intros W Hk. destruct (key_cases clash k Hk) as [[Es Ep]|(pp & leaf & Es & Ep & Hpp & Hl)].
  - rewrite Es. unfold fx_delitem, fx_getitem. now rewrite Ep.
  - rewrite Es, (delitem_fx_parsed k pp leaf root Ep).
    pose proof (del1 pp leaf Hpp Hl (VNs root) W) as D.
    pose proof (spec_del_is_vd (pp ++ [leaf]) (snoc_nonnil pp leaf) (E (VNs root))) as L.
    rewrite <- U_ns, <- abs_sd in L.
    destruct (fget (mk pp) (mark leaf) (VNs root)).
    + destruct D as [D1 D2]. unfold fdel in *. destruct (update_at_ns (mk pp) (mark leaf) root) as [r Er].
      rewrite Er in *. split; [|exact D2]. rewrite D1 in L. cbn [option_map] in L.
      rewrite U_ns, node_of_ns, <- abs_sd in L.
      destruct (spec_del (pp ++ [leaf]) (abs_d root)); inversion L. reflexivity.
    + rewrite D in L. cbn [option_map] in L. destruct (spec_del (pp ++ [leaf]) (abs_d root)); [discriminate|reflexivity].
Qed.

Lemma step_del_fx root k : wf_r root -> wf_key k = true -> rel_step_fx root (ODel k).
Proof.
  intros W Hk ou r md H. cbn [step_fixed] in H. unfold step_spec.
  pose proof (del_fx_refines root k W Hk) as R.
  destruct (fx_delitem clash k root); inversion H; subst.
  - destruct R as [R1 R2]. destruct (spec_key k); [|discriminate]. rewrite R1. auto.
  - destruct (spec_key k); [rewrite R|]; auto.
Qed.

Lemma step_pop_fx root k dflt : wf_r root -> wf_key k = true -> rel_step_fx root (OPop k dflt).
Proof.
  intros W Hk ou r md H. cbn [step_fixed] in H. unfold step_spec.
  destruct (key_cases clash k Hk) as [[Es Ep]|(pp & leaf & Es & Ep & Hpp & Hl)].
  - unfold fx_pop in H. rewrite Ep in H. inversion H; subst. rewrite Es. auto.
  - pose proof (getitem_fx_refines root k W Hk) as G. pose proof (del_fx_refines root k W Hk) as D.
    rewrite Es in *. rewrite (getitem_fx_parsed k pp leaf root Ep) in G.
    rewrite (delitem_fx_parsed k pp leaf root Ep) in D. rewrite (pop_fx_parsed k dflt pp leaf root Ep) in H.
    destruct (fget (mk pp) (mark leaf) (VNs root)) as [v|]; cbn [option_map] in G.
    + unfold fdel in *. destruct (update_at_ns (mk pp) (mark leaf) root) as [r0 Er]. rewrite Er in *.
      inversion H; subst. destruct D as [D1 D2]. rewrite D1.
      destruct (spec_get (pp ++ [leaf]) (abs_d root)); [|discriminate]. inversion G as [G1]. simpl. rewrite G1. auto.
    + inversion H; subst. destruct (spec_get (pp ++ [leaf]) (abs_d r)); [discriminate|]. auto.
Qed.

Lemma step_updv_fx root v k ou' : wf_r root -> wf2 v = true -> wf_okey k = true ->
  rel_step_fx root (OUpdV v k ou').
Proof.
  intros W Hv Hk ou r md H. cbn [step_fixed] in H. unfold fx_update_value in H. unfold step_spec.
  destruct k as [[|c k]|]; try (inversion H; subst; auto; fail).
  simpl in Hk. set (key := c :: k) in *.
  pose proof (contains_fx_refines root key W Hk) as C.
  pose proof (set_fx_refines root key v W Hk Hv) as S. unfold spec_set_key in S.
  destruct (spec_key key) as [p|] eqn:Es.
  - rewrite C. destruct (ou' && fx_contains clash key root).
    + inversion H; subst. auto.
    + destruct (fx_setitem clash key v root); inversion H; subst.
      * destruct S as [S1 S2]. inversion S1. auto.
      * discriminate S.
  - rewrite <- C in H. rewrite andb_false_r in H.
    destruct (fx_setitem clash key v root); inversion H; subst; [destruct S; discriminate|auto].
Qed.

(* ---- update(namespace, key, only_unset): a fold of (membership test;) assignment over the leaf items ------------- *)
Lemma items_wf2 br v : wf2 v = true -> Forall (fun kv : str * val => wf2 (snd kv) = true) (ns_items_v br v).
Proof.
  induction v using val_ind2; intros W; try (simpl; constructor).
  rewrite ns_items_v_ns.
  induction d as [|[k x] d IHd]; [constructor|].
  apply wf2_ns_cons in W. destruct W as (_ & Hx & Hd). inversion H as [|? ? Hx' Hd']; subst.
  cbn [flat_map]. apply Forall_app. split; [|exact (IHd Hd' Hd)].
  unfold itF. cbn [fst snd] in *. destruct x; try (constructor; [exact Hx|constructor]).
  apply Forall_app. split.
  - destruct br; constructor; [exact Hx|constructor].
  - specialize (Hx' Hx). rewrite Forall_forall in *. intros kv Hin. apply in_map_iff in Hin.
    destruct Hin as (sk & E0 & Hin). subst kv. exact (Hx' sk Hin).
Qed.

Definition m_upd (prefix : str) (ou : bool) (acc : alist * bool) (kv : str * val) : alist * bool :=
  let '(r, failed) := acc in
  if failed then acc else
  let key := prefix ++ fst kv in
  if ou && fx_contains clash key r then (r, false)
  else match fx_setitem clash key (snd kv) r with
       | Ok r' => (r', false)
       | Fail => (r, true)
       end.

Definition s_upd (prefix : str) (ou : bool) (acc : sdict * bool) (kv : str * val) : sdict * bool :=
  let '(s, failed) := acc in
  if failed then acc else
  match spec_key (prefix ++ fst kv) with
  | None => (s, true)
  | Some p => if ou && spec_contains p s then (s, false)
              else (spec_set p (node_of_val (snd kv)) s, false)
  end.

Lemma m_upd_failed prefix ou l r : fold_left (m_upd prefix ou) l (r, true) = (r, true).
Proof. induction l as [|a l IH]; [reflexivity|]. exact IH. Qed.

Lemma s_upd_failed prefix ou l s : fold_left (s_upd prefix ou) l (s, true) = (s, true).
Proof. induction l as [|a l IH]; [reflexivity|]. exact IH. Qed.

Lemma updns_fold prefix ou l : forall root, wf_r root ->
  Forall (fun kv : str * val => wf_key (prefix ++ fst kv) = true /\ wf2 (snd kv) = true) l ->
  forall r f, fold_left (m_upd prefix ou) l (root, false) = (r, f) ->
    fold_left (s_upd prefix ou) (map (fun kv => (fst kv, U (snd kv))) l) (abs_d root, false) = (abs_d r, f) /\ wf_r r.
Proof.
  induction l as [|[k v] l IH]; intros root W Hl r f H.
  - simpl in *. inversion H; subst. auto.
  - inversion Hl as [|? ? [Hk Hv] Hl']; subst. cbn [fst snd] in Hk, Hv.
    cbn [map fold_left fst snd] in *. unfold m_upd at 2 in H. unfold s_upd at 2. cbn [fst snd] in *.
    pose proof (contains_fx_refines root (prefix ++ k) W Hk) as C.
    pose proof (set_fx_refines root (prefix ++ k) v W Hk Hv) as S. unfold spec_set_key in S.
    destruct (spec_key (prefix ++ k)) as [p|] eqn:Es.
    + rewrite C. destruct (ou && fx_contains clash (prefix ++ k) root).
      * exact (IH root W Hl' r f H).
      * destruct (fx_setitem clash (prefix ++ k) v root) as [r'|].
        -- destruct S as [S1 S2]. inversion S1 as [S1']. unfold user_node in S1'. rewrite S1'.
           exact (IH r' S2 Hl' r f H).
        -- discriminate S.
    + rewrite <- C in H. rewrite andb_false_r in H.
      destruct (fx_setitem clash (prefix ++ k) v root) as [r'|]; [destruct S; discriminate|].
      rewrite m_upd_failed in H. inversion H; subst. rewrite s_upd_failed. auto.
Qed.

Lemma step_updns_fx root src k ou' : wf_r root -> wf2 src = true -> upd_keys_ok src k = true ->
  rel_step_fx root (OUpdNs src k ou').
Proof.
  intros W Hs Hk ou r md H. cbn [step_fixed] in H. unfold step_spec.
  destruct src as [z|s0| |l|l|dd|nd]; try (inversion H; subst; unfold user_node; simpl; auto; fail).
  rewrite user_node_ns.
  change (match k with Some (c :: k') => (c :: k') ++ [DOT] | _ => [] end) with (upd_prefix k) in *.
  cbn [upd_keys_ok] in Hk.
  rewrite <- (items_agree_proof clash false nd (wf2_wf_val _ Hs)).
  set (prefix := upd_prefix k) in *.
  change (fold_left _ (ns_items false nd) (root, false)) with (fold_left (m_upd prefix ou') (ns_items false nd) (root, false)) in H.
  destruct (fold_left (m_upd prefix ou') (ns_items false nd) (root, false)) as [r0 f0] eqn:F.
  assert (Hl : Forall (fun kv : str * val => wf_key (prefix ++ fst kv) = true /\ wf2 (snd kv) = true) (ns_items false nd)).
  { pose proof (items_wf2 false (VNs nd) Hs) as I. rewrite forallb_forall in Hk. rewrite Forall_forall in *.
    intros kv Hin. split; [exact (Hk kv Hin)|exact (I kv Hin)]. }
  destruct (updns_fold prefix ou' (ns_items false nd) root W Hl r0 f0 F) as [S Wr].
  change (fold_left _ (map (fun kv => (fst kv, U (snd kv))) (ns_items false nd)) (abs_d root, false))
    with (fold_left (s_upd prefix ou') (map (fun kv => (fst kv, U (snd kv))) (ns_items false nd)) (abs_d root, false)).
  rewrite S. inversion H; subst. split; [|exact Wr]. destruct f0; reflexivity.
Qed.

Lemma step_commutes_fx root o : wf_r root -> wf_op_fx clash o = true -> core_op_fx o = true -> rel_step_fx root o.
Proof.
  intros W Wo C. destruct o; try discriminate C; simpl in Wo;
    repeat match goal with H : _ && _ = true |- _ => apply andb_true_iff in H; destruct H end.
  - now apply step_set_fx.
  - apply step_setattr_fx; auto. simpl. now rewrite H, H1, H0.
  - now apply step_get_fx.
  - now apply step_getd_fx.
  - now apply step_contains_fx.
  - now apply step_del_fx.
  - now apply step_pop_fx.
  - now apply step_updv_fx.
  - now apply step_updns_fx.
  - intros ou r md E0. inversion E0; subst. auto.
  - intros ou r md E0. cbn [step_fixed] in E0.
    exact (step_items clash root branches (wf2_wf_val _ W) ou r E0) || idtac.
    destruct (step_items clash root branches (wf2_wf_val _ W) ou r) as [S _].
    { cbn [step_model] in *. inversion E0; subst. reflexivity. }
    inversion E0; subst. split; [exact S|exact W].
  - intros ou r md E0. inversion E0; subst. split; [|assumption].
    unfold step_spec, unmark_out. now rewrite (as_dict_agrees_proof r).
Qed.

(* ---- histories ------------------------------------------------------------------------------------------------ *)
Lemma run_refines_fx ops : forall root, wf_r root ->
  forallb (wf_op_fx clash) ops = true -> forallb core_op_fx ops = true ->
  Forall2 rel_out (run_fixed clash root ops) (run_spec (abs_d root) ops).
Proof.
  induction ops as [|o ops IH]; intros root W Wo C; simpl in *; [constructor|].
  apply andb_true_iff in Wo, C. destruct Wo as [Wo Wos], C as [Co Cs].
  destruct (step_fixed clash root o) as [[ou r] md] eqn:E0.
  destruct (step_commutes_fx root o W Wo Co ou r md E0) as [S Wr]. rewrite S.
  constructor; [split; reflexivity|]. exact (IH r Wr Wos Cs).
Qed.

Lemma hist_class_fx_0 ops : hist_class_fx clash ops = 0%N <->
  forallb (wf_op_fx clash) ops = true /\ forallb core_op_fx ops = true.
Proof.
  unfold hist_class_fx. destruct (forallb (wf_op_fx clash) ops); simpl.
  - destruct (forallb core_op_fx ops); simpl; split; intros H; try discriminate; auto. destruct H; discriminate.
  - split; intros H; [discriminate|]. destruct H; discriminate.
Qed.

Lemma ns_refines_dict_fx_proof ops : hist_class_fx clash ops = 0%N ->
  Forall2 rel_out (run_fixed clash [] ops) (run_spec [] ops).
Proof.
  intros H. apply hist_class_fx_0 in H. destruct H as [Wo C].
  exact (run_refines_fx ops [] eq_refl Wo C).
Qed.

(* a failing operation leaves the state as it was (update(namespace) has no rollback) *)
Lemma failed_op_changes_nothing_fx_proof root o r md :
  match o with OUpdNs _ _ _ => False | _ => True end ->
  step_fixed clash root o = (OutFail, r, md) -> r = root.
Proof.
  destruct o; cbn [step_fixed step_model]; intros Hn H; try contradiction; try congruence.
  - destruct (fx_setitem clash k v root); congruence.
  - destruct (fx_setattr clash k v root); congruence.
  - destruct (fx_getitem clash k root); congruence.
  - destruct (fx_delitem clash k root); congruence.
  - destruct (fx_pop clash k dflt root) as [[? ?]|]; congruence.
  - destruct (fx_update_value clash v k only_unset root); congruence.
  - destruct d; try congruence.
    destruct (fold_left _ d _) as [r0 failed]. destruct failed; congruence.
  - destruct (ns_get_steps clash k root); congruence.
  - destruct (ns_from_dict clash d); congruence.
Qed.

End WithClash.

(* the observable behaviour of the patched code does not depend on the clash set *)
Lemma clash_names_transparent_fx_proof c1 c2 ops :
  hist_class_fx c1 ops = 0%N -> hist_class_fx c2 ops = 0%N ->
  Forall2 (fun m1 m2 : out * alist => unmark_out (fst m1) = unmark_out (fst m2) /\ abs_d (snd m1) = abs_d (snd m2))
          (run_fixed c1 [] ops) (run_fixed c2 [] ops).
Proof.
  intros H1 H2. apply ns_refines_dict_fx_proof in H1, H2. revert H1 H2.
  generalize (run_fixed c1 [] ops) (run_fixed c2 [] ops) (run_spec [] ops).
  intros l1. induction l1 as [|m1 l1 IH]; intros l2 ls A B; inversion A; subst; inversion B; subst;
    constructor.
  - unfold rel_out in *. intuition congruence.
  - eapply IH; eauto.
Qed.

(* ---- one dotted string = step by step, now also THROUGH dict values ------------------------------------- *)
Section Stepwise.
Variable clash : list str.
Notation mark := (mark clash).
Notation mk := (map mark).

(* a name that can be a segment of a key and does not start with the clash mark *)
Definition seg_ok2 (a : str) : bool := seg_ok a && good a.

Lemma steps_eq_fget rest : forall a c, seg_ok2 a = true -> forallb seg_ok2 rest = true ->
  get_steps clash (a :: rest) c =
  match fget (mk (removelast (a :: rest))) (mark (last (a :: rest) [])) c with Some v => Ok v | None => Fail end.
Proof.
  induction rest as [|b r IH]; intros a c Ha Hr; apply andb_true_iff in Ha; destruct Ha as [Sa Ga].
  - cbn [removelast last map]. unfold fget. cbn [walk_fx get_steps].
    destruct c; try reflexivity; cbn [attrs key_in].
    + rewrite (unmark_mark clash a Ga). destruct (aget a d); reflexivity.
    + rewrite (getitem_single clash a d Sa). destruct (aget (mark a) d); reflexivity.
  - cbn [forallb] in Hr. apply andb_true_iff in Hr. destruct Hr as [Hb Hr].
    change (removelast (a :: b :: r)) with (a :: removelast (b :: r)).
    change (last (a :: b :: r) []) with (last (b :: r) []).
    cbn [map]. rewrite fget_cons.
    change (get_steps clash (a :: b :: r) c) with
      (match c with
       | VNs d => match ns_getitem clash a d with Ok v => get_steps clash (b :: r) v | Fail => Fail end
       | VDict dd => match aget a dd with Some v => get_steps clash (b :: r) v | None => Fail end
       | _ => Fail
       end).
    destruct c; try reflexivity; cbn [attrs key_in].
    + rewrite (unmark_mark clash a Ga). destruct (aget a d) as [v|]; [|reflexivity]. exact (IH b v Hb Hr).
    + rewrite (getitem_single clash a d Sa). destruct (aget (mark a) d) as [v|]; [|reflexivity]. exact (IH b v Hb Hr).
Qed.

Lemma seg_ok2_all a rest : seg_ok2 a = true -> forallb seg_ok2 rest = true ->
  seg_ok a = true /\ forallb seg_ok rest = true.
Proof.
  intros Ha Hr. apply andb_true_iff in Ha. destruct Ha as [Ha _]. split; [exact Ha|].
  induction rest as [|b r IH]; [reflexivity|]. cbn [forallb] in *. apply andb_true_iff in Hr. destruct Hr as [Hb Hr].
  apply andb_true_iff in Hb. destruct Hb as [Hb _]. now rewrite Hb, (IH Hr).
Qed.

Lemma stepwise_eq_dotted_fx_proof a rest root : seg_ok2 a = true -> forallb seg_ok2 rest = true ->
  ns_get_steps clash (join_segs a rest) root = fx_getitem clash (join_segs a rest) root.
Proof.
  intros Ha Hr. destruct (seg_ok2_all a rest Ha Hr) as [Sa Sr].
  unfold ns_get_steps. rewrite (split_join a rest Sa Sr).
  assert (N : a :: rest <> []) by discriminate.
  pose proof (parse_join clash a rest Sa Sr) as P.
  rewrite (app_removelast_last [] N) in P.
  rewrite (getitem_fx_parsed clash _ _ _ root P).
  exact (steps_eq_fget rest a (VNs root) Ha Hr).
Qed.

End Stepwise.

(* items of a tree in the patched model's stored form (the function is the same code as before the patch) *)
Lemma items_agree_fx_proof clash br root : wf2 clash (VNs root) = true ->
  map (fun kv => (fst kv, unmark_val (snd kv))) (ns_items br root) = spec_items br (abs_d root).
Proof. intros W. exact (items_agree_proof clash br root (wf2_wf_val clash _ W)). Qed.

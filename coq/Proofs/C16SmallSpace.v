(* C16, link half: the finite space on which "model satisfies the reference semantics" is decided by the kernel.
   small_space bound = every layout of class groups / class-typed arguments (shapes G, S, SN, SNN, GN, GNN) that
   constructs at most `bound` objects, with every sequence of one or two links (apply_on="instantiate") whose source is
   any component (whole object or attribute `at`), whose target is a parameter of any constructed object, with and
   without compute_fn.  Cyclic link sets are included (they must be rejected at the closing link). *)
From JV Require Import Lib.Base Model.Graph Spec.GraphSpec Model.LinkOrder Spec.LinkSpec.

Definition nm (i : nat) : str := [N.of_nat (97 + i)].          (* "a", "b", "c", ... *)
Definition s_at : str := [97; 116]%N.                           (* "at" *)
Definition param (j : nat) : str := [108%N; N.of_nat (48 + j)]. (* "l<j>" *)

Definition shapes : list shape := [ShG; ShS; ShSN; ShSNN; ShGN; ShGNN].
Definition nunits (sh : shape) : nat :=
  match sh with ShG | ShS | ShGI | ShTI => 1 | ShSN | ShGN => 2 | ShSNN | ShGNN => 3 end.

(* every list of shapes whose objects number at most `budget` (fuel >= budget suffices: a shape has >= 1 object) *)
Fixpoint shape_lists (fuel budget : nat) : list (list shape) :=
  match fuel with
  | 0 => [[]]
  | S f => [] :: flat_map (fun sh => if Nat.leb (nunits sh) budget
                                     then map (cons sh) (shape_lists f (budget - nunits sh))
                                     else []) shapes
  end.

Fixpoint decls_from (i : nat) (shs : list shape) : list decl :=
  match shs with
  | [] => []
  | sh :: r => {| d_name := nm i; d_shape := sh |} :: decls_from (S i) r
  end.

(* key prefix of the parameters of every constructed object *)
Definition tgt_prefixes (cs : list comp) : list str :=
  flat_map (fun c => map (fun u => match c_kind c with
                                   | KGroup => u ++ [dot]
                                   | KType => u ++ dot :: s_init_args ++ [dot]
                                   end) (c_units c)) cs.

Definition link_choices (cs : list comp) (j : nat) : list link :=
  flat_map (fun s =>
    flat_map (fun attr : bool =>
      flat_map (fun t =>
        map (fun fn : bool => {| l_id := j; l_srcs := [if attr then s ++ dot :: s_at else s];
                                 l_target := t ++ param j; l_fn := fn |}) [false; true])
        (tgt_prefixes cs)) [false; true]) (map c_dest cs).

Definition link_seqs (cs : list comp) : list (list link) :=
  map (fun l => [l]) (link_choices cs 0)
  ++ flat_map (fun l0 => map (fun l1 => [l0; l1]) (link_choices cs 1)) (link_choices cs 0).

Definition small_space (bound : nat) : list (list decl * list link) :=
  flat_map (fun shs => let ds := decls_from 0 shs in map (pair ds) (link_seqs (components ds)))
           (shape_lists bound bound).

(* model satisfies spec on a case, inside the guard *)
Definition case_ok (fx : fixes) (c : list decl * list link) : bool :=
  negb (N.eqb (link_class fx (fst c) (snd c)) 0) || link_spec_ok (fst c) (snd c) (run fx (fst c) (snd c)).

(* after both repairs only the nested-self-link class is left, and outside it the model satisfies the spec *)
Definition case_ok_fixed (c : list decl * list link) : bool :=
  let k := link_class allfix (fst c) (snd c) in
  (N.eqb k 0 || N.eqb k 3) && (negb (N.eqb k 0) || link_spec_ok (fst c) (snd c) (run allfix (fst c) (snd c))).

(* ---- the kernel-evaluated products ------------------------------------------------------------------------------- *)
From Coq Require Import List.

Definition layouts_upto3 : list (list shape) := shape_lists 3 3.
(* four flat components: every arrangement of class groups and class-typed arguments *)
Definition layouts_flat4 : list (list shape) :=
  flat_map (fun a => flat_map (fun b => flat_map (fun c => map (fun d => [a; b; c; d]) [ShG; ShS]) [ShG; ShS]) [ShG; ShS])
           [ShG; ShS].

Definition layout_ok (ok : list decl * list link -> bool) (shs : list shape) : bool :=
  let ds := decls_from 0 shs in forallb (fun ls => ok (ds, ls)) (link_seqs (components ds)).

Lemma layouts_ok_forall ok lays :
  forallb (layout_ok ok) lays = true ->
  forall shs ls, In shs lays -> In ls (link_seqs (components (decls_from 0 shs))) -> ok (decls_from 0 shs, ls) = true.
Proof.
  intros H shs ls Hs Hl. rewrite forallb_forall in H. specialize (H shs Hs).
  unfold layout_ok in H. rewrite forallb_forall in H. exact (H ls Hl).
Qed.

(* vm_cast_no_check: the kernel evaluates the product once, at Qed (a plain `vm_compute. reflexivity.` evaluates it twice) *)
Lemma small_space_ok_pinned :
  forall shs ls, In shs (layouts_upto3 ++ layouts_flat4) -> In ls (link_seqs (components (decls_from 0 shs))) ->
  case_ok nofix (decls_from 0 shs, ls) = true.
Proof. apply layouts_ok_forall. vm_cast_no_check (eq_refl true). Qed.

Lemma small_space_ok_fixed :
  forall shs ls, In shs layouts_upto3 -> In ls (link_seqs (components (decls_from 0 shs))) ->
  case_ok_fixed (decls_from 0 shs, ls) = true.
Proof. apply layouts_ok_forall. vm_cast_no_check (eq_refl true). Qed.

(* every sequence of THREE links over the layouts with at most two constructed objects *)
Definition link_seqs3 (cs : list comp) : list (list link) :=
  flat_map (fun l0 => flat_map (fun l1 => map (fun l2 => [l0; l1; l2]) (link_choices cs 2)) (link_choices cs 1))
           (link_choices cs 0).
Definition layouts_upto2 : list (list shape) := shape_lists 2 2.

Definition layout_ok3 (ok : list decl * list link -> bool) (shs : list shape) : bool :=
  let ds := decls_from 0 shs in forallb (fun ls => ok (ds, ls)) (link_seqs3 (components ds)).

Lemma layouts_ok3_forall ok lays :
  forallb (layout_ok3 ok) lays = true ->
  forall shs ls, In shs lays -> In ls (link_seqs3 (components (decls_from 0 shs))) -> ok (decls_from 0 shs, ls) = true.
Proof.
  intros H shs ls Hs Hl. rewrite forallb_forall in H. specialize (H shs Hs).
  unfold layout_ok3 in H. rewrite forallb_forall in H. exact (H ls Hl).
Qed.

Lemma small_space3_ok :
  forall shs ls, In shs layouts_upto2 -> In ls (link_seqs3 (components (decls_from 0 shs))) ->
  (case_ok nofix (decls_from 0 shs, ls) && case_ok_fixed (decls_from 0 shs, ls)) = true.
Proof. apply (layouts_ok3_forall (fun c => case_ok nofix c && case_ok_fixed c)). vm_cast_no_check (eq_refl true). Qed.

(* ---- targets that only the FINAL pass of instantiate_classes fills ------------------------------------------------
   One class group added with instantiate=False (ShGI) at every declaration position of every layout with at most two
   constructed objects; link targets: the parameters of every constructed object AND of the never instantiated group. *)
Definition link_choices_t (srcs tgts : list str) (j : nat) : list link :=
  flat_map (fun s =>
    flat_map (fun attr : bool =>
      flat_map (fun t =>
        map (fun fn : bool => {| l_id := j; l_srcs := [if attr then s ++ dot :: s_at else s];
                                 l_target := t ++ param j; l_fn := fn |}) [false; true]) tgts) [false; true]) srcs.

Definition link_seqs_sink (ds : list decl) : list (list link) :=
  let srcs := map c_dest (components ds) in
  let tgts := tgt_prefixes (components ds) ++ map (fun n => n ++ [dot]) (sinks_of ds) in
  map (fun l => [l]) (link_choices_t srcs tgts 0)
  ++ flat_map (fun l0 => map (fun l1 => [l0; l1]) (link_choices_t srcs tgts 1)) (link_choices_t srcs tgts 0).

Fixpoint insertions {A} (x : A) (l : list A) : list (list A) :=
  match l with
  | [] => [[x]]
  | y :: r => (x :: l) :: map (cons y) (insertions x r)
  end.
Definition layouts_sink : list (list shape) := flat_map (insertions ShGI) (shape_lists 2 2).

Definition layout_ok_sink (ok : list decl * list link -> bool) (shs : list shape) : bool :=
  let ds := decls_from 0 shs in forallb (fun ls => ok (ds, ls)) (link_seqs_sink ds).

Lemma layouts_ok_sink_forall ok lays :
  forallb (layout_ok_sink ok) lays = true ->
  forall shs ls, In shs lays -> In ls (link_seqs_sink (decls_from 0 shs)) -> ok (decls_from 0 shs, ls) = true.
Proof.
  intros H shs ls Hs Hl. rewrite forallb_forall in H. specialize (H shs Hs).
  unfold layout_ok_sink in H. rewrite forallb_forall in H. exact (H ls Hl).
Qed.

Lemma small_space_sink_ok :
  forall shs ls, In shs layouts_sink -> In ls (link_seqs_sink (decls_from 0 shs)) ->
  (case_ok nofix (decls_from 0 shs, ls) && case_ok_fixed (decls_from 0 shs, ls)) = true.
Proof. apply (layouts_ok_sink_forall (fun c => case_ok nofix c && case_ok_fixed c)). vm_cast_no_check (eq_refl true). Qed.

(* ---- histories that go on after a rejected link --------------------------------------------------------------------
   every sequence of three links over the layouts with at most two constructed objects, the caller catching every
   rejection and going on: exactly the links that close a cycle with the ones accepted so far are rejected, and what is
   constructed in the end obeys the accepted links. *)
Definition case_ok_cont (fx : fixes) (c : list decl * list link) : bool :=
  let m := run_cont fx (fst c) (snd c) in
  negb (N.eqb (link_class fx (fst c) (fst (add_links_cont fx (components (fst c)) (snd c)))) 0)
  || link_spec_cont_ok (fst c) (snd c) (fst m) (snd m).

Lemma small_space_cont_ok :
  forall shs ls, In shs layouts_upto2 -> In ls (link_seqs3 (components (decls_from 0 shs))) ->
  (case_ok_cont nofix (decls_from 0 shs, ls) && case_ok_cont allfix (decls_from 0 shs, ls)) = true.
Proof. apply (layouts_ok3_forall (fun c => case_ok_cont nofix c && case_ok_cont allfix c)). vm_cast_no_check (eq_refl true). Qed.

(* ---- WHOLE class-typed arguments as link targets --------------------------------------------------------------------
   One argument `--n type=Optional[Base]` (ShTI) at every declaration position of every layout with at most two constructed
   objects; link targets: the parameters of every constructed object and the argument n itself (link(src, "n")).  Every
   sequence of one or two links of which at least one targets n as a whole (a second link into the same whole argument is
   refused by link_arguments for another reason, "No action for key", and is not part of the space). *)
Definition whole_sinks (ds : list decl) : list str :=
  flat_map (fun d => match d_shape d with ShTI => [d_name d] | _ => [] end) ds.

Definition link_choices_w (srcs tgts wholes : list str) (j : nat) : list link :=
  link_choices_t srcs tgts j
  ++ flat_map (fun s =>
       flat_map (fun attr : bool =>
         flat_map (fun n =>
           map (fun fn : bool => {| l_id := j; l_srcs := [if attr then s ++ dot :: s_at else s];
                                    l_target := n; l_fn := fn |}) [false; true]) wholes) [false; true]) srcs.

Definition link_seqs_whole (ds : list decl) : list (list link) :=
  let srcs := map c_dest (components ds) in
  let tgts := tgt_prefixes (components ds) in
  let ws := whole_sinks ds in
  filter (existsb whole_target)
    (map (fun l => [l]) (link_choices_w srcs tgts ws 0)
     ++ flat_map (fun l0 => map (fun l1 => [l0; l1])
                              (filter (fun l1 => negb (whole_target l0 && str_eqb (l_target l0) (l_target l1)))
                                      (link_choices_w srcs tgts ws 1)))
                 (link_choices_w srcs tgts ws 0)).

Definition layouts_whole : list (list shape) := flat_map (insertions ShTI) (shape_lists 2 2).

Definition layout_ok_whole (ok : list decl * list link -> bool) (shs : list shape) : bool :=
  let ds := decls_from 0 shs in forallb (fun ls => ok (ds, ls)) (link_seqs_whole ds).

Lemma layouts_ok_whole_forall ok lays :
  forallb (layout_ok_whole ok) lays = true ->
  forall shs ls, In shs lays -> In ls (link_seqs_whole (decls_from 0 shs)) -> ok (decls_from 0 shs, ls) = true.
Proof.
  intros H shs ls Hs Hl. rewrite forallb_forall in H. specialize (H shs Hs).
  unfold layout_ok_whole in H. rewrite forallb_forall in H. exact (H ls Hl).
Qed.

Lemma small_space_whole_ok :
  forall shs ls, In shs layouts_whole -> In ls (link_seqs_whole (decls_from 0 shs)) ->
  (case_ok nofix (decls_from 0 shs, ls) && case_ok_fixed (decls_from 0 shs, ls)) = true.
Proof. apply (layouts_ok_whole_forall (fun c => case_ok nofix c && case_ok_fixed c)). vm_cast_no_check (eq_refl true). Qed.

Definition whole_space_size : nat :=
  fold_right plus 0 (map (fun shs => length (link_seqs_whole (decls_from 0 shs))) layouts_whole).

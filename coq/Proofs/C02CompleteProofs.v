(* C02, part 2: the repaired model never rejects a value of the right shape; hence the re-check of validate always
   passes, a parse is decided by the first pass alone, and compositionality / order independence lift to whole parses. *)
From JV Require Import Lib.Base Model.TyVal Model.Scalar Model.Ty Spec.Conforms Spec.ConformsRx Spec.C02Defs Proofs.C02Proofs.
From Coq Require Import Permutation.

Section Complete.
Variable yl : str -> lres.
Notation F := all_fixed.
Notation A := (adapt_g all_fixed yl false).

(* ---- the repaired loader never raises ValueError ------------------------------------------------------------------ *)
Lemma yload_no_valerr s : yload F yl s <> LValErr.
Proof. unfold yload. destruct (yl s); simpl; discriminate. Qed.

Lemma load_value_no_valerr st s : load_value F yl st s <> LValErr.
Proof.
  unfold load_value. destruct (str_eqb (strip s) [45%N]); [discriminate|].
  destruct (load_basic s) as [v|].
  - destruct (negb st && is_simple_scalar v); discriminate.
  - pose proof (yload_no_valerr s) as H. destruct (yload F yl s) as [v| |]; try congruence; try discriminate.
    destruct (negb st && is_simple_scalar v); discriminate.
Qed.

Lemma parse_value_no_valerr st v : parse_value F yl st v <> LValErr.
Proof.
  unfold parse_value. destruct v; try discriminate. destruct (strip s); [discriminate|].
  pose proof (load_value_no_valerr st s) as H.
  destruct (load_value F yl st s) as [x| |]; try congruence; try discriminate.
  destruct x; discriminate.
Qed.

Lemma parse_value_str st s x : parse_value F yl st (VStr s) = LVal x -> is_str x = false \/ x = VStr s.
Proof.
  unfold parse_value. destruct (strip s); [intro H; inversion H; now right|].
  destruct (load_value F yl st s) as [y| |]; try discriminate.
  destruct y; intro H; inversion H; subst; auto.
Qed.

Lemma parse_value_nonstr st v : is_str v = false -> parse_value F yl st v = LVal v.
Proof. destruct v; simpl; try discriminate; reflexivity. Qed.

(* ---- shaped values of hashable types are hashable ------------------------------------------------------------------ *)
Lemma hashable_ty_union ts : hashable_ty (TUnion ts) = forallb hashable_ty ts.
Proof. simpl. induction ts as [|t ts IH]; simpl; [reflexivity|]. now rewrite IH. Qed.

Lemma wf_ty_union ts : wf_ty (TUnion ts) = forallb wf_ty ts.
Proof. simpl. induction ts as [|t ts IH]; simpl; [reflexivity|]. now rewrite IH. Qed.

Lemma wf_ty_tuple ts : wf_ty (TTuple ts) = forallb wf_ty ts.
Proof. simpl. induction ts as [|t ts IH]; simpl; [reflexivity|]. now rewrite IH. Qed.

Lemma shaped_hashable : forall t w, hashable_ty t = true -> shaped t w = true -> hashable w = true.
Proof.
  induction t using ty_ind'; intros w Hh Hs; try (simpl in Hh; discriminate);
    try (destruct w; simpl in Hs; try discriminate; reflexivity).
  - (* Literal *) destruct w; try reflexivity; exfalso; simpl in Hs;
      (induction ls as [|a ls' IH]; simpl in Hs; [discriminate|]; destruct a; simpl in Hs; auto).
  - (* Union *) rewrite hashable_ty_union in Hh. rewrite shaped_union in Hs. apply existsb_exists in Hs.
    destruct Hs as [t [Hin Ht]]. rewrite forallb_forall in Hh. rewrite Forall_forall in H. eapply H; eauto.
Qed.

(* ---- completeness of adapt_g ---------------------------------------------------------------------------------------- *)
Definition complete_at (t : ty) : Prop := forall orig v, shaped t v = true -> is_ok (A orig t v) = true.

Lemma all2_length {X Y} (f : X -> Y -> bool) l m : all2 f l m = true -> length m = length l.
Proof.
  revert m. induction l as [|x l IH]; destruct m; simpl; try discriminate; auto.
  rewrite andb_true_iff. intros [_ H]. f_equal. auto.
Qed.

Lemma dict_set_vals k x d kv : In kv (dict_set k x d) -> snd kv = x \/ In (snd kv) (map snd d).
Proof.
  induction d as [|[k' x'] d IH]; simpl.
  - intros [H|[]]; subst; now left.
  - destruct (py_eq k k' && Bool.eqb (hashable k) true); simpl.
    + intros [H|H]; [subst; now left|right; right; now apply in_map].
    + intros [H|H]; [subst; right; now left|]. apply IH in H. destruct H; auto.
Qed.

Lemma int_cast_ok d : forall acc,
  Forall (fun kv => match fst kv with VInt _ => True | _ => False end) d ->
  exists d', fold_left (fun acc kv => match acc with
                           | inr e => inr e
                           | inl d' => match int_of_key (fst kv) with
                                       | inl (Some z) => inl (dict_set (VInt z) (snd kv) d')
                                       | inl None => inr ErrValue
                                       | inr e => inr e
                                       end
                           end) d (inl acc) = inl d'
             /\ forall kv, In kv d' -> In (snd kv) (map snd acc ++ map snd d).
Proof.
  induction d as [|[k x] d IH]; intros acc Hk; simpl.
  - exists acc. split; [reflexivity|]. intros kv Hin. rewrite app_nil_r. now apply in_map.
  - inversion Hk; subst. simpl in H1. destruct k; try contradiction. simpl.
    destruct (IH (dict_set (VInt z) x acc) H2) as [d' [E Hv]]. exists d'. split; [exact E|].
    intros kv Hin. apply Hv in Hin. apply in_app_or in Hin. apply in_or_app. destruct Hin as [Hin|Hin].
    + apply in_map_iff in Hin. destruct Hin as [kv' [E' Hin]]. apply dict_set_vals in Hin. rewrite <- E'.
      destruct Hin as [Hin|Hin]; [right; left; now symmetry|now left].
    + right; now right.
Qed.

Lemma adapt_complete : forall t, wf_ty t = true -> complete_at t.
Proof.
  induction t using ty_ind'; intros Hwf orig v Hs.
  - destruct v; simpl in *; try discriminate; reflexivity.
  - destruct v; simpl in *; try discriminate; reflexivity.
  - destruct v; simpl in *; try discriminate; reflexivity.
  - destruct v; simpl in *; try discriminate; reflexivity.
  - destruct v; simpl in *; try discriminate; reflexivity.
  - (* Any *)
    simpl. destruct v; try reflexivity.
    pose proof (parse_value_no_valerr true (VStr s)) as Hn.
    destruct (parse_value F yl true (VStr s)); try reflexivity. congruence.
  - (* Literal *)
    simpl. simpl in Hs. unfold lmem. simpl. unfold lit_mem_strict. rewrite Hs. simpl. now rewrite Hs.
  - (* Enum *)
    destruct v; simpl in Hs; try discriminate. simpl. now rewrite Hs.
  - (* Union *)
    rewrite union_ok_iff. rewrite shaped_union in Hs. rewrite wf_ty_union in Hwf.
    apply orb_true_iff. left. apply existsb_exists in Hs. destruct Hs as [t [Hin Ht]].
    apply existsb_exists. exists t. split; [exact Hin|].
    rewrite Forall_forall in H. rewrite forallb_forall in Hwf. apply H; auto.
  - (* List *)
    destruct v; simpl in Hs; try discriminate.
    rewrite (list_ok_iff F yl false orig t (VList l) l eq_refl).
    eapply forallb_impl; [|exact Hs]. apply Forall_forall. intros x _ Hx. apply IHt; auto.
  - (* Dict *)
    destruct v; simpl in Hs; try discriminate. destruct b.
    + (* int keys *)
      assert (Hk : Forall (fun kv => match fst kv with VInt _ => True | _ => False end) d).
      { apply Forall_forall. intros kv Hin. rewrite forallb_forall in Hs. apply Hs in Hin.
        destruct (fst kv); simpl in Hin; try discriminate; exact I. }
      destruct (int_cast_ok d [] Hk) as [d' [E Hv]]. simpl. rewrite E.
      assert (Hvals : Forall (fun kv => is_ok (A orig t (snd kv)) = true) d').
      { apply Forall_forall. intros kv Hin. apply Hv in Hin. simpl in Hin. apply in_map_iff in Hin.
        destruct Hin as [kv' [E' Hin]]. rewrite <- E'. rewrite forallb_forall in Hs. apply Hs in Hin.
        apply andb_true_iff in Hin. destruct Hin as [_ Hin]. apply IHt; auto. }
      clear E Hv.
      match goal with |- is_ok (?g d' nil) = true =>
        assert (Hg : forall d'' acc, Forall (fun kv => is_ok (A orig t (snd kv)) = true) d'' -> is_ok (g d'' acc) = true) end.
      { clear. intros d'' acc Hd. revert acc. induction Hd as [|[k x] d'' Hx Hd IH]; intro acc; simpl; [reflexivity|].
        simpl in Hx. destruct (adapt_g F yl false orig t x); [apply IH|discriminate]. }
      apply Hg. exact Hvals.
    + rewrite dict_str_ok_iff. apply andb_true_iff. split.
      * simpl. apply forallb_forall. intros kv Hin. rewrite forallb_forall in Hs. apply Hs in Hin.
        destruct (fst kv); simpl in Hin; try discriminate; reflexivity.
      * eapply forallb_impl; [|exact Hs]. apply Forall_forall. intros kv _ Hkv.
        apply andb_true_iff in Hkv. destruct Hkv as [_ Hkv]. apply IHt; auto.
  - (* Tuple *)
    destruct v; try (simpl in Hs; discriminate). rewrite shaped_tuple in Hs. rewrite wf_ty_tuple in Hwf.
    rewrite (tuple_ok_iff F yl false orig ts (VTuple l) l eq_refl).
    rewrite (all2_length _ _ _ Hs), Nat.eqb_refl. simpl.
    eapply all2_impl; [|exact Hs]. rewrite Forall_forall in H. rewrite forallb_forall in Hwf.
    apply Forall_forall. intros t Hin x Hx. apply H; auto.
  - (* TupleVar *)
    destruct v; simpl in Hs; try discriminate.
    rewrite (tuplevar_ok_iff F yl false orig t (VTuple l) l eq_refl).
    eapply forallb_impl; [|exact Hs]. apply Forall_forall. intros x _ Hx. apply IHt; auto.
  - (* Set *)
    destruct v; simpl in Hs; try discriminate. simpl in Hwf. apply andb_true_iff in Hwf. destruct Hwf as [Hh Hwf].
    simpl.
    assert (Hok : forallb (fun x => is_ok (A orig t x)) l = true).
    { eapply forallb_impl; [|exact Hs]. apply Forall_forall. intros x _ Hx. apply IHt; auto. }
    rewrite <- map_ares_ok in Hok.
    destruct (map_ares (adapt_g F yl false orig t) l) as [[r|]|e] eqn:E; try discriminate.
    assert (Hr : forallb hashable r = true).
    { apply map_ares_spec in E. eapply forallb_Forall2; [exact E|]. apply Forall_forall. intros x _ w Hw.
      eapply shaped_hashable; [exact Hh|]. eapply adapt_sound; exact Hw. }
    now rewrite Hr.
Qed.

(* ---- the first pass never rejects a value of the right shape ------------------------------------------------------ *)
Lemma lit_member_ok orig ls v : shaped (TLit ls) v = true -> A orig (TLit ls) v = AOk v.
Proof.
  intro Hs. simpl. simpl in Hs. unfold lmem. simpl. unfold lit_mem_strict. rewrite Hs. simpl. now rewrite Hs.
Qed.

Lemma no_errtype t s orig x :
  shaped t (VStr s) = true -> (is_str x = false \/ x = VStr s) -> A orig t x <> AErr ErrType.
Proof.
  intros Hs Hx. destruct t; try (simpl in Hs; discriminate).
  - (* str *) simpl. unfold adapt_leaf.
    destruct x; simpl; discriminate.
  - (* Any *) simpl. destruct x; try discriminate.
    destruct (parse_value F yl true (VStr s0)); discriminate.
  - (* Literal *)
    destruct Hx as [Hx|Hx].
    + simpl. rewrite Hx, andb_false_r. destruct (lmem F x ls); discriminate.
    + subst x. rewrite (lit_member_ok orig ls (VStr s) Hs). discriminate.
  - (* Union *) intro E. apply adapt_union_errkind in E. discriminate.
Qed.

Lemma check_type_complete t v0 : wf_ty t = true -> shaped t v0 = true -> is_ok (check_type_g F yl t v0) = true.
Proof.
  intros Hwf Hs. unfold check_type_g. cbv zeta.
  destruct (is_str v0) eqn:Hstr.
  - destruct v0; try discriminate.
    pose proof (parse_value_no_valerr false (VStr s)) as Hn.
    pose proof (adapt_complete t Hwf (Some s) (VStr s) Hs) as Hc.
    destruct (parse_value F yl false (VStr s)) as [x| |] eqn:Ep; [| |congruence].
    + apply parse_value_str in Ep.
      pose proof (no_errtype t s (Some s) x Hs Ep) as Hne.
      destruct (A (Some s) t x) as [w|[|]] eqn:E1; [reflexivity| |congruence].
      destruct (A (Some s) t (VStr s)) as [w|e]; [reflexivity|discriminate].
    + destruct (A (Some s) t (VStr s)) as [w|e]; [reflexivity|discriminate].
  - rewrite (parse_value_nonstr false v0 Hstr).
    assert (Ho : match v0 with VStr s => Some s | _ => None end = None) by (destruct v0; try discriminate; reflexivity).
    rewrite Ho. pose proof (adapt_complete t Hwf None v0 Hs) as Hc.
    destruct (A None t v0) as [w|e]; [reflexivity|discriminate].
Qed.

(* the re-check of validate always passes on what the first pass produced *)
Lemma recheck_ok t v0 w : wf_ty t = true -> check_type_g F yl t v0 = AOk w -> is_ok (check_type_g F yl t w) = true.
Proof. intros Hwf H. apply check_type_complete; [exact Hwf|]. eapply check_type_sound; exact H. Qed.

Lemma parse_key_eq t v0 : wf_ty t = true -> v0 <> VNone -> parse_key_g F yl t v0 = check_type_g F yl t v0.
Proof.
  intros Hwf Hv. unfold parse_key_g.
  assert (Hgen : match check_type_g F yl t v0 with
                 | AOk VNone => AOk VNone
                 | AOk w => match check_type_g F yl t w with AOk _ => AOk w | AErr e => AErr e end
                 | r => r
                 end = check_type_g F yl t v0).
  { destruct (check_type_g F yl t v0) as [w|e] eqn:E; [|reflexivity].
    pose proof (recheck_ok _ _ _ Hwf E) as Hr.
    destruct w; try reflexivity;
      match goal with |- match ?c with _ => _ end = _ => destruct c; [reflexivity|discriminate] end. }
  destruct v0; try congruence; exact Hgen.
Qed.

Lemma accepts_first_pass t v0 : wf_ty t = true -> v0 <> VNone -> accepts F yl t v0 = is_ok (check_type_g F yl t v0).
Proof. intros. unfold accepts. now rewrite parse_key_eq. Qed.

Lemma parse_key_complete t v0 : wf_ty t = true -> shaped t v0 = true -> accepts F yl t v0 = true.
Proof.
  intros Hwf Hs. destruct (match v0 with VNone => true | _ => false end) eqn:Hn.
  - destruct v0; try discriminate. reflexivity.
  - rewrite accepts_first_pass; [now apply check_type_complete|exact Hwf|intro; subst; discriminate].
Qed.

(* ---- whole parses: Python objects (not a str, not None) are decided by adapt_g alone ------------------------------ *)
Lemma accepts_object t v0 : wf_ty t = true -> is_str v0 = false -> v0 <> VNone ->
  accepts F yl t v0 = accepts_item F yl t v0.
Proof.
  intros Hwf Hstr Hn. rewrite accepts_first_pass by assumption. unfold accepts_item, check_type_g. cbv zeta.
  rewrite (parse_value_nonstr false v0 Hstr).
  assert (Ho : match v0 with VStr s => Some s | _ => None end = None) by (destruct v0; try discriminate; reflexivity).
  rewrite Ho. destruct (A None t v0) as [w|[|]]; try reflexivity.
  - unfold is_valid_string. rewrite Hstr. reflexivity.
  - unfold is_valid_string. rewrite Hstr. reflexivity.
Qed.

Lemma perm_forallb {X} (f : X -> bool) l l' : Permutation l l' -> forallb f l = forallb f l'.
Proof. induction 1; simpl; try congruence. destruct (f x), (f y); reflexivity. Qed.

Lemma union_perm_parse ts ts' v0 : wf_ty (TUnion ts) = true -> Permutation ts ts' ->
  accepts F yl (TUnion ts) v0 = accepts F yl (TUnion ts') v0.
Proof.
  intros Hwf HP.
  assert (Hwf' : wf_ty (TUnion ts') = true) by (rewrite wf_ty_union in *; now rewrite <- (perm_forallb _ _ _ HP)).
  destruct (match v0 with VNone => true | _ => false end) eqn:Hn.
  - destruct v0; try discriminate. reflexivity.
  - assert (Hv : v0 <> VNone) by (intro; subst; discriminate).
    rewrite !accepts_first_pass by assumption. now apply check_type_union_perm.
Qed.

Lemma union_members_parse ts v0 : wf_ty (TUnion ts) = true -> is_str v0 = false -> v0 <> VNone ->
  accepts F yl (TUnion ts) v0 = existsb (fun t => accepts F yl t v0) ts.
Proof.
  intros Hwf Hstr Hn. rewrite accepts_object by assumption. unfold accepts_item. rewrite union_ok_iff.
  unfold str_fallback. simpl. rewrite orb_false_r. rewrite wf_ty_union in Hwf. rewrite forallb_forall in Hwf.
  clear -Hwf Hstr Hn. induction ts as [|t ts IH]; simpl; [reflexivity|].
  rewrite (accepts_object t v0) by (auto; apply Hwf; now left). unfold accepts_item.
  f_equal. apply IH. intros x Hx. apply Hwf. now right.
Qed.

Lemma list_items_parse t l : wf_ty t = true ->
  accepts F yl (TList t) (VList l) = forallb (accepts_item F yl t) l.
Proof.
  intro Hwf. rewrite accepts_object by (auto; discriminate). unfold accepts_item.
  apply (list_ok_iff F yl false None t (VList l) l eq_refl).
Qed.

Lemma tuple_items_parse ts l : wf_ty (TTuple ts) = true ->
  accepts F yl (TTuple ts) (VTuple l) = Nat.eqb (length l) (length ts) && all2 (accepts_item F yl) ts l.
Proof.
  intro Hwf. rewrite accepts_object by (auto; discriminate). unfold accepts_item.
  apply (tuple_ok_iff F yl false None ts (VTuple l) l eq_refl).
Qed.

Lemma dict_items_parse t d : wf_ty t = true ->
  accepts F yl (TDict false t) (VDict d)
  = forallb (fun kv => is_str (fst kv)) d && forallb (fun kv => accepts_item F yl t (snd kv)) d.
Proof.
  intro Hwf. rewrite accepts_object by (auto; discriminate). unfold accepts_item.
  apply (dict_str_ok_iff F yl false None t d).
Qed.

(* a Set is accepted exactly when every item is accepted (the items' results are hashable because the item type is) *)
Lemma set_ok_iff t v l orig : hashable_ty t = true -> seq_items v = Some l ->
  is_ok (A orig (TSet t) v) = forallb (fun x => is_ok (A orig t x)) l.
Proof.
  intros Hh Hs. rewrite <- map_ares_ok. simpl. rewrite Hs.
  destruct (map_ares (adapt_g F yl false orig t) l) as [[r|]|e] eqn:E; try reflexivity.
  assert (Hr : forallb hashable r = true).
  { apply map_ares_spec in E. eapply forallb_Forall2; [exact E|]. apply Forall_forall. intros x _ w Hw.
    eapply shaped_hashable; [exact Hh|]. eapply adapt_sound; exact Hw. }
  now rewrite Hr.
Qed.

Lemma set_items_parse t v l : wf_ty (TSet t) = true -> seq_items v = Some l ->
  accepts F yl (TSet t) v = forallb (accepts_item F yl t) l.
Proof.
  intros Hwf Hs. pose proof Hwf as Hwf'. simpl in Hwf'. apply andb_true_iff in Hwf'. destruct Hwf' as [Hh _].
  rewrite accepts_object; [|exact Hwf|destruct v; try discriminate; reflexivity|destruct v; discriminate].
  unfold accepts_item. now apply set_ok_iff.
Qed.

End Complete.

(* C04 — the pipeline of Model/C04Sources.v computes, for every declared key, the documented fold of
   Spec/C04Spec.v.  Structure: a representation relation  rep t st  between a namespace tree and a
   spec state, preserved source by source. *)
From JV Require Import Lib.Base Lib.C04Base Model.C04Sources Spec.C04Spec Model.C04Wf
  Proofs.C04Tree Proofs.C04Merge.

(* ---- the spec fold, key by key ------------------------------------------------------------------------------ *)
Definition effect (o : op) (prev : val) : val :=
  match o with
  | Set_ v => v
  | Append v => VList (list_so_far prev ++ appended v)
  | DictItem i z => VDict (dict_set i z (dict_so_far prev))
  end.

Lemma apply_assignment_put st a :
  apply_assignment st a = put (fst a) (effect (snd a) (lookup (fst a) st)) st.
Proof. destruct a as [k o]. destruct o; reflexivity. Qed.

Lemma alist_get_put k k' v st :
  alist_get k (put k' v st) = if path_eqb k k' then Some v else alist_get k st.
Proof.
  induction st as [|[k1 v1] st IH]; simpl.
  - reflexivity.
  - destruct (path_eqb k' k1) eqn:E1; simpl.
    + apply path_eqb_spec in E1. subst k1. destruct (path_eqb k k'); reflexivity.
    + destruct (path_eqb k k1) eqn:E2.
      * apply path_eqb_spec in E2. subst k1. rewrite path_eqb_sym, E1. reflexivity.
      * exact IH.
Qed.

Lemma lookup_put k k' v st : lookup k (put k' v st) = if path_eqb k k' then v else lookup k st.
Proof. unfold lookup. rewrite alist_get_put. destruct (path_eqb k k'); reflexivity. Qed.

Definition akey (k : tpath) (a : assignment) : bool := path_eqb k (fst a).

(* a document that mentions each key once *)
Lemma fold_doc_get doc : forall st k,
  nodup_paths (map fst doc) = true ->
  alist_get k (fold_left apply_assignment doc st) =
  match find (akey k) doc with
  | Some a => Some (effect (snd a) (lookup k st))
  | None => alist_get k st
  end.
Proof.
  induction doc as [|a doc IH]; intros st k N; [reflexivity|].
  simpl in N. apply andb_true_iff in N. destruct N as [N1 N2]. apply negb_true_iff in N1.
  simpl. rewrite IH by auto. rewrite apply_assignment_put. unfold akey at 2.
  destruct (path_eqb k (fst a)) eqn:E.
  - apply path_eqb_spec in E. subst k.
    destruct (find (akey (fst a)) doc) as [b|] eqn:F.
    + exfalso. apply find_some in F. destruct F as [Ib Eb]. unfold akey in Eb. apply path_eqb_spec in Eb.
      assert (existsb (path_eqb (fst a)) (map fst doc) = true); [|congruence].
      apply existsb_path_In. rewrite Eb. apply in_map; auto.
    + rewrite alist_get_put, path_eqb_refl. reflexivity.
  - rewrite lookup_put, alist_get_put, E. reflexivity.
Qed.

(* keys no assignment mentions keep their value: the "what must not change" half *)
Lemma fold_untouched asgs : forall st k,
  (forall a, In a asgs -> fst a <> k) ->
  alist_get k (fold_left apply_assignment asgs st) = alist_get k st.
Proof.
  induction asgs as [|a asgs IH]; intros st k NT; [reflexivity|].
  simpl. rewrite IH by (intros; apply NT; right; auto).
  rewrite apply_assignment_put, alist_get_put.
  assert (path_eqb k (fst a) = false) as ->; [|reflexivity].
  apply path_eqb_neq. intros E. apply (NT a); auto. left; auto.
Qed.

Lemma fold_left_concat {A B} (f : A -> B -> A) (ls : list (list B)) : forall a,
  fold_left f (concat ls) a = fold_left (fun acc l => fold_left f l acc) ls a.
Proof. induction ls as [|l ls IH]; intros a; simpl; auto. rewrite fold_left_app. apply IH. Qed.

Lemma check_append_spec prev v : check_append prev v = VList (list_so_far prev ++ appended v).
Proof. destruct prev, v; reflexivity. Qed.

Lemma check_nested_spec prev i z : check_nested prev i z = VDict (dict_set i z (dict_so_far prev)).
Proof. destruct prev; reflexivity. Qed.

Lemma alist_get_find {A} k (l : list (tpath * A)) :
  alist_get k l = option_map snd (find (fun kv => path_eqb k (fst kv)) l).
Proof. induction l as [|[k' v] l IH]; simpl; auto. destruct (path_eqb k k'); auto. Qed.

Section WithParser.
Variable p : parser.
Hypothesis WF : wf_parser p = true.

Notation good := (good p).
Notation goodfrom := (goodfrom p).

(* ---- documents ---------------------------------------------------------------------------------------------------- *)
Lemma wf_doc_asg_decl a : wf_doc_asg p a = true ->
  exists d, In d p /\ d_key d = fst a /\
    match snd a with Set_ _ => True | Append _ => d_kind d = KList | DictItem _ _ => False end.
Proof.
  unfold wf_doc_asg. rewrite find_decl_eq. destruct (find_action p (fst a)) as [d|] eqn:F; [|discriminate].
  apply find_action_some in F. destruct F as [I E]. intros W. exists d. split; auto. split; auto.
  destruct (snd a); auto; [|discriminate]. destruct (d_kind d); auto; discriminate.
Qed.

Lemma wf_doc_parts d : wf_doc p d = true ->
  (forall a, In a d -> wf_doc_asg p a = true) /\ nodup_paths (map fst d) = true.
Proof.
  unfold wf_doc. intros W. apply andb_true_iff in W. destruct W as [W1 W2]. split; auto.
  apply forallb_forall; auto.
Qed.

Definition kv_of (a : assignment) : tpath * val := (asg_key a, asg_val a).

Lemma load_config_is_fold d : load_config d = fold_left setf (map kv_of d) (Br FNil).
Proof. unfold load_config. rewrite fold_left_map. reflexivity. Qed.

Lemma asg_key_cases a : wf_doc_asg p a = true ->
  exists d, In d p /\ d_key d = fst a /\
   ((asg_key a = d_key d /\ exists v, snd a = Set_ v) \/
    (asg_key a = mark (d_key d) /\ d_kind d = KList /\ exists v, snd a = Append v)).
Proof.
  intros W. destruct (wf_doc_asg_decl a W) as (d & I & E & K). exists d. split; auto. split; auto.
  unfold asg_key. destruct (snd a) eqn:S.
  - left. split; eauto.
  - right. rewrite E. split; eauto.
  - contradiction.
Qed.

Lemma strip_asg_key a : wf_doc_asg p a = true -> strip (asg_key a) = fst a.
Proof.
  intros W. destruct (asg_key_cases a W) as (d & I & E & [[-> _] | [-> _]]);
    destruct (wf_decl p WF d I) as [_ U]; rewrite <- E.
  - apply strip_unflagged; auto.
  - apply strip_mark; auto.
Qed.

Lemma load_config_sem d : wf_doc p d = true ->
  goodfrom (load_config d) /\
  forall k v, lget k (load_config d) = Some v <-> exists a, In a d /\ asg_key a = k /\ asg_val a = v.
Proof.
  intros W. destruct (wf_doc_parts d W) as [WA ND].
  assert (forall a b, In a d -> In b d -> asg_key a = asg_key b -> a = b) as INJ.
  { intros a b Ia Ib E. eapply (nodup_paths_inj fst); eauto.
    rewrite <- (strip_asg_key a), <- (strip_asg_key b); auto. congruence. }
  assert (forall a, In a d -> In (asg_key a) (all_keys p)) as AK.
  { intros a Ia. destruct (asg_key_cases a (WA a Ia)) as (d0 & I & E & [[-> _] | [-> _]]);
      apply in_all_keys; auto. }
  assert (forall k v, lget k (load_config d) = Some v -> exists a, In a d /\ asg_key a = k) as INV.
  { intros k v H. rewrite load_config_is_fold in H. apply fold_setf_inv in H.
    destruct H as [(kv & I & E) | H]; [|rewrite lget_empty in H; discriminate].
    apply in_map_iff in I. destruct I as (a & <- & Ia). exists a. auto. }
  split; [split|].
  - rewrite load_config_is_fold. apply fold_setf_uniq. reflexivity.
  - intros k v H. destruct (INV k v H) as (a & Ia & <-).
    destruct (asg_key_cases a (WA a Ia)) as (d0 & I & E & [[-> _] | [-> [K _]]]); exists d0; auto.
  - intros k v. split.
    + intros H. destruct (INV k v H) as (a & Ia & E). exists a. split; auto. split; auto.
      rewrite load_config_is_fold in H. rewrite fold_setf_lget in H.
      * destruct (find (key_is k) (map kv_of d)) as [kv|] eqn:F.
        -- apply find_some in F. destruct F as [Ikv Ek]. apply in_map_iff in Ikv.
           destruct Ikv as (b & <- & Ib). unfold key_is in Ek. simpl in Ek. apply path_eqb_spec in Ek.
           assert (a = b) by (apply INJ; auto; congruence). subst b. simpl in H. congruence.
        -- rewrite lget_empty in H. discriminate.
      * intros kv Ikv. apply in_map_iff in Ikv. destruct Ikv as (b & <- & Ib). simpl.
        subst k. split; apply (wf_incomp p WF); auto.
      * intros kv kv' Ikv Ikv' Ek. apply in_map_iff in Ikv, Ikv'.
        destruct Ikv as (b & <- & Ib). destruct Ikv' as (b' & <- & Ib'). simpl in *.
        rewrite (INJ b b'); auto.
    + intros (a & Ia & Ek & Ev). rewrite load_config_is_fold. rewrite fold_setf_lget.
      * destruct (find (key_is k) (map kv_of d)) as [kv|] eqn:F.
        -- apply find_some in F. destruct F as [Ikv Ek']. apply in_map_iff in Ikv.
           destruct Ikv as (b & <- & Ib). unfold key_is in Ek'. simpl in Ek'. apply path_eqb_spec in Ek'.
           assert (a = b) by (apply INJ; auto; congruence). subst b. simpl. congruence.
        -- exfalso. eapply find_none in F; [|apply in_map; exact Ia].
           unfold key_is, kv_of in F. simpl in F. rewrite Ek, path_eqb_refl in F. discriminate.
      * intros kv Ikv. apply in_map_iff in Ikv. destruct Ikv as (b & <- & Ib). simpl.
        subst k. split; apply (wf_incomp p WF); auto.
      * intros kv kv' Ikv Ikv' Ek'. apply in_map_iff in Ikv, Ikv'.
        destruct Ikv as (b & <- & Ib). destruct Ikv' as (b' & <- & Ib'). simpl in *.
        rewrite (INJ b b'); auto.
Qed.

(* the two keys a declared argument can have in a loaded document, in terms of the document *)
Lemma load_config_keys d dc : wf_doc p d = true -> In dc p ->
  lget (d_key dc) (load_config d) =
    match find (akey (d_key dc)) d with
    | Some (_, Set_ v) => Some v
    | _ => None
    end /\
  lget (mark (d_key dc)) (load_config d) =
    match find (akey (d_key dc)) d with
    | Some (_, Append v) => Some v
    | _ => None
    end.
Proof.
  intros W I. destruct (load_config_sem d W) as [_ S]. destruct (wf_doc_parts d W) as [WA ND].
  destruct (wf_decl p WF dc I) as [NE UF].
  assert (forall a, In a d -> fst a = d_key dc -> find (akey (d_key dc)) d = Some a) as FIN.
  { intros a Ia E. rewrite <- E. apply (find_key_in fst); auto. }
  (* which assignments produce the plain key and the marked key *)
  assert (forall a, In a d -> asg_key a = d_key dc -> fst a = d_key dc /\ exists v, snd a = Set_ v) as PL.
  { intros a Ia E. destruct (asg_key_cases a (WA a Ia)) as (d0 & I0 & E0 & [[E1 X] | [E1 _]]).
    - split; auto. congruence.
    - exfalso. rewrite E1 in E. destruct (wf_decl p WF d0 I0) as [N0 _]. eapply mark_neq; eauto. }
  assert (forall a, In a d -> asg_key a = mark (d_key dc) -> fst a = d_key dc /\ exists v, snd a = Append v) as MK.
  { intros a Ia E. destruct (asg_key_cases a (WA a Ia)) as (d0 & I0 & E0 & [[E1 _] | [E1 [_ X]]]).
    - exfalso. rewrite E1 in E. destruct (wf_decl p WF d0 I0) as [_ U0]. symmetry in E. eapply mark_neq; eauto.
    - split; auto. rewrite E1 in E. apply mark_inj in E; auto; [congruence|]. apply (wf_decl p WF d0 I0). }
  split.
  - destruct (lget (d_key dc) (load_config d)) as [v|] eqn:G.
    + apply S in G. destruct G as (a & Ia & Ek & Ev). destruct (PL a Ia Ek) as [Ef (w & Es)].
      rewrite (FIN a Ia Ef). destruct a as [k o]. simpl in *. subst o. unfold asg_val in Ev. simpl in Ev. congruence.
    + destruct (find (akey (d_key dc)) d) as [[k o]|] eqn:F; auto.
      destruct o; auto. exfalso.
      apply (find_key_some fst) in F. destruct F as [Ia Ef]. simpl in Ef.
      assert (lget (d_key dc) (load_config d) = Some v); [|congruence].
      apply S. exists (k, Set_ v). split; auto.
  - destruct (lget (mark (d_key dc)) (load_config d)) as [v|] eqn:G.
    + apply S in G. destruct G as (a & Ia & Ek & Ev). destruct (MK a Ia Ek) as [Ef (w & Es)].
      rewrite (FIN a Ia Ef). destruct a as [k o]. simpl in *. subst o. unfold asg_val in Ev. simpl in Ev. congruence.
    + destruct (find (akey (d_key dc)) d) as [[k o]|] eqn:F; auto.
      destruct o; auto. exfalso.
      apply (find_key_some fst) in F. destruct F as [Ia Ef]. simpl in Ef.
      assert (lget (mark (d_key dc)) (load_config d) = Some v); [|congruence].
      apply S. exists (k, Append v). split; auto. split; auto. unfold asg_key. simpl. congruence.
Qed.

(* ---- the representation relation --------------------------------------------------------------------------------- *)
Definition rep (t : node) (st : state) : Prop :=
  good t /\ forall d, In d p -> lget (d_key d) t = alist_get (d_key d) st.

Lemma rep_lookup t st d : rep t st -> In d p -> prev_val d t = lookup (d_key d) st.
Proof. intros [_ R] I. unfold prev_val, lookup. rewrite R; auto. Qed.

(* merge_config(load(doc), cfg) is the fold of the document's assignments over cfg *)
Lemma merge_doc t st d :
  rep t st -> wf_doc p d = true ->
  rep (merge_config p (load_config d) t) (fold_left apply_assignment d st).
Proof.
  intros [G R] W. destruct (load_config_sem d W) as [GF _]. destruct (wf_doc_parts d W) as [WA ND].
  destruct (merge_sem p WF _ _ GF G) as [GM M]. split; auto.
  intros dc I. rewrite M by auto. rewrite fold_doc_get by auto.
  destruct (load_config_keys d dc W I) as [E1 E2]. rewrite E1, E2.
  destruct (find (akey (d_key dc)) d) as [[k o]|] eqn:F.
  - destruct o as [v|v|i z]; simpl.
    + reflexivity.
    + rewrite check_append_spec. unfold lookup. rewrite <- R by auto. reflexivity.
    + exfalso. apply (find_key_some fst) in F. destruct F as [Ia _].
      destruct (wf_doc_asg_decl _ (WA _ Ia)) as (dX & _ & _ & X). exact X.
  - apply R; auto.
Qed.

(* ActionConfigFile.apply_config: the merged namespace written back into cfg *)
Lemma apply_config_doc t st d :
  rep t st -> wf_doc p d = true ->
  rep (apply_config p t d) (fold_left apply_assignment d st).
Proof.
  intros Rt W. pose proof (merge_doc t st d Rt W) as [[Um Dm] Rm]. destruct Rt as [[Ut Dt] R].
  unfold apply_config. set (m := merge_config p (load_config d) t) in *.
  assert (forall k, lget k (Br (f_update (kids t) (kids m))) =
                    match k with
                    | [] => None
                    | a :: k' => match f_get a (kids m) with Some c => lget k' c | None => lget k t end
                    end) as L.
  { intros [|a k']; [reflexivity|]. rewrite lget_cons. cbn [kids].
    rewrite f_get_update by (apply uniq_kids; auto).
    destruct (f_get a (kids m)); auto. rewrite lget_cons. reflexivity. }
  split; [split|].
  - simpl. apply uniq_f_update; apply uniq_kids; auto.
  - intros k v H. rewrite L in H. destruct k as [|a k']; [discriminate|].
    destruct (f_get a (kids m)) eqn:G.
    + apply (Dm (a :: k') v). rewrite lget_cons, G. exact H.
    + eapply Dt; eauto.
  - intros dc I. rewrite <- Rm by auto. rewrite L.
    destruct (wf_decl p WF dc I) as [NE _]. destruct (d_key dc) as [|a k'] eqn:K; [congruence|].
    rewrite (lget_cons a k' m). destruct (f_get a (kids m)) eqn:G; auto.
    (* the top-level name is missing in the merged namespace: then the key was not in cfg either *)
    destruct (lget (a :: k') t) as [v|] eqn:H; auto. exfalso.
    assert (lget (d_key dc) m <> None) as NN.
    { unfold m. destruct (load_config_sem d W) as [GF _].
      destruct (merge_sem p WF _ _ GF (conj Ut Dt)) as [_ M]. rewrite M by auto. rewrite K, H.
      destruct (lget (mark (a :: k')) (load_config d)); [discriminate|].
      destruct (lget (a :: k') (load_config d)); discriminate. }
    apply NN. rewrite K, lget_cons, G. reflexivity.
Qed.

(* ---- a plain assignment ------------------------------------------------------------------------------------------------- *)
Lemma set_rep t st dc v :
  rep t st -> In dc p -> rep (ns_set (d_key dc) (Leaf v) t) (put (d_key dc) v st).
Proof.
  intros [[U D] R] I. destruct (in_all_keys p dc I) as [A _]. split; [split|].
  - apply uniq_set; auto.
  - intros k w H. apply lget_set_inv in H. destruct H as [-> | H]; [exists dc; auto | eapply D; eauto].
  - intros d Id. destruct (in_all_keys p d Id) as [Ad _].
    rewrite lget_set by (apply (wf_incomp p WF); auto). rewrite alist_get_put.
    destruct (path_eqb (d_key d) (d_key dc)); auto.
Qed.

(* ---- get_defaults ------------------------------------------------------------------------------------------------------ *)
Lemma declared_defaults_rep :
  rep (Model.C04Sources.declared_defaults p) (fold_left apply_assignment (Spec.C04Spec.declared_defaults p) []).
Proof.
  unfold Model.C04Sources.declared_defaults, Spec.C04Spec.declared_defaults.
  rewrite fold_left_map.
  assert (forall q t st, (forall d, In d q -> In d p) -> rep t st ->
            rep (fold_left (fun cfg d => ns_set (d_key d) (Leaf (d_default d)) cfg) q t)
                (fold_left (fun acc d => apply_assignment acc (d_key d, Set_ (d_default d))) q st)) as H.
  { induction q as [|d q IH]; intros t st Q Rt; simpl; auto.
    apply IH; [intros; apply Q; right; auto|].
    apply set_rep; auto. apply Q. left; auto. }
  apply H; auto. split; [apply good_empty|]. intros d I. rewrite lget_empty. reflexivity.
Qed.

Lemma files_rep files : forall t st,
  rep t st -> (forall f, In f files -> wf_doc p f = true) ->
  rep (fold_left (fun cfg file => match file with [] => cfg | _ => merge_config p (load_config file) cfg end) files t)
      (fold_left apply_assignment (concat files) st).
Proof.
  induction files as [|f files IH]; intros t st R W; simpl; auto.
  rewrite fold_left_app. apply IH; [|intros; apply W; right; auto].
  destruct f as [|a f']; auto.
  apply merge_doc; auto. apply W. left; auto.
Qed.

Lemma sort_matches_in {A} (l : list (str * A)) x : In x (sort_matches l) -> In x l.
Proof.
  unfold sort_matches. induction l as [|y l IH]; simpl; auto.
  assert (forall z m, In x (insert_match z m) -> x = z \/ In x m) as INS.
  { intros z m. induction m as [|w m IHm]; simpl.
    - intros [E|[]]; auto.
    - destruct (str_leb (fst z) (fst w)); simpl; intros [E|H]; auto.
      destruct (IHm H); auto. }
  intros H. apply INS in H. destruct H; auto.
Qed.

Lemma default_files_wf pats :
  forallb (fun m => forallb (fun nd : str * doc => wf_doc p (snd nd)) m) pats = true ->
  forall f, In f (default_config_files pats) -> wf_doc p f = true.
Proof.
  intros W f I. unfold default_config_files in I. apply in_concat in I. destruct I as (l & Il & If).
  apply in_map_iff in Il. destruct Il as (m & <- & Im).
  apply in_map_iff in If. destruct If as (nd & <- & Ind). apply sort_matches_in in Ind.
  rewrite forallb_forall in W. specialize (W m Im). rewrite forallb_forall in W. apply W; auto.
Qed.

(* ---- the environment ---------------------------------------------------------------------------------------------------- *)
Definition envvar_state (envvars : list (tpath * val)) (q : list decl) (st : state) : state :=
  fold_left (fun acc d => match alist_get (d_key d) envvars with Some v => put (d_key d) v acc | None => acc end) q st.

Lemma envvars_rep envvars q : forall t st,
  rep t st -> (forall d, In d q -> In d p) ->
  rep (fold_left (fun cfg d => match alist_get (d_key d) envvars with
                               | Some v => ns_set (d_key d) (Leaf v) cfg | None => cfg end) q t)
      (envvar_state envvars q st).
Proof.
  unfold envvar_state. induction q as [|d1 q IH]; intros t st R Q; simpl; auto.
  apply IH; [|intros; apply Q; right; auto].
  destruct (alist_get (d_key d1) envvars); auto. apply set_rep; auto. apply Q. left; auto.
Qed.

Lemma envvar_state_get envvars q : forall st k,
  alist_get k (envvar_state envvars q st) =
  if existsb (fun d => path_eqb k (d_key d)) q
  then match alist_get k envvars with Some v => Some v | None => alist_get k st end
  else alist_get k st.
Proof.
  unfold envvar_state. induction q as [|d1 q IH]; intros st k; simpl; auto.
  rewrite IH. destruct (path_eqb k (d_key d1)) eqn:E; simpl.
  - apply path_eqb_spec in E. subst k.
    destruct (alist_get (d_key d1) envvars) as [v|] eqn:G.
    + rewrite alist_get_put, path_eqb_refl.
      destruct (existsb (fun d => path_eqb (d_key d1) (d_key d)) q); reflexivity.
    + destruct (existsb (fun d => path_eqb (d_key d1) (d_key d)) q); reflexivity.
  - destruct (alist_get (d_key d1) envvars) as [v|]; auto.
    rewrite alist_get_put, E. reflexivity.
Qed.

Definition env_sets (envvars : list (tpath * val)) : doc := map (fun kv => (fst kv, Set_ (snd kv))) envvars.

Lemma find_env_sets k envvars :
  find (akey k) (env_sets envvars) =
  match alist_get k envvars with Some v => Some (k, Set_ v) | None => None end.
Proof.
  unfold env_sets. induction envvars as [|[k' v] l IH]; simpl; auto.
  unfold akey at 1. simpl. destruct (path_eqb k k') eqn:E; auto.
  apply path_eqb_spec in E. subst. reflexivity.
Qed.

(* merge_config(cfg_env, cfg) against the documented fold of the two environment sources *)
Lemma env_rep t st envcfg envvars :
  rep t st ->
  wf_doc p envcfg = true -> wf_doc p (env_sets envvars) = true ->
  (forall a v, In a envcfg -> snd a = Append v -> list_so_far (lookup (fst a) st) = []) ->
  rep (merge_config p
         (fold_left (fun cfg d => match alist_get (d_key d) envvars with
                                  | Some v => ns_set (d_key d) (Leaf v) cfg | None => cfg end) p
                    (apply_config p (Br FNil) envcfg)) t)
      (fold_left apply_assignment (env_sets envvars) (fold_left apply_assignment envcfg st)).
Proof.
  intros Rt Wc Wv GUARD.
  assert (rep (Br FNil) []) as R0.
  { split; [apply good_empty|]. intros d I. rewrite lget_empty. reflexivity. }
  pose proof (apply_config_doc _ _ envcfg R0 Wc) as R1.
  pose proof (envvars_rep envvars p _ _ R1 (fun d I => I)) as [Ge Re].
  destruct Rt as [Gt Rt].
  destruct (merge_sem p WF _ _ (good_goodfrom p _ Ge) Gt) as [GM M]. split; auto.
  intros d I. rewrite M by auto. rewrite (good_no_mark p WF _ d Ge I).
  rewrite Re, Rt by auto. rewrite envvar_state_get.
  assert (existsb (fun d0 => path_eqb (d_key d) (d_key d0)) p = true) as ->.
  { apply existsb_exists. exists d. split; auto. apply path_eqb_refl. }
  destruct (wf_doc_parts envcfg Wc) as [WAc NDc]. destruct (wf_doc_parts _ Wv) as [_ NDv].
  rewrite (fold_doc_get (env_sets envvars)) by auto. rewrite find_env_sets.
  destruct (alist_get (d_key d) envvars) as [v|]; [reflexivity|].
  rewrite !fold_doc_get by auto.
  destruct (find (akey (d_key d)) envcfg) as [a|] eqn:F; [|reflexivity].
  apply (find_key_some fst) in F. destruct F as [Ia Ea].
  f_equal. destruct (snd a) as [w|w|i z] eqn:S; simpl.
  - reflexivity.
  - rewrite <- Ea. rewrite (GUARD a w Ia S). reflexivity.
  - exfalso. destruct (wf_doc_asg_decl _ (WAc _ Ia)) as (dX & _ & _ & X). rewrite S in X. exact X.
Qed.

(* ---- one command line item -------------------------------------------------------------------------------------------- *)
Lemma find_parent_action_item dc i :
  In dc p -> find_parent_action p (d_key dc ++ [(i, false)]) = Some (dc, [(i, false)]).
Proof.
  intros I. destruct (wf_decl p WF dc I) as [NE _].
  unfold find_parent_action. rewrite rev_app_distr. simpl.
  destruct (rev (d_key dc)) as [|a r] eqn:E.
  - exfalso. apply NE. rewrite <- (rev_involutive (d_key dc)), E. reflexivity.
  - simpl. change (rev r ++ [a]) with (rev (a :: r)). rewrite <- E, rev_involutive.
    rewrite find_action_in by auto. reflexivity.
Qed.

Lemma ppb_app k x : ppb k (k ++ [x]) = true.
Proof. induction k as [|a k IH]; simpl; auto. rewrite name_eqb_refl. exact IH. Qed.

Lemma is_plus_snoc k i : is_plus (k ++ [(i, false)]) = false.
Proof.
  induction k as [|a k IH]; simpl; auto.
  destruct (k ++ [(i, false)]) eqn:E; [destruct k; discriminate|]. destruct a. exact IH.
Qed.

Lemma find_action_item dc i : In dc p -> find_action p (d_key dc ++ [(i, false)]) = None.
Proof.
  intros I. destruct (find_action p (d_key dc ++ [(i, false)])) as [d'|] eqn:F; auto.
  apply find_action_some in F. destruct F as [I' E]. exfalso.
  pose proof (wf_incomp p WF (d_key dc) (d_key d')) as X.
  rewrite E, ppb_app in X. destruct (in_all_keys p dc I), (in_all_keys p d' I').
  rewrite E in *. discriminate X; auto.
Qed.

Lemma arg_rep t st x :
  rep t st -> wf_arg p (AAsg x) = true ->
  exists t', argv_step p t (AAsg x) = Ok t' /\ rep t' (apply_assignment st x).
Proof.
  intros R W. destruct x as [k o]. simpl in W. unfold argv_step, render_arg. simpl.
  destruct o as [v|v|i z].
  - destruct (wf_doc_asg_decl _ W) as (dc & I & E & _). simpl in E. subst k.
    unfold option_step. rewrite find_action_in by auto.
    eexists. split; [reflexivity|]. simpl. apply set_rep; auto.
  - destruct (wf_doc_asg_decl _ W) as (dc & I & E & K). simpl in E, K. subst k.
    destruct (wf_decl p WF dc I) as [NE UF].
    unfold option_step. rewrite find_action_mark by auto. rewrite is_plus_mark by auto.
    rewrite strip_mark by auto. rewrite find_action_in by auto.
    unfold supports_append. rewrite K.
    eexists. split; [reflexivity|]. simpl.
    rewrite check_append_spec. rewrite (rep_lookup t st dc R I). apply set_rep; auto.
  - rewrite find_decl_eq in W. destruct (find_action p k) as [dc|] eqn:F; [|discriminate].
    apply find_action_some in F. destruct F as [I E]. subst k.
    destruct (d_kind dc) eqn:K; try discriminate.
    unfold option_step. rewrite find_action_item by auto. rewrite is_plus_snoc.
    rewrite find_parent_action_item by auto. rewrite K.
    eexists. split; [reflexivity|]. simpl.
    rewrite check_nested_spec. rewrite (rep_lookup t st dc R I). apply set_rep; auto.
Qed.

Definition arg_doc (a : arg) : doc := match a with AAsg x => [x] | ACfg d => d end.

Lemma argv_rep argv : forall t st,
  rep t st -> forallb (wf_arg p) argv = true ->
  exists t', argv_fold p t argv = Ok t' /\
    rep t' (fold_left apply_assignment (concat (map arg_doc argv)) st).
Proof.
  induction argv as [|a argv IH]; intros t st R W; simpl.
  - exists t. auto.
  - simpl in W. apply andb_true_iff in W. destruct W as [Wa W].
    rewrite fold_left_app. destruct a as [x|d].
    + destruct (arg_rep t st x R Wa) as (t1 & E1 & R1). rewrite E1.
      apply IH; auto.
    + simpl. apply IH; auto. apply apply_config_doc; auto.
Qed.

End WithParser.

(* ---- the whole call ------------------------------------------------------------------------------------------------------- *)
Lemma env_enabled_spec c : env_enabled c = env_is_source c.
Proof.
  unfold env_enabled, env_is_source, default_env_effective.
  destruct (c_entry c); auto; destruct (c_env_arg c); auto.
Qed.

Lemma envcfg_append_false c d :
  envcfg_append c = false -> env_is_source c = true -> c_envcfg c = Some d ->
  forall a v, In a d -> snd a = Append v -> list_so_far (lookup (fst a) (before_environment c)) = [].
Proof.
  unfold envcfg_append. intros G E C a v I S. rewrite E, C in G. simpl in G.
  destruct (list_so_far (lookup (fst a) (before_environment c))) eqn:L; auto. exfalso.
  assert (existsb (fun a => match snd a with
                            | Append _ => match list_so_far (lookup (fst a) (before_environment c)) with
                                          | [] => false | _ => true end
                            | _ => false end) d = true); [|congruence].
  apply existsb_exists. exists a. split; auto. rewrite S, L. reflexivity.
Qed.

Definition final_state_of (c : call) : state := fold_sources c.

Lemma defaults_and_environ_rep c :
  wf_call c = true -> envcfg_append c = false ->
  rep (c_parser c) (defaults_and_environ c)
      (fold_left apply_assignment (concat (early_sources c ++ environment c)) []).
Proof.
  intros W G. unfold wf_call in W.
  apply andb_true_iff in W. destruct W as [W We].
  apply andb_true_iff in W. destruct W as [W Wv].
  apply andb_true_iff in W. destruct W as [W Wc].
  apply andb_true_iff in W. destruct W as [WF Wp].
  set (p := c_parser c) in *.
  assert (rep p (get_defaults p (c_patterns c)) (before_environment c)) as R0.
  { unfold get_defaults, before_environment, early_sources. simpl concat. rewrite fold_left_app.
    apply files_rep; auto.
    - apply declared_defaults_rep; auto.
    - apply default_files_wf; auto. }
  unfold defaults_and_environ. fold p. rewrite env_enabled_spec.
  rewrite concat_app, fold_left_app. fold (before_environment c).
  unfold environment. destruct (env_is_source c) eqn:E.
  - simpl concat. rewrite app_nil_r, fold_left_app.
    unfold load_env_vars.
    destruct (c_envcfg c) as [d|] eqn:C.
    + apply env_rep; auto. eapply envcfg_append_false; eauto.
    + pose proof (env_rep p WF _ _ [] (c_envvars c) R0) as H. simpl in H.
      assert (apply_config p (Br FNil) [] = Br FNil) as X by reflexivity.
      rewrite X in H. apply H; auto. intros a v [].
  - simpl. exact R0.
Qed.

Theorem precedence_lemma c :
  wf_call c = true -> envcfg_append c = false ->
  exists t, pipeline c = Ok t /\
    rep (c_parser c) t (fold_sources c).
Proof.
  intros W G. pose proof (defaults_and_environ_rep c W G) as R.
  assert (wf_parser (c_parser c) = true /\ wf_entry (c_parser c) (c_entry c) = true) as [WF We].
  { unfold wf_call in W. apply andb_true_iff in W. destruct W as [W We']. split; [|exact We'].
    do 3 (apply andb_true_iff in W; destruct W as [W _]). exact W. }
  unfold fold_sources, sources_in_documented_order. rewrite app_assoc, concat_app, fold_left_app.
  unfold pipeline, given. destruct (c_entry c) as [argv| |d|d]; simpl in We.
  - destruct (argv_rep _ WF argv _ _ R We) as (t & E & Rt). exists t. split; auto.
  - eexists. split; [reflexivity|]. simpl. exact R.
  - eexists. split; [reflexivity|]. simpl. rewrite app_nil_r. apply merge_doc; auto.
  - eexists. split; [reflexivity|]. simpl. rewrite app_nil_r. apply merge_doc; auto.
Qed.

(* In terms of what is observed: every declared key has the value of the documented fold, and no
   other key is left in the result. *)
Lemma rep_observe p t st :
  wf_parser p = true -> rep p t st ->
  observe_values p t = map (fun d => lookup (d_key d) st) p /\ observe_extra p t = false.
Proof.
  intros WF [[U D] R]. split.
  - unfold observe_values. apply map_ext_in. intros d I. unfold lookup. rewrite R; auto.
  - unfold observe_extra. destruct (existsb (fun k => negb (declared p k)) (keys t)) eqn:E; auto. exfalso.
    apply existsb_exists in E. destruct E as (k & I & N).
    unfold keys in I. apply in_map_iff in I. destruct I as ([k' v] & E & I). simpl in E. subst k'.
    apply items_lget in I; auto. destruct (D _ _ I) as (d & Id & ->).
    apply negb_true_iff in N. unfold declared in N.
    assert (existsb (fun d0 => path_eqb (d_key d0) (d_key d)) p = true); [|congruence].
    apply existsb_exists. exists d. split; auto. apply path_eqb_refl.
Qed.

(* C07 — "table equivalence => same parse, for ALL inputs".
   T is any table of leaf actions below the group key gk; T' = with_load gk T is the same table with the
   group's _ActionConfigLoad row in front (what the three grouped styles build).  For every pair of loaders
   pv / jl and every input that does not address the group key itself (finding classes 1-3 of
   Model/C07Parse.v), the whole pipeline  defaults -> environment -> argv/object/string -> validation -> dump
   computes the same thing on T' and on T.  Proof: a simulation carried through every stage with the invariant
   `clean` (the result never holds a string or null AS the group). *)
From JV Require Import Lib.Base Model.C07Decl Model.C07Parse.

(* ---------------- generic list lemmas ---------------- *)
Lemma find_none_all {A} (f : A -> bool) l : (forall x, In x l -> f x = false) -> find f l = None.
Proof.
  induction l as [|a l IH]; simpl; intro H; [reflexivity|].
  rewrite (H a (or_introl eq_refl)). apply IH. intros x Hx. apply H. right. exact Hx.
Qed.

Lemma map_opt_ext_in {A B} (f g : A -> option B) l :
  (forall x, In x l -> f x = g x) -> map_opt f l = map_opt g l.
Proof.
  induction l as [|a l IH]; simpl; intro H; [reflexivity|].
  rewrite (H a (or_introl eq_refl)), IH; [reflexivity|]. intros x Hx. apply H. right. exact Hx.
Qed.

Lemma map_opt_In {A B} (f : A -> option B) l r y :
  map_opt f l = Some r -> In y r -> exists x, In x l /\ f x = Some y.
Proof.
  revert r. induction l as [|a l IH]; simpl; intros r H Hy.
  - inversion H; subst. destruct Hy.
  - destruct (f a) as [b|] eqn:Ea; [|discriminate].
    destruct (map_opt f l) as [r'|] eqn:El; [|discriminate].
    inversion H; subst. destruct Hy as [<-|Hy].
    + exists a. split; [left; reflexivity | exact Ea].
    + destruct (IH r' eq_refl Hy) as [x [Hx Hf]]. exists x. split; [right; exact Hx | exact Hf].
Qed.

Lemma existsb_false_In {A} (p : A -> bool) l x : existsb p l = false -> In x l -> p x = false.
Proof.
  intros H Hx. destruct (p x) eqn:E; [|reflexivity].
  assert (existsb p l = true) by (apply existsb_exists; exists x; split; assumption). congruence.
Qed.

Lemma forallb_ext_in {A} (f g : A -> bool) l :
  (forall x, In x l -> f x = g x) -> forallb f l = forallb g l.
Proof.
  induction l as [|a l IH]; simpl; intro H; [reflexivity|].
  rewrite (H a (or_introl eq_refl)), IH; [reflexivity|]. intros x Hx. apply H. right. exact Hx.
Qed.

Lemma fold_left_ext_in {A B} (f g : A -> B -> A) l :
  (forall a x, In x l -> f a x = g a x) -> forall a, fold_left f l a = fold_left g l a.
Proof.
  induction l as [|b l IH]; simpl; intros H a; [reflexivity|].
  rewrite (H a b (or_introl eq_refl)). apply IH. intros a' x Hx. apply H. right. exact Hx.
Qed.

Lemma fold_left_inv {A B} (P : A -> Prop) (f : A -> B -> A) l :
  (forall a x, In x l -> P a -> P (f a x)) -> forall a, P a -> P (fold_left f l a).
Proof.
  induction l as [|b l IH]; simpl; intros H a Ha; [exact Ha|].
  apply IH; [intros a' x Hx; apply H; right; exact Hx | apply H; [left; reflexivity | exact Ha]].
Qed.

Lemma mem_str_app x a b : mem_str x (a ++ b) = mem_str x a || mem_str x b.
Proof. induction a as [|y a IH]; simpl; [reflexivity|]. rewrite IH, orb_assoc. reflexivity. Qed.

Lemma In_upsert {A} k (x : A) l k' x' :
  In (k', x') (upsert k x l) -> (k', x') = (k, x) \/ In (k', x') l.
Proof.
  induction l as [|[k0 x0] l IH]; simpl.
  - intros [H|[]]. left. symmetry. exact H.
  - destruct (str_eqb k k0); simpl.
    + intros [H|H]; [left; symmetry; exact H | right; right; exact H].
    + intros [H|H]; [right; left; exact H|]. destruct (IH H) as [E|E]; [left; exact E | right; right; exact E].
Qed.

Lemma lookup_In {A} k (l : list (str * A)) x : lookup k l = Some x -> In (k, x) l.
Proof.
  induction l as [|[k0 x0] l IH]; simpl; [discriminate|].
  destruct (str_eqb k k0) eqn:E.
  - intro H. inversion H; subst. apply str_eqb_spec in E. subst. left. reflexivity.
  - intro H. right. apply IH, H.
Qed.

(* ---------------- strings ---------------- *)
Lemma starts_with_refl s : starts_with s s = true.
Proof. induction s as [|c s IH]; simpl; [reflexivity|]. rewrite N.eqb_refl. exact IH. Qed.

Lemma starts_with_dot s p : starts_with s (p ++ [c_dot]) = true -> has_dot s = true.
Proof.
  unfold has_dot. revert s. induction p as [|c p IH]; intros s; simpl.
  - destruct s as [|d s]; [discriminate|]. intro H. apply andb_true_iff in H. destruct H as [H _].
    apply N.eqb_eq in H. subst. simpl. reflexivity.
  - destruct s as [|d s]; [discriminate|]. intro H. apply andb_true_iff in H. destruct H as [_ H].
    simpl. rewrite (IH s H). apply orb_true_r.
Qed.

Lemma has_dot_replace_dash s : has_dot (replace_dash s) = has_dot s.
Proof.
  unfold has_dot, replace_dash. induction s as [|c s IH]; simpl; [reflexivity|].
  rewrite IH. destruct (N.eqb c c_dash) eqn:E; [|reflexivity].
  apply N.eqb_eq in E. subst. reflexivity.
Qed.

Lemma has_dot_app a b : has_dot (a ++ b) = has_dot a || has_dot b.
Proof. unfold has_dot. apply existsb_app. Qed.

Lemma split_key_nodot s : has_dot s = false -> split_key s = (s, None).
Proof.
  unfold has_dot. induction s as [|c s IH]; simpl; [reflexivity|].
  intro H. apply orb_false_iff in H. destruct H as [Hc Hs]. rewrite Hc, (IH Hs). reflexivity.
Qed.

(* ================================================================================================ *)
Section Sim.
Variable pv : str -> val.
Variable jl : str -> val.
Variable gk : str.
Variable T : table.
Let gd := gdest gk.
Let L := group_load_row gk.
Let T' := with_load gk T.

Hypothesis Hleaf : forall r, In r (t_rows T) -> r_kind r = KLeaf.
Hypothesis Hdest : forall r, In r (t_rows T) -> r_dest r <> gd.
Hypothesis Hbranch : is_branch_key T gd = true.
Hypothesis Hdot : has_dot gk = false.

Lemma gd_nodot : has_dot gd = false.
Proof. unfold gd, gdest. rewrite has_dot_replace_dash. exact Hdot. Qed.

Lemma rows_not_load r : In r (t_rows T) -> is_load r = false.
Proof. intro H. unfold is_load. rewrite (Hleaf r H). reflexivity. Qed.

(* ---------------- table access ---------------- *)
Lemma find_action_with_load d :
  find_action T' d false
  = match find_action T d false with
    | Some r => Some r
    | None => if str_eqb gd d then Some L else None
    end.
Proof.
  unfold find_action. unfold T', with_load. simpl t_rows. simpl find.
  change (r_dest (group_load_row gk)) with gd.
  rewrite andb_false_r.
  destruct (find (fun r => str_eqb (r_dest r) d && negb (is_load r)) (t_rows T)) as [r|]; [reflexivity|].
  rewrite andb_true_r.
  rewrite (find_none_all (fun r => str_eqb (r_dest r) d && is_load r) (t_rows T)).
  - reflexivity.
  - intros x Hx. rewrite (rows_not_load x Hx). apply andb_false_r.
Qed.

Lemma find_action_gd : find_action T gd false = None.
Proof.
  unfold find_action.
  rewrite (find_none_all (fun r => str_eqb (r_dest r) gd && negb (is_load r))).
  - apply find_none_all. intros x Hx. rewrite (rows_not_load x Hx). apply andb_false_r.
  - intros x Hx. destruct (str_eqb (r_dest x) gd) eqn:E; [|reflexivity].
    apply str_eqb_spec in E. contradiction (Hdest x Hx).
Qed.

Lemma is_load_L : is_load L = true.
Proof. reflexivity. Qed.

Lemma is_branch_key_eq key : is_branch_key T' key = is_branch_key T key.
Proof.
  unfold is_branch_key, T', with_load. simpl.
  change (replace_dash gk) with gd.
  destruct (starts_with gd (key ++ [c_dot])) eqn:E; [|reflexivity].
  apply starts_with_dot in E. rewrite gd_nodot in E. discriminate.
Qed.

Lemma dotted_ne_gd k f : k ++ [c_dot] ++ f <> gd.
Proof.
  intro E. pose proof gd_nodot as H. rewrite <- E in H.
  rewrite !has_dot_app in H. simpl in H. rewrite orb_true_r in H. discriminate.
Qed.

Lemma empty_ok_eq key l : empty_ok T' key l = empty_ok T key l.
Proof.
  unfold empty_ok. rewrite find_action_with_load.
  destruct (find_action T key false) as [r|]; [simpl; rewrite !orb_true_r; reflexivity|].
  destruct (str_eqb gd key) eqn:Ek.
  - apply str_eqb_spec in Ek. rewrite <- Ek, Hbranch. simpl. rewrite !orb_true_r. reflexivity.
  - rewrite is_branch_key_eq. reflexivity.
Qed.

Lemma apply_child_eq key name v : apply_child pv jl T' key name v = apply_child pv jl T key name v.
Proof.
  unfold apply_child. rewrite find_action_with_load.
  destruct (find_action T key false) as [r|]; [reflexivity|].
  destruct (str_eqb gd key); reflexivity.
Qed.

Lemma apply_children_eq key name l : apply_children pv jl T' key name l = apply_children pv jl T key name l.
Proof. unfold apply_children. apply map_opt_ext_in. intros kw _. apply apply_child_eq. Qed.

Lemma apply_below_eq key fv : apply_below pv jl T' key fv = apply_below pv jl T key fv.
Proof.
  unfold apply_below. destruct (snd fv); try reflexivity.
  rewrite empty_ok_eq, apply_children_eq. reflexivity.
Qed.

Lemma apply_item_eq g fv : apply_item pv jl T' g fv = apply_item pv jl T g fv.
Proof.
  unfold apply_item. rewrite find_action_with_load.
  destruct (find_action T (g ++ [c_dot] ++ fst fv) false) as [r|].
  - destruct (is_load r); [|reflexivity]. destruct (snd fv) eqn:Ev; rewrite ?apply_below_eq; try reflexivity.
    destruct (pv s); try reflexivity. apply apply_children_eq.
  - destruct (str_eqb gd (g ++ [c_dot] ++ fst fv)) eqn:Ek.
    + apply str_eqb_spec in Ek. symmetry in Ek. contradiction (dotted_ne_gd g (fst fv) Ek).
    + apply apply_below_eq.
Qed.

Lemma apply_group_eq g l : apply_group pv jl T' g l = apply_group pv jl T g l.
Proof.
  unfold apply_group. f_equal. apply map_opt_ext_in. intros fv _. apply apply_item_eq.
Qed.

Lemma load_config_eq g text : load_config pv jl T' g text = load_config pv jl T g text.
Proof. unfold load_config. destruct (pv text); try reflexivity. apply apply_group_eq. Qed.

Lemma expand_eq k x : expand pv jl T' k x = expand pv jl T k x.
Proof. unfold expand. destruct x; try reflexivity. rewrite empty_ok_eq, apply_group_eq. reflexivity. Qed.

Definition not_str (v : val) : bool := match v with VStr _ => false | _ => true end.

Lemma nonmap_not_str v : nonmap v = false -> not_str v = true.
Proof. destruct v; simpl; congruence. Qed.

Lemma apply_top_eq k v :
  (k = gd -> not_str v = true) -> apply_top pv jl T' k v = apply_top pv jl T k v.
Proof.
  intro H. unfold apply_top. rewrite find_action_with_load.
  destruct (find_action T k false) as [r|] eqn:E.
  - destruct (is_load r); [|reflexivity]. destruct v; try apply expand_eq.
    rewrite load_config_eq. reflexivity.
  - destruct (str_eqb gd k) eqn:Ek.
    + apply str_eqb_spec in Ek. rewrite is_load_L.
      destruct v; try apply expand_eq. specialize (H (eq_sym Ek)). discriminate.
    + apply expand_eq.
Qed.

Lemma apply_actions_eq d :
  dict_group_is nonmap gk d = false -> apply_actions pv jl T' d = apply_actions pv jl T d.
Proof.
  intro H. unfold apply_actions. apply map_opt_ext_in. intros kv Hin.
  rewrite apply_top_eq; [reflexivity|]. intro Ek.
  pose proof (existsb_false_In _ _ kv H Hin) as Hp. simpl in Hp.
  fold gd in Hp. rewrite Ek, str_eqb_refl in Hp. simpl in Hp. apply nonmap_not_str, Hp.
Qed.

(* ---------------- the invariant ---------------- *)
Definition tv_clean (x : tv) : bool := match x with TLeaf _ => false | TNs _ => true end.
Definition clean (c : ns) : Prop := forall k x, In (k, x) c -> k = gd -> tv_clean x = true.
Definition rclean (r : res ns) : Prop := match r with Ok c => clean c | _ => True end.

Lemma clean_nil : clean [].
Proof. intros k x []. Qed.

Lemma clean_upsert c k x : clean c -> (k = gd -> tv_clean x = true) -> clean (upsert k x c).
Proof.
  intros Hc Hx k' x' Hin Ek. apply In_upsert in Hin. destruct Hin as [E|Hin].
  - inversion E; subst. apply Hx. reflexivity.
  - eapply Hc; eauto.
Qed.

Lemma clean_set_leaf c g f v : clean c -> clean (set_leaf c g f v).
Proof.
  intro Hc. unfold set_leaf. destruct (lookup g c) as [[?|?]|]; apply clean_upsert; auto.
Qed.

Lemma clean_set_key c dest v : clean c -> dest <> gd -> clean (set_key c dest v).
Proof.
  intros Hc Hd. unfold set_key. destruct (snd (split_key dest)).
  - apply clean_set_leaf, Hc.
  - apply clean_upsert; [exact Hc|]. intro E. contradiction.
Qed.

Lemma clean_update c1 c2 : clean c1 -> clean c2 -> clean (update c1 c2).
Proof.
  intros H1 H2. unfold update.
  apply (fold_left_inv clean); [|exact H1].
  intros c [k x] Hin Hc. simpl. destruct x as [v|l].
  - apply clean_upsert; [exact Hc|]. intro Ek. exact (H2 k (TLeaf v) Hin Ek).
  - apply (fold_left_inv clean); [|exact Hc]. intros c' fv _ Hc'. apply clean_set_leaf, Hc'.
Qed.

Lemma clean_apply_actions d ca :
  dict_group_is nonmap gk d = false -> apply_actions pv jl T d = Some ca -> clean ca.
Proof.
  intros Hg Ha k x Hin Ek. unfold apply_actions in Ha.
  destruct (map_opt_In _ _ _ _ Ha Hin) as [kv [Hkv Hf]].
  destruct (apply_top pv jl T (fst kv) (snd kv)) as [y|] eqn:Et; [|discriminate].
  simpl in Hf. inversion Hf; subst. clear Hf.
  pose proof (existsb_false_In _ _ kv Hg Hkv) as Hp. simpl in Hp.
  fold gd in Hp. rewrite H0, str_eqb_refl in Hp. simpl in Hp.
  unfold apply_top in Et. rewrite H0, find_action_gd in Et.
  unfold expand in Et. destruct (snd kv); simpl in *; try discriminate;
    try (inversion Et; subst; reflexivity).
  destruct (empty_ok T gd l); [|discriminate].
  destruct (apply_group pv jl T gd l); [|discriminate]. inversion Et; subst. reflexivity.
Qed.

(* ---------------- config strings ---------------- *)
Lemma apply_config_eq c text :
  text_group_is pv nonmap gk text = false -> apply_config pv jl T' c text = apply_config pv jl T c text.
Proof.
  unfold text_group_is, apply_config. destruct (pv text); try reflexivity.
  intro H. rewrite (apply_actions_eq _ H). reflexivity.
Qed.

Lemma clean_apply_config c text :
  text_group_is pv nonmap gk text = false -> clean c -> rclean (apply_config pv jl T c text).
Proof.
  unfold text_group_is, apply_config. destruct (pv text); simpl; try exact (fun _ _ => I).
  intros H Hc. destruct (apply_actions pv jl T l) as [cf|] eqn:E; simpl; [|exact I].
  apply clean_update; [exact Hc | eapply clean_apply_actions; eauto].
Qed.

(* ---------------- defaults ---------------- *)
Lemma get_defaults_eq : get_defaults T' = get_defaults T.
Proof. reflexivity. Qed.

Lemma clean_get_defaults : clean (get_defaults T).
Proof.
  unfold get_defaults. apply (fold_left_inv clean); [|apply clean_nil].
  intros c r Hin Hc. destruct (r_default r); [exact Hc|].
  apply clean_set_key; [exact Hc | apply Hdest, Hin].
Qed.

(* ---------------- environment ---------------- *)
Lemma env_step_eq env rc r : env_step pv jl T' env rc r = env_step pv jl T env rc r.
Proof.
  unfold env_step. destruct rc; try reflexivity. simpl.
  destruct (lookup (env_name (r_dest r)) env); [|reflexivity].
  destruct (is_load r); [|reflexivity]. rewrite load_config_eq. reflexivity.
Qed.

Lemma clean_env_step env rc r :
  In r (t_rows T) -> rclean rc -> rclean (env_step pv jl T env rc r).
Proof.
  intros Hin Hc. unfold env_step. destruct rc as [c| |]; simpl; try exact I.
  destruct (lookup (env_name (r_dest r)) env); [|exact Hc].
  rewrite (rows_not_load r Hin).
  destruct (check_leaf pv jl r false (get_key c (r_dest r)) (VStr s)); simpl; [|exact I].
  apply clean_set_key; [exact Hc | apply Hdest, Hin].
Qed.

Definition env_ok (env : list (str * str)) : Prop :=
  lookup (env_name gd) env = None
  /\ match lookup env_cfg env with Some t => text_group_is pv nonmap gk t = false | None => True end.

Lemma load_env_vars_eq env : env_ok env -> load_env_vars pv jl T' env = load_env_vars pv jl T env.
Proof.
  intros [Hg Hc]. unfold load_env_vars.
  assert (E0 : match lookup env_cfg env with Some text => apply_config pv jl T' [] text | None => Ok [] end
               = match lookup env_cfg env with Some text => apply_config pv jl T [] text | None => Ok [] end).
  { destruct (lookup env_cfg env); [apply apply_config_eq, Hc | reflexivity]. }
  rewrite E0. unfold T' at 2. unfold with_load. simpl t_rows. simpl fold_left.
  set (c0 := match lookup env_cfg env with Some text => apply_config pv jl T [] text | None => Ok [] end).
  assert (E1 : env_step pv jl T' env c0 (group_load_row gk) = c0).
  { unfold env_step. destruct c0; try reflexivity. simpl.
    change (replace_dash gk) with gd. rewrite Hg. reflexivity. }
  rewrite E1. apply fold_left_ext_in. intros a x _. apply env_step_eq.
Qed.

Lemma clean_load_env_vars env : env_ok env -> rclean (load_env_vars pv jl T env).
Proof.
  intros [Hg Hc]. unfold load_env_vars.
  apply (fold_left_inv rclean).
  - intros a x Hin Ha. apply clean_env_step; assumption.
  - destruct (lookup env_cfg env); [apply clean_apply_config; [exact Hc | apply clean_nil] | apply clean_nil].
Qed.

Lemma defaults_and_environ_eq env :
  env_ok env -> defaults_and_environ pv jl T' env = defaults_and_environ pv jl T env.
Proof. intro H. unfold defaults_and_environ. rewrite (load_env_vars_eq env H). reflexivity. Qed.

Lemma clean_defaults_and_environ env : env_ok env -> rclean (defaults_and_environ pv jl T env).
Proof.
  intro H. unfold defaults_and_environ. pose proof (clean_load_env_vars env H) as Hc.
  destruct (load_env_vars pv jl T env); simpl; try exact I.
  apply clean_update; [apply clean_get_defaults | exact Hc].
Qed.

(* ---------------- argv ---------------- *)
Lemma all_opts_with_load : all_opts T' = builtin_opts ++ group_opt gk :: flat_map r_opts (t_rows T).
Proof. reflexivity. Qed.

Lemma mem_str_skip opt g (B R : list str) :
  str_eqb opt g = false -> mem_str opt (B ++ g :: R) = mem_str opt (B ++ R).
Proof. intro H. rewrite !mem_str_app. cbn [mem_str]. rewrite H. reflexivity. Qed.

Lemma filter_skip (p : str -> bool) g (B R : list str) :
  p g = false -> filter p (B ++ g :: R) = filter p (B ++ R).
Proof. intro H. rewrite !filter_app. cbn [filter]. rewrite H. reflexivity. Qed.

Lemma resolve_opt_eq opt :
  starts_with (group_opt gk) opt = false -> resolve_opt T' opt = resolve_opt T opt.
Proof.
  intro H. unfold resolve_opt. rewrite all_opts_with_load. unfold all_opts.
  assert (Hne : str_eqb opt (group_opt gk) = false).
  { destruct (str_eqb opt (group_opt gk)) eqn:E; [|reflexivity].
    apply str_eqb_spec in E. subst. rewrite starts_with_refl in H. discriminate. }
  rewrite (mem_str_skip _ _ _ _ Hne).
  rewrite (filter_skip (fun o => starts_with o opt) _ _ _ H). reflexivity.
Qed.

Lemma resolve_opt_found opt o : resolve_opt T opt = Found o -> starts_with o opt = true.
Proof.
  unfold resolve_opt. destruct (mem_str opt (all_opts T)).
  - intro E. inversion E; subst. apply starts_with_refl.
  - destruct (filter (fun o0 => starts_with o0 opt) (all_opts T)) as [|o1 [|o2 l]] eqn:Ef; try discriminate.
    intro E. inversion E; subst.
    assert (Hin : In o (filter (fun o0 => starts_with o0 opt) (all_opts T))) by (rewrite Ef; left; reflexivity).
    apply filter_In in Hin. exact (proj2 Hin).
Qed.

Definition item_ok (it : str * str) : Prop :=
  starts_with (group_opt gk) (fst it) = false /\ text_group_is pv nonmap gk (snd it) = false.

Lemma find_opt_with_load o :
  str_eqb o (dashes ++ gk) = false ->
  find (fun r => mem_str o (r_opts r)) (t_rows T') = find (fun r => mem_str o (r_opts r)) (t_rows T).
Proof.
  intro H. unfold T', with_load. cbn [t_rows find group_load_row r_opts mem_str]. rewrite H. reflexivity.
Qed.

Lemma argv_step_eq rc it : item_ok it -> argv_step pv jl T' rc it = argv_step pv jl T rc it.
Proof.
  intros [Ho Ht]. unfold argv_step. destruct rc; try reflexivity. cbn [bind].
  rewrite (resolve_opt_eq _ Ho).
  destruct (resolve_opt T (fst it)) as [o| |] eqn:Er; try reflexivity.
  destruct (str_eqb o s_cfg); [apply apply_config_eq, Ht|].
  destruct (mem_str o builtin_opts); [reflexivity|].
  assert (Hne : str_eqb o (dashes ++ gk) = false).
  { destruct (str_eqb o (dashes ++ gk)) eqn:E; [|reflexivity].
    apply str_eqb_spec in E. apply resolve_opt_found in Er. rewrite E in Er.
    unfold group_opt in Ho. congruence. }
  rewrite (find_opt_with_load o Hne).
  destruct (find (fun r => mem_str o (r_opts r)) (t_rows T)) as [r|]; [|reflexivity].
  destruct (is_load r); [|reflexivity]. rewrite load_config_eq. reflexivity.
Qed.

Lemma clean_argv_step rc it : item_ok it -> rclean rc -> rclean (argv_step pv jl T rc it).
Proof.
  intros [Ho Ht] Hc. unfold argv_step. destruct rc as [c| |]; cbn [bind]; try exact I.
  destruct (resolve_opt T (fst it)) as [o| |]; try exact I.
  destruct (str_eqb o s_cfg); [apply clean_apply_config; assumption|].
  destruct (mem_str o builtin_opts); [exact I|].
  destruct (find (fun r => mem_str o (r_opts r)) (t_rows T)) as [r|] eqn:Ef; [|exact I].
  apply find_some in Ef. destruct Ef as [Hin _].
  rewrite (rows_not_load r Hin).
  destruct (r_ty r) as [t|]; [|exact I].
  destruct (check_type pv jl t _ _ _); [|exact I].
  cbn [rclean]. apply clean_set_key; [exact Hc | apply Hdest, Hin].
Qed.

(* ---------------- validation ---------------- *)
Lemma check_values_leaf_eq c key v :
  key <> gd -> check_values_leaf pv jl T' c key v = check_values_leaf pv jl T c key v.
Proof.
  intro H. unfold check_values_leaf. rewrite find_action_with_load.
  destruct (find_action T key false) as [r|] eqn:E.
  - destruct (is_load r); [|reflexivity]. destruct v; try reflexivity. rewrite load_config_eq. reflexivity.
  - destruct (str_eqb gd key) eqn:Ek.
    + apply str_eqb_spec in Ek. contradiction H. symmetry. exact Ek.
    + rewrite is_branch_key_eq. reflexivity.
Qed.


Lemma check_values_eq c : clean c -> check_values pv jl T' c = check_values pv jl T c.
Proof.
  intro Hc. unfold check_values. apply forallb_ext_in. intros [k x] Hin. simpl.
  destruct x as [v|l].
  - apply check_values_leaf_eq. intro Ek. pose proof (Hc k (TLeaf v) Hin Ek) as Hv. discriminate.
  - apply forallb_ext_in. intros fv _. apply check_values_leaf_eq. apply dotted_ne_gd.
Qed.

Lemma validate_eq c : clean c -> validate pv jl T' c = validate pv jl T c.
Proof. intro Hc. unfold validate. rewrite (check_values_eq c Hc). reflexivity. Qed.

(* ---------------- dump ---------------- *)
Lemma dump_eq c : clean c -> dump T' c = dump T c.
Proof.
  intro Hc. unfold dump, T', with_load. simpl t_rows. simpl fold_left.
  change (replace_dash gk) with gd.
  assert (E : is_none_at c gd = false).
  { unfold is_none_at. rewrite (split_key_nodot gd gd_nodot). simpl.
    destruct (lookup gd c) as [[v|l]|] eqn:El; try reflexivity.
    apply lookup_In in El. pose proof (Hc gd (TLeaf v) El eq_refl) as Hv. discriminate. }
  rewrite E. reflexivity.
Qed.

(* ---------------- the whole run ---------------- *)
Definition entry_ok (e : entry) : Prop :=
  match e with
  | EArgs items => forall it, In it items -> item_ok it
  | EObject d => dict_group_is nonmap gk d = false
  | EString text => text_group_is pv nonmap gk text = false
  end.

Lemma argv_fold_eq items :
  (forall it, In it items -> item_ok it) ->
  forall rc, fold_left (argv_step pv jl T') items rc = fold_left (argv_step pv jl T) items rc.
Proof. intro H. apply fold_left_ext_in. intros a x Hx. apply argv_step_eq, H, Hx. Qed.

Lemma clean_argv_fold items rc :
  (forall it, In it items -> item_ok it) -> rclean rc -> rclean (fold_left (argv_step pv jl T) items rc).
Proof.
  intros H Hc. apply (fold_left_inv rclean); [|exact Hc].
  intros a x Hx Ha. apply clean_argv_step; [apply H, Hx | exact Ha].
Qed.

Lemma run_with_load inp :
  env_ok (i_env inp) -> entry_ok (i_entry inp) -> run pv jl T' inp = run pv jl T inp.
Proof.
  intros He Hen. unfold run, parse. rewrite (defaults_and_environ_eq _ He).
  pose proof (clean_defaults_and_environ _ He) as Hc0.
  destruct (defaults_and_environ pv jl T (i_env inp)) as [c0| |]; try reflexivity. simpl in *.
  destruct (i_entry inp) as [items|d|text]; simpl in Hen.
  - rewrite (argv_fold_eq items Hen).
    pose proof (clean_argv_fold items (Ok c0) Hen Hc0) as Hc.
    destruct (fold_left (argv_step pv jl T) items (Ok c0)) as [c| |]; try reflexivity. simpl in *.
    rewrite (validate_eq c Hc). unfold validate.
    destruct (check_values pv jl T c && check_required T c); try reflexivity. simpl.
    rewrite (dump_eq c Hc). reflexivity.
  - rewrite (apply_actions_eq d Hen).
    destruct (apply_actions pv jl T d) as [ca|] eqn:Ea; try reflexivity. simpl.
    assert (Hc : clean (update c0 ca)) by (apply clean_update; [exact Hc0 | eapply clean_apply_actions; eauto]).
    rewrite (validate_eq _ Hc). unfold validate.
    destruct (check_values pv jl T (update c0 ca) && check_required T (update c0 ca)); try reflexivity. simpl.
    rewrite (dump_eq _ Hc). reflexivity.
  - unfold text_group_is in Hen. destruct (pv text); try reflexivity.
    rewrite (apply_actions_eq l Hen).
    destruct (apply_actions pv jl T l) as [ca|] eqn:Ea; try reflexivity. simpl.
    assert (Hc : clean (update c0 ca)) by (apply clean_update; [exact Hc0 | eapply clean_apply_actions; eauto]).
    rewrite (validate_eq _ Hc). unfold validate.
    destruct (check_values pv jl T (update c0 ca) && check_required T (update c0 ca)); try reflexivity. simpl.
    rewrite (dump_eq _ Hc). reflexivity.
Qed.

(* the boolean guards of Model/C07Parse.v give the Prop-level conditions *)
Lemma guards_ok inp :
  argv_names_group gk inp = false -> env_names_group gk inp = false -> config_group_nonmap pv gk inp = false ->
  env_ok (i_env inp) /\ entry_ok (i_entry inp).
Proof.
  unfold argv_names_group, env_names_group, config_group_nonmap, config_group_is, env_ok, entry_ok.
  intros Ha He Hc. apply orb_false_iff in Hc. destruct Hc as [Hc1 Hc2]. split; [split|].
  - fold gd in He. destruct (lookup (env_name gd) (i_env inp)); [discriminate | reflexivity].
  - destruct (lookup env_cfg (i_env inp)); [exact Hc1 | exact I].
  - destruct (i_entry inp) as [items|d|text]; try assumption.
    intros it Hin. split; [exact (existsb_false_In _ _ it Ha Hin) | exact (existsb_false_In _ _ it Hc2 Hin)].
Qed.

End Sim.

(* C13 — the flagged resolver of Model/C13KwargsFx.v with no flag set IS the resolver of Model/Kwargs.v
   (and its guard IS KwargsGuard.klass): the repaired model is a conservative extension, so the theorems
   proved about `resolve` under `klass_top = 0` are statements about `resolve_fx no_fixes`. *)
From JV Require Import Lib.Base Model.Kwargs Model.KwargsGuard Model.C13KwargsFx.

Lemma class_frame_nofx fuel P c : class_frame_fx no_fixes fuel P c = class_frame Resolver fuel P c.
Proof. reflexivity. Qed.

Lemma callee_frame_nofx fuel P fr k :
  callee_frame_fx no_fixes fuel P fr k = callee_frame Resolver fuel P fr k.
Proof. destruct k; reflexivity. Qed.

Lemma group_nofx lists : group_fx no_fixes lists = group lists.
Proof. unfold group_fx, group. destruct lists as [|[b l] [|x r]]; reflexivity. Qed.

Lemma collect_nofx rec1 rec2 cf1 cf2 :
  (forall fr, rec1 fr = rec2 fr) -> (forall k, cf1 k = cf2 k) ->
  forall body pre, collect_fx no_fixes rec1 cf1 body pre = collect rec2 cf2 body.
Proof.
  intros Hr Hc. induction body as [|s body IH]; intro pre; [reflexivity|].
  destruct s as [pop n k z|c npos given]; cbn [collect_fx collect].
  - rewrite IH. reflexivity.
  - rewrite Hc. destruct (cf2 c) as [[fr0|]|e]; try rewrite Hr; try rewrite IH; reflexivity.
Qed.

Lemma ast_step_nofx rec1 rec2 cf1 cf2 fr :
  (forall fr, rec1 fr = rec2 fr) -> (forall k, cf1 k = cf2 k) ->
  ast_step_fx no_fixes rec1 cf1 fr = ast_step rec2 cf2 fr.
Proof.
  intros Hr Hc. unfold ast_step_fx, ast_step.
  rewrite (collect_nofx rec1 rec2 cf1 cf2 Hr Hc).
  destruct (negb (f_kw (fr_fn fr))); [reflexivity|].
  destruct (collect rec2 cf2 (f_body (fr_fn fr))) as [[lists removed]|e]; [|reflexivity].
  rewrite group_nofx. reflexivity.
Qed.

Lemma resolve_frame_nofx : forall fuel P fr, resolve_frame_fx no_fixes fuel P fr = resolve_frame fuel P fr.
Proof.
  induction fuel as [|f' IH]; intros P fr; [reflexivity|].
  cbn [resolve_frame_fx resolve_frame].
  rewrite (ast_step_nofx (resolve_frame_fx no_fixes f' P) (resolve_frame f' P)
             (callee_frame_fx no_fixes f' P fr) (callee_frame Resolver f' P fr) fr).
  - reflexivity.
  - intro fr0. apply IH.
  - intro k. apply callee_frame_nofx.
Qed.

Lemma resolve_nofx fuel P c : resolve_fx no_fixes fuel P c = resolve fuel P c.
Proof.
  unfold resolve_fx, resolve. rewrite class_frame_nofx.
  destruct (class_frame Resolver fuel P c) as [[fr|]|e]; try reflexivity. apply resolve_frame_nofx.
Qed.

Lemma class_agree_nofx fuel P c : class_agree_fx no_fixes fuel P c = class_agree fuel P c.
Proof. unfold class_agree_fx, class_agree. destruct (c3 fuel P c); reflexivity. Qed.

Lemma callee_agree_nofx fuel P fr k : callee_agree_fx no_fixes fuel P fr k = callee_agree fuel P fr k.
Proof.
  destruct k; reflexivity.
Qed.

Lemma klass_nofx : forall fuel P fr, klass_fx no_fixes fuel P fr = klass fuel P fr.
Proof.
  induction fuel as [|f' IH]; intros P fr; [reflexivity|].
  cbn [klass_fx klass].
  rewrite (ast_step_nofx (resolve_frame_fx no_fixes f' P) (resolve_frame f' P)
             (callee_frame_fx no_fixes f' P fr) (callee_frame Resolver f' P fr) fr
             (resolve_frame_nofx f' P) (callee_frame_nofx f' P fr)).
  destruct (negb (nodup_strs (map sp_name (f_params (fr_fn fr))))); [reflexivity|].
  destruct (negb (f_kw (fr_fn fr))); [reflexivity|].
  destruct (negb (single_use (f_body (fr_fn fr)))); [reflexivity|].
  destruct (ast_step (resolve_frame f' P) (callee_frame Resolver f' P fr) fr) as [R0|e]; [|reflexivity].
  destruct (find_call (f_body (fr_fn fr)) []) as [[[[k npos] given] pre]|]; [|reflexivity].
  rewrite callee_frame_nofx, callee_agree_nofx.
  destruct (callee_frame Resolver f' P fr k) as [[fr'|]|e'].
  - rewrite IH, resolve_frame_nofx.
    destruct (callee_agree f' P fr k); [reflexivity|].
    destruct (callee_frame Interp f' P fr k) as [[fi|]|e'']; try rewrite IH; reflexivity.
  - destruct (callee_agree f' P fr k); [reflexivity|].
    destruct (callee_frame Interp f' P fr k) as [[fi|]|e'']; try rewrite IH; reflexivity.
  - destruct (callee_agree f' P fr k); [reflexivity|].
    destruct (callee_frame Interp f' P fr k) as [[fi|]|e'']; try rewrite IH; reflexivity.
Qed.

Lemma klass_top_nofx fuel P c : klass_top_fx no_fixes fuel P c = klass_top fuel P c.
Proof.
  unfold klass_top_fx, klass_top. rewrite class_frame_nofx, class_agree_nofx.
  destruct (class_frame Resolver fuel P c) as [[fr|]|e]; try rewrite klass_nofx;
    destruct (class_agree fuel P c); try reflexivity;
    destruct (class_frame Interp fuel P c) as [[fi|]|e2]; try rewrite klass_nofx; reflexivity.
Qed.

(* C11 — further lemmas: step-by-step reading = dotted reading for keys of any depth. *)
From JV Require Import Lib.Base Model.Ns Model.NsRun Model.NsGuard Spec.NestedDict Spec.NestedDictRun Proofs.NsProofs.

Arguments mark : simpl never.
Arguments unmark : simpl never.
Arguments str_eqb : simpl never.
Arguments N.eqb : simpl never.

(* a name that can be one segment of a key: no dot, no space, not empty *)
Definition seg_ok (a : str) : bool := negb (mem_N DOT a) && negb (mem_N SPACE a) && negb (is_empty a).

(* "s1.s2.....sn" *)
Fixpoint join_segs (a : str) (rest : list str) : str :=
  match rest with
  | [] => a
  | b :: r => a ++ DOT :: join_segs b r
  end.

Lemma seg_ok_inv a : seg_ok a = true -> mem_N DOT a = false /\ mem_N SPACE a = false /\ is_empty a = false.
Proof.
  unfold seg_ok. intros H. apply andb_true_iff in H. destruct H as [H H3].
  apply andb_true_iff in H. destruct H as [H1 H2].
  apply negb_true_iff in H1, H2, H3. auto.
Qed.

Lemma split_join a rest : seg_ok a = true -> forallb seg_ok rest = true ->
  split_key (join_segs a rest) = a :: rest.
Proof.
  revert a. induction rest as [|b r IH]; intros a Ha Hr; simpl.
  - apply seg_ok_inv in Ha. destruct Ha as (H1 & _ & _). unfold split_key.
    rewrite split_dot_aux_nodot by assumption. reflexivity.
  - simpl in Hr. apply andb_true_iff in Hr. destruct Hr as [Hb Hr].
    pose proof (seg_ok_inv a Ha) as (H1 & _ & _). unfold split_key.
    rewrite split_dot_aux_app by assumption. simpl. f_equal. exact (IH b Hb Hr).
Qed.

Section WithClash.
Variable clash : list str.
Notation mark := (mark clash).
Notation mk := (map mark).

Lemma parse_join a rest : seg_ok a = true -> forallb seg_ok rest = true ->
  parse_key clash (join_segs a rest) = Some (mk (a :: rest)).
Proof.
  revert a. induction rest as [|b r IH]; intros a Ha Hr; simpl.
  - apply seg_ok_inv in Ha. destruct Ha as (H1 & H2 & H3). now apply parse_key_single.
  - simpl in Hr. apply andb_true_iff in Hr. destruct Hr as [Hb Hr].
    pose proof (seg_ok_inv a Ha) as (H1 & H2 & H3).
    rewrite parse_key_dotted by assumption. rewrite (IH b Hb Hr). reflexivity.
Qed.

(* dotted reading on parsed segments *)
Definition get_parsed (ks : list str) (d : alist) : res val :=
  match walk (removelast ks) (VNs d) with
  | Some (VNs d') => match aget (last ks []) d' with Some v => Ok v | None => Fail end
  | _ => Fail
  end.

Lemma getitem_join a rest root : seg_ok a = true -> forallb seg_ok rest = true ->
  ns_getitem clash (join_segs a rest) root = get_parsed (mk (a :: rest)) root.
Proof.
  intros Ha Hr. unfold ns_getitem. rewrite (parse_join a rest Ha Hr). reflexivity.
Qed.

Lemma getitem_single a d : seg_ok a = true ->
  ns_getitem clash a d = match aget (mark a) d with Some v => Ok v | None => Fail end.
Proof.
  intros Ha. apply seg_ok_inv in Ha. destruct Ha as (H1 & H2 & H3).
  unfold ns_getitem. rewrite parse_key_single by assumption. reflexivity.
Qed.

Lemma steps_eq_parsed rest : forall a d, seg_ok a = true -> forallb seg_ok rest = true ->
  walk_meets_dict (removelast (mk (a :: rest))) (VNs d) = false ->
  get_steps clash (a :: rest) (VNs d) = get_parsed (mk (a :: rest)) d.
Proof.
  induction rest as [|b r IH]; intros a d Ha Hr G.
  - simpl. rewrite getitem_single by assumption. unfold get_parsed. simpl.
    destruct (aget (mark a) d); reflexivity.
  - simpl in Hr. apply andb_true_iff in Hr. destruct Hr as [Hb Hr].
    change (get_steps clash (a :: b :: r) (VNs d))
      with (match ns_getitem clash a d with Ok v => get_steps clash (b :: r) v | Fail => Fail end).
    rewrite getitem_single by assumption.
    unfold get_parsed.
    change (removelast (mk (a :: b :: r))) with (mark a :: removelast (mk (b :: r))) in *.
    change (last (mk (a :: b :: r)) []) with (last (mk (b :: r)) []).
    simpl walk. simpl walk_meets_dict in G.
    destruct (aget (mark a) d) as [v|]; [|reflexivity].
    destruct v; try reflexivity.
    + now rewrite meets_dict_vdict in G.
    + rewrite (IH b d0 Hb Hr G). reflexivity.
Qed.

Lemma stepwise_eq_dotted_proof a rest root : seg_ok a = true -> forallb seg_ok rest = true ->
  meets_dict clash (join_segs a rest) root = false ->
  ns_get_steps clash (join_segs a rest) root = ns_getitem clash (join_segs a rest) root.
Proof.
  intros Ha Hr G. unfold ns_get_steps. rewrite (split_join a rest Ha Hr).
  rewrite (getitem_join a rest root Ha Hr).
  unfold meets_dict in G. rewrite (parse_join a rest Ha Hr) in G.
  exact (steps_eq_parsed rest a root Ha Hr G).
Qed.

End WithClash.

(* C07 — the statements of Properties/C07.v: the table theorems of C07TableProofs.v put together with the
   simulation of C07ParseProofs.v, and the witnesses of the findings (kernel-evaluated). *)
From JV Require Import Lib.Base Model.C07Decl Model.C07Parse Proofs.C07TableProofs Proofs.C07ParseProofs
  Proofs.C07MemberProofs.

(* a table of leaf actions that all live below the group key *)
Definition leaf_table (gk : str) (T : table) : Prop :=
  (forall r, In r (t_rows T) -> r_kind r = KLeaf)
  /\ (forall r, In r (t_rows T) -> r_dest r <> gdest gk)
  /\ is_branch_key T (gdest gk) = true.

(* ---- table equivalence => same parse and same dump, for all loaders and all inputs in the guard ---- *)
Lemma equiv_tables_same_parse pv jl gk T inp :
  leaf_table gk T -> has_dot gk = false ->
  argv_names_group gk inp = false -> env_names_group gk inp = false -> config_group_nonmap pv gk inp = false ->
  run pv jl (with_load gk T) inp = run pv jl T inp.
Proof.
  intros [Hl [Hd Hb]] Hdot Ha He Hc.
  destruct (guards_ok pv gk inp Ha He Hc) as [Henv Hentry].
  apply run_with_load; assumption.
Qed.

Lemma starts_with_app a b : starts_with (a ++ b) a = true.
Proof. induction a as [|c a IH]; simpl; [destruct b; reflexivity|]. rewrite N.eqb_refl. exact IH. Qed.

Lemma dotted_leaf_table gk fs : has_dot gk = false -> fs <> [] -> leaf_table gk (as_dotted gk fs).
Proof.
  intros Hdot Hne. split; [|split].
  - intros r Hr. eapply dotted_rows_leaf; eauto.
  - intros r Hr E. destruct (dotted_rows_dest gk fs r Hr) as [n Hn].
    assert (H : has_dot (gdest gk) = false) by (unfold gdest; rewrite has_dot_replace_dash; exact Hdot).
    rewrite <- E, Hn in H. rewrite !has_dot_app in H. simpl in H. rewrite orb_true_r in H. discriminate.
  - destruct fs as [|f fs]; [contradiction Hne; reflexivity|].
    unfold is_branch_key. simpl. unfold dotted_key, gdest.
    change (gk ++ c_dot :: f_name f) with (gk ++ [c_dot] ++ f_name f).
    rewrite replace_dash_dotted.
    change (replace_dash gk ++ [c_dot] ++ replace_dash (f_name f))
      with (replace_dash gk ++ ([c_dot] ++ replace_dash (f_name f))).
    rewrite app_assoc, starts_with_app. reflexivity.
Qed.

Lemma well_formed_parts gk fs :
  well_formed gk fs = true -> has_dot gk = false /\ starts_dash gk = false /\ norm fs <> [].
Proof.
  unfold well_formed. intro H. apply andb_true_iff in H. destruct H as [H H3].
  apply andb_true_iff in H. destruct H as [H1 H2].
  apply negb_true_iff in H1, H2, H3. repeat split; try assumption.
  intro E. rewrite E in H3. discriminate.
Qed.

Lemma finding_class_zero pv gk fs inp :
  finding_class pv gk fs inp = 0%N ->
  well_formed gk fs = true /\ hyphen_safe gk (norm fs) = true
  /\ argv_names_group gk inp = false /\ env_names_group gk inp = false /\ config_group_nonmap pv gk inp = false.
Proof.
  unfold finding_class.
  destruct (well_formed gk fs); simpl; [|discriminate].
  destruct (argv_names_group gk inp); [discriminate|].
  destruct (env_names_group gk inp); [discriminate|].
  destruct (config_group_text pv gk inp); [discriminate|].
  destruct (config_group_nonmap pv gk inp); [discriminate|].
  destruct (hyphen_safe gk (norm fs)); simpl; [|discriminate].
  intros _. repeat split; reflexivity.
Qed.

Lemma finding_class_fixed_zero pv gk fs inp :
  finding_class_fixed pv gk fs inp = 0%N ->
  well_formed gk fs = true
  /\ argv_names_group gk inp = false /\ env_names_group gk inp = false /\ config_group_nonmap pv gk inp = false.
Proof.
  unfold finding_class_fixed.
  destruct (well_formed gk fs); simpl; [|discriminate].
  destruct (argv_names_group gk inp); [discriminate|].
  destruct (env_names_group gk inp); [discriminate|].
  destruct (config_group_text pv gk inp); [discriminate|].
  destruct (config_group_nonmap pv gk inp); [discriminate|].
  intros _. repeat split; reflexivity.
Qed.

(* ---- the property inside the guard ---- *)
Lemma four_styles_agree pv jl gk fs inp :
  finding_class pv gk fs inp = 0%N ->
  let r := run pv jl (as_dotted gk (norm fs)) inp in
  run pv jl (as_dataclass (dashes ++ gk) fs) inp = r
  /\ run pv jl (as_class_group gk fs) inp = r
  /\ run pv jl (as_inner_parser (dashes ++ gk) (norm fs)) inp = r.
Proof.
  intros H r. destruct (finding_class_zero pv gk fs inp H) as [Hw [Hh [Ha [He Hc]]]].
  destruct (well_formed_parts gk fs Hw) as [Hdot [Hsd Hne]].
  destruct (grouped_tables_equal gk fs Hsd Hne Hh) as [E1 E2].
  assert (E : run pv jl (as_class_group gk fs) inp = r).
  { rewrite (class_group_table gk fs Hne).
    apply equiv_tables_same_parse; try assumption. apply dotted_leaf_table; assumption. }
  rewrite E1, E2. auto.
Qed.

Lemma four_styles_agree_fixed pv jl gk fs inp :
  finding_class_fixed pv gk fs inp = 0%N ->
  let r := run pv jl (as_dotted gk (norm fs)) inp in
  run pv jl (as_dataclass (dashes ++ gk) fs) inp = r
  /\ run pv jl (as_class_group gk fs) inp = r
  /\ run pv jl (as_inner_parser_fixed (dashes ++ gk) (norm fs)) inp = r.
Proof.
  intros H r. destruct (finding_class_fixed_zero pv gk fs inp H) as [Hw [Ha [He Hc]]].
  destruct (well_formed_parts gk fs Hw) as [Hdot [Hsd Hne]].
  destruct (grouped_tables_equal_fixed gk fs Hsd Hne) as [E1 E2].
  assert (E : run pv jl (as_class_group gk fs) inp = r).
  { rewrite (class_group_table gk fs Hne).
    apply equiv_tables_same_parse; try assumption. apply dotted_leaf_table; assumption. }
  rewrite E1, E2. auto.
Qed.

(* ---- the three grouped styles: ALL inputs, whole-group values included ---- *)
Lemma grouped_styles_agree pv jl gk fs inp :
  well_formed gk fs = true -> hyphen_safe gk (norm fs) = true ->
  run pv jl (as_dataclass (dashes ++ gk) fs) inp = run pv jl (as_class_group gk fs) inp
  /\ run pv jl (as_inner_parser (dashes ++ gk) (norm fs)) inp = run pv jl (as_class_group gk fs) inp.
Proof.
  intros Hw Hh. destruct (well_formed_parts gk fs Hw) as [_ [Hsd Hne]].
  destruct (grouped_tables_equal gk fs Hsd Hne Hh) as [E1 E2]. rewrite E1, E2. auto.
Qed.

Lemma grouped_styles_agree_fixed pv jl gk fs inp :
  well_formed gk fs = true ->
  run pv jl (as_dataclass (dashes ++ gk) fs) inp = run pv jl (as_class_group gk fs) inp
  /\ run pv jl (as_inner_parser_fixed (dashes ++ gk) (norm fs)) inp = run pv jl (as_class_group gk fs) inp.
Proof.
  intros Hw. destruct (well_formed_parts gk fs Hw) as [_ [Hsd Hne]].
  destruct (grouped_tables_equal_fixed gk fs Hsd Hne) as [E1 E2]. rewrite E1, E2. auto.
Qed.

(* ---- the signature rules are a normalisation: the signature styles see a field list only through norm ---- *)
Lemma class_group_through_norm gk fs :
  public fs = true -> norm fs <> [] ->
  as_class_group gk fs = as_class_group gk (norm fs) /\ explicit (norm fs) = true.
Proof.
  intros Hp H. split; [|apply norm_explicit, Hp].
  rewrite (class_group_table gk fs H).
  rewrite (class_group_table gk (norm fs)) by (rewrite (norm_idem fs Hp); exact H).
  rewrite (norm_idem fs Hp). reflexivity.
Qed.

(* ================================ members: overrides, flat groups ================================ *)
Lemma plain_names_nodash nl :
  forallb plain_name (map oname nl) = true -> forallb (fun o => negb (has_dash (oname o))) nl = true.
Proof.
  induction nl as [|o nl IH]; simpl; [reflexivity|]. intro H. apply andb_true_iff in H. destruct H as [Ho Hnl].
  unfold plain_name in Ho. apply andb_true_iff in Ho. destruct Ho as [_ Ho]. rewrite Ho, (IH Hnl). reflexivity.
Qed.

Lemma four_styles_agree_m pv jl full gk ms inp :
  finding_class_m pv gk ms inp = 0%N ->
  let r := run pv jl (as_dotted_m gk (mnorm ms)) inp in
  (exists Tc, as_class_group_m false full gk ms = Some Tc /\ run pv jl Tc inp = r)
  /\ (exists Td, as_dataclass_m false (dashes ++ gk) ms = Some Td /\ run pv jl Td inp = r)
  /\ run pv jl (as_inner_parser_m (dashes ++ gk) (mnorm ms)) inp = r.
Proof.
  unfold finding_class_m. intros H. set (r := run pv jl (as_dotted_m gk (mnorm ms)) inp).
  destruct (well_formed_m gk ms) eqn:Ew; simpl in H; [|discriminate].
  destruct (argv_names_group gk inp || _) eqn:Ea; [discriminate|].
  destruct (env_names_group gk inp || _) eqn:Ee; [discriminate|].
  destruct (config_group_text pv gk inp || _) eqn:Et; [discriminate|].
  destruct (hyphen_defaults gk ms) eqn:Eh; [discriminate|].
  destruct (config_group_nonmap pv gk inp || _) eqn:Ec; [discriminate|].
  destruct (has_nested ms) eqn:En; [discriminate|]. clear H.
  apply orb_false_iff in Ea, Ee, Ec. destruct Ea as [Ea _]. destruct Ee as [Ee _]. destruct Ec as [Ec _].
  destruct (flat_members ms En) as [os ->].
  unfold well_formed_m in Ew. rewrite mnorm_leaves in Ew.
  repeat (apply andb_true_iff in Ew; destruct Ew as [Ew ?]).
  rename H into Hnames, H0 into Hover, H1 into Hne, H2 into Hsd. rename Ew into Hdot.
  apply negb_true_iff in Hdot, Hsd, Hne.
  unfold names_ok in Hnames. rewrite member_names_leaves in Hnames.
  repeat (apply andb_true_iff in Hnames; destruct Hnames as [Hnames ?]).
  rename H into Hsubs, H0 into Hnodup. apply plain_names_nodash in Hnames.
  unfold overrides_ok in Hover. rewrite ofields_leaves in Hover.
  rewrite flat_leaves in Hne.
  assert (Hnl : onorm os <> []).
  { intro E. rewrite E in Hne. discriminate. }
  assert (Hfs : map eff (onorm os) <> []).
  { intro E. rewrite E in Hne. discriminate. }
  assert (Hdash : existsb (fun o => isSome (o_over o)) os = true -> has_dash gk = false).
  { intro Ho. unfold hyphen_defaults in Eh. rewrite ms_has_over_leaves, Ho in Eh. simpl in Eh.
    rewrite andb_true_r in Eh. exact Eh. }
  assert (Eclass : forall fl, as_class_group_m false fl gk (map MLeaf os)
                              = Some (with_load gk (as_dotted gk (map eff (onorm os))))).
  { intro fl. apply class_group_m_flat; assumption. }
  assert (Erun : run pv jl (with_load gk (as_dotted gk (map eff (onorm os)))) inp = r).
  { unfold r, as_dotted_m. rewrite mnorm_leaves, flat_leaves.
    apply equiv_tables_same_parse; try assumption. apply dotted_leaf_table; assumption. }
  split; [|split].
  - eexists. split; [apply Eclass | exact Erun].
  - eexists. split; [|exact Erun]. unfold as_dataclass_m. rewrite (lstrip_dash_key gk Hsd). apply Eclass.
  - rewrite mnorm_leaves, inner_m_flat. exact Erun.
Qed.

(* the tables themselves, for all flat member lists: no override is lost, none lands elsewhere *)
Lemma grouped_tables_equal_m full gk os :
  well_formed_m gk (map MLeaf os) = true -> hyphen_defaults gk (map MLeaf os) = false ->
  let T := with_load gk (as_dotted_m gk (mnorm (map MLeaf os))) in
  as_class_group_m false full gk (map MLeaf os) = Some T
  /\ as_dataclass_m false (dashes ++ gk) (map MLeaf os) = Some T
  /\ as_inner_parser_m (dashes ++ gk) (mnorm (map MLeaf os)) = T.
Proof.
  intros Ew Eh T. unfold T, as_dotted_m. rewrite mnorm_leaves, flat_leaves.
  unfold well_formed_m in Ew. rewrite mnorm_leaves in Ew.
  repeat (apply andb_true_iff in Ew; destruct Ew as [Ew ?]).
  rename H into Hnames, H0 into Hover, H1 into Hne, H2 into Hsd.
  apply negb_true_iff in Hsd, Hne.
  unfold names_ok in Hnames. rewrite member_names_leaves in Hnames.
  repeat (apply andb_true_iff in Hnames; destruct Hnames as [Hnames ?]).
  rename H0 into Hnodup. apply plain_names_nodash in Hnames.
  unfold overrides_ok in Hover. rewrite ofields_leaves in Hover. rewrite flat_leaves in Hne.
  assert (Hnl : onorm os <> []) by (intro E; rewrite E in Hne; discriminate).
  assert (Hdash : existsb (fun o => isSome (o_over o)) os = true -> has_dash gk = false).
  { intro Ho. unfold hyphen_defaults in Eh. rewrite ms_has_over_leaves, Ho in Eh. simpl in Eh.
    rewrite andb_true_r in Eh. exact Eh. }
  split; [|split].
  - apply class_group_m_flat; assumption.
  - unfold as_dataclass_m. rewrite (lstrip_dash_key gk Hsd). apply class_group_m_flat; assumption.
  - apply inner_m_flat.
Qed.

(* ================================ witnesses ================================ *)
Definition w_g : str := [103]%N.
Definition w_a : str := [97]%N.
Definition w_b : str := [98]%N.
Definition w_f : str := [102]%N.
Definition w_myg : str := [109;121;45;103]%N.                    (* my-g *)
Definition w_json_a2 : str := [123;34;97;34;58;32;50;125]%N.     (* {"a": 2} *)
Definition w_two : str := [50]%N.
Definition w_five : str := [53]%N.

Definition w_fields : list field :=
  [ {| f_name := w_a; f_ty := TInt; f_default := Dflt (VInt 1) |};
    {| f_name := w_b; f_ty := TStr; f_default := Dflt (VStr [120]%N) |} ].
Definition w_fields1 : list field := [ {| f_name := w_a; f_ty := TInt; f_default := Dflt (VInt 1) |} ].
Definition w_fields_req : list field :=
  [ {| f_name := w_f; f_ty := TInt; f_default := NoDefault |};
    {| f_name := w_a; f_ty := TInt; f_default := Dflt (VInt 1) |} ].
(* fields that the signature rules rewrite: b : Optional[int] without default, c : str = None, _p : int = 1 *)
Definition w_fields_sig : list field :=
  [ {| f_name := w_b; f_ty := TOpt TInt; f_default := NoDefault |};
    {| f_name := [99]%N; f_ty := TStr; f_default := Dflt VNone |};
    {| f_name := [95;112]%N; f_ty := TInt; f_default := Dflt (VInt 1) |} ].

(* loaders as the real ones answer on the texts used below *)
Definition w_pv (s : str) : val :=
  if str_eqb s w_json_a2 then VDict [(w_a, VInt 2)]
  else if str_eqb s w_two then VInt 2 else if str_eqb s w_five then VInt 5 else VStr s.
Definition w_jl (s : str) : val :=
  if str_eqb s w_two then VInt 2 else if str_eqb s w_five then VInt 5 else VStr s.

Definition w_args (items : list (str * str)) : input := {| i_env := []; i_entry := EArgs items |}.
Definition w_in_argv : input := w_args [(dashes ++ w_g, w_json_a2)].                 (* --g={"a": 2} *)
Definition w_in_argv5 : input := w_args [(dashes ++ w_g, w_five)].                   (* --g=5 *)
Definition w_in_env : input := {| i_env := [([65;80;80;95;71]%N, w_json_a2)]; i_entry := EArgs [] |}.   (* APP_G *)
Definition w_in_obj_str : input := {| i_env := []; i_entry := EObject [(w_g, VStr w_json_a2)] |}.
Definition w_in_obj_null : input := {| i_env := []; i_entry := EObject [(w_g, VNone)] |}.
Definition w_in_obj_five : input := {| i_env := []; i_entry := EObject [(w_g, VInt 5)] |}.
Definition w_in_plain : input := w_args [(dashes ++ w_g ++ [c_dot] ++ w_a, w_two)]. (* --g.a=2 *)
Definition w_in_req : input := w_args [(dashes ++ w_myg ++ [c_dot] ++ w_f, w_two)]. (* --my-g.f=2 *)

Definition leaf_rows_of (T : table) : list row :=
  filter (fun r => match r_kind r with KLeaf => true | KGroupLoad => false end) (t_rows T).

Definition is_ok {A} (r : res A) : bool := match r with Ok _ => true | _ => false end.
Definition is_reject {A} (r : res A) : bool := match r with Reject => true | _ => false end.

Definition group_value (r : res (ns * ns)) (g f : str) : option val :=
  match r with Ok (c, _) => Some (get_key c (g ++ [c_dot] ++ f)) | _ => None end.
Definition dumped (r : res (ns * ns)) : option ns := match r with Ok (_, d) => Some d | _ => None end.

(* the guard is satisfiable by a non-trivial input, and there the four styles accept and set g.a = 2 *)
Lemma guard_example :
  finding_class w_pv w_g w_fields w_in_plain = 0%N
  /\ group_value (run w_pv w_jl (as_dotted w_g (norm w_fields)) w_in_plain) w_g w_a = Some (VInt 2).
Proof. split; vm_compute; reflexivity. Qed.

Lemma guard_example_norm :
  well_formed w_g w_fields_sig = true /\ hyphen_safe w_g (norm w_fields_sig) = true
  /\ explicit w_fields_sig = false /\ length (norm w_fields_sig) = 2.
Proof. repeat split; vm_compute; reflexivity. Qed.

(* class 1: whole-group JSON on the command line *)
Lemma dotted_whole_group_argv_refuted :
  exists pv jl gk fs inp,
    well_formed gk fs = true /\ hyphen_safe gk (norm fs) = true /\ finding_class pv gk fs inp = 1%N
    /\ is_reject (run pv jl (as_dotted gk (norm fs)) inp) = true
    /\ group_value (run pv jl (as_class_group gk fs) inp) gk w_a = Some (VInt 2).
Proof. exists w_pv, w_jl, w_g, w_fields, w_in_argv. repeat split; vm_compute; reflexivity. Qed.

(* ... and with one field --g=5 is ACCEPTED by the dotted style (abbreviation of --g.a), rejected by the others *)
Lemma dotted_group_abbreviation_refuted :
  exists pv jl gk fs inp,
    finding_class pv gk fs inp = 1%N
    /\ group_value (run pv jl (as_dotted gk (norm fs)) inp) gk w_a = Some (VInt 5)
    /\ is_reject (run pv jl (as_class_group gk fs) inp) = true.
Proof. exists w_pv, w_jl, w_g, w_fields1, w_in_argv5. repeat split; vm_compute; reflexivity. Qed.

(* class 2: the environment variable of the group key *)
Lemma dotted_whole_group_env_refuted :
  exists pv jl gk fs inp,
    finding_class pv gk fs inp = 2%N
    /\ group_value (run pv jl (as_dotted gk (norm fs)) inp) gk w_a = Some (VInt 1)
    /\ group_value (run pv jl (as_class_group gk fs) inp) gk w_a = Some (VInt 2).
Proof. exists w_pv, w_jl, w_g, w_fields, w_in_env. repeat split; vm_compute; reflexivity. Qed.

(* class 3: a string (or null) given to the group key in an object / config *)
Lemma dotted_group_key_string_refuted :
  exists pv jl gk fs inp,
    finding_class pv gk fs inp = 3%N
    /\ is_reject (run pv jl (as_dotted gk (norm fs)) inp) = true
    /\ group_value (run pv jl (as_class_group gk fs) inp) gk w_a = Some (VInt 2).
Proof.
  exists w_pv, w_jl, w_g, w_fields, w_in_obj_str. repeat split; vm_compute; reflexivity.
Qed.

Lemma dotted_group_key_null_refuted :
  exists pv jl gk fs inp,
    finding_class pv gk fs inp = 3%N
    /\ dumped (run pv jl (as_dotted gk (norm fs)) inp) = Some [(gk, TLeaf VNone)]
    /\ dumped (run pv jl (as_class_group gk fs) inp) = Some [].
Proof. exists w_pv, w_jl, w_g, w_fields, w_in_obj_null. repeat split; vm_compute; reflexivity. Qed.

(* class 4 (fixed in the tree by d768470): a number for the group key is now rejected by all four styles *)
Lemma group_key_scalar_now_rejected :
  is_reject (run w_pv w_jl (as_dotted w_g (norm w_fields)) w_in_obj_five) = true
  /\ is_reject (run w_pv w_jl (as_class_group w_g w_fields) w_in_obj_five) = true.
Proof. split; vm_compute; reflexivity. Qed.

(* class 8: hyphenated key and a declaration-time default override: parser.set_defaults is handed the RAW key
   ("my-g.a") and finds no action (dest "my_g.a"): the signature styles cannot be declared at all *)
Definition w_over_members : list member :=
  [ MLeaf {| o_field := {| f_name := w_a; f_ty := TInt; f_default := Dflt (VInt 1) |}; o_over := Some (VInt 5) |};
    MLeaf {| o_field := {| f_name := w_b; f_ty := TStr; f_default := Dflt (VStr [120]%N) |}; o_over := None |} ].
(* a, the nested sub-group s {lr = 2 overridden by 7, m}, b overridden: something comes after the nested member *)
Definition w_nested_members : list member :=
  [ MLeaf {| o_field := {| f_name := w_a; f_ty := TInt; f_default := Dflt (VInt 1) |}; o_over := Some (VInt 5) |};
    MSub [115]%N
      [ {| o_field := {| f_name := [108;114]%N; f_ty := TInt; f_default := Dflt (VInt 2) |}; o_over := Some (VInt 7) |};
        {| o_field := {| f_name := [109]%N; f_ty := TStr; f_default := Dflt (VStr [120]%N) |}; o_over := None |} ] true;
    MLeaf {| o_field := {| f_name := w_b; f_ty := TInt; f_default := Dflt (VInt 3) |}; o_over := Some (VInt 9) |} ].

Lemma hyphen_key_default_override_refuted :
  exists full gk ms,
    finding_class_m (fun s => VStr s) gk ms {| i_env := []; i_entry := EArgs [] |} = 8%N
    /\ as_class_group_m false full gk ms = None
    /\ as_dataclass_m false (dashes ++ gk) ms = None
    /\ as_class_group_m true full gk ms = Some (as_inner_parser_m (dashes ++ gk) (mnorm ms)).
Proof. exists false, w_myg, w_over_members. repeat split; vm_compute; reflexivity. Qed.

(* the hypotheses of the member theorems are satisfiable, overrides included; and on a NESTED declaration the model
   compilers agree as well (kernel-evaluated instance: set_defaults goes on after the whole-group entry) *)
Lemma member_guard_example :
  finding_class_m w_pv w_g w_over_members w_in_plain = 0%N
  /\ group_value (run w_pv w_jl (as_dotted_m w_g (mnorm w_over_members)) (w_args [])) w_g w_a = Some (VInt 5).
Proof. split; vm_compute; reflexivity. Qed.

Lemma nested_tables_example :
  well_formed_m w_g w_nested_members = true
  /\ as_class_group_m false false w_g w_nested_members = Some (as_inner_parser_m (dashes ++ w_g) (mnorm w_nested_members))
  /\ as_dataclass_m false (dashes ++ w_g) w_nested_members = Some (as_inner_parser_m (dashes ++ w_g) (mnorm w_nested_members))
  /\ leaf_rows_of (as_inner_parser_m (dashes ++ w_g) (mnorm w_nested_members))
     = t_rows (as_dotted_m w_g (mnorm w_nested_members)).
Proof. repeat split; vm_compute; reflexivity. Qed.

(* class 5: hyphen in the key of an inner parser with a required option: every input is rejected *)
Lemma inner_hyphen_required_refuted :
  exists pv jl gk fs inp,
    well_formed gk fs = true /\ finding_class pv gk fs inp = 5%N
    /\ is_reject (run pv jl (as_inner_parser (dashes ++ gk) (norm fs)) inp) = true
    /\ group_value (run pv jl (as_class_group gk fs) inp) (gdest gk) w_f = Some (VInt 2)
    /\ group_value (run pv jl (as_inner_parser_fixed (dashes ++ gk) (norm fs)) inp) (gdest gk) w_f = Some (VInt 2).
Proof. exists w_pv, w_jl, w_myg, w_fields_req, w_in_req. repeat split; vm_compute; reflexivity. Qed.

(* without the normal form the add_argument styles and the signature styles are different declarations *)
Lemma signature_rules_are_a_normalisation :
  exists gk fs, as_class_group gk fs <> with_load gk (as_dotted gk fs)
                /\ as_class_group gk fs = with_load gk (as_dotted gk (norm fs)).
Proof.
  exists w_g, w_fields_sig. split; [|vm_compute; reflexivity].
  intro E. apply (f_equal (fun t => length (t_rows t))) in E. vm_compute in E. discriminate.
Qed.

(* C10 — value level: what parsing made of a value is a fixed point of parsing and passes validation.
   For ANY text readers (jload, pval, ikey), every type of the grammar, every input value. *)
From JV Require Import Lib.Base Model.C10Adapt.

(* ---- induction principles for the nested types -------------------------------------------------- *)
Section ValInd.
Variable P : val -> Prop.
Hypothesis HNone : P VNone.
Hypothesis HBool : forall b, P (VBool b).
Hypothesis HInt : forall z, P (VInt z).
Hypothesis HFloat : forall f, P (VFloat f).
Hypothesis HStr : forall s, P (VStr s).
Hypothesis HList : forall l, Forall P l -> P (VList l).
Hypothesis HTuple : forall l, Forall P l -> P (VTuple l).
Hypothesis HSet : forall l, Forall P l -> P (VSet l).
Hypothesis HDict : forall d, Forall (fun kv => P (fst kv) /\ P (snd kv)) d -> P (VDict d).
Hypothesis HEnum : forall c m, P (VEnum c m).
Hypothesis HOpaque : forall k r, P (VOpaque k r).

Fixpoint val_ind' (v : val) : P v :=
  match v with
  | VNone => HNone
  | VBool b => HBool b
  | VInt z => HInt z
  | VFloat f => HFloat f
  | VStr s => HStr s
  | VList l => HList l ((fix go (l : list val) : Forall P l :=
                           match l with [] => Forall_nil _ | x :: l' => Forall_cons _ (val_ind' x) (go l') end) l)
  | VTuple l => HTuple l ((fix go (l : list val) : Forall P l :=
                             match l with [] => Forall_nil _ | x :: l' => Forall_cons _ (val_ind' x) (go l') end) l)
  | VSet l => HSet l ((fix go (l : list val) : Forall P l :=
                         match l with [] => Forall_nil _ | x :: l' => Forall_cons _ (val_ind' x) (go l') end) l)
  | VDict d => HDict d ((fix go (d : list (val * val)) : Forall (fun kv => P (fst kv) /\ P (snd kv)) d :=
                           match d with
                           | [] => Forall_nil _
                           | kv :: d' => Forall_cons _ (conj (val_ind' (fst kv)) (val_ind' (snd kv))) (go d')
                           end) d)
  | VEnum c m => HEnum c m
  | VOpaque k r => HOpaque k r
  end.
End ValInd.

Section TyInd.
Variable P : ty -> Prop.
Hypothesis HStr : P TStr.
Hypothesis HInt : P TInt.
Hypothesis HFloat : P TFloat.
Hypothesis HBool : P TBool.
Hypothesis HNone : P TNone.
Hypothesis HAny : P TAny.
Hypothesis HLit : forall ls, P (TLit ls).
Hypothesis HEnum : forall c ms, P (TEnum c ms).
Hypothesis HUnion : forall ts, Forall P ts -> P (TUnion ts).
Hypothesis HList : forall t, P t -> P (TList t).
Hypothesis HDict : forall b t, P t -> P (TDict b t).
Hypothesis HTuple : forall ts, Forall P ts -> P (TTuple ts).
Hypothesis HTupleVar : forall t, P t -> P (TTupleVar t).
Hypothesis HSet : forall t, P t -> P (TSet t).

Fixpoint ty_ind' (t : ty) : P t :=
  match t with
  | TStr => HStr | TInt => HInt | TFloat => HFloat | TBool => HBool | TNone => HNone | TAny => HAny
  | TLit ls => HLit ls
  | TEnum c ms => HEnum c ms
  | TUnion ts => HUnion ts ((fix go (ts : list ty) : Forall P ts :=
                               match ts with [] => Forall_nil _ | x :: ts' => Forall_cons _ (ty_ind' x) (go ts') end) ts)
  | TList t1 => HList t1 (ty_ind' t1)
  | TDict b t1 => HDict b t1 (ty_ind' t1)
  | TTuple ts => HTuple ts ((fix go (ts : list ty) : Forall P ts :=
                               match ts with [] => Forall_nil _ | x :: ts' => Forall_cons _ (ty_ind' x) (go ts') end) ts)
  | TTupleVar t1 => HTupleVar t1 (ty_ind' t1)
  | TSet t1 => HSet t1 (ty_ind' t1)
  end.
End TyInd.

(* ---- val_eqb is sound ------------------------------------------------------------------------------ *)
Lemma fl_eqb_eq a b : fl_eqb a b = true -> a = b.
Proof.
  destruct a, b; simpl; try discriminate; intro H.
  - apply andb_true_iff in H. destruct H as [H1 H2]. apply Z.eqb_eq in H1, H2. congruence.
  - apply Bool.eqb_prop in H. congruence.
  - reflexivity.
Qed.

Lemma val_eqb_eq : forall va vb, val_eqb va vb = true -> va = vb.
Proof.
  induction va using val_ind'; intro vb; destruct vb; simpl; try discriminate; intro E.
  - reflexivity.
  - apply Bool.eqb_prop in E. congruence.
  - apply Z.eqb_eq in E. congruence.
  - apply fl_eqb_eq in E. congruence.
  - apply str_eqb_spec in E. congruence.
  - f_equal. revert l0 E. induction H as [|x l Hx Hl IH]; destruct l0; try discriminate; intro E; [reflexivity|].
    apply andb_true_iff in E. destruct E as [E1 E2]. f_equal; [apply Hx, E1 | apply IH, E2].
  - f_equal. revert l0 E. induction H as [|x l Hx Hl IH]; destruct l0; try discriminate; intro E; [reflexivity|].
    apply andb_true_iff in E. destruct E as [E1 E2]. f_equal; [apply Hx, E1 | apply IH, E2].
  - f_equal. revert l0 E. induction H as [|x l Hx Hl IH]; destruct l0; try discriminate; intro E; [reflexivity|].
    apply andb_true_iff in E. destruct E as [E1 E2]. f_equal; [apply Hx, E1 | apply IH, E2].
  - f_equal. revert d0 E. induction H as [|[k x] d [Hk Hx] Hd IH]; destruct d0 as [|[k' x'] d0]; try discriminate;
      intro E; [reflexivity|].
    apply andb_true_iff in E. destruct E as [E1 E2]. apply andb_true_iff in E1. destruct E1 as [E0 E1].
    simpl in Hk, Hx. rewrite (Hk _ E0), (Hx _ E1), (IH _ E2). reflexivity.
  - apply andb_true_iff in E. destruct E as [E1 E2]. apply str_eqb_spec in E1, E2. congruence.
  - apply andb_true_iff in E. destruct E as [E1 E2]. apply str_eqb_spec in E1, E2. congruence.
Qed.

(* ---- sorting ---------------------------------------------------------------------------------------- *)
Lemma insert_by_In {A} (key : A -> nat) x y (l : list A) : In y (insert_by key x l) -> y = x \/ In y l.
Proof.
  induction l as [|z l IH]; simpl.
  - intros [H|[]]; auto.
  - destruct (Nat.leb (key x) (key z)); simpl.
    + intros [H|[H|H]]; auto.
    + intros [H|H]; auto. destruct (IH H); auto.
Qed.

Lemma stable_sort_In {A} (key : A -> nat) y (l : list A) : In y (stable_sort key l) -> In y l.
Proof.
  induction l as [|x l IH]; simpl; [tauto|].
  intro H. apply insert_by_In in H. destruct H; auto.
Qed.

Lemma insert_by_map {A B} (h : A -> B) (key : B -> nat) x (l : list A) :
  insert_by key (h x) (map h l) = map h (insert_by (fun a => key (h a)) x l).
Proof.
  induction l as [|y l IH]; simpl; [reflexivity|].
  destruct (Nat.leb (key (h x)) (key (h y))); simpl; [reflexivity|]. now rewrite IH.
Qed.

Lemma stable_sort_map {A B} (h : A -> B) (key : B -> nat) (l : list A) :
  stable_sort key (map h l) = map h (stable_sort (fun a => key (h a)) l).
Proof.
  induction l as [|x l IH]; simpl; [reflexivity|]. now rewrite IH, insert_by_map.
Qed.

(* ---- the Union loop ------------------------------------------------------------------------------- *)
Fixpoint first_ok (rs : list (ty * ares)) : option val :=
  match rs with
  | [] => None
  | (_, AOk w) :: _ => Some w
  | (_, AErr _) :: rs' => first_ok rs'
  end.

Lemma filter_all_exc vals : forallb (fun u => negb (uval_ok u)) vals = true -> filter uval_ok vals = [].
Proof.
  induction vals as [|u vals IH]; simpl; [reflexivity|].
  intro H. apply andb_true_iff in H. destruct H as [H1 H2].
  destruct (uval_ok u); [discriminate|]. auto.
Qed.

Lemma union_result_snoc_ok vals w : union_result (vals ++ [UOk w]) = AOk w.
Proof.
  unfold union_result. rewrite filter_app. simpl.
  destruct (filter uval_ok vals) as [|y a]; [reflexivity|].
  change ((y :: a) ++ [UOk w]) with (y :: (a ++ [UOk w])). cbv iota.
  destruct (a ++ [UOk w]) eqn:E; [destruct a; discriminate|]. rewrite <- E. now rewrite last_last.
Qed.

(* without an orig_val there is no fallback: the Union returns what its first accepting member returns *)
Lemma union_loop_none v rs : forall vals,
  forallb (fun u => negb (uval_ok u)) vals = true ->
  union_result (union_loop None v rs vals) = match first_ok rs with Some w => AOk w | None => AErr ErrValue end.
Proof.
  induction rs as [|[t r] rs IH]; intros vals Hv; simpl.
  - unfold union_result. now rewrite filter_all_exc.
  - destruct r as [w|e].
    + apply union_result_snoc_ok.
    + apply IH. rewrite forallb_app, Hv. reflexivity.
Qed.

Lemma adapt_union_none v rs :
  adapt_union None v rs =
  match first_ok (sort_members (is_str v) rs) with Some w => AOk w | None => AErr ErrValue end.
Proof. unfold adapt_union. now apply union_loop_none. Qed.

(* whatever orig_val is: an accepted value comes from a member, or is orig_val *)
Lemma union_loop_In orig v rs : forall vals u,
  In u (union_loop orig v rs vals) ->
  In u vals \/ u = UExc \/ (exists t w, u = UOk w /\ In (t, AOk w) rs) \/ (exists o, orig = Some o /\ u = UOk (VStr o)).
Proof.
  induction rs as [|[t r] rs IH]; intros vals u H; simpl in H.
  - auto.
  - destruct r as [w|e].
    + apply in_app_or in H. destruct H as [H|[H|[]]]; auto.
      subst u. right; right; left. exists t, w. split; [reflexivity|now left].
    + assert (K : forall x, In u (union_loop orig v rs (vals ++ [x])) ->
                  (x = UExc \/ exists o, orig = Some o /\ x = UOk (VStr o)) ->
                  In u vals \/ u = UExc \/ (exists t0 w, u = UOk w /\ In (t0, AOk w) ((t, AErr e) :: rs))
                  \/ (exists o, orig = Some o /\ u = UOk (VStr o))).
      { intros x Hx Hk. apply IH in Hx. destruct Hx as [Hx|[Hx|[Hx|Hx]]]; auto.
        - apply in_app_or in Hx. destruct Hx as [Hx|[Hx|[]]]; auto. subst x.
          destruct Hk as [Hk|Hk]; auto.
        - destruct Hx as (t0 & w & E & I). right; right; left. exists t0, w. split; [assumption|now right]. }
      destruct orig as [o|].
      * destruct (is_str_ty t && negb (is_str v)).
        -- apply (K _ H). right. exists o. auto.
        -- apply (K _ H). auto.
      * apply (K _ H). auto.
Qed.

Lemma last_In {A} (l : list A) d : l <> [] -> In (last l d) l.
Proof.
  induction l as [|x l IH]; [congruence|]. intros _. destruct l as [|y l]; [now left|].
  right. apply IH. discriminate.
Qed.

Lemma union_result_In vals w : union_result vals = AOk w -> In (UOk w) vals.
Proof.
  unfold union_result. destruct (filter uval_ok vals) as [|u oks] eqn:E; [discriminate|].
  assert (N : u :: oks <> []) by discriminate.
  pose proof (last_In (u :: oks) UExc N) as L.
  destruct (last (u :: oks) UExc) as [x|]; intro H; inversion H; subst.
  rewrite <- E in L. apply filter_In in L. tauto.
Qed.

Lemma adapt_union_from orig v rs w :
  adapt_union orig v rs = AOk w ->
  (exists t, In (t, AOk w) rs) \/ orig = Some match w with VStr s => s | _ => [] end /\ is_str w = true.
Proof.
  unfold adapt_union. intro H. apply union_result_In in H.
  apply union_loop_In in H. destruct H as [[]|[H|[H|H]]].
  - discriminate.
  - destruct H as (t & w' & E & I). inversion E; subst. left. exists t.
    unfold sort_members in I. now apply stable_sort_In in I.
  - destruct H as (o & E1 & E2). inversion E2; subst. right. auto.
Qed.

(* ---- a str result is the str input (or orig_val) ------------------------------------------------ *)
Section Proofs.
Variable jload : str -> lres.
Variable pval : bool -> str -> lres.
Variable ikey : str -> option Z.

Notation adapt := (adapt jload pval ikey).
Notation stable := (stable jload pval ikey).
Notation adapt_leaf := (adapt_leaf jload).
Notation parse_value := (parse_value pval).
Notation check_type_v := (check_type_v jload pval ikey).
Notation check_type := (check_type jload pval ikey).
Notation parse_key := (parse_key jload pval ikey).
Notation validate_key := (validate_key jload pval ikey).
Notation key_guard := (key_guard jload pval ikey).

Lemma parse_value_str b v s : parse_value b v = LVal (VStr s) -> v = VStr s.
Proof.
  destruct v; simpl; try (intro H; inversion H; fail).
  destruct (pval b s0) as [x| |]; try discriminate.
  destruct x; intro H; inversion H; subst; reflexivity.
Qed.

Lemma adapt_leaf_ok k v w : adapt_leaf k v = AOk w -> isinstance_leaf k w = true.
Proof.
  unfold adapt_leaf.
  set (loaded := match v, k with VStr _, LfStr => AOk v | VStr s, _ => _ | _, _ => AOk v end).
  destruct loaded as [v1|e]; [|discriminate].
  destruct (isinstance_leaf k _) eqn:E; [|discriminate]. intro H. inversion H; subst. exact E.
Qed.

Lemma adapt_leaf_str k v s : adapt_leaf k v = AOk (VStr s) -> v = VStr s.
Proof.
  intro H. pose proof (adapt_leaf_ok _ _ _ H) as I. destruct k; simpl in I; try discriminate.
  unfold adapt_leaf in H. destruct v; simpl in H; try discriminate. now inversion H.
Qed.

(* re-adapting a value a leaf type accepted returns it *)
Lemma adapt_leaf_fixed k v w : adapt_leaf k v = AOk w -> adapt_leaf k w = AOk w.
Proof.
  intro H. pose proof (adapt_leaf_ok _ _ _ H) as I.
  destruct k, w; simpl in I; try discriminate; reflexivity.
Qed.

Lemma lit_kinds_in ls v t r : In (t, r) (lit_kinds jload ls v) -> exists k, r = adapt_leaf k v /\ k <> LfStr.
Proof.
  unfold lit_kinds. intro H. repeat (apply in_app_or in H; destruct H as [H|H]).
  - destruct (existsb _ ls); [|contradiction]. destruct H as [H|[]]. inversion H. exists LfInt. split; [reflexivity|discriminate].
  - destruct (existsb _ ls); [|contradiction]. destruct H as [H|[]]. inversion H. exists LfBool. split; [reflexivity|discriminate].
  - destruct (existsb _ ls); [|contradiction]. destruct H as [H|[]]. inversion H. exists LfNone. split; [reflexivity|discriminate].
Qed.

Lemma lit_step_str orig ls v s :
  (match lit_kinds jload ls v with
   | [] => AErr ErrType
   | [(_, r)] => r
   | kinds => adapt_union orig v kinds
   end) = AOk (VStr s) -> False.
Proof.
  assert (K : forall t r, In (t, r) (lit_kinds jload ls v) -> r <> AOk (VStr s)).
  { intros t r I E. apply lit_kinds_in in I. destruct I as (k & -> & Nk).
    pose proof (adapt_leaf_ok _ _ _ E) as I. destruct k; simpl in I; try discriminate. congruence. }
  assert (NS : forall t, In t (map fst (lit_kinds jload ls v)) -> is_str_ty t = false).
  { unfold lit_kinds. intros t I. rewrite !map_app in I.
    repeat (apply in_app_or in I; destruct I as [I|I]);
      destruct (existsb _ ls); simpl in I; try contradiction; destruct I as [I|[]]; subst; reflexivity. }
  destruct (lit_kinds jload ls v) as [|[t r] [|p rest]] eqn:E.
  - discriminate.
  - intro H. eapply K; [now left|exact H].
  - intro H. unfold adapt_union in H. apply union_result_In in H.
    (* no member is str, so no fallback entry: an accepted str would come from a member *)
    assert (G : forall rs vals u, (forall t0 r0, In (t0, r0) rs -> is_str_ty t0 = false) ->
                In u (union_loop orig v rs vals) -> In u vals \/ u = UExc \/ exists t0 w, u = UOk w /\ In (t0, AOk w) rs).
    { induction rs as [|[t0 r0] rs IH]; intros vals u Hn Hu; simpl in Hu; auto.
      destruct r0 as [w|e].
      - apply in_app_or in Hu. destruct Hu as [Hu|[Hu|[]]]; auto. subst. right; right. exists t0, w. split; auto. now left.
      - assert (Hs : is_str_ty t0 = false) by (eapply Hn; now left).
        rewrite Hs in Hu. simpl in Hu.
        assert (Hu' : In u (union_loop orig v rs (vals ++ [UExc]))) by (destruct orig; exact Hu).
        apply IH in Hu'; [|intros; eapply Hn; right; eauto].
        destruct Hu' as [Hu'|[Hu'|Hu']]; auto.
        + apply in_app_or in Hu'. destruct Hu' as [Hu'|[Hu'|[]]]; auto.
        + destruct Hu' as (t1 & w & E1 & I1). right; right. exists t1, w. split; auto. now right. }
    apply G in H.
    + destruct H as [[]|[H|H]]; [discriminate|]. destruct H as (t0 & w & E1 & I1). inversion E1; subst.
      unfold sort_members in I1. apply stable_sort_In in I1. eapply K; eauto.
    + intros t0 r0 I. unfold sort_members in I. apply stable_sort_In in I.
      apply NS. try rewrite E. change t0 with (fst (t0, r0)). now apply in_map.
Qed.

Lemma mapA_In f l r : mapA f l = inl r -> forall w, In w r -> exists x, In x l /\ f x = AOk w.
Proof.
  revert r. induction l as [|x l IH]; simpl; intros r H w I.
  - inversion H; subst. contradiction.
  - destruct (f x) as [w0|] eqn:E; [|discriminate]. destruct (mapA f l) as [r0|]; [|discriminate].
    inversion H; subst. destruct I as [I|I].
    + subst. exists x. auto.
    + destruct (IH _ eq_refl _ I) as (x0 & I0 & E0). exists x0. auto.
Qed.

Lemma adapt_str : forall t orig v s,
  adapt orig t v = AOk (VStr s) -> v = VStr s \/ orig = Some s.
Proof.
  induction t using ty_ind'; intros orig v s HA; simpl in HA;
    try (left; eapply adapt_leaf_str; exact HA).
  - (* Any *)
    destruct v; try (inversion HA; fail).
    left. destruct (parse_value true (VStr s0)) as [x| |] eqn:E; try discriminate.
    + inversion HA; subst. now apply parse_value_str in E.
    + inversion HA; subst. reflexivity.
  - (* Literal *)
    destruct (negb (lit_mem v ls) && is_str v) eqn:C.
    + match type of HA with match ?S with _ => _ end = _ => destruct S as [v1|] eqn:E1; [|discriminate] end.
      destruct (lit_mem v1 ls); [|discriminate]. inversion HA; subst. exfalso. eapply lit_step_str. exact E1.
    + destruct (lit_mem v ls); [|discriminate]. inversion HA; subst. now left.
  - (* Enum *)
    destruct v; try discriminate; try (destruct (hashable _); discriminate).
    + destruct (mem_str s0 ms); discriminate.
    + destruct (str_eqb cls c); [|discriminate]. inversion HA.
  - (* Union *)
    apply adapt_union_from in HA. destruct HA as [(t & I)|(E & _)].
    + apply in_map_iff in I. destruct I as (t1 & E1 & I1). inversion E1; subst.
      rewrite Forall_forall in H. eapply H; eauto.
    + now right.
  - destruct (seq_items v); [|discriminate]. destruct (mapA _ l); discriminate.
  - destruct v; try discriminate. destruct (if b then _ else _); [|discriminate]. destruct (mapD _ l); discriminate.
  - destruct (seq_items v); [|discriminate]. destruct (negb _); [discriminate|]. destruct (zipA _ l); discriminate.
  - destruct (seq_items v); [|discriminate]. destruct (mapA _ l); discriminate.
  - destruct (seq_items v); [|discriminate]. destruct (mapA _ l); [|discriminate]. destruct (forallb _ _); discriminate.
Qed.

(* orig_val is only ever consulted below a non-str value *)
Lemma adapt_orig_irrelevant : forall t orig orig' s, adapt orig t (VStr s) = adapt orig' t (VStr s).
Proof.
  induction t using ty_ind'; intros orig orig' s; simpl; try reflexivity.
  - (* Literal: the inner Union has no str member and the value is a str *)
    destruct (negb (lit_mem (VStr s) ls) && true); [|reflexivity].
    destruct (lit_kinds jload ls (VStr s)) as [|[t r] [|p rest]]; try reflexivity.
    unfold adapt_union. simpl is_str.
    assert (G : forall rs vals, union_loop orig (VStr s) rs vals = union_loop orig' (VStr s) rs vals).
    { induction rs as [|[t0 r0] rs IH]; intro vals; simpl; [reflexivity|].
      destruct r0; [reflexivity|]. rewrite andb_false_r. destruct orig, orig'; apply IH. }
    now rewrite G.
  - (* Union *)
    assert (E : map (fun t1 => (t1, adapt orig t1 (VStr s))) ts = map (fun t1 => (t1, adapt orig' t1 (VStr s))) ts).
    { apply map_ext_in. intros t I. rewrite Forall_forall in H. now rewrite (H t I orig orig'). }
    rewrite E. unfold adapt_union. simpl is_str.
    assert (G : forall rs vals, union_loop orig (VStr s) rs vals = union_loop orig' (VStr s) rs vals).
    { induction rs as [|[t0 r0] rs IH]; intro vals; simpl; [reflexivity|].
      destruct r0; [reflexivity|]. rewrite andb_false_r. destruct orig, orig'; apply IH. }
    now rewrite G.
Qed.

(* ---- set() and the key cast are idempotent ------------------------------------------------------ *)
Fixpoint fresh (acc l : list val) : bool :=
  match l with
  | [] => true
  | x :: l' => negb (existsb (py_eq x) acc) && fresh (acc ++ [x]) l'
  end.

Lemma fresh_snoc : forall l p x, fresh p l = true -> existsb (py_eq x) (p ++ l) = false -> fresh p (l ++ [x]) = true.
Proof.
  induction l as [|y l IH]; intros p x F E; simpl in *.
  - rewrite app_nil_r in E. now rewrite E.
  - apply andb_true_iff in F. destruct F as [F1 F2]. rewrite F1. simpl.
    apply IH; [assumption|]. now rewrite <- app_assoc.
Qed.

Lemma fold_add_new_fresh : forall l acc, fresh [] acc = true -> fresh [] (fold_left add_new l acc) = true.
Proof.
  induction l as [|x l IH]; intros acc F; simpl; [assumption|].
  apply IH. unfold add_new. destruct (existsb (py_eq x) acc) eqn:E; [assumption|].
  apply fresh_snoc; assumption.
Qed.

Lemma fold_add_new_id : forall l acc, fresh acc l = true -> fold_left add_new l acc = acc ++ l.
Proof.
  induction l as [|x l IH]; intros acc F; simpl in *.
  - now rewrite app_nil_r.
  - apply andb_true_iff in F. destruct F as [F1 F2]. unfold add_new at 2.
    apply negb_true_iff in F1. rewrite F1. rewrite IH by assumption. now rewrite <- app_assoc.
Qed.

Lemma dedup_idem l : dedup (dedup l) = dedup l.
Proof.
  unfold dedup at 1. rewrite fold_add_new_id; [reflexivity|].
  unfold dedup. now apply fold_add_new_fresh.
Qed.

Lemma fold_add_new_In : forall l acc x, In x (fold_left add_new l acc) -> In x acc \/ In x l.
Proof.
  induction l as [|y l IH]; intros acc x H; simpl in *; [auto|].
  apply IH in H. destruct H as [H|H]; auto.
  unfold add_new in H. destruct (existsb (py_eq y) acc); auto.
  apply in_app_or in H. destruct H as [H|[H|[]]]; auto.
Qed.

Lemma dedup_In l x : In x (dedup l) -> In x l.
Proof. intro H. apply fold_add_new_In in H. destruct H as [[]|H]. exact H. Qed.

(* dict keys: the cast produces distinct int keys; casting those again changes nothing *)
Definition keys (d : list (val * val)) : list val := map fst d.

Lemma has_key_existsb k d : has_key k d = existsb (py_eq k) (keys d).
Proof. unfold has_key, keys. induction d as [|kv d IH]; simpl; [reflexivity|]. now rewrite IH. Qed.

Lemma keys_replace k v d : keys (replace_val k v d) = keys d.
Proof.
  induction d as [|[k' v'] d IH]; simpl; [reflexivity|].
  destruct (py_eq k k'); simpl; [reflexivity|]. now rewrite IH.
Qed.

Lemma keys_dict_set d kv : keys (dict_set d kv) = add_new (keys d) (fst kv).
Proof.
  unfold dict_set, add_new. rewrite has_key_existsb.
  destruct (existsb (py_eq (fst kv)) (keys d)).
  - apply keys_replace.
  - unfold keys. now rewrite map_app.
Qed.

Definition int_keys_only (d : list (val * val)) : Prop := forall k, In k (keys d) -> exists z, k = VInt z.

Lemma cast_fold_err d e :
  fold_left (fun acc kv => match acc with
                           | inr e => inr e
                           | inl d' => match int_of_key ikey (fst kv) with
                                       | inl (Some z) => inl (dict_set d' (VInt z, snd kv))
                                       | inl None => inr ErrValue
                                       | inr e => inr e
                                       end
                           end) d (inr e) = inr e.
Proof. induction d as [|kv d IH]; simpl; auto. Qed.

Lemma cast_keys_inv : forall d acc r,
  fold_left (fun acc kv => match acc with
                           | inr e => inr e
                           | inl d' => match int_of_key ikey (fst kv) with
                                       | inl (Some z) => inl (dict_set d' (VInt z, snd kv))
                                       | inl None => inr ErrValue
                                       | inr e => inr e
                                       end
                           end) d (inl acc) = inl r ->
  fresh [] (keys acc) = true -> int_keys_only acc ->
  fresh [] (keys r) = true /\ int_keys_only r.
Proof.
  induction d as [|kv d IH]; intros acc r H F I; simpl in H.
  - inversion H; subst. auto.
  - destruct (int_of_key ikey (fst kv)) as [[z|]|e] eqn:E.
    + apply IH in H; [assumption| |].
      * rewrite keys_dict_set. simpl. unfold add_new.
        destruct (existsb (py_eq (VInt z)) (keys acc)) eqn:X; [assumption|]. now apply fresh_snoc.
      * intros k Hk. rewrite keys_dict_set in Hk. simpl in Hk. unfold add_new in Hk.
        destruct (existsb (py_eq (VInt z)) (keys acc)); [now apply I|].
        apply in_app_or in Hk. destruct Hk as [Hk|[Hk|[]]]; [now apply I|]. subst. now exists z.
    + rewrite cast_fold_err in H. discriminate.
    + rewrite cast_fold_err in H. discriminate.
Qed.

Lemma cast_keys_id : forall d acc,
  fresh (keys acc) (keys d) = true -> int_keys_only d ->
  fold_left (fun acc kv => match acc with
                           | inr e => inr e
                           | inl d' => match int_of_key ikey (fst kv) with
                                       | inl (Some z) => inl (dict_set d' (VInt z, snd kv))
                                       | inl None => inr ErrValue
                                       | inr e => inr e
                                       end
                           end) d (inl acc) = inl (acc ++ d).
Proof.
  induction d as [|[k x] d IH]; intros acc F I; simpl in *.
  - now rewrite app_nil_r.
  - apply andb_true_iff in F. destruct F as [F1 F2]. apply negb_true_iff in F1.
    destruct (I k (or_introl eq_refl)) as (z & ->). simpl.
    unfold dict_set at 2. simpl. rewrite has_key_existsb, F1.
    rewrite IH.
    + now rewrite <- app_assoc.
    + unfold keys in *. rewrite map_app. exact F2.
    + intros k' Hk'. apply I. now right.
Qed.

Lemma cast_keys_idem d r : cast_keys ikey d = inl r -> cast_keys ikey r = inl r.
Proof.
  unfold cast_keys. intro H.
  apply cast_keys_inv in H; [|reflexivity|intros k []].
  destruct H as [F I]. now rewrite cast_keys_id.
Qed.

Lemma mapD_keys f d r : mapD f d = inl r -> keys r = keys d.
Proof.
  revert r. induction d as [|[k x] d IH]; simpl; intros r H.
  - now inversion H.
  - destruct (f x); [|discriminate]. destruct (mapD f d) as [r0|]; [|discriminate].
    inversion H; subst. simpl. now rewrite (IH r0).
Qed.

(* ---- element-wise fixed points ------------------------------------------------------------------- *)
Lemma mapA_fixed (f g : val -> ares) (st : val -> bool) :
  forall l r, (forall x w, In x l -> f x = AOk w -> st x = true -> g w = AOk w) ->
  mapA f l = inl r -> forallb st l = true -> mapA g r = inl r.
Proof.
  induction l as [|x l IH]; simpl; intros r Hf H S.
  - now inversion H.
  - destruct (f x) as [w|] eqn:E; [|discriminate]. destruct (mapA f l) as [r0|] eqn:E0; [|discriminate].
    inversion H; subst. apply andb_true_iff in S. destruct S as [S1 S2]. simpl.
    rewrite (Hf x w (or_introl eq_refl) E S1).
    assert (X : mapA g r0 = inl r0) by (apply IH; [intros; eapply Hf; eauto|reflexivity|assumption]).
    now rewrite X.
Qed.

Lemma mapA_sub (g : val -> ares) : forall r, (forall w, In w r -> g w = AOk w) -> mapA g r = inl r.
Proof.
  induction r as [|w r IH]; simpl; intro H; [reflexivity|].
  rewrite (H w (or_introl eq_refl)).
  assert (X : mapA g r = inl r) by (apply IH; intros; apply H; now right).
  now rewrite X.
Qed.

Lemma mapA_all_fixed (f g : val -> ares) (st : val -> bool) :
  forall l r, (forall x w, In x l -> f x = AOk w -> st x = true -> g w = AOk w) ->
  mapA f l = inl r -> forallb st l = true -> forall w, In w r -> g w = AOk w.
Proof.
  induction l as [|x l IH]; simpl; intros r Hf H S w I.
  - inversion H; subst. contradiction.
  - destruct (f x) as [w0|] eqn:E; [|discriminate]. destruct (mapA f l) as [r0|] eqn:E0; [|discriminate].
    inversion H; subst. apply andb_true_iff in S. destruct S as [S1 S2]. destruct I as [I|I].
    + subst. eapply Hf; eauto.
    + eapply IH; eauto.
Qed.

Lemma mapA_length f l r : mapA f l = inl r -> length r = length l.
Proof.
  revert r. induction l as [|x l IH]; simpl; intros r H.
  - now inversion H.
  - destruct (f x); [|discriminate]. destruct (mapA f l) as [r0|]; [|discriminate].
    inversion H; subst. simpl. now rewrite (IH r0).
Qed.

Lemma mapD_fixed (f g : val -> ares) (st : val -> bool) :
  forall d r, (forall x w, f x = AOk w -> st x = true -> g w = AOk w) ->
  mapD f d = inl r -> forallb (fun kv => st (snd kv)) d = true -> mapD g r = inl r.
Proof.
  induction d as [|[k x] d IH]; simpl; intros r Hf H S.
  - now inversion H.
  - destruct (f x) as [w|] eqn:E; [|discriminate]. destruct (mapD f d) as [r0|] eqn:E0; [|discriminate].
    inversion H; subst. apply andb_true_iff in S. destruct S as [S1 S2]. simpl.
    rewrite (Hf x w E S1).
    assert (X : mapD g r0 = inl r0) by (apply IH; [assumption|reflexivity|assumption]).
    now rewrite X.
Qed.

Lemma zipA_fixed : forall (ts : list ty) orig l r,
  Forall (fun t => forall orig v w, adapt orig t v = AOk w -> stable orig t v = true -> adapt None t w = AOk w) ts ->
  zipA (map (fun t1 => adapt orig t1) ts) l = inl r ->
  forall2b (fun f x => f x) (map (fun t1 => stable orig t1) ts) l = true ->
  length l = length ts ->
  zipA (map (fun t1 => adapt None t1) ts) r = inl r /\ length r = length ts.
Proof.
  induction ts as [|t ts IH]; intros orig l r F H S L; simpl in *.
  - destruct l; [|discriminate]. inversion H; subst. auto.
  - destruct l as [|x l]; [discriminate|]. simpl in *.
    destruct (adapt orig t x) as [w|] eqn:E; [|discriminate].
    destruct (zipA _ l) as [r0|] eqn:E0; [|discriminate]. inversion H; subst.
    apply andb_true_iff in S. destruct S as [S1 S2]. apply Forall_cons_iff in F. destruct F as [Ft Fts].
    destruct (IH orig l r0 Fts E0 S2) as [Z Lr]; [now inversion L|].
    simpl. rewrite (Ft _ _ _ E S1), Z. simpl. auto.
Qed.

(* ---- the fixed-point theorem at the adapt level ---------------------------------------------------- *)
Lemma first_ok2_In {B} (rs : list (ty * (ares * B))) w b :
  first_ok2 rs = Some (w, b) -> exists t, In (t, (AOk w, b)) rs.
Proof.
  induction rs as [|[t [r b0]] rs IH]; simpl; [discriminate|].
  destruct r.
  - intro H. inversion H; subst. exists t. now left.
  - intro H. destruct (IH H) as (t0 & I). exists t0. now right.
Qed.

Lemma first_ok_proj {B} (rs : list (ty * (ares * B))) :
  first_ok (map (fun r => (fst r, fst (snd r))) rs) = option_map fst (first_ok2 rs).
Proof.
  induction rs as [|[t [r b0]] rs IH]; simpl; [reflexivity|]. destruct r; [reflexivity|exact IH].
Qed.

Theorem adapt_fixed : forall t orig v w,
  adapt orig t v = AOk w -> stable orig t v = true -> adapt None t w = AOk w.
Proof.
  induction t using ty_ind'; intros orig v w HA S;
    try (simpl in HA |- *; eapply adapt_leaf_fixed; exact HA).
  - (* Any *)
    simpl in HA. destruct v; try (inversion HA; subst; reflexivity).
    destruct (parse_value true (VStr s)) as [x| |] eqn:E; try discriminate.
    + inversion HA; subst. destruct w; try reflexivity.
      pose proof (parse_value_str _ _ _ E) as E'. inversion E'; subst.
      change (match parse_value true (VStr s0) with LVal x => AOk x | LYamlErr => AOk (VStr s0) | LValErr => AErr ErrValue end = AOk (VStr s0)).
      now rewrite E.
    + inversion HA; subst.
      change (match parse_value true (VStr s) with LVal x => AOk x | LYamlErr => AOk (VStr s) | LValErr => AErr ErrValue end = AOk (VStr s)).
      now rewrite E.
  - (* Literal: an accepted value is == one of the literals, and then it is returned untouched *)
    simpl in HA.
    match type of HA with match ?X with _ => _ end = _ => destruct X as [v1|]; [|discriminate] end.
    destruct (lit_mem v1 ls) eqn:M; [|discriminate]. inversion HA; subst.
    simpl. rewrite M. simpl. rewrite M. reflexivity.
  - (* Enum: a member is returned untouched *)
    simpl in HA. destruct v; try discriminate; try (destruct (hashable _); discriminate).
    + destruct (mem_str s ms); [|discriminate]. inversion HA; subst. simpl. now rewrite str_eqb_refl.
    + destruct (str_eqb cls c) eqn:E; [|discriminate]. inversion HA; subst. simpl. now rewrite E.
  - (* Union *)
    simpl in HA, S. rewrite HA in S.
    destruct (first_ok2 _) as [[w2 [r1 st]]|] eqn:F; [|discriminate].
    (* the second pass *)
    assert (R : adapt None (TUnion ts) w = AOk w2).
    { simpl. rewrite adapt_union_none.
      replace (sort_members (is_str w) (map (fun t1 => (t1, adapt None t1 w)) ts))
        with (map (fun r : ty * (ares * (ares * bool)) => (fst r, fst (snd r)))
                  (sort_members (is_str w)
                     (map (fun t1 => (t1, (adapt None t1 w, (adapt orig t1 v, stable orig t1 v)))) ts))).
      - rewrite first_ok_proj, F. reflexivity.
      - unfold sort_members.
        rewrite <- (stable_sort_map (fun r : ty * (ares * (ares * bool)) => (fst r, fst (snd r)))
                                    (fun r : ty * ares => union_key (is_str w) (fst r))).
        now rewrite map_map. }
    apply orb_true_iff in S. destruct S as [S|S].
    + apply andb_true_iff in S. destruct S as [S1 S2]. subst st.
      apply first_ok2_In in F. destruct F as (t & I).
      unfold sort_members in I. apply stable_sort_In in I. apply in_map_iff in I.
      destruct I as (t1 & E1 & I1). injection E1 as E1a E1b E1c E1d. subst t r1.
      destruct (adapt orig t1 v) as [x|] eqn:Ex; simpl in S1; [|discriminate].
      apply val_eqb_eq in S1. subst x.
      rewrite Forall_forall in H. rewrite (H t1 I1 orig v w Ex E1d) in E1b.
      inversion E1b; subst. exact R.
    + apply andb_true_iff in S. destruct S as [_ S2].
      simpl in R. rewrite R in S2. simpl in S2. apply val_eqb_eq in S2. now subst.
  - (* List *)
    simpl in HA, S |- *. destruct (seq_items v) as [l|] eqn:Q; [|discriminate].
    destruct (mapA (adapt orig t) l) as [r|] eqn:E; [|discriminate]. inversion HA; subst. simpl.
    rewrite (mapA_fixed (adapt orig t) (adapt None t) (stable orig t) l r); auto.
    intros. eapply IHt; eauto.
  - (* Dict *)
    simpl in HA, S |- *. destruct v; try discriminate.
    destruct (if b then cast_keys ikey d else inl d) as [d'|] eqn:C; [|discriminate].
    destruct (mapD (adapt orig t) d') as [r|] eqn:E; [|discriminate]. inversion HA; subst.
    (* stability of the values of d carries over to d' *)
    assert (S' : forallb (fun kv => stable orig t (snd kv)) d' = true).
    { destruct b; [|now inversion C; subst].
      (* values of the casted dict are values of d *)
      assert (G : forall d0 acc r0,
                 fold_left (fun acc kv => match acc with
                                          | inr e => inr e
                                          | inl d' => match int_of_key ikey (fst kv) with
                                                      | inl (Some z) => inl (dict_set d' (VInt z, snd kv))
                                                      | inl None => inr ErrValue
                                                      | inr e => inr e
                                                      end
                                          end) d0 (inl acc) = inl r0 ->
                 forallb (fun kv => stable orig t (snd kv)) acc = true ->
                 forallb (fun kv => stable orig t (snd kv)) d0 = true ->
                 forallb (fun kv => stable orig t (snd kv)) r0 = true).
      { induction d0 as [|kv d0 IH]; intros acc r0 Hf Sa Sd; simpl in Hf.
        - now inversion Hf; subst.
        - simpl in Sd. apply andb_true_iff in Sd. destruct Sd as [Sd1 Sd2].
          destruct (int_of_key ikey (fst kv)) as [[z|]|e]; try (rewrite cast_fold_err in Hf; discriminate).
          eapply IH; [exact Hf| |exact Sd2].
          unfold dict_set. simpl. destruct (has_key (VInt z) acc).
          + clear - Sa Sd1. induction acc as [|[k' v'] acc IHa]; simpl in *; [reflexivity|].
            apply andb_true_iff in Sa. destruct Sa as [Sa1 Sa2].
            destruct (py_eq (VInt z) k'); simpl; [now rewrite Sd1, Sa2|]. now rewrite Sa1, IHa.
          + rewrite forallb_app, Sa. simpl. now rewrite Sd1. }
      eapply G; [exact C|reflexivity|exact S]. }
    assert (C2 : (if b then cast_keys ikey r else inl r) = inl r).
    { destruct b; [|reflexivity].
      pose proof (mapD_keys _ _ _ E) as K.
      unfold cast_keys in C. apply cast_keys_inv in C; [|reflexivity|intros k []].
      destruct C as [F I]. unfold cast_keys. apply (cast_keys_id r []).
      - simpl. rewrite K. exact F.
      - unfold int_keys_only. rewrite K. exact I. }
    rewrite C2.
    rewrite (mapD_fixed (adapt orig t) (adapt None t) (stable orig t) d' r); auto.
    intros. eapply IHt; eauto.
  - (* Tuple[T1..Tn] *)
    simpl in HA, S |- *. destruct (seq_items v) as [l|] eqn:Q; [|discriminate].
    destruct (negb (length l =? length ts)) eqn:L; [discriminate|].
    apply negb_false_iff, Nat.eqb_eq in L.
    destruct (zipA _ l) as [r|] eqn:E; [|discriminate]. inversion HA; subst. simpl.
    destruct (zipA_fixed ts orig l r H E S L) as [Z Lr].
    rewrite Lr, Nat.eqb_refl. simpl. now rewrite Z.
  - (* Tuple[T, ...] *)
    simpl in HA, S |- *. destruct (seq_items v) as [l|] eqn:Q; [|discriminate].
    destruct (mapA (adapt orig t) l) as [r|] eqn:E; [|discriminate]. inversion HA; subst. simpl.
    rewrite (mapA_fixed (adapt orig t) (adapt None t) (stable orig t) l r); auto.
    intros. eapply IHt; eauto.
  - (* Set *)
    simpl in HA, S |- *. destruct (seq_items v) as [l|] eqn:Q; [|discriminate].
    destruct (mapA (adapt orig t) l) as [r|] eqn:E; [|discriminate].
    destruct (forallb hashable r) eqn:Hh; [|discriminate]. inversion HA; subst. simpl.
    assert (Fx : forall w, In w r -> adapt None t w = AOk w).
    { eapply (mapA_all_fixed (adapt orig t) (adapt None t) (stable orig t) l r); eauto. }
    rewrite (mapA_sub (adapt None t) (dedup r)).
    + assert (Hd : forallb hashable (dedup r) = true).
      { apply forallb_forall. intros x I. apply dedup_In in I. rewrite forallb_forall in Hh. now apply Hh. }
      now rewrite Hd, dedup_idem.
    + intros w I. apply Fx. now apply dedup_In.
Qed.

(* ---- a syntactic class on which the guard always holds: types without Union ------------------------ *)
Fixpoint union_free (t : ty) : bool :=
  match t with
  | TUnion _ => false
  | TList t1 | TDict _ t1 | TTupleVar t1 | TSet t1 => union_free t1
  | TTuple ts => forallb union_free ts
  | _ => true
  end.

Lemma stable_union_free : forall t, union_free t = true -> forall orig v, stable orig t v = true.
Proof.
  induction t using ty_ind'; intros U orig v; simpl in *; try reflexivity; try discriminate.
  - destruct (seq_items v) as [l|]; [|reflexivity]. apply forallb_forall. intros x _. now apply IHt.
  - destruct v; try reflexivity. apply forallb_forall. intros x _. now apply IHt.
  - destruct (seq_items v) as [l|]; [|reflexivity].
    revert l. induction ts as [|t ts IH]; intro l; simpl; [reflexivity|].
    destruct l as [|x l]; [reflexivity|]. simpl in U. apply andb_true_iff in U. destruct U as [U1 U2].
    apply Forall_cons_iff in H. destruct H as [Ht Hts].
    rewrite (Ht U1). simpl. now apply IH.
  - destruct (seq_items v) as [l|]; [|reflexivity]. apply forallb_forall. intros x _. now apply IHt.
  - destruct (seq_items v) as [l|]; [|reflexivity]. apply forallb_forall. intros x _. now apply IHt.
Qed.

Theorem adapt_fixed_union_free t orig v w :
  union_free t = true -> adapt orig t v = AOk w -> adapt None t w = AOk w.
Proof. intros U H. eapply adapt_fixed; [exact H|]. now apply stable_union_free. Qed.

(* ---- the key level: _check_type on a result of _check_type ------------------------------------- *)
Lemma check_type_v_str dflt t v0 s how : check_type_v dflt t v0 = (AOk (VStr s), how) -> v0 = VStr s.
Proof.
  unfold check_type_v, parsed_of.
  destruct (parse_value false v0) as [x| |] eqn:P.
  - (* parsed *)
    assert (Px : is_str x = true -> x = v0).
    { destruct x; try discriminate. intros _. apply parse_value_str in P. now subst. }
    destruct (adapt (orig_of v0) t x) as [w|[|]] eqn:A.
    + intro H. inversion H; subst. apply adapt_str in A. destruct A as [A|A].
      * subst x. symmetry. now apply Px.
      * destruct v0; try discriminate. now inversion A.
    + destruct (orig_of v0) as [o|] eqn:O.
      * destruct v0; try discriminate. inversion O; subst o.
        destruct (default_hit dflt s0).
        -- intro H. now inversion H.
        -- destruct (adapt (Some s0) t (VStr s0)) as [w|] eqn:A2.
           ++ intro H. inversion H; subst. apply adapt_str in A2. destruct A2 as [A2|A2]; now inversion A2.
           ++ destruct (is_valid_string t x) eqn:V; intro H; inversion H; subst.
              unfold is_valid_string in V. apply andb_true_iff in V. destruct V as [V _]. symmetry. now apply Px.
      * destruct (is_valid_string t x) eqn:V; intro H; inversion H; subst.
        unfold is_valid_string in V. apply andb_true_iff in V. destruct V as [V _]. symmetry. now apply Px.
    + destruct (is_valid_string t x) eqn:V; intro H; inversion H; subst.
      unfold is_valid_string in V. apply andb_true_iff in V. destruct V as [V _]. symmetry. now apply Px.
  - (* loader exception: the text itself is adapted *)
    destruct (adapt (orig_of v0) t v0) as [w|[|]] eqn:A.
    + intro H. inversion H; subst. apply adapt_str in A. destruct A as [A|A]; [now subst|].
      destruct v0; try discriminate. now inversion A.
    + destruct (orig_of v0) as [o|] eqn:O.
      * destruct v0; try discriminate. inversion O; subst o.
        destruct (default_hit dflt s0).
        -- intro H. now inversion H.
        -- destruct (adapt (Some s0) t (VStr s0)) as [w|] eqn:A2.
           ++ intro H. inversion H; subst. apply adapt_str in A2. destruct A2 as [A2|A2]; now inversion A2.
           ++ destruct (is_valid_string t (VStr s0)); intro H; inversion H; subst. reflexivity.
      * destruct (is_valid_string t v0); intro H; inversion H; subst. reflexivity.
    + destruct (is_valid_string t v0); intro H; inversion H; subst. reflexivity.
  - destruct (is_valid_string t v0); intro H; inversion H; subst. reflexivity.
Qed.

Lemma check_type_nonstr dflt t w :
  is_str w = false -> adapt None t w = AOk w -> check_type dflt t w = AOk w.
Proof.
  intros N A. unfold check_type, check_type_v, parsed_of.
  assert (P : parse_value false w = LVal w) by (destruct w; try reflexivity; discriminate).
  assert (O : orig_of w = None) by (destruct w; try reflexivity; discriminate).
  rewrite P, O, A. reflexivity.
Qed.

(* THE key-level theorem: inside the guard, what _check_type accepted is returned unchanged by
   _check_type — so validation of the result succeeds and a re-parse of the result returns it. *)
Theorem check_type_fixed dflt t v0 w :
  key_guard dflt t v0 = true -> check_type dflt t v0 = AOk w -> check_type dflt t w = AOk w.
Proof.
  unfold key_guard, check_type. destruct (check_type_v dflt t v0) as [r how] eqn:C. simpl.
  intros G E. subst r.
  destruct (is_str w) eqn:Sw.
  - destruct w; try discriminate. pose proof (check_type_v_str _ _ _ _ _ C) as E0. subst v0. now rewrite C.
  - simpl in G. apply check_type_nonstr; [assumption|].
    unfold check_type_v in C.
    destruct (parse_value false v0) as [x| |] eqn:P.
    + fold (parsed_of pval v0) in C.
      destruct (adapt (orig_of v0) t (parsed_of pval v0)) as [w1|[|]] eqn:A.
      * inversion C; subst. eapply adapt_fixed; eauto.
      * destruct (orig_of v0) as [o|] eqn:O.
        -- destruct (default_hit dflt o).
           ++ inversion C; subst. discriminate.
           ++ destruct (adapt (Some o) t (VStr o)) as [w2|] eqn:A2.
              ** inversion C; subst. eapply adapt_fixed; eauto.
              ** destruct (is_valid_string t (parsed_of pval v0)); inversion C; subst. discriminate.
        -- destruct (is_valid_string t (parsed_of pval v0)); inversion C; subst. discriminate.
      * destruct (is_valid_string t (parsed_of pval v0)); inversion C; subst. discriminate.
    + fold (parsed_of pval v0) in C.
      destruct (adapt (orig_of v0) t (parsed_of pval v0)) as [w1|[|]] eqn:A.
      * inversion C; subst. eapply adapt_fixed; eauto.
      * destruct (orig_of v0) as [o|] eqn:O.
        -- destruct (default_hit dflt o).
           ++ inversion C; subst. discriminate.
           ++ destruct (adapt (Some o) t (VStr o)) as [w2|] eqn:A2.
              ** inversion C; subst. eapply adapt_fixed; eauto.
              ** destruct (is_valid_string t (parsed_of pval v0)); inversion C; subst. discriminate.
        -- destruct (is_valid_string t (parsed_of pval v0)); inversion C; subst. discriminate.
      * destruct (is_valid_string t (parsed_of pval v0)); inversion C; subst. discriminate.
    + destruct (is_valid_string t v0); inversion C; subst. discriminate.
Qed.

(* parse (= adapt, then validate) of one key: the result validates and re-parses to itself *)
Theorem parse_key_fixed dflt t v0 w :
  key_guard dflt t v0 = true -> parse_key dflt t v0 = AOk w ->
  validate_key dflt t w = true /\ parse_key dflt t w = AOk w.
Proof.
  intros G H. unfold parse_key in H.
  destruct (check_type dflt t v0) as [x|] eqn:C; [|discriminate].
  assert (Ex : x = w).
  { destruct x; try (now inversion H);
      match type of H with match ?X with _ => _ end = _ => destruct X; now inversion H end. }
  subst x. pose proof (check_type_fixed _ _ _ _ G C) as F.
  split.
  - unfold validate_key. destruct w; try reflexivity; now rewrite F.
  - unfold parse_key. rewrite F. destruct w; try reflexivity; now rewrite F.
Qed.

(* inside the guard the validation step of a parse never rejects what the action produced *)
Theorem parse_never_fails_validation dflt t v0 w :
  key_guard dflt t v0 = true -> check_type dflt t v0 = AOk w -> parse_key dflt t v0 = AOk w.
Proof.
  intros G C. unfold parse_key. rewrite C. pose proof (check_type_fixed _ _ _ _ G C) as F.
  destruct w; try reflexivity; now rewrite F.
Qed.

End Proofs.

(* C18 — lemmas about Model/SaveFS.v.  Everything here is about save_fixed, the model of the code
   (check and render everything, then write).  The pre-fix order save_old needs no lemmas: its defects
   are exhibited by evaluation in Properties/C18.v. *)
From JV Require Import Lib.Base Model.SaveFS Spec.SaveFSSpec.
From Coq Require Import Permutation.

(* ---- lookup / write ----------------------------------------------------------------------- *)
Lemma lookup_write_same f n c : lookup (write f n c) n = Some (File c).
Proof.
  induction f as [|[m x] f IH]; simpl.
  - rewrite str_eqb_refl. reflexivity.
  - destruct (str_eqb m n) eqn:E; simpl; rewrite E; auto.
Qed.

Lemma lookup_write_other f n c m : m <> n -> lookup (write f n c) m = lookup f m.
Proof.
  intro H. induction f as [|[k x] f IH]; simpl.
  - destruct (str_eqb n m) eqn:E; auto. apply str_eqb_spec in E. congruence.
  - destruct (str_eqb k n) eqn:E; simpl.
    + apply str_eqb_spec in E. subst k.
      destruct (str_eqb n m) eqn:E2; auto. apply str_eqb_spec in E2. congruence.
    + destruct (str_eqb k m); auto.
Qed.

Lemma is_file_not_dir f n : is_file f n = true -> is_dir f n = false.
Proof. unfold is_file, is_dir. destruct (lookup f n) as [[c|]|]; auto; discriminate. Qed.

Lemma lookup_none_not_in f n : ~ In n (map fst f) -> lookup f n = None.
Proof.
  induction f as [|[m x] f IH]; simpl; intro H; auto.
  destruct (str_eqb m n) eqn:E.
  - apply str_eqb_spec in E. exfalso. apply H. left. exact E.
  - apply IH. intro Hin. apply H. right. exact Hin.
Qed.

Lemma lookup_in_names f n : In n (map fst f) -> lookup f n <> None.
Proof.
  induction f as [|[m x] f IH]; simpl; intro H; [destruct H|].
  destruct (str_eqb m n) eqn:E; [discriminate|].
  destruct H as [H|H]; [subst m; rewrite str_eqb_refl in E; discriminate | auto].
Qed.

(* ---- flush: open + write everything that is pending ----------------------------------------- *)
Lemma flush_other p : forall f m, ~ In m (map fst p) -> lookup (flush f p) m = lookup f m.
Proof.
  induction p as [|[n c] p IH]; intros f m H; simpl; auto.
  simpl in H. rewrite IH by (intro; apply H; right; assumption).
  rewrite !lookup_write_other; auto; intro; subst; apply H; left; reflexivity.
Qed.

Lemma flush_in p : forall f n c, NoDup (map fst p) -> In (n, c) p -> lookup (flush f p) n = Some (File c).
Proof.
  induction p as [|[m d] p IH]; intros f n c ND Hin; [destruct Hin|].
  simpl in ND. inversion ND as [|? ? Hnotin ND']; subst. simpl.
  destruct Hin as [Heq|Hin].
  - inversion Heq; subst. rewrite flush_other by exact Hnotin. apply lookup_write_same.
  - apply IH; auto.
Qed.

(* ---- exec --------------------------------------------------------------------------------- *)
Lemma exec_app i a b t :
  exec i (a ++ b) t =
  match exec i a t with
  | (t', None) => exec i b t'
  | (t', Some e) => (t', Some e)
  end.
Proof.
  revert t. induction a as [|s a IH]; intro t; simpl; auto.
  destruct (exec1 i s t); auto.
Qed.

Ltac break_in H :=
  repeat match type of H with
         | context [if ?c then _ else _] => destruct c eqn:?
         | context [match ?x with _ => _ end] => destruct x eqn:?
         end.

(* one step: either it fails, or it leaves the file system alone, or it (re)writes one name, or it
   is the final flush *)
Lemma exec1_shape i s t t1 :
  exec1 i s t = Ok t1 ->
  st_fs t1 = st_fs t
  \/ (exists n c, (s = SOpenW n \/ s = SWrite n) /\ st_fs t1 = write (st_fs t) n c)
  \/ s = SFlush.
Proof.
  intro E. destruct s; unfold exec1 in E; break_in E; try discriminate;
    inversion E; subst; simpl; auto.
  - right; left; eauto.
  - right; left; eauto.
Qed.

Definition nowrite (s : step) : bool :=
  match s with SOpenW _ | SWrite _ | SFlush => false | _ => true end.

Lemma exec_nowrite i ss :
  forallb nowrite ss = true -> forall t t' e, exec i ss t = (t', e) -> st_fs t' = st_fs t.
Proof.
  induction ss as [|s ss IH]; simpl; intros H t t' e E.
  - inversion E; auto.
  - apply andb_true_iff in H. destruct H as [Hs H].
    destruct (exec1 i s t) as [t1|e1] eqn:E1.
    + rewrite (IH H _ _ _ E).
      destruct (exec1_shape _ _ _ _ E1) as [H1|[(n & c & Hn & _)|H1]]; auto.
      * destruct Hn; subst s; discriminate.
      * subst s; discriminate.
    + inversion E; auto.
Qed.

(* ---- the order is a permutation ------------------------------------------------------------ *)
Lemma insert_desc_perm x l : Permutation (insert_desc x l) (x :: l).
Proof.
  induction l as [|y l IH]; simpl; auto.
  destruct (Nat.leb (s_depth y) (s_depth x)); auto.
  eapply perm_trans; [apply perm_skip; apply IH | apply perm_swap].
Qed.

Lemma sort_perm l : Permutation (fold_right insert_desc [] l) l.
Proof.
  induction l as [|x l IH]; simpl; auto.
  eapply perm_trans; [apply insert_desc_perm | apply perm_skip; auto].
Qed.

Lemma partition_perm {A} (f : A -> bool) l :
  Permutation (filter (fun x => negb (f x)) l ++ filter f l) l.
Proof.
  induction l as [|a l IH]; simpl; auto.
  destruct (f a); simpl.
  - apply Permutation_sym. apply Permutation_cons_app. apply Permutation_sym. exact IH.
  - apply perm_skip. exact IH.
Qed.

Lemma order_perm l : Permutation (order l) l.
Proof.
  unfold order. eapply perm_trans; [apply sort_perm | apply partition_perm].
Qed.

Lemma nodup_str_NoDup l : nodup_str l = true <-> NoDup l.
Proof.
  induction l as [|x l IH]; simpl; split; intro H; auto; try constructor.
  - apply andb_true_iff in H. destruct H as [H1 H2].
    intro Hin. apply mem_str_In in Hin. rewrite Hin in H1. discriminate.
  - apply andb_true_iff in H. destruct H as [H1 H2]. apply IH. exact H2.
  - inversion H as [|? ? Hn Hd]; subst. apply andb_true_iff. split.
    + destruct (mem_str x l) eqn:E; auto. apply mem_str_In in E. contradiction.
    + apply IH. exact Hd.
Qed.

(* ---- the check phase writes nothing ---------------------------------------------------------- *)
Lemma nowrite_subs_fixed l : forallb nowrite (flat_map sub_steps_fixed l) = true.
Proof.
  induction l as [|x l IH]; simpl; auto. rewrite forallb_app, IH, andb_true_r.
  unfold sub_steps_fixed. destruct (s_src x); reflexivity.
Qed.

Lemma check_phase_nowrite i : forallb nowrite (check_phase i) = true.
Proof.
  unfold check_phase. destruct (i_multifile i); simpl; auto.
  rewrite forallb_app, nowrite_subs_fixed. reflexivity.
Qed.

(* save_fixed is: run the check phase; if it fails nothing has happened, else flush what is pending *)
Lemma save_fixed_unfold i :
  save_fixed i =
  match exec i (check_phase i) (init i) with
  | (_, Some e) => (i_fs i, Some e)
  | (t, None) => (flush (i_fs i) (st_pending t), None)
  end.
Proof.
  unfold save_fixed, steps_fixed. rewrite exec_app.
  destruct (exec i (check_phase i) (init i)) as [t1 [e1|]] eqn:E; simpl;
    pose proof (exec_nowrite i _ (check_phase_nowrite i) _ _ _ E) as F; simpl in F; rewrite F; reflexivity.
Qed.

Lemma fixed_all_or_nothing_lemma i f' e : save_fixed i = (f', Some e) -> f' = i_fs i.
Proof.
  rewrite save_fixed_unfold.
  destruct (exec i (check_phase i) (init i)) as [t1 [e1|]]; intro H; inversion H; reflexivity.
Qed.

(* ---- what a successful check phase has established ------------------------------------------- *)
(* name n passed Path(n,"fc") and check_overwrite on the directory f0 *)
Definition checked (i : input) (f0 : fs) (n : name) : Prop :=
  i_dir_ok i = true /\ is_dir f0 n = false /\ (i_overwrite i = false -> is_file f0 n = false).

Definition text_of (f0 : fs) (x : sub) : content :=
  match expected f0 x with Some c => c | None => empty_text end.

Definition plan (f0 : fs) (l : list sub) : list (name * content) :=
  map (fun x => (s_name x, text_of f0 x)) l.

Lemma plan_names f0 l : map fst (plan f0 l) = map s_name l.
Proof. unfold plan. rewrite map_map. reflexivity. Qed.

Definition sub_good (i : input) (f0 : fs) (x : sub) : Prop :=
  expected f0 x <> None /\ checked i f0 (s_name x) /\ (i_alias i = false -> s_name x <> i_main i).

Lemma checked_of i f n :
  (negb (i_dir_ok i) || is_dir f n) = false -> (negb (i_overwrite i) && is_file f n) = false ->
  checked i f n.
Proof.
  intros H1 H2. apply orb_false_iff in H1. destruct H1 as [H1 H1'].
  apply negb_false_iff in H1. repeat split; auto.
  intro Ho. rewrite Ho in H2. exact H2.
Qed.

Lemma stash_of (a : bool) n m (p : list (name * content)) :
  ((negb a && str_eqb n m) || mem_str n (map fst p)) = false -> (a = false -> n <> m) /\ ~ In n (map fst p).
Proof.
  intro H. apply orb_false_iff in H. destruct H as [H1 H2]. split.
  - intros Ha Heq. subst a. simpl in H1. apply str_eqb_spec in Heq. congruence.
  - intro Hin. apply mem_str_In in Hin. congruence.
Qed.

Ltac fin_block :=
  split; [reflexivity|]; split; [try rewrite_lookup; reflexivity|]; split; [|assumption];
  split; [try rewrite_lookup; discriminate|]; split; assumption
with rewrite_lookup :=
  match goal with H : lookup _ _ = _ |- _ => rewrite H end.

Lemma sub_block_fixed i x t t' :
  exec i (sub_steps_fixed x) t = (t', None) ->
  st_fs t' = st_fs t /\
  st_pending t' = st_pending t ++ [(s_name x, text_of (st_fs t) x)] /\
  sub_good i (st_fs t) x /\ ~ In (s_name x) (map fst (st_pending t)).
Proof.
  unfold sub_steps_fixed, sub_good, text_of, expected. intro E.
  destruct (s_src x) as [o|c| |c]; simpl in E;
    (destruct (negb (i_dir_ok i) || is_dir (st_fs t) (s_name x)) eqn:P; [discriminate|]);
    (destruct (negb (i_overwrite i) && is_file (st_fs t) (s_name x)) eqn:Q; [discriminate|]);
    pose proof (checked_of _ _ _ P Q) as CK; simpl in E.
  - destruct (call_hits i t); [discriminate|]. destruct o as [|c]; [discriminate|]. simpl in E.
    destruct ((negb (i_alias i) && str_eqb (s_name x) (i_main i)) || mem_str (s_name x) (map fst (st_pending t))) eqn:R; [discriminate|].
    apply stash_of in R. destruct R. inversion E; subst; simpl. fin_block.
  - destruct ((negb (i_alias i) && str_eqb (s_name x) (i_main i)) || mem_str (s_name x) (map fst (st_pending t))) eqn:R; [discriminate|].
    apply stash_of in R. destruct R. inversion E; subst; simpl. fin_block.
  - destruct (lookup (st_fs t) (s_name x)) as [[c|]|] eqn:L; try discriminate. simpl in E.
    destruct ((negb (i_alias i) && str_eqb (s_name x) (i_main i)) || mem_str (s_name x) (map fst (st_pending t))) eqn:R; [discriminate|].
    apply stash_of in R. destruct R. inversion E; subst; simpl. fin_block.
  - destruct c as [c|]; [|discriminate]. simpl in E.
    destruct ((negb (i_alias i) && str_eqb (s_name x) (i_main i)) || mem_str (s_name x) (map fst (st_pending t))) eqn:R; [discriminate|].
    apply stash_of in R. destruct R. inversion E; subst; simpl. fin_block.
Qed.

Lemma NoDup_snoc {A} (l : list A) a : NoDup l -> ~ In a l -> NoDup (l ++ [a]).
Proof.
  intros H1 H2. eapply Permutation_NoDup; [apply Permutation_cons_append|]. constructor; auto.
Qed.

Lemma subs_fixed i : forall l t t',
  exec i (flat_map sub_steps_fixed l) t = (t', None) ->
  st_fs t' = st_fs t /\
  st_pending t' = st_pending t ++ plan (st_fs t) l /\
  Forall (sub_good i (st_fs t)) l /\
  (NoDup (map fst (st_pending t)) -> NoDup (map fst (st_pending t'))).
Proof.
  induction l as [|x l IH]; intros t t' E; simpl in E.
  - inversion E; subst. simpl. rewrite app_nil_r. auto.
  - rewrite exec_app in E.
    destruct (exec i (sub_steps_fixed x) t) as [t1 [e1|]] eqn:E1; [discriminate|].
    destruct (sub_block_fixed _ _ _ _ E1) as (F1 & P1 & G1 & N1).
    destruct (IH _ _ E) as (F2 & P2 & G2 & N2).
    rewrite F1 in *. repeat split; auto.
    + rewrite P2, P1, <- app_assoc. reflexivity.
    + intro ND. apply N2. rewrite P1, map_app. simpl. apply NoDup_snoc; auto.
Qed.

(* success of the whole check phase, multi-file *)
Lemma check_phase_multi_ok i t :
  i_multifile i = true -> exec i (check_phase i) (init i) = (t, None) ->
  exists cm, out_content (i_mainr i) = Some cm /\
    st_pending t = plan (i_fs i) (order (i_subs i)) ++ [(i_main i, cm)] /\
    checked i (i_fs i) (i_main i) /\
    Forall (sub_good i (i_fs i)) (order (i_subs i)) /\
    NoDup (map s_name (order (i_subs i))).
Proof.
  intros M E. unfold check_phase in E. rewrite M in E.
  change ([SPathFc (i_main i); SCheckOverwrite (i_main i); SValidate] ++
          flat_map sub_steps_fixed (order (i_subs i)) ++ [SDumpCall (i_mainr i); SStashMain (i_main i)])
    with ([SPathFc (i_main i); SCheckOverwrite (i_main i); SValidate] ++
          (flat_map sub_steps_fixed (order (i_subs i)) ++ [SDumpCall (i_mainr i); SStashMain (i_main i)])) in E.
  rewrite exec_app in E.
  destruct (exec i [SPathFc (i_main i); SCheckOverwrite (i_main i); SValidate] (init i)) as [t0 [e0|]] eqn:E0;
    [discriminate|].
  assert (T0 : t0 = init i /\ checked i (i_fs i) (i_main i)).
  { simpl in E0.
    destruct (negb (i_dir_ok i) || is_dir (i_fs i) (i_main i)) eqn:P; [discriminate|]. simpl in E0.
    destruct (negb (i_overwrite i) && is_file (i_fs i) (i_main i)) eqn:Q; [discriminate|].
    simpl in E0. destruct (negb (i_skipval i) && negb (i_valid i)); [discriminate|].
    inversion E0. split; auto. apply checked_of; auto. }
  destruct T0 as [-> CK].
  rewrite exec_app in E.
  destruct (exec i (flat_map sub_steps_fixed (order (i_subs i))) (init i)) as [t1 [e1|]] eqn:E1; [discriminate|].
  destruct (subs_fixed _ _ _ _ E1) as (F1 & P1 & G1 & N1). simpl in F1, P1, G1, N1.
  simpl in E. destruct (call_hits i t1); [discriminate|].
  destruct (i_mainr i) as [|cm]; [discriminate|]. simpl in E. inversion E; subst t. simpl.
  exists cm. split; [reflexivity|]. split; [rewrite P1; reflexivity|]. split; [exact CK|]. split; [exact G1|].
  rewrite <- (plan_names (i_fs i)), <- P1. apply N1. constructor.
Qed.

(* success of the whole check phase, single-file *)
Lemma check_phase_single_ok i t :
  i_multifile i = false -> exec i (check_phase i) (init i) = (t, None) ->
  exists c, out_content (i_full i) = Some c /\ st_pending t = [(i_main i, c)] /\ checked i (i_fs i) (i_main i).
Proof.
  intros M E. unfold check_phase in E. rewrite M in E. simpl in E.
  destruct (negb (i_dir_ok i) || is_dir (i_fs i) (i_main i)) eqn:P; [discriminate|]. simpl in E.
  destruct (negb (i_overwrite i) && is_file (i_fs i) (i_main i)) eqn:Q; [discriminate|].
  simpl in E. destruct (negb (i_skipval i) && negb (i_valid i)); [discriminate|].
  simpl in E. unfold call_hits in E. simpl in E.
  destruct (match i_failcall i with Some k => Nat.eqb k 0 | None => false end); [discriminate|].
  destruct (i_full i) as [|c]; [discriminate|]. simpl in E. inversion E; subst t. simpl.
  exists c. split; [reflexivity|]. split; [reflexivity|]. apply (checked_of _ _ _ P Q).
Qed.

(* both modes together: what is pending after a successful check phase *)
Record pending_ok (i : input) (p : list (name * content)) : Prop := {
  po_nodup : alias_clash i = false -> NoDup (map fst p);
  po_targets : forall n, In n (map fst p) <-> In n (targets i);
  po_checked : forall n, In n (map fst p) -> checked i (i_fs i) n;
  po_main : exists c, (if i_multifile i then out_content (i_mainr i) else out_content (i_full i)) = Some c
                      /\ In (i_main i, c) p;
  po_subs : i_multifile i = true ->
            forall x, In x (i_subs i) -> exists c, expected (i_fs i) x = Some c /\ In (s_name x, c) p;
  po_distinct : i_multifile i = true ->
                NoDup (map s_name (i_subs i)) /\
                (alias_clash i = false -> ~ In (i_main i) (map s_name (i_subs i))) }.

Lemma pending_facts i t :
  exec i (check_phase i) (init i) = (t, None) -> pending_ok i (st_pending t).
Proof.
  intro E. destruct (i_multifile i) eqn:M.
  - destruct (check_phase_multi_ok i t M E) as (cm & Hm & P & CK & G & ND).
    pose proof (order_perm (i_subs i)) as Perm.
    assert (Pn : Permutation (map s_name (order (i_subs i))) (map s_name (i_subs i)))
      by (apply Permutation_map; exact Perm).
    assert (Hnames : map fst (st_pending t) = map s_name (order (i_subs i)) ++ [i_main i]).
    { rewrite P, map_app, plan_names. reflexivity. }
    assert (Hnotmain : alias_clash i = false -> ~ In (i_main i) (map s_name (order (i_subs i)))).
    { unfold alias_clash. rewrite M. simpl. intros AC Hin.
      destruct (i_alias i) eqn:A; simpl in AC.
      - assert (Hin' : In (i_main i) (map s_name (i_subs i))) by (eapply Permutation_in; eauto).
        apply mem_str_In in Hin'. congruence.
      - apply in_map_iff in Hin. destruct Hin as (y & Hy & Hin).
        rewrite Forall_forall in G. destruct (G y Hin) as (_ & _ & Hne). apply (Hne A). exact Hy. }
    constructor.
    + intro AC. rewrite Hnames. apply NoDup_snoc; auto.
    + intro n. rewrite Hnames. unfold targets. rewrite M. rewrite in_app_iff. simpl. split.
      * intros [H|[H|[]]]; [right; eapply Permutation_in; eauto | left; auto].
      * intros [H|H]; [right; left; auto | left; eapply Permutation_in; [apply Permutation_sym|]; eauto].
    + intro n. rewrite Hnames, in_app_iff. simpl. intros [H|[H|[]]].
      * apply in_map_iff in H. destruct H as (y & Hy & Hin). subst n.
        rewrite Forall_forall in G. destruct (G y Hin) as (_ & Hc & _). exact Hc.
      * subst n. exact CK.
    + rewrite M. exists cm. split; auto. rewrite P. apply in_or_app. right. left. reflexivity.
    + intros _ x Hx. assert (Hin : In x (order (i_subs i))).
      { eapply Permutation_in; [apply Permutation_sym; exact Perm | exact Hx]. }
      rewrite Forall_forall in G. destruct (G x Hin) as (He & _ & _).
      destruct (expected (i_fs i) x) as [c|] eqn:Ex; [|congruence].
      exists c. split; auto. rewrite P. apply in_or_app. left. unfold plan.
      apply in_map_iff. exists x. split; auto. unfold text_of. rewrite Ex. reflexivity.
    + intros _. split.
      * eapply Permutation_NoDup; [exact Pn | exact ND].
      * intros AC Hin. apply (Hnotmain AC). eapply Permutation_in; [apply Permutation_sym; exact Pn | exact Hin].
  - destruct (check_phase_single_ok i t M E) as (c & Hc & P & CK).
    constructor; rewrite ?P; simpl; try (intro HH; rewrite M in HH; discriminate HH).
    + intros _. repeat constructor. intros [].
    + intro n. unfold targets. rewrite M. simpl. tauto.
    + intros n [H|[]]. subst n. exact CK.
    + rewrite ?M. exists c. split; [exact Hc | left; reflexivity].
Qed.

Lemma checked_absent i f n : i_overwrite i = false -> checked i f n -> lookup f n = None.
Proof.
  intros Ho (_ & Hd & Hf). specialize (Hf Ho). unfold is_dir, is_file in *.
  destruct (lookup f n) as [[c|]|]; auto; discriminate.
Qed.

(* ---- the property statements, for save_fixed, for every input --------------------------------- *)
(* only the targets can change, whatever the flags and the outcome *)
Lemma fixed_frame_lemma i m :
  ~ In m (targets i) -> lookup (fst (save_fixed i)) m = lookup (i_fs i) m.
Proof.
  intro H. rewrite save_fixed_unfold.
  destruct (exec i (check_phase i) (init i)) as [t [e|]] eqn:E; simpl; auto.
  apply flush_other. intro Hin. apply H. apply (po_targets _ _ (pending_facts i t E)). exact Hin.
Qed.

(* no silent overwrite: without overwrite=True every entry that existed (file or directory) is still
   there, unchanged, whether the save succeeds or fails *)
Lemma fixed_no_overwrite_lemma i :
  i_overwrite i = false ->
  forall n x, lookup (i_fs i) n = Some x -> lookup (fst (save_fixed i)) n = Some x.
Proof.
  intros Ho n x L. rewrite save_fixed_unfold.
  destruct (exec i (check_phase i) (init i)) as [t [e|]] eqn:E; simpl; auto.
  rewrite flush_other; auto. intro Hin.
  pose proof (po_checked _ _ (pending_facts i t E) n Hin) as CK.
  rewrite (checked_absent i _ n Ho CK) in L. discriminate.
Qed.

Lemma fixed_existing_target_refused_lemma i :
  i_overwrite i = false -> i_dir_ok i = true -> is_file (i_fs i) (i_main i) = true ->
  save_fixed i = (i_fs i, Some ERefuse).
Proof.
  intros Hov Hd Hf. pose proof (is_file_not_dir _ _ Hf) as Hnd.
  rewrite save_fixed_unfold. unfold check_phase.
  destruct (i_multifile i); simpl; rewrite Hd, Hnd; simpl; rewrite Hov, Hf; reflexivity.
Qed.

(* any target that cannot be written without destroying something makes the save fail as a whole *)
Lemma fixed_unchecked_target_fails i n :
  In n (targets i) -> ~ checked i (i_fs i) n -> exists e, save_fixed i = (i_fs i, Some e).
Proof.
  intros Hin Hn. rewrite save_fixed_unfold.
  destruct (exec i (check_phase i) (init i)) as [t [e|]] eqn:E; [eexists; reflexivity|].
  exfalso. apply Hn. pose proof (pending_facts i t E) as PO.
  apply (po_checked _ _ PO). apply (po_targets _ _ PO). exact Hin.
Qed.

Lemma fixed_existing_subfile_refused_lemma i x :
  i_multifile i = true -> i_overwrite i = false ->
  In x (i_subs i) -> is_file (i_fs i) (s_name x) = true ->
  exists e, save_fixed i = (i_fs i, Some e).
Proof.
  intros M Ho Hin Hf. apply (fixed_unchecked_target_fails i (s_name x)).
  - unfold targets. rewrite M. right. apply in_map. exact Hin.
  - intros (_ & _ & H). rewrite (H Ho) in Hf. discriminate.
Qed.

Lemma fixed_directory_in_the_way_lemma i n :
  In n (targets i) -> is_dir (i_fs i) n = true -> exists e, save_fixed i = (i_fs i, Some e).
Proof.
  intros Hin Hd. apply (fixed_unchecked_target_fails i n Hin).
  intros (_ & H & _). congruence.
Qed.

Lemma fixed_name_clash_refused_lemma i :
  alias_clash i = false ->
  i_multifile i = true -> name_clash i = true -> exists e, save_fixed i = (i_fs i, Some e).
Proof.
  intros AC M C. rewrite save_fixed_unfold.
  destruct (exec i (check_phase i) (init i)) as [t [e|]] eqn:E; [eexists; reflexivity|].
  exfalso. destruct (po_distinct _ _ (pending_facts i t E) M) as [ND NM].
  unfold name_clash in C. apply orb_true_iff in C. destruct C as [C|C].
  - apply nodup_str_NoDup in ND. rewrite ND in C. discriminate.
  - apply mem_str_In in C. apply (NM AC). exact C.
Qed.

(* two SUB-files with one name are refused whatever the form of the target path *)
Lemma fixed_subfile_clash_refused_lemma i :
  i_multifile i = true -> nodup_str (map s_name (i_subs i)) = false -> exists e, save_fixed i = (i_fs i, Some e).
Proof.
  intros M C. rewrite save_fixed_unfold.
  destruct (exec i (check_phase i) (init i)) as [t [e|]] eqn:E; [eexists; reflexivity|].
  exfalso. destruct (po_distinct _ _ (pending_facts i t E) M) as [ND _].
  apply nodup_str_NoDup in ND. congruence.
Qed.

(* a successful save can be read back *)
Lemma holds_some f n c : lookup f n = Some (File c) -> holds f n (Some c) = true.
Proof. unfold holds. intro H. rewrite H. apply N.eqb_refl. Qed.

Lemma fixed_save_then_parse_lemma i f' :
  alias_clash i = false -> save_fixed i = (f', None) -> reparse_ok i f' = true.
Proof.
  intro AC. rewrite save_fixed_unfold.
  destruct (exec i (check_phase i) (init i)) as [t [e|]] eqn:E; intro H; inversion H; subst f'; clear H.
  pose proof (pending_facts i t E) as PO. destruct PO as [ND _ _ (cm & Hcm & Hinm) Hsubs _].
  specialize (ND AC).
  unfold reparse_ok. destruct (i_multifile i) eqn:M.
  - apply andb_true_iff. split.
    + rewrite Hcm. apply holds_some. apply flush_in; auto.
    + apply forallb_forall. intros x Hx. destruct (Hsubs eq_refl x Hx) as (c & Hc & Hin).
      rewrite Hc. apply holds_some. apply flush_in; auto.
  - rewrite Hcm. apply holds_some. apply flush_in; auto.
Qed.

(* success implies distinct targets, all creatable *)
Lemma fixed_success_targets_lemma i f' :
  save_fixed i = (f', None) ->
  (forall n, In n (targets i) -> checked i (i_fs i) n) /\
  (i_multifile i = true -> NoDup (map s_name (i_subs i)) /\
                           (alias_clash i = false -> ~ In (i_main i) (map s_name (i_subs i)))).
Proof.
  rewrite save_fixed_unfold.
  destruct (exec i (check_phase i) (init i)) as [t [e|]] eqn:E; intro H; inversion H; subst f'; clear H.
  pose proof (pending_facts i t E) as PO. split.
  - intros n Hn. apply (po_checked _ _ PO). apply (po_targets _ _ PO). exact Hn.
  - apply (po_distinct _ _ PO).
Qed.

(* ---- the model meets Spec/SaveFSSpec.v ------------------------------------------------------- *)
Lemma node_eqb_refl x : node_eqb x x = true.
Proof. destruct x; simpl; auto. apply N.eqb_refl. Qed.

Lemma agrees_on_eq a b n : lookup a n = lookup b n -> agrees_on a b n = true.
Proof.
  unfold agrees_on. intro H. rewrite H. destruct (lookup b n); simpl; auto. apply node_eqb_refl.
Qed.

Lemma fs_same_refl f : fs_same f f = true.
Proof. unfold fs_same. apply forallb_forall. intros n _. apply agrees_on_eq. reflexivity. Qed.

Lemma fixed_meets_spec_lemma i :
  alias_clash i = false ->
  spec_ok (i_overwrite i) (targets i) (i_fs i) (fst (save_fixed i)) (is_some (snd (save_fixed i)))
          (reparse_ok i (fst (save_fixed i))) = true.
Proof.
  intro AC. destruct (save_fixed i) as [f' o] eqn:S. simpl. unfold spec_ok.
  assert (Hframe : forall n, mem_str n (targets i) || agrees_on (i_fs i) f' n = true).
  { intro n. destruct (mem_str n (targets i)) eqn:Mn; auto. simpl.
    apply agrees_on_eq. symmetry.
    replace f' with (fst (save_fixed i)) by (rewrite S; reflexivity).
    apply fixed_frame_lemma. intro Hin. apply mem_str_In in Hin. congruence. }
  repeat (apply andb_true_iff; split).
  - destruct o as [e|]; simpl.
    + rewrite (fixed_all_or_nothing_lemma i f' e S). apply fs_same_refl.
    + apply fixed_save_then_parse_lemma; [exact AC | exact S].
  - destruct (i_overwrite i) eqn:Ho; auto. apply forallb_forall. intros n Hn.
    apply agrees_on_eq. apply lookup_in_names in Hn.
    destruct (lookup (i_fs i) n) as [x|] eqn:L; [|congruence].
    replace f' with (fst (save_fixed i)) by (rewrite S; reflexivity).
    symmetry. apply fixed_no_overwrite_lemma; auto.
  - apply forallb_forall. intros n _. apply Hframe.
Qed.

(* ---- the guard ------------------------------------------------------------------------------- *)
Lemma alias_clash_no_alias i : i_alias i = false -> alias_clash i = false.
Proof. unfold alias_clash. intro H. rewrite H. apply andb_false_iff. left. apply andb_false_r. Qed.

Lemma classify_zero i : classify i = 0%N <-> alias_clash i = false.
Proof. unfold classify. destruct (alias_clash i); split; intro H; auto; discriminate. Qed.

(* C18 — lemmas about Model/SaveFS.v. *)
From JV Require Import Lib.Base Model.SaveFS Spec.SaveFSSpec.
From Coq Require Import Permutation.

(* ---- lookup / write ----------------------------------------------------------------------- *)
Lemma lookup_write_same f n c : lookup (write f n c) n = Some (File c).
Proof.
  induction f as [|[m x] f IH]; simpl.
  - rewrite str_eqb_refl. reflexivity.
  - destruct (str_eqb m n) eqn:E; simpl; rewrite E; auto.
Qed.

Lemma lookup_write_other f n c m : m <> n -> lookup (write f n c) m = lookup f m.
Proof.
  intro H. induction f as [|[k x] f IH]; simpl.
  - destruct (str_eqb n m) eqn:E; auto. apply str_eqb_spec in E. congruence.
  - destruct (str_eqb k n) eqn:E; simpl.
    + apply str_eqb_spec in E. subst k.
      destruct (str_eqb n m) eqn:E2; auto. apply str_eqb_spec in E2. congruence.
    + destruct (str_eqb k m); auto.
Qed.

Lemma is_file_not_dir f n : is_file f n = true -> is_dir f n = false.
Proof. unfold is_file, is_dir. destruct (lookup f n) as [[c|]|]; auto; discriminate. Qed.

(* ---- exec --------------------------------------------------------------------------------- *)
Lemma exec_app i a b t :
  exec i (a ++ b) t =
  match exec i a t with
  | (t', None) => exec i b t'
  | (t', Some e) => (t', Some e)
  end.
Proof.
  revert t. induction a as [|s a IH]; intro t; simpl; auto.
  destruct (exec1 i s t); auto.
Qed.

Definition pre (i : input) : list step :=
  [SPathFc (i_main i); SCheckOverwrite (i_main i); SValidate].
Definition post (i : input) : list step :=
  [SOpenW (i_main i); SDumpCall (i_mainr i); SWrite (i_main i)].

Lemma steps_multi i :
  i_multifile i = true -> steps i = pre i ++ (flat_map sub_steps (order (i_subs i)) ++ post i).
Proof. intro H. unfold steps. rewrite H. reflexivity. Qed.

Ltac break_in H :=
  repeat match type of H with
         | context [if ?c then _ else _] => destruct c eqn:?
         | context [match ?x with _ => _ end] => destruct x eqn:?
         end.

Ltac crunch E :=
  simpl in E;
  repeat (match type of E with
          | context [if ?c then _ else _] => destruct c eqn:?
          | context [match ?x with _ => _ end] => is_var x; destruct x
          | context [match ?x with _ => _ end] =>
              match type of x with
              | outcome => destruct x eqn:?
              | option content => destruct x eqn:?
              end
          | context [match lookup ?f ?n with _ => _ end] => destruct (lookup f n) as [[?|]|] eqn:?
          end; try discriminate; simpl in E).

(* one step: either it fails, or it leaves the file system alone, or it (re)writes one name *)
Lemma exec1_shape i s t t1 :
  exec1 i s t = Ok t1 ->
  st_fs t1 = st_fs t
  \/ (exists n c, (s = SOpenW n \/ s = SWrite n) /\ st_fs t1 = write (st_fs t) n c)
  \/ s = SFlush.
Proof.
  intro E. destruct s; unfold exec1 in E; break_in E; try discriminate;
    inversion E; subst; simpl; auto.
  - right; left; eauto.
  - right; left; eauto.
Qed.

Definition step_within (P : name -> Prop) (s : step) : Prop :=
  match s with
  | SOpenW n | SWrite n => P n
  | SFlush => False
  | _ => True
  end.

Lemma step_within_mono (P Q : name -> Prop) s :
  (forall n, P n -> Q n) -> step_within P s -> step_within Q s.
Proof. destruct s; simpl; auto. Qed.

(* frame: names no step may write keep their entry, whether the run fails or not *)
Lemma exec_frame i P ss :
  Forall (step_within P) ss ->
  forall t t' e m, exec i ss t = (t', e) -> ~ P m -> lookup (st_fs t') m = lookup (st_fs t) m.
Proof.
  induction 1 as [|s ss Hs _ IH]; intros t t' e m E Hm; simpl in E.
  - inversion E; subst; auto.
  - destruct (exec1 i s t) as [t1|e1] eqn:E1.
    + rewrite (IH _ _ _ _ E Hm).
      destruct (exec1_shape _ _ _ _ E1) as [H|[(n & c & Hn & H)|H]].
      * rewrite H; auto.
      * rewrite H. apply lookup_write_other. intro; subst m.
        destruct Hn as [Hn|Hn]; subst s; simpl in Hs; contradiction.
      * subst s. simpl in Hs. contradiction.
    + inversion E; subst; auto.
Qed.

Definition nowrite (s : step) : bool :=
  match s with SOpenW _ | SWrite _ | SFlush => false | _ => true end.

Lemma exec_nowrite i ss :
  forallb nowrite ss = true -> forall t t' e, exec i ss t = (t', e) -> st_fs t' = st_fs t.
Proof.
  induction ss as [|s ss IH]; simpl; intros H t t' e E.
  - inversion E; auto.
  - apply andb_true_iff in H. destruct H as [Hs H].
    destruct (exec1 i s t) as [t1|e1] eqn:E1.
    + rewrite (IH H _ _ _ E).
      destruct (exec1_shape _ _ _ _ E1) as [H1|[(n & c & Hn & _)|H1]]; auto.
      * destruct Hn; subst s; discriminate.
      * subst s; discriminate.
    + inversion E; auto.
Qed.

Lemma pre_fs i t0 o : exec i (pre i) (init i) = (t0, o) -> st_fs t0 = i_fs i.
Proof. intro E. apply (exec_nowrite i (pre i) eq_refl _ _ _ E). Qed.

(* ---- the order is a permutation ------------------------------------------------------------ *)
Lemma insert_desc_perm x l : Permutation (insert_desc x l) (x :: l).
Proof.
  induction l as [|y l IH]; simpl; auto.
  destruct (Nat.leb (s_depth y) (s_depth x)); auto.
  eapply perm_trans; [apply perm_skip; apply IH | apply perm_swap].
Qed.

Lemma sort_perm l : Permutation (fold_right insert_desc [] l) l.
Proof.
  induction l as [|x l IH]; simpl; auto.
  eapply perm_trans; [apply insert_desc_perm | apply perm_skip; auto].
Qed.

Lemma partition_perm {A} (f : A -> bool) l :
  Permutation (filter (fun x => negb (f x)) l ++ filter f l) l.
Proof.
  induction l as [|a l IH]; simpl; auto.
  destruct (f a); simpl.
  - apply Permutation_sym. apply Permutation_cons_app. apply Permutation_sym. exact IH.
  - apply perm_skip. exact IH.
Qed.

Lemma order_perm l : Permutation (order l) l.
Proof.
  unfold order. eapply perm_trans; [apply sort_perm | apply partition_perm].
Qed.

Lemma nodup_str_NoDup l : nodup_str l = true -> NoDup l.
Proof.
  induction l as [|x l IH]; simpl; intro H; [constructor|].
  apply andb_true_iff in H. destruct H as [H1 H2]. constructor; auto.
  intro Hin. apply mem_str_In in Hin. rewrite Hin in H1. discriminate.
Qed.

(* ---- no silent overwrite -------------------------------------------------------------------- *)
(* every regular file of f0 is still there with the same content *)
Definition keeps (f0 f : fs) : Prop :=
  forall n c, lookup f0 n = Some (File c) -> lookup f n = Some (File c).

(* a step list is well-guarded when every open/write of a name comes after a check_overwrite of
   that name *)
Fixpoint wf (ck : list name) (ss : list step) : Prop :=
  match ss with
  | [] => True
  | SCheckOverwrite n :: r => wf (n :: ck) r
  | SOpenW n :: r => In n ck /\ wf ck r
  | SWrite n :: r => In n ck /\ wf ck r
  | SFlush :: r => False
  | _ :: r => wf ck r
  end.

Lemma wf_mono ss : forall ck ck', (forall x, In x ck -> In x ck') -> wf ck ss -> wf ck' ss.
Proof.
  induction ss as [|s ss IH]; intros ck ck' Hsub H; simpl in *; auto.
  destruct s; simpl in *; try (eapply IH; eauto; fail); auto.
  - eapply IH; [|exact H]. intros x [Hx|Hx]; [left; auto | right; auto].
  - destruct H; split; auto. eapply IH; eauto.
  - destruct H; split; auto. eapply IH; eauto.
Qed.

Lemma wf_app a : forall b ck, wf ck a -> wf ck b -> wf ck (a ++ b).
Proof.
  induction a as [|s a IH]; simpl; intros b ck Ha Hb; auto.
  destruct s; simpl in *; try (apply IH; auto; fail); auto.
  - apply IH; auto. eapply wf_mono; [|exact Hb]. intros; right; auto.
  - destruct Ha; split; auto.
  - destruct Ha; split; auto.
Qed.

Lemma wf_sub x ck : wf ck (sub_steps x).
Proof. unfold sub_steps. destruct (s_src x); simpl; intuition. Qed.

Lemma wf_subs l ck : wf ck (flat_map sub_steps l).
Proof. induction l as [|x l IH]; simpl; auto. apply wf_app; auto using wf_sub. Qed.

Lemma wf_steps i : wf [] (steps i).
Proof.
  unfold steps. destruct (i_multifile i); simpl.
  - apply wf_app; [apply wf_subs | simpl; intuition].
  - intuition.
Qed.

Lemma keeps_write f0 f n c : keeps f0 f -> is_file f0 n = false -> keeps f0 (write f n c).
Proof.
  intros K Hn m d Hm. rewrite lookup_write_other; auto.
  intro; subst m. unfold is_file in Hn. rewrite Hm in Hn. discriminate.
Qed.

Lemma exec_keeps i f0 :
  i_overwrite i = false ->
  forall ss ck t t' e,
    wf ck ss -> (forall n, In n ck -> is_file f0 n = false) -> keeps f0 (st_fs t) ->
    exec i ss t = (t', e) -> keeps f0 (st_fs t').
Proof.
  intro Hov. induction ss as [|s ss IH]; intros ck t t' e W C K E; simpl in E.
  - inversion E; subst; auto.
  - destruct (exec1 i s t) as [t1|e1] eqn:E1; [|inversion E; subst; auto].
    destruct s; simpl in W;
      try (assert (st_fs t1 = st_fs t)
             by (unfold exec1 in E1; break_in E1; try discriminate; inversion E1; subst; reflexivity);
           eapply IH; [exact W | exact C | | exact E]; rewrite H; exact K).
    + (* SCheckOverwrite *)
      unfold exec1 in E1. rewrite Hov in E1. simpl in E1.
      destruct (is_file (st_fs t) n) eqn:F; [discriminate|]. inversion E1; subst t1.
      eapply IH; [exact W | | exact K | exact E].
      intros m [Hm|Hm]; auto. subst m.
      unfold is_file. destruct (lookup f0 n) as [[c|]|] eqn:L; auto.
      apply K in L. unfold is_file in F. rewrite L in F. discriminate.
    + (* SOpenW *)
      destruct W as [Hin W]. unfold exec1 in E1. inversion E1; subst t1.
      eapply IH; [exact W | exact C | | exact E]. simpl. apply keeps_write; auto.
    + (* SWrite *)
      destruct W as [Hin W]. unfold exec1 in E1. inversion E1; subst t1.
      eapply IH; [exact W | exact C | | exact E]. simpl. apply keeps_write; auto.
    + contradiction.
Qed.

Lemma no_silent_overwrite_lemma i :
  i_overwrite i = false ->
  forall n c, lookup (i_fs i) n = Some (File c) -> lookup (fst (save i)) n = Some (File c).
Proof.
  intros Hov n c L. unfold save. simpl.
  destruct (exec i (steps i) (init i)) as [t' e] eqn:E. simpl.
  eapply (exec_keeps i (i_fs i) Hov (steps i) [] (init i) t' e); eauto.
  - apply wf_steps.
  - intros m [].
  - intros m d Hm. exact Hm.
Qed.

Lemma existing_target_refused_lemma i :
  i_overwrite i = false -> i_dir_ok i = true -> is_file (i_fs i) (i_main i) = true ->
  save i = (i_fs i, Some ERefuse).
Proof.
  intros Hov Hd Hf. pose proof (is_file_not_dir _ _ Hf) as Hnd.
  unfold save, steps. destruct (i_multifile i); simpl; rewrite Hd, Hnd; simpl; rewrite Hov, Hf; reflexivity.
Qed.

(* a sub-file that exists makes a save without overwrite fail, however far it gets *)
Lemma subs_refuse i f0 x rest :
  i_overwrite i = false -> is_file f0 (s_name x) = true ->
  forall l t, In x l -> keeps f0 (st_fs t) ->
    exists e, snd (exec i (flat_map sub_steps l ++ rest) t) = Some e.
Proof.
  intros Hov Hf. induction l as [|a l IH]; intros t Hin K; [destruct Hin|].
  simpl. rewrite <- app_assoc. rewrite exec_app.
  destruct (exec i (sub_steps a) t) as [t1 [e1|]] eqn:E1; [eexists; reflexivity|].
  destruct Hin as [Ha|Hin].
  - subst a. exfalso.
    assert (F : is_file (st_fs t) (s_name x) = true).
    { unfold is_file in *. destruct (lookup f0 (s_name x)) as [[c|]|] eqn:L; try discriminate.
      rewrite (K _ _ L). reflexivity. }
    unfold sub_steps in E1.
    destruct (s_src x); simpl in E1;
      (destruct (negb (i_dir_ok i) || is_dir (st_fs t) (s_name x)); [discriminate|]);
      simpl in E1; rewrite Hov, F in E1; simpl in E1; discriminate.
  - apply IH; auto.
    eapply (exec_keeps i f0 Hov (sub_steps a) [] t t1 None); eauto.
    + apply wf_sub.
    + intros m [].
Qed.

Lemma existing_subfile_refused_lemma i x :
  i_multifile i = true -> i_overwrite i = false ->
  In x (i_subs i) -> is_file (i_fs i) (s_name x) = true ->
  exists e, snd (save i) = Some e.
Proof.
  intros Hm Hov Hin Hf. unfold save. cbn [snd]. rewrite (steps_multi i Hm), exec_app.
  destruct (exec i (pre i) (init i)) as [t0 [e0|]] eqn:E0; [eexists; reflexivity|].
  pose proof (pre_fs _ _ _ E0) as F0.
  apply (subs_refuse i (i_fs i) x); auto.
  - apply (Permutation_in x (Permutation_sym (order_perm (i_subs i)))). exact Hin.
  - rewrite F0. intros m d Hmd. exact Hmd.
Qed.

(* ---- all-or-nothing, as far as it holds ------------------------------------------------------ *)
Lemma target_fail_save i :
  target_check_fails i = true -> exists e, save i = (i_fs i, Some e).
Proof.
  unfold target_check_fails, save, steps. intro H.
  destruct (i_dir_ok i) eqn:D; simpl in H.
  - destruct (is_dir (i_fs i) (i_main i)) eqn:A; simpl in H.
    + destruct (i_multifile i); simpl; rewrite D, A; eexists; reflexivity.
    + destruct (i_overwrite i) eqn:W; simpl in H; [discriminate|].
      destruct (i_multifile i); simpl; rewrite D, A; simpl; rewrite W, H; eexists; reflexivity.
  - destruct (i_multifile i); simpl; rewrite D; eexists; reflexivity.
Qed.

Lemma validate_fail_save i :
  target_check_fails i = false -> i_multifile i = true -> validate_fails i = true ->
  save i = (i_fs i, Some EInvalid).
Proof.
  unfold target_check_fails, validate_fails, save, steps. intros T M V. rewrite M.
  destruct (i_dir_ok i) eqn:D; simpl in T; [|discriminate].
  destruct (is_dir (i_fs i) (i_main i)) eqn:A; simpl in T; [discriminate|].
  destruct (i_skipval i) eqn:SV; simpl in V; [discriminate|].
  destruct (i_valid i) eqn:VA; simpl in V; [discriminate|].
  simpl. rewrite D, A. simpl.
  destruct (i_overwrite i) eqn:W; simpl in T |- *.
  - rewrite SV, VA. reflexivity.
  - rewrite T. simpl. rewrite SV, VA. reflexivity.
Qed.

Lemma failed_true i f e : save i = (f, Some e) -> failed i = true.
Proof. unfold failed. intro H. rewrite H. reflexivity. Qed.

Lemma failed_false i f : save i = (f, None) -> failed i = false.
Proof. unfold failed. intro H. rewrite H. reflexivity. Qed.

Lemma failed_save_changes_nothing_lemma i f' e :
  classify i = 0%N -> save i = (f', Some e) -> f' = i_fs i.
Proof.
  unfold classify. intros C E. pose proof (failed_true _ _ _ E) as F.
  destruct (target_check_fails i) eqn:T.
  - destruct (target_fail_save i T) as [e' H]. congruence.
  - rewrite F in C. destruct (i_multifile i) eqn:M; simpl in C; [|discriminate].
    destruct (validate_fails i) eqn:V; [|discriminate].
    rewrite (validate_fail_save i T M V) in E. congruence.
Qed.

(* the precise form: a failure that comes before the first open/write leaves nothing behind *)
Lemma failure_before_first_open_lemma i pre post e :
  steps i = pre ++ post -> forallb nowrite pre = true ->
  snd (exec i pre (init i)) = Some e -> save i = (i_fs i, Some e).
Proof.
  intros S N E. unfold save. rewrite S, exec_app.
  destruct (exec i pre (init i)) as [t1 o] eqn:E1. simpl in E. subst o. simpl.
  rewrite (exec_nowrite i pre N _ _ _ E1). reflexivity.
Qed.

(* ---- the repaired order is all-or-nothing for every failure ---------------------------------- *)
Lemma nowrite_subs_fixed l : forallb nowrite (flat_map sub_steps_fixed l) = true.
Proof.
  induction l as [|x l IH]; simpl; auto. rewrite forallb_app, IH, andb_true_r.
  unfold sub_steps_fixed. destruct (s_src x); reflexivity.
Qed.

Lemma check_phase_nowrite i : forallb nowrite (check_phase i) = true.
Proof.
  unfold check_phase. destruct (i_multifile i); simpl; auto.
  rewrite forallb_app, nowrite_subs_fixed. reflexivity.
Qed.

Lemma fixed_all_or_nothing_lemma i f' e : save_fixed i = (f', Some e) -> f' = i_fs i.
Proof.
  unfold save_fixed, steps_fixed. rewrite exec_app.
  destruct (exec i (check_phase i) (init i)) as [t1 [e1|]] eqn:E; simpl; intro H; inversion H; subst.
  apply (exec_nowrite i _ (check_phase_nowrite i) _ _ _ E).
Qed.

(* ---- a successful save can be read back ------------------------------------------------------ *)
Lemma holds_lookup f g n c : lookup f n = lookup g n -> holds f n c = holds g n c.
Proof. unfold holds. intro H. rewrite H. reflexivity. Qed.

Lemma holds_write f n c : holds (write f n c) n (Some c) = true.
Proof. unfold holds. rewrite lookup_write_same. apply N.eqb_refl. Qed.

Lemma sub_block_ok i f0 x t t' :
  is_here x = false -> exec i (sub_steps x) t = (t', None) ->
  holds (st_fs t') (s_name x) (expected f0 x) = true.
Proof.
  unfold is_here, sub_steps, expected. intros H E.
  destruct (s_src x) as [o|c| |c]; try discriminate; crunch E;
    inversion E; subst; simpl; apply holds_write.
Qed.

Lemma sub_block_within x : Forall (step_within (fun n => n = s_name x)) (sub_steps x).
Proof. unfold sub_steps. destruct (s_src x); repeat constructor. Qed.

Lemma subs_within l : Forall (step_within (fun n => In n (map s_name l))) (flat_map sub_steps l).
Proof.
  induction l as [|x l IH]; simpl; [constructor|]. apply Forall_app. split.
  - eapply Forall_impl; [|apply sub_block_within]. intros s. apply step_within_mono. intros n ->. left; auto.
  - eapply Forall_impl; [|exact IH]. intros s. apply step_within_mono. intros n Hn. right; auto.
Qed.

Lemma subs_ok i f0 :
  forall l t t', NoDup (map s_name l) -> existsb is_here l = false ->
    exec i (flat_map sub_steps l) t = (t', None) ->
    forall x, In x l -> holds (st_fs t') (s_name x) (expected f0 x) = true.
Proof.
  induction l as [|a l IH]; intros t t' ND NH E x Hin; [destruct Hin|].
  simpl in E. rewrite exec_app in E.
  destruct (exec i (sub_steps a) t) as [t1 [e1|]] eqn:E1; [discriminate|].
  simpl in NH. apply orb_false_iff in NH. destruct NH as [NHa NHl].
  simpl in ND. inversion ND as [|? ? Hnotin ND']; subst.
  destruct Hin as [Ha|Hin].
  - subst a.
    rewrite (holds_lookup (st_fs t') (st_fs t1)).
    + eapply sub_block_ok; eauto.
    + eapply exec_frame; [apply subs_within | exact E | exact Hnotin].
  - eapply IH; eauto.
Qed.

Lemma save_then_parse_lemma i f' :
  classify i = 0%N -> save i = (f', None) -> reparse_ok i f' = true.
Proof.
  unfold classify. intros C E. pose proof (failed_false _ _ E) as F.
  destruct (target_check_fails i) eqn:T.
  { destruct (target_fail_save i T) as [e' H]. congruence. }
  rewrite F in C. unfold reparse_ok.
  destruct (i_multifile i) eqn:M; simpl in C.
  - (* multi-file *)
    destruct (validate_fails i) eqn:V.
    { rewrite (validate_fail_save i T M V) in E. discriminate. }
    destruct (existsb is_here (i_subs i)) eqn:NH; [discriminate|].
    destruct (name_clash i) eqn:NC; [discriminate|].
    unfold name_clash in NC. apply orb_false_iff in NC. destruct NC as [ND NM].
    apply negb_false_iff in ND. apply nodup_str_NoDup in ND.
    assert (NM' : ~ In (i_main i) (map s_name (i_subs i))).
    { intro Hin. apply mem_str_In in Hin. congruence. }
    pose proof (order_perm (i_subs i)) as P.
    unfold save in E. rewrite (steps_multi i M), exec_app in E.
    destruct (exec i (pre i) (init i)) as [t0 [e0|]] eqn:E0; [simpl in E; discriminate|].
    rewrite exec_app in E.
    destruct (exec i (flat_map sub_steps (order (i_subs i))) t0) as [t1 [e1|]] eqn:E1;
      [simpl in E; discriminate|].
    pose proof (pre_fs _ _ _ E0) as F0. unfold post in E.
    crunch E. inversion E; subst f'. clear E.
    apply andb_true_iff. split.
    + simpl. apply holds_write.
    + apply forallb_forall. intros x Hx.
      assert (Hne : s_name x <> i_main i).
      { intro Heq. apply NM'. rewrite <- Heq. apply in_map. exact Hx. }
      rewrite (holds_lookup _ (st_fs t1)).
      * eapply (subs_ok i (i_fs i) (order (i_subs i)) t0 t1); eauto.
        -- eapply Permutation_NoDup; [|exact ND]. apply Permutation_map. apply Permutation_sym. exact P.
        -- destruct (existsb is_here (order (i_subs i))) eqn:X; auto.
           apply existsb_exists in X. destruct X as (y & Hy & Hh).
           assert (existsb is_here (i_subs i) = true).
           { apply existsb_exists. exists y. split; auto. eapply Permutation_in; eauto. }
           congruence.
        -- eapply Permutation_in; [apply Permutation_sym; exact P | exact Hx].
      * simpl. rewrite !lookup_write_other; auto.
  - (* single-file *)
    unfold save, steps in E. rewrite M in E.
    crunch E. inversion E; subst f'. simpl. apply holds_write.
Qed.

(* frame: whatever happens, only the target names can change *)
Lemma steps_within i :
  Forall (step_within (fun n => n = i_main i \/ (i_multifile i = true /\ In n (map s_name (i_subs i)))))
         (steps i).
Proof.
  unfold steps. destruct (i_multifile i).
  - apply Forall_app. split; [repeat constructor|]. apply Forall_app. split.
    + eapply Forall_impl; [|apply subs_within]. intros s. apply step_within_mono.
      intros n Hn. right. split; auto.
      apply in_map_iff in Hn. destruct Hn as (y & Hy & Hin). apply in_map_iff. exists y. split; auto.
      eapply Permutation_in; [apply order_perm | exact Hin].
    + repeat constructor; simpl; auto.
  - repeat constructor; simpl; auto.
Qed.

Lemma save_frame_lemma i m :
  m <> i_main i -> (i_multifile i = true -> ~ In m (map s_name (i_subs i))) ->
  lookup (fst (save i)) m = lookup (i_fs i) m.
Proof.
  intros H1 H2. unfold save. simpl.
  destruct (exec i (steps i) (init i)) as [t' e] eqn:E. simpl.
  eapply (exec_frame i _ (steps i) (steps_within i) (init i) t' e m E).
  intros [H|[H3 H4]]; [auto | apply (H2 H3 H4)].
Qed.

(* C13 — lemmas relating the resolver model (Model/Kwargs.v) to CPython's keyword binding
   (Spec/KwargsSpec.v) under the hypothesis klass = 0 (Model/KwargsGuard.v). Induction on the
   call-chain fuel; the class hierarchy and the MRO are arbitrary. *)
From JV Require Import Lib.Base Model.Kwargs Model.KwargsGuard Spec.KwargsSpec.

(* ---- small facts --------------------------------------------------------------------------- *)
Lemma nodup_strs_NoDup l : nodup_strs l = true -> NoDup l.
Proof.
  induction l as [|x r IH]; simpl; intro H; [constructor|].
  apply andb_true_iff in H. destruct H as [H1 H2]. constructor; [|auto].
  intro Hin. apply mem_str_In in Hin. rewrite Hin in H1. discriminate.
Qed.

Lemma NoDup_nodup_strs l : NoDup l -> nodup_strs l = true.
Proof.
  induction 1 as [|x r Hn _ IH]; simpl; [reflexivity|].
  rewrite IH, andb_true_r. destruct (mem_str x r) eqn:E; [|reflexivity].
  apply mem_str_In in E. contradiction.
Qed.

Lemma mem_str_false x l : mem_str x l = false <-> ~ In x l.
Proof.
  split; intro H.
  - intro Hin. apply mem_str_In in Hin. congruence.
  - destruct (mem_str x l) eqn:E; [|reflexivity]. apply mem_str_In in E. contradiction.
Qed.

Lemma skipn_In {A} (x : A) n l : In x (skipn n l) -> In x l.
Proof.
  revert l; induction n as [|n IH]; intros l H; [exact H|].
  destruct l as [|y r]; [exact H|]. right. apply IH. exact H.
Qed.

Lemma skipn_map' {A B} (f : A -> B) n l : skipn n (map f l) = map f (skipn n l).
Proof.
  revert l; induction n as [|n IH]; intros l; [reflexivity|].
  destruct l as [|y r]; [reflexivity|]. simpl. apply IH.
Qed.

Lemma skipn_app_le {A} n (l1 l2 : list A) : n <= length l1 -> skipn n (l1 ++ l2) = skipn n l1 ++ l2.
Proof.
  revert l1; induction n as [|n IH]; intros l1 H; [reflexivity|].
  destruct l1 as [|y r]; simpl in *; [lia|]. apply IH. lia.
Qed.

Lemma names_own f : names (own_rparams f) = map sp_name (f_params f).
Proof. unfold names, own_rparams. rewrite map_map. reflexivity. Qed.

Lemma npos_cap_le f : npos_cap f <= length (f_params f).
Proof.
  unfold npos_cap. induction (f_params f) as [|p l IH]; simpl; [lia|].
  destruct (negb (sp_kwonly p)); simpl; lia.
Qed.

Lemma length_own f : length (own_rparams f) = length (f_params f).
Proof. unfold own_rparams. apply map_length. Qed.

Lemma nodup_by_In {A} (eqb : A -> A -> bool) x l seen : In x (nodup_by eqb l seen) -> In x l.
Proof.
  revert seen; induction l as [|y r IH]; intros seen H; [exact H|].
  simpl in H. destruct (existsb (eqb y) seen).
  - right. eapply IH. exact H.
  - destruct H as [H|H]; [left; exact H|right; eapply IH; exact H].
Qed.

(* ---- CPython's keyword loop ------------------------------------------------------------------ *)
Lemma find_param_ge n ps k i p : find_param n ps k = Some (i, p) -> k <= i.
Proof.
  revert k; induction ps as [|q r IH]; intros k H; [discriminate|].
  simpl in H. destruct (str_eqb n (sp_name q)).
  - inversion H; subst. lia.
  - apply IH in H. lia.
Qed.

Lemma find_param_In n ps k i p : find_param n ps k = Some (i, p) -> In n (map sp_name ps).
Proof.
  revert k; induction ps as [|q r IH]; intros k H; [discriminate|].
  simpl in H. destruct (str_eqb n (sp_name q)) eqn:E.
  - left. apply str_eqb_spec in E. auto.
  - right. eapply IH. exact H.
Qed.

Lemma find_param_None n ps k : find_param n ps k = None -> ~ In n (map sp_name ps).
Proof.
  revert k; induction ps as [|q r IH]; intros k H; [intros []|].
  simpl in H. destruct (str_eqb n (sp_name q)) eqn:E; [discriminate|].
  intros [Hq|Hr].
  - assert (str_eqb n (sp_name q) = true) by (apply str_eqb_spec; auto). congruence.
  - eapply IH; eauto.
Qed.

Lemma find_param_skip n ps : forall npos k i p,
  nodup_strs (map sp_name ps) = true ->
  In n (map sp_name (skipn npos ps)) ->
  find_param n ps k = Some (i, p) -> k + npos <= i.
Proof.
  induction ps as [|q r IH]; intros npos k i p Hnd Hin H; [discriminate|].
  destruct npos as [|m].
  - apply find_param_ge in H. lia.
  - simpl in Hnd. apply andb_true_iff in Hnd. destruct Hnd as [Hq Hr].
    simpl in Hin. simpl in H.
    destruct (str_eqb n (sp_name q)) eqn:E.
    + apply str_eqb_spec in E. subst n.
      apply negb_true_iff in Hq. apply mem_str_false in Hq.
      exfalso. apply Hq. rewrite <- skipn_map' in Hin. eapply skipn_In. exact Hin.
    + eapply IH in H; eauto. lia.
Qed.

Definition not_own (own : list sparam) (n : str) : bool := negb (mem_str n (map sp_name own)).

Lemma bind_ok own npos haskw : forall kws,
  nodup_strs (map sp_name own) = true ->
  (forall n, In n kws -> In n (map sp_name (skipn npos own))
                         \/ (haskw = true /\ ~ In n (map sp_name own))) ->
  exists bs, bind own npos haskw kws = (COk, filter (not_own own) kws, bs).
Proof.
  induction kws as [|n r IH]; intros Hnd Hall; [eexists; reflexivity|].
  destruct IH as [bs IH]; [exact Hnd|intros; apply Hall; right; auto|].
  cbn [bind filter]. destruct (find_param n own 0) as [[i p]|] eqn:F.
  - assert (Hi : npos <= i).
    { destruct (Hall n (or_introl eq_refl)) as [H|[_ H]].
      - eapply find_param_skip in F; eauto.
      - exfalso. apply H. eapply find_param_In. exact F. }
    assert (E : (i <? npos) = false) by (apply Nat.ltb_ge; exact Hi).
    assert (NO : not_own own n = false).
    { unfold not_own. apply negb_false_iff. apply mem_str_In. eapply find_param_In. exact F. }
    rewrite E, IH, NO. eexists; reflexivity.
  - apply find_param_None in F.
    destruct (Hall n (or_introl eq_refl)) as [H|[Hk _]].
    + exfalso. apply F. rewrite <- skipn_map' in H. eapply skipn_In. exact H.
    + assert (NO : not_own own n = true).
      { unfold not_own. apply negb_true_iff. apply mem_str_false. exact F. }
      rewrite IH, Hk, NO. eexists; reflexivity.
Qed.

(* ---- bodies ---------------------------------------------------------------------------------- *)
Definition is_pg (s : stmt) : bool := match s with SPG _ _ _ _ => true | _ => false end.

Lemma no_calls_pgs body : filter is_call body = [] -> forallb is_pg body = true.
Proof.
  induction body as [|s r IH]; intro H; [reflexivity|].
  destruct s; simpl in *; [auto|discriminate].
Qed.

Lemma run_body_pgs rec cf : forall body kw, forallb is_pg body = true -> fst (run_body rec cf body kw) = COk.
Proof.
  induction body as [|s r IH]; intros kw H; [reflexivity|].
  destruct s as [pop n k z|]; [|discriminate]. simpl in H. simpl.
  specialize (IH (if pop then remove_str n kw else kw) H).
  destruct (run_body rec cf r (if pop then remove_str n kw else kw)). simpl in *. exact IH.
Qed.

Lemma remove_str_In x n l : In x (remove_str n l) -> In x l /\ x <> n.
Proof.
  unfold remove_str. intro H. apply filter_In in H. destruct H as [H1 H2]. split; [exact H1|].
  intro E. subst. rewrite str_eqb_refl in H2. discriminate.
Qed.

Lemma NoDup_filter {A} (f : A -> bool) l : NoDup l -> NoDup (filter f l).
Proof.
  induction 1 as [|x r Hn _ IH]; simpl; [constructor|].
  destruct (f x); [constructor; [|exact IH]|exact IH].
  intro H. apply filter_In in H. tauto.
Qed.

(* everything before the forwarding call only shrinks the dict; names in `pre` are gone *)
Lemma run_find_call k np g pre : forall body acc kw,
  find_call body acc = Some (k, np, g, pre) ->
  single_use body = true ->
  exists kw1 b2,
    forallb is_pg b2 = true /\
    (forall n, In n kw1 -> In n kw /\ (In n pre -> In n acc)) /\
    (NoDup kw -> NoDup kw1) /\
    forall rec cf, fst (run_body rec cf body kw) = fst (run_body rec cf (SCall k np g :: b2) kw1).
Proof.
  induction body as [|s r IH]; intros acc kw H Hs; [discriminate|].
  destruct s as [pop n kk z|c npos given].
  - simpl in H. unfold single_use in Hs. simpl in Hs.
    destruct (IH _ (if pop then remove_str n kw else kw) H Hs) as (kw1 & b2 & Hb & Hin & Hnd & Hrun).
    exists kw1, b2. split; [exact Hb|]. split; [|split].
    + intros x Hx. destruct (Hin x Hx) as [H1 H2]. destruct pop.
      * apply remove_str_In in H1. destruct H1 as [H1 Hne]. split; [exact H1|].
        intro Hp. destruct (H2 Hp) as [E|E]; [congruence|exact E].
      * split; auto.
    + intro Hk. apply Hnd. destruct pop; [apply NoDup_filter; exact Hk|exact Hk].
    + intros rec cf. rewrite <- Hrun. simpl.
      destruct (run_body rec cf r (if pop then remove_str n kw else kw)). reflexivity.
  - simpl in H. inversion H; subst. exists kw, r.
    unfold single_use in Hs. simpl in Hs.
    split; [|split; [|split]]; auto.
    apply no_calls_pgs. destruct (filter is_call r); [reflexivity|simpl in Hs; discriminate].
Qed.

Lemma find_call_None body : forall acc, find_call body acc = None -> forallb is_pg body = true.
Proof.
  induction body as [|s r IH]; intros acc H; [reflexivity|].
  destruct s; simpl in *; [eapply IH; exact H|discriminate].
Qed.

(* ---- what the resolver collects ---------------------------------------------------------------- *)
Definition call_params (rec : frame -> res (list rparam)) (cf : callee -> res (option frame)) (c : callee)
  : res (list rparam) :=
  match cf c with Err e => Err e | Ok None => Ok [] | Ok (Some fr') => rec fr' end.

Lemma collect_names rec cf : forall body lists rm,
  collect rec cf body = Ok (lists, rm) ->
  (forall n, In n (names (concat (map snd lists))) ->
     In n (pg_names body)
     \/ exists c np g ps, In (SCall c np g) body /\ call_params rec cf c = Ok ps
                          /\ In n (names (remove_given np g ps)))
  /\ (forall c np g ps x, In (SCall c np g) body -> call_params rec cf c = Ok ps ->
        In x (removed_of g ps) -> In x rm).
Proof.
  induction body as [|s r IH]; intros lists rm H.
  - simpl in H. inversion H; subst. split; [intros n []|intros ? ? ? ? ? []].
  - destruct s as [pop n k z|c npos given]; simpl in H.
    + destruct (collect rec cf r) as [[ls rm']|e] eqn:E; [|discriminate].
      inversion H; subst. destruct (IH _ _ eq_refl) as [IH1 IH2]. split.
      * intros x Hx. simpl in Hx. destruct Hx as [Hx|Hx]; [left; left; exact Hx|].
        destruct (IH1 x Hx) as [Hp|(c & np & g & ps & Hin & Hc & Hn)].
        -- left. simpl. right. exact Hp.
        -- right. exists c, np, g, ps. split; [right; exact Hin|auto].
      * intros c np g ps x [Hin|Hin]; [discriminate|]. eapply IH2; eauto.
    + fold (call_params rec cf c) in H.
      destruct (call_params rec cf c) as [ps|e] eqn:Ec; [|discriminate].
      destruct (collect rec cf r) as [[ls rm']|e] eqn:E; [|discriminate].
      inversion H; subst. destruct (IH _ _ eq_refl) as [IH1 IH2]. split.
      * intros x Hx.
        assert (Hx' : In x (names (remove_given npos given ps)) \/ In x (names (concat (map snd ls)))).
        { destruct (is_nil (remove_given npos given ps)); [right; exact Hx|].
          simpl in Hx. unfold names in Hx. rewrite map_app in Hx. apply in_app_or in Hx. exact Hx. }
        destruct Hx' as [Hx'|Hx'].
        -- right. exists c, npos, given, ps. split; [left; reflexivity|auto].
        -- destruct (IH1 x Hx') as [Hp|(c' & np & g & ps' & Hin & Hc & Hn)].
           ++ left. exact Hp.
           ++ right. exists c', np, g, ps'. split; [right; exact Hin|auto].
      * intros c' np g ps' x [Hin|Hin] Hc Hx.
        -- inversion Hin; subst. rewrite Ec in Hc. inversion Hc; subst.
           apply in_or_app. left. exact Hx.
        -- apply in_or_app. right. eapply IH2; eauto.
Qed.

Lemma merge_occ_name nc p ps : r_name (merge_occ nc (p :: ps)) = r_name p.
Proof.
  unfold merge_occ.
  destruct ((nc <=? length (p :: ps)) && _ && _); reflexivity.
Qed.

Lemma group_names lists g : group lists = Ok g ->
  forall n, In n (names g) -> In n (names (concat (map snd lists))).
Proof.
  intros H n Hn.
  assert (Gen : forall g',
    (if existsb (fun bl => head_otup (snd bl)) lists then Err ECrash
     else Ok (map (fun k => merge_occ (length (filter fst lists))
                              (filter (fun p => str_eqb (r_name p) k) (concat (map snd lists))))
                  (nodup_by str_eqb (names (concat (map snd lists))) []))) = Ok g' ->
    In n (names g') -> In n (names (concat (map snd lists)))).
  { intros g' H' Hn'. destruct (existsb _ lists); [discriminate|]. inversion H'; subst g'.
    unfold names in Hn' at 1. rewrite map_map in Hn'. apply in_map_iff in Hn'.
    destruct Hn' as (k & Hk & Hin). apply nodup_by_In in Hin.
    assert (Hex : exists p, In p (concat (map snd lists)) /\ r_name p = k).
    { unfold names in Hin. apply in_map_iff in Hin. destruct Hin as (p & ? & ?). exists p; auto. }
    destruct Hex as (p & Hp & Hpk).
    destruct (filter (fun p0 => str_eqb (r_name p0) k) (concat (map snd lists))) as [|p0 rest] eqn:F.
    - assert (In p []) as [].
      rewrite <- F. apply filter_In. split; [exact Hp|]. apply str_eqb_spec. exact Hpk.
    - rewrite merge_occ_name in Hk.
      assert (Hp0 : In p0 (p0 :: rest)) by (left; reflexivity).
      rewrite <- F in Hp0. apply filter_In in Hp0. destruct Hp0 as [_ Hp0].
      apply str_eqb_spec in Hp0. rewrite <- Hk, Hp0. exact Hin. }
  unfold group in H.
  destruct lists as [|[b l] [|x r]].
  - eapply Gen; eauto.
  - inversion H; subst. simpl. rewrite app_nil_r. exact Hn.
  - eapply Gen; eauto.
Qed.

(* ---- the hypothesis klass = 0, unfolded ------------------------------------------------------- *)
Definition call_ok (f' : nat) (P : prog) (fr : frame) (k : callee) (npos : nat)
           (given pre pgs : list str) : Prop :=
  callee_agree f' P fr k = true /\
  match callee_frame Resolver f' P fr k with
  | Err _ => False
  | Ok None => forallb (fun n => mem_str n pre) pgs = true /\ npos = 0 /\ given = []
               /\ (k = KSuper \/ (exists c, k = KClass c) \/ (exists c, k = KSuperOf c))
  | Ok (Some fr') =>
      klass f' P fr' = 0%N /\
      exists R', resolve_frame f' P fr' = Ok R' /\
        existsb (fun n => mem_str n given) pgs = false /\
        forallb (fun n => mem_str n pre || mem_str n (names (remove_given npos given R'))) pgs = true /\
        npos <= npos_cap (fr_fn fr') /\ nodup_strs given = true /\
        forallb (fun g => mem_str g (names (skipn npos R'))) given = true
  end.

Lemma disagree_class_nz fuel P fr k : disagree_class fuel P fr k <> 0%N.
Proof.
  unfold disagree_class.
  repeat match goal with
         | |- context [match ?x with _ => _ end] => destruct x
         end; discriminate.
Qed.

Lemma is_finding_0 k : is_finding k = true -> k <> 0%N.
Proof. intros H E. subst. discriminate. Qed.

Lemma klass_inv f' P fr : klass (S f') P fr = 0%N ->
  nodup_strs (map sp_name (f_params (fr_fn fr))) = true /\
  (f_kw (fr_fn fr) = false -> f_body (fr_fn fr) = []) /\
  (f_kw (fr_fn fr) = true ->
     single_use (f_body (fr_fn fr)) = true /\
     (exists R0, ast_step (resolve_frame f' P) (callee_frame Resolver f' P fr) fr = Ok R0) /\
     match find_call (f_body (fr_fn fr)) [] with
     | None => True
     | Some (k, npos, given, pre) => call_ok f' P fr k npos given pre (pg_names (f_body (fr_fn fr)))
     end).
Proof.
  intro H. cbn [klass] in H.
  destruct (nodup_strs (map sp_name (f_params (fr_fn fr)))) eqn:Hnd; cbn [negb] in H; [|discriminate].
  split; [reflexivity|].
  destruct (f_kw (fr_fn fr)) eqn:Hkw; cbn [negb] in H.
  2:{ split; [|discriminate]. intros _. destruct (f_body (fr_fn fr)); [reflexivity|discriminate]. }
  split; [discriminate|]. intros _.
  destruct (single_use (f_body (fr_fn fr))) eqn:Hs; cbn [negb] in H; [|discriminate].
  split; [reflexivity|].
  destruct (ast_step (resolve_frame f' P) (callee_frame Resolver f' P fr) fr) as [R0|e] eqn:Ha;
    [|destruct e; discriminate].
  split; [eexists; reflexivity|].
  destruct (find_call (f_body (fr_fn fr)) []) as [[[[k npos] given] pre]|] eqn:Hf; [|exact I].
  unfold call_ok.
  destruct (callee_agree f' P fr k) eqn:Hag.
  - split; [reflexivity|].
    destruct (callee_frame Resolver f' P fr k) as [[fr'|]|e'] eqn:Hcf; [| |discriminate].
    + destruct (is_finding (klass f' P fr')) eqn:Hfi.
      { exfalso. eapply is_finding_0; eauto. }
      destruct (resolve_frame f' P fr') as [R'|] eqn:Hr; [|discriminate].
      destruct (existsb (fun n => mem_str n given && negb (mem_str n pre))
                        (pg_names (f_body (fr_fn fr)))) eqn:H3'; [discriminate|].
      destruct (forallb (fun n => mem_str n pre || mem_str n (names (remove_given npos given R')))
                        (pg_names (f_body (fr_fn fr)))) eqn:H1; cbn [negb] in H; [|discriminate].
      destruct (existsb (fun n => mem_str n given) (pg_names (f_body (fr_fn fr)))) eqn:H3; [discriminate|].
      destruct (N.eqb (klass f' P fr') 0) eqn:Hk0; cbn [negb] in H.
      2:{ apply N.eqb_neq in Hk0. contradiction. }
      apply N.eqb_eq in Hk0. split; [exact Hk0|]. exists R'. split; [reflexivity|].
      destruct ((npos <=? npos_cap (fr_fn fr')) && nodup_strs given
                && forallb (fun g => mem_str g (names (skipn npos R'))) given) eqn:Hw; [|discriminate].
      apply andb_true_iff in Hw. destruct Hw as [Hw Hw3]. apply andb_true_iff in Hw. destruct Hw as [Hw1 Hw2].
      apply Nat.leb_le in Hw1. auto 10.
    + assert (Hk : (k = KSuper \/ exists c, k = KSuperOf c) /\ fr_mn fr = None \/ exists c, k = KClass c).
      { destruct k; try discriminate;
          [destruct (fr_mn fr); [discriminate|left; auto]|right; eauto
          |destruct (fr_mn fr); [discriminate|left; eauto]]. }
      assert (H' : (if negb (forallb (fun n => mem_str n pre) (pg_names (f_body (fr_fn fr)))) then 1%N
                    else if Nat.eqb npos 0 && is_nil given then 0%N else 9%N) = 0%N).
      { destruct Hk as [[[->|[c ->]] Hm]|[c ->]]; [rewrite Hm in H|rewrite Hm in H|]; exact H. }
      destruct (forallb (fun n => mem_str n pre) (pg_names (f_body (fr_fn fr)))); cbn [negb] in H'; [|discriminate].
      destruct (Nat.eqb npos 0 && is_nil given) eqn:Hw; [|discriminate].
      apply andb_true_iff in Hw. destruct Hw as [Hw1 Hw2]. apply Nat.eqb_eq in Hw1.
      destruct given; [|discriminate].
      repeat split; auto. destruct Hk as [[[->|[c ->]] _]|[c ->]]; [left; reflexivity|right; right; eauto|right; left; eauto].
  - exfalso.
    match type of H with
    | (if is_finding ?b then _ else _) = _ => destruct (is_finding b) eqn:Hb
    end.
    { eapply is_finding_0; eauto. }
    destruct (callee_frame Interp f' P fr k) as [[fi|]|];
      try (destruct (is_finding (klass f' P fi)) eqn:Hfi; [eapply is_finding_0; eauto|]);
      eapply disagree_class_nz; eauto.
Qed.

(* ---- resolver and interpreter look at the same callee ------------------------------------------ *)
Lemma find_def_nth P mn : forall l pos j f,
  find_def P mn l pos = Some (j, f) ->
  pos <= j /\ exists ci, nth_error l (j - pos) = Some ci /\ own_def P mn ci = Some f.
Proof.
  induction l as [|c r IH]; intros pos j f H; [discriminate|].
  simpl in H. destruct (own_def P mn c) as [f0|] eqn:E.
  - inversion H; subst. split; [lia|]. exists c. rewrite Nat.sub_diag. auto.
  - apply IH in H. destruct H as [Hle (ci & Hn & Ho)]. split; [lia|].
    exists ci. split; [|exact Ho]. replace (j - pos) with (S (j - S pos)) by lia. exact Hn.
Qed.

Lemma callee_agree_eq f' P fr k : callee_agree f' P fr k = true ->
  callee_frame Interp f' P fr k = callee_frame Resolver f' P fr k.
Proof.
  destruct k as [|i|c|m|c]; cbn [callee_agree callee_frame]; try reflexivity.
  - unfold class_agree, class_frame. destruct (c3 f' P c) as [mro|]; [|discriminate].
    destruct (find_def P None mro 0) as [[j f]|]; [|reflexivity].
    intro H. apply Nat.eqb_eq in H. subst. reflexivity.
  - destruct (fr_ctx fr) as [[mro idx]|]; [|reflexivity].
    destruct (find_def P (Some m) mro 0) as [[j f]|] eqn:Fd; [|discriminate].
    destruct (nth_error mro idx) as [parent|] eqn:Hn; [|discriminate].
    intro H. apply andb_true_iff in H. destruct H as [Hj Hc]. apply Nat.eqb_eq in Hj. subst j.
    destruct (c3 f' P parent) as [[|p0 pm]|]; try discriminate.
    apply Nat.eqb_eq in Hc. subst p0.
    apply find_def_nth in Fd. destruct Fd as [_ (ci & Hci & Ho)].
    rewrite Nat.sub_0_r, Hn in Hci. inversion Hci; subst ci.
    simpl. rewrite Ho. reflexivity.
  - destruct (fr_ctx fr) as [[mro idx]|]; [|reflexivity].
    destruct (pos_from c mro 0 0) as [a|]; [|discriminate].
    destruct (pos_from c mro 0 idx) as [b|]; [|discriminate].
    intro H. apply Nat.eqb_eq in H. subst b. reflexivity.
Qed.

Lemma find_call_unique k np g pre : forall body acc c np' g',
  find_call body acc = Some (k, np, g, pre) -> single_use body = true ->
  In (SCall c np' g') body -> c = k /\ np' = np /\ g' = g.
Proof.
  induction body as [|s r IH]; intros acc c np' g' H Hs Hin; [destruct Hin|].
  destruct s as [pop n kk z|c0 n0 g0].
  - simpl in H. destruct Hin as [Hin|Hin]; [discriminate|]. eapply IH; eauto.
  - simpl in H. inversion H; subst. destruct Hin as [Hin|Hin]; [inversion Hin; auto|].
    exfalso. unfold single_use in Hs. simpl in Hs.
    assert (Hf : In (SCall c np' g') (filter is_call r)) by (apply filter_In; auto).
    destruct (filter is_call r); [destruct Hf|simpl in Hs; discriminate].
Qed.

Lemma NoDup_app_intro {A} (l1 l2 : list A) :
  NoDup l1 -> NoDup l2 -> (forall x, In x l1 -> ~ In x l2) -> NoDup (l1 ++ l2).
Proof.
  induction 1 as [|x r Hn _ IH]; intros H2 Hd; [exact H2|].
  simpl. constructor.
  - intro Hin. apply in_app_or in Hin. destruct Hin as [Hin|Hin]; [contradiction|].
    eapply Hd; [left; reflexivity|exact Hin].
  - apply IH; [exact H2|]. intros y Hy. apply Hd. right. exact Hy.
Qed.

Lemma remove_given_sub np g ps n : In n (names (remove_given np g ps)) ->
  In n (names (skipn np ps)) /\ ~ In n g.
Proof.
  unfold names, remove_given. intro H. apply in_map_iff in H. destruct H as (p & Hp & Hin).
  apply filter_In in Hin. destruct Hin as [Hin Hf]. split.
  - apply in_map_iff. exists p; auto.
  - apply negb_true_iff in Hf. apply mem_str_false in Hf. subst. exact Hf.
Qed.

(* ---- soundness ----------------------------------------------------------------------------------- *)
Definition good_outcome (o : outcome) : bool := match o with COk | CMissing => true | _ => false end.

(* what can be said of a name that the resolver put behind **kwargs *)
Lemma offered_kw_origin f' P fr lists rm g n :
  collect (resolve_frame f' P) (callee_frame Resolver f' P fr) (f_body (fr_fn fr)) = Ok (lists, rm) ->
  group lists = Ok g ->
  In n (names (filter (fun p => negb (mem_str (r_name p) rm)) g)) ->
  ~ In n rm /\
  (In n (pg_names (f_body (fr_fn fr)))
   \/ exists c np gv ps, In (SCall c np gv) (f_body (fr_fn fr))
        /\ call_params (resolve_frame f' P) (callee_frame Resolver f' P fr) c = Ok ps
        /\ In n (names (remove_given np gv ps))).
Proof.
  intros Hc Hg Hn. unfold names in Hn. apply in_map_iff in Hn. destruct Hn as (p & Hp & Hin).
  apply filter_In in Hin. destruct Hin as [Hin Hf]. subst n. split.
  - apply negb_true_iff in Hf. apply mem_str_false in Hf. exact Hf.
  - destruct (collect_names _ _ _ _ _ Hc) as [H1 _]. apply H1.
    eapply group_names; eauto. apply in_map. exact Hin.
Qed.

Lemma sound_frame : forall fuel P fr R npos kws,
  klass fuel P fr = 0%N ->
  resolve_frame fuel P fr = Ok R ->
  npos <= npos_cap (fr_fn fr) ->
  NoDup kws ->
  (forall n, In n kws -> In n (names (skipn npos R))) ->
  good_outcome (fst (call_frame fuel P fr npos kws)) = true.
Proof.
  induction fuel as [|f' IH]; intros P fr R npos kws Hk Hr Hnp Hnd Hin; [discriminate|].
  destruct (klass_inv _ _ _ Hk) as (Hown & Hnokw & Hkw).
  cbn [resolve_frame] in Hr. cbn [call_frame]. unfold call_step.
  destruct (f_kw (fr_fn fr)) eqn:Ekw.
  - (* the callable takes **kwargs *)
    destruct (Hkw eq_refl) as (Hs & [R0 Ha] & Hcall). clear Hkw Hnokw.
    rewrite Ha in Hr. inversion Hr; subst R0. clear Hr.
    unfold ast_step in Ha. rewrite Ekw in Ha. cbn [negb] in Ha.
    destruct (collect (resolve_frame f' P) (callee_frame Resolver f' P fr) (f_body (fr_fn fr)))
      as [[lists rm]|e] eqn:Ec; [|discriminate].
    destruct (group lists) as [g|e] eqn:Eg; [|discriminate].
    inversion Ha; subst R. clear Ha.
    set (K := filter (fun p => negb (mem_str (r_name p) rm)) g) in *.
    assert (Hsplit : forall n, In n kws ->
              In n (map sp_name (skipn npos (f_params (fr_fn fr))))
              \/ (~ In n (map sp_name (f_params (fr_fn fr))) /\ In n (names K))).
    { intros n Hn. apply Hin in Hn. unfold replace_kwargs in Hn.
      rewrite skipn_app_le in Hn by (rewrite length_own; pose proof (npos_cap_le (fr_fn fr)); lia).
      unfold names in Hn. rewrite map_app in Hn. apply in_app_or in Hn. destruct Hn as [Hn|Hn].
      - left. unfold own_rparams in Hn. rewrite skipn_map', map_map in Hn. exact Hn.
      - right. apply in_map_iff in Hn. destruct Hn as (p & Hp & Hpin).
        apply filter_In in Hpin. destruct Hpin as [Hpin Hf]. subst n. split.
        + apply negb_true_iff in Hf. apply mem_str_false in Hf. rewrite names_own in Hf. exact Hf.
        + apply in_map. exact Hpin. }
    destruct (bind_ok (f_params (fr_fn fr)) npos true kws Hown) as [bs Hb].
    { intros n Hn. destruct (Hsplit n Hn) as [H|[H _]]; auto. }
    rewrite Hb.
    assert (Etm : (npos_cap (fr_fn fr) <? npos) = false) by (apply Nat.ltb_ge; exact Hnp).
    rewrite Etm.
    destruct (missing (f_params (fr_fn fr)) 0 npos kws); [reflexivity|].
    set (kw := filter (not_own (f_params (fr_fn fr))) kws).
    assert (Hkwin : forall n, In n kw -> In n (names K)).
    { intros n Hn. apply filter_In in Hn. destruct Hn as [Hn Hf].
      destruct (Hsplit n Hn) as [H|[_ H]]; [|exact H].
      exfalso. unfold not_own in Hf. apply negb_true_iff in Hf. apply mem_str_false in Hf.
      apply Hf. rewrite <- skipn_map' in H. eapply skipn_In. exact H. }
    assert (Hkwnd : NoDup kw) by (apply NoDup_filter; exact Hnd).
    assert (Goal' : good_outcome (fst (run_body (call_frame f' P) (callee_frame Interp f' P fr)
                                               (f_body (fr_fn fr)) kw)) = true).
    2:{ destruct (run_body (call_frame f' P) (callee_frame Interp f' P fr) (f_body (fr_fn fr)) kw).
        exact Goal'. }
    destruct (find_call (f_body (fr_fn fr)) []) as [[[[k np] gv] pre]|] eqn:Hf.
    2:{ rewrite run_body_pgs; [reflexivity|]. eapply find_call_None. exact Hf. }
    destruct (run_find_call _ _ _ _ _ _ kw Hf Hs) as (kw1 & b2 & Hb2 & Hkw1 & Hnd1 & Hrun).
    rewrite Hrun. clear Hrun.
    destruct Hcall as [Hag Hcal].
    assert (Horigin : forall n, In n kw1 ->
              ~ In n rm /\ ~ In n pre /\
              (In n (pg_names (f_body (fr_fn fr)))
               \/ exists ps, call_params (resolve_frame f' P) (callee_frame Resolver f' P fr) k = Ok ps
                             /\ In n (names (remove_given np gv ps)))).
    { intros n Hn. destruct (Hkw1 n Hn) as [Hnkw Hpre].
      destruct (offered_kw_origin _ _ _ _ _ _ _ Ec Eg (Hkwin n Hnkw)) as [Hrm Hor].
      split; [exact Hrm|]. split; [intro Hp; destruct (Hpre Hp)|].
      destruct Hor as [Hor|(c & np' & gv' & ps & Hcin & Hcp & Hnn)]; [left; exact Hor|].
      destruct (find_call_unique _ _ _ _ _ _ _ _ _ Hf Hs Hcin) as (-> & -> & ->).
      right. exists ps. auto. }
    cbn [run_body].
    rewrite (callee_agree_eq _ _ _ _ Hag).
    unfold call_params in Horigin.
    destruct (callee_frame Resolver f' P fr k) as [[fr'|]|e'] eqn:Hcf; [| |destruct Hcal].
    + (* a real callee *)
      destruct Hcal as (Hk' & R' & Hr' & H3 & H1 & Hnp' & Hgnd & Hgin).
      assert (Hnotgiven : forall n, In n kw1 -> ~ In n gv).
      { intros n Hn Hg. destruct (Horigin n Hn) as (Hrm & Hpre & [Hpg|(ps & Hps & Hnn)]).
        - assert (existsb (fun n0 => mem_str n0 gv) (pg_names (f_body (fr_fn fr))) = true).
          { apply existsb_exists. exists n. split; [exact Hpg|]. apply mem_str_In. exact Hg. }
          congruence.
        - apply remove_given_sub in Hnn. tauto. }
      assert (Hex : existsb (fun g0 => mem_str g0 kw1) gv = false).
      { destruct (existsb (fun g0 => mem_str g0 kw1) gv) eqn:E; [|reflexivity].
        apply existsb_exists in E. destruct E as (g0 & Hg0 & Hm). apply mem_str_In in Hm.
        exfalso. eapply Hnotgiven; eauto. }
      rewrite Hex.
      assert (IH' : good_outcome (fst (call_frame f' P fr' np (gv ++ kw1))) = true).
      { eapply IH; eauto.
        - apply NoDup_app_intro; [apply nodup_strs_NoDup; exact Hgnd|apply Hnd1; exact Hkwnd|].
          intros x Hx Hx1. eapply Hnotgiven; eauto.
        - intros n Hn. apply in_app_or in Hn. destruct Hn as [Hn|Hn].
          + apply mem_str_In. eapply forallb_forall in Hgin; eauto.
          + destruct (Horigin n Hn) as (Hrm & Hpre & [Hpg|(ps & Hps & Hnn)]).
            * eapply forallb_forall in H1; [|exact Hpg].
              apply orb_true_iff in H1. destruct H1 as [H1|H1]; apply mem_str_In in H1; [contradiction|].
              apply remove_given_sub in H1. tauto.
            * rewrite Hr' in Hps. inversion Hps; subst ps. apply remove_given_sub in Hnn. tauto. }
      destruct (call_frame f' P fr' np (gv ++ kw1)) as [o bs1]. cbn [fst] in IH'.
      destruct o; try discriminate IH'; [|reflexivity].
      pose proof (run_body_pgs (call_frame f' P) (callee_frame Interp f' P fr) b2 kw1 Hb2) as Hp.
      destruct (run_body (call_frame f' P) (callee_frame Interp f' P fr) b2 kw1) as [o2 bs2].
      cbn [fst] in Hp. subst o2. reflexivity.
    + (* super() reaches object.__init__ / a class without __init__ *)
      destruct Hcal as (Hall & -> & -> & Hkk).
      assert (Hnil : kw1 = []).
      { destruct kw1 as [|n r]; [reflexivity|]. exfalso.
        destruct (Horigin n (or_introl eq_refl)) as (Hrm & Hpre & [Hpg|(ps & Hps & Hnn)]).
        - eapply forallb_forall in Hall; [|exact Hpg]. apply mem_str_In in Hall. contradiction.
        - inversion Hps; subst ps. unfold remove_given in Hnn. rewrite skipn_nil in Hnn. destruct Hnn. }
      subst kw1. cbn [existsb app Nat.eqb is_nil andb].
      pose proof (run_body_pgs (call_frame f' P) (callee_frame Interp f' P fr) b2 [] Hb2) as Hp.
      destruct Hkk as [->|[[c ->]|[c ->]]];
        destruct (run_body (call_frame f' P) (callee_frame Interp f' P fr) b2 []) as [o2 bs2];
        cbn [fst] in Hp; subst o2; reflexivity.
  - (* no **kwargs: the signature is the answer *)
    rewrite (Hnokw eq_refl).
    unfold ast_step in Hr. rewrite Ekw in Hr. cbn [negb] in Hr. inversion Hr; subst R. clear Hr.
    destruct (bind_ok (f_params (fr_fn fr)) npos false kws Hown) as [bs Hb].
    { intros n Hn. left. apply Hin in Hn. unfold own_rparams, names in Hn.
      rewrite skipn_map', map_map in Hn. exact Hn. }
    rewrite Hb.
    assert (Etm : (npos_cap (fr_fn fr) <? npos) = false) by (apply Nat.ltb_ge; exact Hnp).
    rewrite Etm.
    destruct (missing (f_params (fr_fn fr)) 0 npos kws); reflexivity.
Qed.

(* ---- classes ------------------------------------------------------------------------------------- *)
Lemma class_agree_eq fuel P c : class_agree fuel P c = true ->
  class_frame Interp fuel P c = class_frame Resolver fuel P c.
Proof.
  unfold class_agree, class_frame. destruct (c3 fuel P c) as [mro|]; [|discriminate].
  destruct (find_def P None mro 0) as [[j f]|]; [|reflexivity].
  intro H. apply Nat.eqb_eq in H. subst. reflexivity.
Qed.

Lemma klass_top_inv fuel P c : klass_top fuel P c = 0%N ->
  class_agree fuel P c = true /\
  match class_frame Resolver fuel P c with
  | Err _ => False
  | Ok None => True
  | Ok (Some fr) => klass fuel P fr = 0%N
  end.
Proof.
  unfold klass_top. intro H. destruct (class_agree fuel P c).
  - split; [reflexivity|]. destruct (class_frame Resolver fuel P c) as [[fr|]|]; auto. discriminate.
  - exfalso.
    match type of H with
    | (if is_finding ?b then _ else _) = _ => destruct (is_finding b) eqn:Hb
    end.
    { eapply is_finding_0; eauto. }
    destruct (class_frame Interp fuel P c) as [[fi|]|]; try discriminate.
    destruct (is_finding (klass fuel P fi)) eqn:Hfi; [eapply is_finding_0; eauto|].
    destruct (super_has_positional (fr_fn fi)); discriminate.
Qed.

Lemma sound_class fuel P c R kws :
  klass_top fuel P c = 0%N ->
  resolve fuel P c = Ok R ->
  NoDup kws ->
  (forall n, In n kws -> In n (names R)) ->
  good_outcome (fst (call fuel P c kws)) = true.
Proof.
  intros Hk Hr Hnd Hin. destruct (klass_top_inv _ _ _ Hk) as [Hag Hfr].
  unfold resolve in Hr. unfold call. rewrite (class_agree_eq _ _ _ Hag).
  destruct (class_frame Resolver fuel P c) as [[fr|]|]; [| |destruct Hfr].
  - eapply sound_frame; eauto. lia.
  - inversion Hr; subst R. destruct kws as [|n r]; [reflexivity|].
    destruct (Hin n (or_introl eq_refl)).
Qed.

(* ---- hard-coded arguments are not offered (any program, no guard) ------------------------------- *)
Lemma hardcoded_frame rec cf fr R c np gv ps x :
  ast_step rec cf fr = Ok R ->
  In (SCall c np gv) (f_body (fr_fn fr)) ->
  call_params rec cf c = Ok ps ->
  In x gv -> In x (names ps) ->
  In x (names R) -> In x (map sp_name (f_params (fr_fn fr))).
Proof.
  intros Ha Hc Hps Hx Hxp HxR. unfold ast_step in Ha.
  destruct (f_kw (fr_fn fr)); cbn [negb] in Ha.
  - destruct (collect rec cf (f_body (fr_fn fr))) as [[lists rm]|e] eqn:Ec; [|discriminate].
    destruct (group lists) as [g|e] eqn:Eg; [|discriminate].
    inversion Ha; subst R. clear Ha.
    unfold replace_kwargs, names in HxR. rewrite map_app in HxR. apply in_app_or in HxR.
    destruct HxR as [H|H]; [rewrite <- names_own; exact H|]. exfalso.
    apply in_map_iff in H. destruct H as (p & Hp & Hpin).
    apply filter_In in Hpin. destruct Hpin as [Hpin _].
    apply filter_In in Hpin. destruct Hpin as [_ Hrm].
    apply negb_true_iff in Hrm. apply mem_str_false in Hrm. apply Hrm. subst x.
    destruct (collect_names _ _ _ _ _ Ec) as [_ H2]. eapply H2; eauto.
    unfold removed_of. apply filter_In. split; [exact Hxp|]. apply mem_str_In. exact Hx.
  - inversion Ha; subst R. rewrite <- names_own. exact HxR.
Qed.

(* ---- declared parameters keep position, annotation and default (any program, no guard) --------- *)
Lemma firstn_own_app {A} (own X : list A) : firstn (length own) (own ++ X) = own.
Proof. rewrite firstn_app, Nat.sub_diag, firstn_all. simpl. apply app_nil_r. Qed.

Lemma assume_own : forall fuel P fr R, assume fuel P fr = Ok R ->
  firstn (length (f_params (fr_fn fr))) R = own_rparams (fr_fn fr).
Proof.
  destruct fuel as [|f']; intros P fr R H; [discriminate|]. cbn [assume] in H.
  rewrite <- length_own.
  destruct (negb (f_kw (fr_fn fr))); [inversion H; apply firstn_all|].
  destruct (fr_ctx fr) as [[mro idx]|]; [|inversion H; apply firstn_all].
  destruct (next_definer P (fr_mn fr) mro (S idx)) as [[num f]|]; [|inversion H; apply firstn_all].
  destruct (assume f' P _) as [sub|]; [|discriminate]. inversion H. apply firstn_own_app.
Qed.

Lemma own_kept : forall fuel P fr R, resolve_frame fuel P fr = Ok R ->
  firstn (length (f_params (fr_fn fr))) R = own_rparams (fr_fn fr).
Proof.
  destruct fuel as [|f']; intros P fr R H; [discriminate|]. cbn [resolve_frame] in H.
  destruct (ast_step (resolve_frame f' P) (callee_frame Resolver f' P fr) fr) as [R0|e] eqn:Ha.
  - inversion H; subst R0. unfold ast_step in Ha. rewrite <- length_own.
    destruct (negb (f_kw (fr_fn fr))); [inversion Ha; apply firstn_all|].
    destruct (collect _ _ _) as [[lists rm]|]; [|discriminate].
    destruct (group lists); [|discriminate]. inversion Ha. apply firstn_own_app.
  - destruct e; try discriminate. eapply assume_own. exact H.
Qed.

(* a body that only forwards: whatever is offered beyond the declared parameters is, field by field
   (name, annotation, default, kind), one of the callee's resolved parameters *)
Lemma forwarded_kept rec cf fr R c np gv ps :
  ast_step rec cf fr = Ok R ->
  f_body (fr_fn fr) = [SCall c np gv] ->
  call_params rec cf c = Ok ps ->
  forall p, In p R -> In p (own_rparams (fr_fn fr)) \/ In p ps.
Proof.
  intros Ha Hb Hps p Hp. unfold ast_step in Ha.
  destruct (f_kw (fr_fn fr)); cbn [negb] in Ha; [|inversion Ha; subst; left; exact Hp].
  rewrite Hb in Ha. cbn [collect] in Ha. fold (call_params rec cf c) in Ha. rewrite Hps in Ha.
  assert (Hsub : forall g, (g = [] \/ g = remove_given np gv ps) ->
            In p (replace_kwargs (own_rparams (fr_fn fr))
                    (filter (fun p0 => negb (mem_str (r_name p0) (removed_of gv ps ++ []))) g)) ->
            In p (own_rparams (fr_fn fr)) \/ In p ps).
  { intros g Hg Hin. unfold replace_kwargs in Hin. apply in_app_or in Hin.
    destruct Hin as [Hin|Hin]; [left; exact Hin|right].
    apply filter_In in Hin. destruct Hin as [Hin _]. apply filter_In in Hin. destruct Hin as [Hin _].
    destruct Hg as [->| ->]; [destruct Hin|].
    unfold remove_given in Hin. apply filter_In in Hin. destruct Hin as [Hin _].
    eapply skipn_In. exact Hin. }
  destruct (is_nil (remove_given np gv ps)) eqn:En.
  - cbn in Ha. inversion Ha; subst R. eapply Hsub; [left; reflexivity|exact Hp].
  - cbn in Ha. inversion Ha; subst R. eapply Hsub; [right; reflexivity|exact Hp].
Qed.

(* C05 — the input channels of a jsonargparse parser as functions from "a setting for one key" to the value
   stored under that key (or a rejection), each written in the shape of the code path it models:

     command line            ActionTypeHint.__call__ -> _check_type_(val)                    (_typehints.py:521-552)
                             ... _parse_common -> validate -> check_values -> _check_value_key (_core.py:1111-1131)
     environment variable    _load_env_vars: _check_value_key(action, env_val), then self._apply_actions(cfg)
                             (_core.py:523-551), then validate
     Python object           parse_object: _apply_actions(cfg_obj) (_core.py:1319-1379), merge, validate
     config file / string    _load_config_parser_mode: loader, then _apply_actions(cfg_dict) (_core.py:689-715);
       parse_path, parse_string, --cfg FILE, --cfg STRING, default_config_files all end here
     config via environment  ActionConfigFile.apply_config inside _load_env_vars, whose final
                             self._apply_actions(cfg) walks the loaded keys a second time

   What differs between them is only (a) whether a *text* or an already loaded *value* enters the type check,
   (b) how many times the check is applied before the value is stored, (c) that _apply_actions runs under
   lenient_check, where a None is returned unchecked (_core.py:1411-1412), and validation skips None, and
   (d) that _apply_actions enumerates cfg.__dict__ — storage names, which carry the clash mark for names that
   collide with Namespace attributes ("items", "values", "keys", ...) — so that for such keys no action is
   found and the value is stored as given (validated later, but never adapted).

   The type check itself is a parameter `C` (instantiated with Model/Ty.v's check_type for the pinned tree),
   so everything proved about the pipeline holds whatever the type machinery does.  Executable only. *)
From JV Require Import Lib.Base Model.TyVal Model.Scalar Model.Ty.

Definition ares_eqb (a b : ares) : bool :=
  match a, b with
  | AOk x, AOk y => val_eqb x y
  | AErr _, AErr _ => true          (* which exception rejected the value is not part of the property *)
  | _, _ => false
  end.

Definition is_ok (r : ares) : bool := match r with AOk _ => true | AErr _ => false end.
Definition is_none (v : val) : bool := match v with VNone => true | _ => false end.

Section Channels.
Variable C : ty -> val -> ares.          (* ActionTypeHint._check_type for the key's type hint *)

(* _check_value_key under lenient_check: `if value is None and lenient_check.get(): return value` *)
Definition lenient (t : ty) (v : val) : ares :=
  match v with VNone => AOk VNone | _ => C t v end.

(* validate -> check_values: `if val is None and skip_none: continue`; otherwise _check_value_key, whose
   result is discarded — only failure matters *)
Definition validated (t : ty) (r : ares) : ares :=
  match r with
  | AOk VNone => AOk VNone
  | AOk w => match C t w with AOk _ => AOk w | AErr e => AErr e end
  | AErr e => AErr e
  end.

(* bind *)
Definition and_then (r : ares) (f : val -> ares) : ares :=
  match r with AOk w => f w | AErr e => AErr e end.

(* --key=TEXT / --key TEXT *)
Definition via_argv (t : ty) (s : str) : ares := validated t (C t (VStr s)).

(* PREFIX_KEY=TEXT *)
Definition via_env (t : ty) (s : str) : ares := validated t (and_then (C t (VStr s)) (lenient t)).

(* parse_object({key: v}); a config document whose loader produced v for the key *)
Definition via_object (t : ty) (v : val) : ares := validated t (lenient t v).

(* PREFIX_CFG=<document> *)
Definition via_cfgenv (t : ty) (v : val) : ares := validated t (and_then (lenient t v) (lenient t)).

(* the same four for a key one of whose components is a clash name: _apply_actions finds no action *)
Definition unadapted (v : val) : ares := AOk v.
Definition via_env_clash (t : ty) (s : str) : ares := validated t (and_then (C t (VStr s)) unadapted).
Definition via_object_clash (t : ty) (v : val) : ares := validated t (unadapted v).

Inductive channel := ChArgv | ChEnv | ChObject | ChDoc | ChCfgEnv.

(* what a channel stores: text channels get the rendered text, object channels the value (for a document:
   what the document loader produced for the key) *)
Definition run_channel (clash : bool) (ch : channel) (t : ty) (text : str) (v : val) : ares :=
  match ch with
  | ChArgv => via_argv t text
  | ChEnv => if clash then via_env_clash t text else via_env t text
  | ChObject | ChDoc => if clash then via_object_clash t v else via_object t v
  | ChCfgEnv => if clash then via_object_clash t v else via_cfgenv t v
  end.

(* ---- the guard of the agreement theorem --------------------------------------------------------------
   reads   : the type check takes the text for what it takes the value for
   fixpt   : what the check returns for the value is left alone by a second check          (property C10)
   none_ok : None is given only where the type admits None *)
Definition g_reads (t : ty) (s : str) (v : val) : bool := ares_eqb (C t (VStr s)) (C t v).
Definition g_fixpt (t : ty) (v : val) : bool :=
  match C t v with AOk w => ares_eqb (C t w) (AOk w) | AErr _ => true end.
Definition g_none (t : ty) (v : val) : bool := negb (is_none v) || ares_eqb (C t VNone) (AOk VNone).
Definition guard (t : ty) (s : str) (v : val) : bool := g_reads t s v && g_fixpt t v && g_none t v.

End Channels.

(* C = ActionTypeHint._check_type as modelled in Model/Ty.v, for a given set of repairs already present in the tree
   (`as_is` = the tree as pinned; the judge uses Spec/C02Guard.v `pinned`, which the lead updates when a fix lands)
   and a given YAML loader *)
Definition chk (fx : fixes) (yl : str -> lres) : ty -> val -> ares := check_type_g fx yl.
(* with Literal membership by type-and-value (the repair of C02's literal finding) *)
Definition lit_fixed (f : fixes) : fixes :=
  {| fx_union := fx_union f; fx_lit := true; fx_key := fx_key f; fx_valerr := fx_valerr f |}.
Definition chk_lit (fx : fixes) (yl : str -> lres) : ty -> val -> ares := check_type_g (lit_fixed fx) yl.

(* ---- the command line once more: a Dict[str, T] setting given item by item, --key.k1=TEXT1 --key.k2=TEXT2 ... --------
   ActionTypeHint.parse_argv_item splits the item at the FIRST '=' into the nested key and the text
   (_typehints.py:394-412); __call__ wraps the text as NestedArg(key=k, val=text) (:531-536); _check_type loads the
   text with parse_value_or_config (a NestedArg keeps its key, its val is loaded), adapt_typehints' Dict branch merges
   {**prev_val, k: val} with prev_val = cfg.get(dest) (:903-907) and adapts every value.  orig_val is the NestedArg —
   not a str — so neither the retry with the original string (:583-587) nor the Union fallback nor _is_valid_string
   apply: `retry` = false is the tree as it is, true the repaired behaviour (retry with the raw text of the item). *)
Fixpoint dict_put (k : str) (v : val) (d : list (val * val)) : list (val * val) :=
  match d with
  | [] => [(VStr k, v)]
  | (k', v') :: d' => if val_eqb k' (VStr k) then (k', v) :: d' else (k', v') :: dict_put k v d'
  end.

Definition nested_item (fx : fixes) (yl : str -> lres) (retry : bool) (t1 : ty) (prev : list (val * val)) (k s : str) : ares :=
  match parse_value fx yl false (VStr s) with
  | LValErr => AErr ErrType
  | pv =>
      let v := match pv with LVal x => x | _ => VStr s end in
      match adapt_g fx yl false None (TDict false t1) (VDict (dict_put k v prev)) with
      | AErr ErrValue =>
          if retry then
            match adapt_g fx yl false None (TDict false t1) (VDict (dict_put k (VStr s) prev)) with
            | AOk w => AOk w
            | AErr _ => AErr ErrType
            end
          else AErr ErrType
      | r => r
      end
  end.

Fixpoint nested_items (fx : fixes) (yl : str -> lres) (retry : bool) (t1 : ty) (prev : list (val * val))
                      (items : list (str * str)) : ares :=
  match items with
  | [] => AOk (VDict prev)
  | (k, s) :: r =>
      match nested_item fx yl retry t1 prev k s with
      | AOk (VDict d) => nested_items fx yl retry t1 d r
      | AOk w => AOk w
      | AErr e => AErr e
      end
  end.

Definition via_argv_nested (fx : fixes) (yl : str -> lres) (retry : bool) (t : ty) (items : list (str * str)) : ares :=
  match t with
  | TDict false t1 => validated (check_type_g fx yl) t (nested_items fx yl retry t1 [] items)
  | _ => AErr ErrType
  end.

(* ---- JSON scalar grammar (RFC 8259 numbers), for the "JSON scalars are YAML scalars" theorem ---------- *)
From JV Require Import Lib.Regex.
Definition digit : re := rng 48 57.
Definition json_int_re : re :=            (* optional minus, then 0 or a non-zero digit followed by digits *)
  Cat (opt (chr 45)) (Alt (chr 48) (Cat (rng 49 57) (Star digit))).
Definition json_frac : re := Cat (chr 46) (plus digit).
Definition json_exp : re := Cat (Alt (chr 101) (chr 69)) (Cat (opt (Alt (chr 43) (chr 45))) (plus digit)).
Definition json_float_re : re :=          (* int frac exp? | int exp *)
  Cat json_int_re (Alt (Cat json_frac (opt json_exp)) json_exp).

(* the strings a resolver table takes for tag tg: first-character dispatch, first matching entry wins *)
Fixpoint first_tag_re (tg : tag) (es : list (tag * re)) : re :=
  match es with
  | [] => Emp
  | (tg', r) :: es' => if tag_eqb tg' tg then Alt r (And (Not r) (first_tag_re tg es'))
                       else And (Not r) (first_tag_re tg es')
  end.
Definition tag_re (t : rtable) (tg : tag) : re :=
  alt_list (map (fun ce => And (first_is (fst ce)) (first_tag_re tg (snd ce))) (by_char t)
            ++ [And Eps (first_tag_re tg (on_empty t))]).

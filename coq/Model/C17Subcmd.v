(* C17 — subcommand selection.  Executable model, written in the shape of
     jsonargparse/_actions.py  _ActionSubCommands.__call__ / get_subcommands / handle_subcommands
     jsonargparse/_core.py     _parse_common / _parse_defaults_and_environ / _load_env_vars /
                               parse_args / parse_object / parse_string / parse_env / validate
     jsonargparse/_link_arguments.py  ActionLink.apply_parsing_links (its get_subcommand call)
     jsonargparse/_actions.py  ActionConfigFile.apply_config (the --cfg path)
   bugs included.  No proofs here.

   Simplifications (stated in notes/C17.md): options are `--k` with type=int and an int default;
   every parser may have one `--cfg` config option (key "cfg"); configurations are nested
   objects with int / string leaves (no explicit null, no lists); the dotted-key + prefix
   addressing of the code is replaced by recursion on the section (same thing for a tree);
   default config files and aliases are not modelled. *)
From JV Require Import Lib.Base.

(* ---------- nested namespace: ordered association-list tree ---------- *)
Inductive node := NInt (z : Z) | NStr (s : str) | NNone | NNs (l : list (str * node)).
Notation ns := (list (str * node)).

Inductive err :=
| OutOfFuel
| NoSubcommand      (* NSKeyError: expected "<dest>" to be one of {...}, but it was not provided *)
| Crash             (* AttributeError / TypeError on a None sub-parser or a non-string name *)
| Unrecognized      (* argparse: unknown option, invalid choice, unrecognized arguments *)
| UnknownKey        (* validate: key not expected *)
| BadValue
| RequiredMissing.  (* validate/check_required *)

Inductive res (A : Type) := Ok (a : A) | Err (e : err).
Arguments Ok {A} a. Arguments Err {A} e.

Fixpoint get (k : str) (c : ns) : option node :=
  match c with
  | [] => None
  | (k', v) :: t => if str_eqb k k' then Some v else get k t
  end.

(* dict semantics: replace in place, else append *)
Fixpoint set (k : str) (v : node) (c : ns) : ns :=
  match c with
  | [] => [(k, v)]
  | (k', v') :: t => if str_eqb k k' then (k, v) :: t else (k', v') :: set k v t
  end.

Fixpoint del (k : str) (c : ns) : ns :=
  match c with
  | [] => []
  | (k', v') :: t => if str_eqb k k' then del k t else (k', v') :: del k t
  end.

Definition is_ns (o : option node) : bool := match o with Some (NNs _) => true | _ => false end.
Definition as_ns (o : option node) : ns := match o with Some (NNs l) => l | _ => [] end.

(* Namespace.items(): only leaves; an empty branch yields nothing *)
Fixpoint leafy (n : node) : bool :=
  match n with
  | NNs l => (fix go (l : ns) : bool :=
                match l with [] => false | (_, v) :: t => leafy v || go t end) l
  | _ => true
  end.
Definition has_leaf (l : ns) : bool := leafy (NNs l).

(* merge_config(cfg_from, cfg_to) = cfg_to.clone().update(cfg_from): every LEAF of cfg_from is set
   in cfg_to (creating branches on the way); branches without leaves transfer nothing *)
Fixpoint mergeN (from : node) {struct from} : ns -> ns :=
  match from with
  | NNs l =>
      (fix go (l : ns) (to : ns) {struct l} : ns :=
         match l with
         | [] => to
         | (k, v) :: t =>
             go t (match v with
                   | NNs _ => if leafy v then set k (NNs (mergeN v (as_ns (get k to)))) to else to
                   | _ => set k v to
                   end)
         end) l
  | _ => fun to => to
  end.
Definition merge (from to : ns) : ns := mergeN (NNs from) to.

(* Python truthiness of a stored value: `if subcommand and ...` *)
Definition truthy (v : node) : bool :=
  match v with
  | NInt z => negb (Z.eqb z 0)
  | NStr s => match s with [] => false | _ => true end
  | NNone => false
  | NNs l => match l with [] => false | _ => true end
  end.

(* ---------- parsers: trees of unbounded depth and width ---------- *)
Inductive parser :=
  Parser (p_cfg : bool)                    (* has `--cfg` (action="config") *)
         (p_opts : list (str * Z))         (* `--k`, type=int, default *)
         (p_has : bool)                    (* add_subcommands was called *)
         (p_req : bool)                    (* add_subcommands(required=...) *)
         (p_dest : str)                    (* add_subcommands(dest=...) *)
         (p_choices : list (str * parser)). (* add_subcommand(name, parser), declaration order *)

Definition p_cfg p := let 'Parser a _ _ _ _ _ := p in a.
Definition p_opts p := let 'Parser _ a _ _ _ _ := p in a.
Definition p_has p := let 'Parser _ _ a _ _ _ := p in a.
Definition p_req p := let 'Parser _ _ _ a _ _ := p in a.
Definition p_dest p := let 'Parser _ _ _ _ a _ := p in a.
Definition p_choices p := let 'Parser _ _ _ _ _ a := p in a.
Definition p_names p := map fst (p_choices p).

Fixpoint assoc {A} (k : str) (l : list (str * A)) : option A :=
  match l with
  | [] => None
  | (k', v) :: t => if str_eqb k k' then Some v else assoc k t
  end.

Fixpoint depth (p : parser) : nat :=
  let 'Parser _ _ _ _ _ cs := p in
  S ((fix go (l : list (str * parser)) : nat :=
        match l with [] => 0 | (_, q) :: t => Nat.max (depth q) (go t) end) cs).

Definition cfg_key : str := [99; 102; 103]%N.   (* "cfg" *)

(* ---------- inputs ---------- *)
(* a JSON object with int / string leaves: config strings, objects, and (as a tree of variable
   names PREFIX_A__B__X) the environment *)
Inductive cfgt := CInt (z : Z) | CStr (s : str) | CObj (l : list (str * cfgt)).
Notation cobj := (list (str * cfgt)).

Fixpoint to_node (c : cfgt) : node :=
  match c with
  | CInt z => NInt z
  | CStr s => NStr s
  | CObj l => NNs ((fix go (l : cobj) : ns :=
                      match l with [] => [] | (k, v) :: t => set k (to_node v) (go t) end) l)
  end.
(* dict(...) of a JSON object: key order irrelevant here; later duplicates cannot occur in a dict *)
Definition to_ns (l : cobj) : ns := as_ns (Some (to_node (CObj l))).

Definition env_sub (e : cobj) (name : str) : cobj :=
  match assoc name e with Some (CObj l) => l | _ => [] end.

Inductive item := IOpt (k : str) (v : Z) | ICfg (c : cobj).
Inductive argvt := ArgvT (a_items : list item) (a_sub : option (str * argvt)).

(* EEnv m : parser.parse_env(m) with an explicit environment mapping m; i_env is then what os.environ
   holds at that moment (Some [] = no variable of this parser's prefix) *)
Inductive entry := EArgs (a : argvt) | EObject (c : cobj) | EString (c : cobj) | EEnv (m : cobj).
Record input := { i_env : option cobj;    (* Some e: environment parsing is on, os.environ = e *)
                  i_entry : entry }.

(* ---------- ArgumentParser.get_defaults (no default config files) ---------- *)
Definition get_defaults (p : parser) : ns :=
  (if p_cfg p then [(cfg_key, NNone)] else [])
  ++ map (fun kd => (fst kd, NInt (snd kd))) (p_opts p)
  ++ (if p_has p then [(p_dest p, NNone)] else []).

(* ---------- _ActionSubCommands.get_subcommands ---------- *)
Definition node_is_str (v : node) (k : str) : bool :=
  match v with NStr s => str_eqb s k | _ => false end.

Definition in_map (p : parser) (v : node) : bool :=
  match v with NStr s => mem_str s (p_names p) | _ => false end.

(* "Get subcommand": explicit key, else the first subcommand with settings *)
Definition gs_choose (failno single : bool) (p : parser) (cfg : ns) (keys : list str) : ns * option node :=
  let dest := p_dest p in
  (* if dest in cfg and cfg.get(dest) is not None: subcommand = cfg[dest] *)
  let explicit := match get dest cfg with Some NNone => None | o => o end in
  match explicit with
  | Some v => (cfg, Some v)
  | None =>
      (* elif len(subcommand_keys) > 0 and (fail_no_subcommand or require_single) *)
      match keys with
      | k0 :: _ => if failno || single then (set dest (NStr k0) cfg, Some (NStr k0)) else (cfg, None)
      | [] => (cfg, None)
      end
  end.

Definition dels (v : node) (keys : list str) (c : ns) : ns :=
  fold_left (fun c k => if node_is_str v k then c else del k c) keys c.

(* ---------- the tree the model describes ----------
   fx_falsy = false, fx_cfg = false : the pinned tree (variant `orig`), bugs included.
   fx_falsy = true : after fixes/C17-falsy-subcommand-name-keeps-all-sections.patch — in the failing
     mode every chosen value that is not a declared subcommand is rejected, also for optional
     subcommands (`if subcommand not in action._name_parser_map`).
   fx_cfg = true : after fixes/C17-cfg-naming-other-subcommand-drops-settings.patch — the sections of
     the other subcommands are only removed when `fail_no_subcommand or require_single`, i.e. not
     while ActionConfigFile.apply_config loads a `--cfg` value on its own.
   fx_envmap = true : after fixes/C17-env-mapping-ignored-by-handle-subcommands.patch — handle_subcommands
     hands the environment MAPPING given to parse_env(env) on to the sub-parsers instead of letting them
     read os.environ. *)
Record variant := { fx_falsy : bool; fx_cfg : bool; fx_envmap : bool }.
Definition orig : variant := {| fx_falsy := false; fx_cfg := false; fx_envmap := false |}.

Section Variant.
Variable fx : variant.

(* "Remove extra subcommand settings", `if subcommand: subcommand_keys = [subcommand]`, required check *)
Definition gs_finish (failno single : bool) (p : parser) (keys : list str) (cfg1 : ns) (sub : option node)
  : res (ns * list node) :=
  (* if subcommand and len(subcommand_keys) > 1 [fx_cfg: and (fail_no_subcommand or require_single)]:
       delete the other sections *)
  let removing := negb (fx_cfg fx) || failno || single in
  let cfg2 :=
    match sub with
    | Some v => if truthy v && (1 <? length keys)%nat && removing then dels v keys cfg1 else cfg1
    | None => cfg1
    end in
  (* if subcommand: subcommand_keys = [subcommand] *)
  let keys2 := match sub with
               | Some v => if truthy v then [v] else map NStr keys
               | None => map NStr keys
               end in
  if failno then
    match sub with
    | None => if p_req p then Err NoSubcommand else Ok (cfg2, [])
    (* if action._required and subcommand not in action._name_parser_map  [fx_falsy: without `action._required and`] *)
    | Some v => if (p_req p || fx_falsy fx) && negb (in_map p v) then Err NoSubcommand else Ok (cfg2, keys2)
    end
  else Ok (cfg2, keys2).

Definition get_subcommands (failno single : bool) (p : parser) (cfg : ns) : res (ns * list node) :=
  if negb (p_has p) then Ok (cfg, []) else
  (* subcommand_keys = [k for k in action.choices if isinstance(cfg.get(prefix+k), Namespace)] *)
  let keys := filter (fun k => is_ns (get k cfg)) (p_names p) in
  let cs := gs_choose failno single p cfg keys in
  gs_finish failno single p keys (fst cs) (snd cs).

(* ---------- _ActionSubCommands.handle_subcommands ----------
   env = Some e : merge `subparser.parse_env(...)` (penv);  else defaults: merge get_defaults *)
(* body of `for subcommand, subparser in zip(subcommands, subparsers)`; rec = the recursive call
   "Handle inner subcommands" *)
Definition handle_step (rec : option cobj -> parser -> ns -> res ns)
           (penv : parser -> cobj -> res ns) (env : option cobj) (defaults : bool)
           (p : parser) (sv : node) (cfg : ns) : res ns :=
  match sv with
  | NStr s =>
    match assoc s (p_choices p) with
    | None => Err Crash          (* subparser is None *)
    | Some sp =>
      let sube := option_map (fun e => env_sub e s) env in
      let subns :=
        match sube with
        | Some e' => match penv sp e' with Ok d => Ok (Some d) | Err x => Err x end
        | None => if defaults then Ok (Some (get_defaults sp)) else Ok None
        end in
      match subns with
      | Err x => Err x
      | Ok o =>
        (* cfg[key] = subparser.merge_config(cfg.get(key, Namespace()), subnamespace) *)
        let cfg2 := match o with
                    | Some d => set s (NNs (merge (as_ns (get s cfg)) d)) cfg
                    | None => cfg
                    end in
        if p_has sp then
          match rec sube sp (as_ns (get s cfg2)) with
          | Err x => Err x
          | Ok sec' => Ok (if is_ns (get s cfg2) then set s (NNs sec') cfg2 else cfg2)
          end
        else Ok cfg2
      end
    end
  | _ => Err Crash               (* prefix + subcommand on a non-string *)
  end.

Fixpoint handle_loop (step : node -> ns -> res ns) (subs : list node) (cfg : ns) : res ns :=
  match subs with
  | [] => Ok cfg
  | sv :: rest => match step sv cfg with
                  | Ok c => handle_loop step rest c
                  | Err x => Err x
                  end
  end.

Fixpoint handle (penv : parser -> cobj -> res ns) (fuel : nat) (env : option cobj)
         (defaults failno single : bool) (p : parser) (cfg : ns) {struct fuel} : res ns :=
  match fuel with
  | O => Err OutOfFuel
  | S f =>
    match get_subcommands failno single p cfg with
    | Err e => Err e
    | Ok (cfg1, subs) =>
        handle_loop
          (handle_step (fun sube sp sec => handle penv f sube defaults failno single sp sec)
                       penv env defaults p)
          subs cfg1
    end
  end.

(* ---------- ActionLink.apply_parsing_links: only its get_subcommand side effect ---------- *)
Fixpoint links_pass (fuel : nat) (p : parser) (cfg : ns) {struct fuel} : res ns :=
  match fuel with
  | O => Err OutOfFuel
  | S f =>
    match get_subcommands false true p cfg with
    | Err e => Err e
    | Ok (cfg1, subs) =>
      match subs with
      | NStr s :: _ =>
          match get s cfg1 with
          | Some (NNs sec) =>
              match assoc s (p_choices p) with
              | Some sp => match links_pass f sp sec with
                           | Ok sec' => Ok (set s (NNs sec') cfg1)
                           | Err e => Err e
                           end
              | None => Err Crash
              end
          | Some _ => Err Crash
          | None => Ok cfg1
          end
      | _ :: _ => Ok cfg1      (* `subcommand in cfg` is False for a non-string *)
      | [] => Ok cfg1
      end
    end
  end.

(* ---------- ArgumentParser.validate: check_values + check_required ---------- *)
Definition is_opt (p : parser) (k : str) : bool := mem_str k (map fst (p_opts p)).

Fixpoint check_required (fuel : nat) (p : parser) (cfg : ns) {struct fuel} : res unit :=
  match fuel with
  | O => Err OutOfFuel
  | S f =>
    if p_has p && p_req p && negb (match get (p_dest p) cfg with Some NNone | None => false | _ => true end)
    then Err RequiredMissing else
    match get_subcommands false true p cfg with
    | Err e => Err e
    | Ok (cfg1, subs) =>
      match subs with
      | NStr s :: _ =>
          match assoc s (p_choices p) with
          | Some sp => match get s cfg1 with
                       | Some (NNs sec) => check_required f sp sec
                       | _ => Err Crash
                       end
          | None => Ok tt
          end
      | _ => Ok tt
      end
    end
  end.

Fixpoint validate (fuel : nat) (p : parser) (cfg : ns) {struct fuel} : res unit :=
  match fuel with
  | O => Err OutOfFuel
  | S f =>
    let fix each (l : ns) : res unit :=
      match l with
      | [] => Ok tt
      | (k, v) :: t =>
        let r :=
          if p_cfg p && str_eqb k cfg_key then Ok tt
          else if is_opt p k then
            match v with NInt _ | NNone => Ok tt | _ => Err BadValue end
          else if p_has p && str_eqb k (p_dest p) then
            match v with NNs l' => if has_leaf l' then Err UnknownKey else Ok tt | _ => Ok tt end
          else if p_has p then
            match assoc k (p_choices p) with
            | Some sp =>
                match v with
                | NNs l' => if has_leaf l' then validate f sp l' else Ok tt
                | NNone => Ok tt
                | _ => Err Crash
                end
            | None => match v with NNs l' => if has_leaf l' then Err UnknownKey else Ok tt | _ => Err UnknownKey end
            end
          else match v with NNs l' => if has_leaf l' then Err UnknownKey else Ok tt | _ => Err UnknownKey end in
        match r with Ok _ => each t | Err e => Err e end
      end in
    match each cfg with
    | Err e => Err e
    | Ok _ => check_required f p cfg
    end
  end.

(* ---------- ArgumentParser._parse_common ---------- *)
Definition parse_common (penv : parser -> cobj -> res ns) (fuel : nat) (env : option cobj)
           (skipval failno : bool) (p : parser) (cfg : ns) : res ns :=
  match handle penv fuel env true failno true p cfg with
  | Err e => Err e
  | Ok cfg1 =>
    match links_pass fuel p cfg1 with
    | Err e => Err e
    | Ok cfg2 =>
      if skipval then Ok cfg2 else
      match validate fuel p cfg2 with
      | Err e => Err e
      | Ok _ => Ok cfg2
      end
    end
  end.

(* ---------- ArgumentParser._load_env_vars (no config variable) ---------- *)
(* penv v sp e' = action._name_parser_map[v].parse_env(env=env, ...): the sub-parser gets the SAME mapping
   (here: its part below the prefix of v) *)
Definition load_env_vars (penv : str -> parser -> cobj -> res ns) (p : parser) (e : cobj) : res ns :=
  let r1 : res ns :=
    if p_has p then
      match assoc (p_dest p) e with
      | Some (CStr v) =>
          match assoc v (p_choices p) with
          | Some sp =>
              match penv v sp (env_sub e v) with
              | Err x => Err x
              | Ok pcfg =>
                  let c1 := [(p_dest p, NStr v)] in
                  (* for k, v in vars(pcfg).items(): cfg[subcommand + "." + k] = v *)
                  Ok (match pcfg with
                      | [] => c1
                      | _ => set v (NNs (fold_left (fun c kv => set (fst kv) (snd kv) c) pcfg [])) c1
                      end)
              end
          | None => Ok []      (* value not among the choices: ignored *)
          end
      | _ => Ok []
      end
    else Ok [] in
  match r1 with
  | Err x => Err x
  | Ok c1 =>
    (fix opts (l : list (str * Z)) (c : ns) : res ns :=
       match l with
       | [] => Ok c
       | (k, _) :: t =>
           match assoc k e with
           | Some (CInt z) => opts t (set k (NInt z) c)
           | Some (CStr _) => Err BadValue
           | _ => opts t c
           end
       end) (p_opts p) c1
  end.

(* ---------- ArgumentParser._parse_defaults_and_environ ---------- *)
Definition defaults_and_environ (penv : str -> parser -> cobj -> res ns) (p : parser) (env : option cobj) : res ns :=
  match env with
  | None => Ok (get_defaults p)
  | Some e => match load_env_vars penv p e with
              | Err x => Err x
              | Ok cfg_env => Ok (merge cfg_env (get_defaults p))
              end
  end.

(* ---------- ArgumentParser.parse_env(_skip_validation=True) as called for sub-parsers ---------- *)
Fixpoint parse_env (fuel : nat) (p : parser) (e : cobj) {struct fuel} : res ns :=
  match fuel with
  | O => Err OutOfFuel
  | S f =>
    match defaults_and_environ (fun _ => parse_env f) p (Some e) with
    | Err x => Err x
    | Ok cfg => parse_common (parse_env f) f (Some e) true false p cfg
    end
  end.

(* ---------- ActionConfigFile.apply_config for an inline config string ----------
   parse_string(value, env=False, defaults=False, _skip_validation=True, _fail_no_subcommand=False)
   under not_single_subcommand() and skip_apply_links(), then merge into the namespace so far *)
Definition no_penv (_ : parser) (_ : cobj) : res ns := Err Crash.

Definition apply_config (fuel : nat) (p : parser) (cfg : ns) (c : cobj) : res ns :=
  match handle no_penv fuel None false false false p (to_ns c) with
  | Err x => Err x
  | Ok cfg_file => Ok (merge cfg_file cfg)
  end.

(* ---------- ArgumentParser.parse_args, including _ActionSubCommands.__call__ ---------- *)
Fixpoint parse_args (fuel : nat) (env : option cobj) (skipval : bool) (p : parser) (a : argvt)
         (namespace : option ns) {struct fuel} : res ns :=
  match fuel with
  | O => Err OutOfFuel
  | S f =>
    let penv := parse_env f in
    match defaults_and_environ (fun _ => penv) p env with
    | Err x => Err x
    | Ok cfg0 =>
      (* if namespace: cfg = self.merge_config(namespace, cfg) *)
      let cfg1 := match namespace with
                  | Some n => match n with [] => cfg0 | _ => merge n cfg0 end
                  | None => cfg0
                  end in
      let 'ArgvT items sub := a in
      let walked :=
        (fix walk (l : list item) (c : ns) : res ns :=
           match l with
           | [] => Ok c
           | IOpt k v :: t => if is_opt p k then walk t (set k (NInt v) c) else Err Unrecognized
           | ICfg cf :: t =>
               if p_cfg p then
                 match apply_config f p c cf with Ok c' => walk t c' | Err x => Err x end
               else Err Unrecognized
           end) items cfg1 in
      match walked with
      | Err x => Err x
      | Ok cfg2 =>
        let called :=
          match sub with
          | None => Ok cfg2
          | Some (name, rest) =>
              if negb (p_has p) then Err Unrecognized else
              match assoc name (p_choices p) with
              | None => Err Unrecognized       (* invalid choice *)
              | Some sp =>
                  (* namespace[self.dest] = subcommand *)
                  let c := set (p_dest p) (NStr name) cfg2 in
                  (* subnamespace = namespace.get(subcommand).clone() if subcommand in namespace else None *)
                  match (match get name c with
                         | Some (NNs sec) => Ok (Some sec)
                         | Some NNone => Err Crash
                         | Some _ => Err Crash
                         | None => Ok None
                         end) with
                  | Err x => Err x
                  | Ok subns =>
                    match parse_args f (option_map (fun e => env_sub e name) env) true sp rest subns with
                    | Err x => Err x
                    | Ok sec => Ok (set name (NNs sec) c)
                    end
                  end
              end
          end in
        match called with
        | Err x => Err x
        | Ok cfg3 => parse_common penv f env skipval true p cfg3
        end
      end
    end
  end.

(* ---------- parse_object / parse_string ---------- *)
Definition parse_cfg (fuel : nat) (env : option cobj) (p : parser) (c : cobj) : res ns :=
  match fuel with
  | O => Err OutOfFuel
  | S f =>
    match defaults_and_environ (fun _ => parse_env f) p env with
    | Err x => Err x
    | Ok base => parse_common (parse_env f) f env false true p (merge (to_ns c) base)
    end
  end.

(* ---------- ArgumentParser.parse_env(env = mapping) ----------
   _parse_defaults_and_environ reads the MAPPING m (and hands it to the sub-parser of the subcommand it
   names: load_env_vars), but _parse_common -> handle_subcommands calls `subparser.parse_env(defaults=...,
   _skip_validation=True)` WITHOUT it, so those calls read os.environ (os) [fx_envmap: the mapping].
   With m = os this is parse_env above.  Top level: skipval = false, failno = true; the calls from
   load_env_vars: _skip_validation=True, hence fail_no_subcommand=False. *)
Fixpoint parse_envm (fuel : nat) (skipval failno : bool) (p : parser) (m os : cobj) {struct fuel} : res ns :=
  match fuel with
  | O => Err OutOfFuel
  | S f =>
    match defaults_and_environ (fun v sp m' => parse_envm f true false sp m' (env_sub os v)) p (Some m) with
    | Err x => Err x
    | Ok cfg => parse_common (parse_env f) f (Some (if fx_envmap fx then m else os)) skipval failno p cfg
    end
  end.

Definition parse (fuel : nat) (p : parser) (x : input) : res ns :=
  match i_entry x with
  | EEnv m => parse_envm fuel false true p m (match i_env x with Some o => o | None => [] end)
  | EArgs a => parse_args fuel (i_env x) false p a None
  | EObject c => parse_cfg fuel (i_env x) p c
  | EString c => parse_cfg fuel (i_env x) p c
  end.

End Variant.

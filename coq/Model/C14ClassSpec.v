(* C14 — model of the subclass-spec machinery of jsonargparse, in the shape of the code:
     _typehints.py  adapt_typehints "Subclass" branch (1052-1099), subclass_spec_as_namespace (1176-1205),
                    resolve_class_path_by_name / get_all_subclass_paths (1271-1329),
                    discard_init_args_on_class_path_change (1347-1369, 414-436), adapt_class_type (1372-1452),
                    ActionTypeHint.__call__ (521-552)
     _core.py       parse_object / _apply_actions / merge_config / _parse_common(add_sub_defaults, validate),
                    instantiate_classes (1200-1256)
     _util.py       import_object / get_import_path (172-257) for objects of ONE generated module.
   Executable definitions only.  Strings are lists of code points.

   A class family lives in one module `fam_mod`; it has classes (several parents allowed, explicit
   constructor parameter lists, abstract flag, **kwargs flag), functions returning a class, and
   non-class constants.  Parameter types: int, str, Class, Optional[Class].

   What is collapsed (validated by the correspondence run, stated in notes/C14.md):
   the clone / in-place-pop / leaf-wise Namespace.update choreography between adapt_class_type,
   ActionTypeHint.__call__ and merge_config is modelled by its net effect `merge_val`:
   the freshly adapted value replaces the old one, except that an old `dict_kwargs` leaf survives
   when the new value carries none (Namespace.update only writes the leaves the new value has). *)
From JV Require Import Lib.Base.

(* ---------- data ------------------------------------------------------------------------- *)
Inductive value :=
| VInt (z : Z) | VStr (s : str) | VNull
| VSpec (cp : str) (ia : list (str * value)) (dk : list (str * value)).

Inductive raw := RInt (z : Z) | RStr (s : str) | RNull | RDict (kvs : list (str * raw)).

(* what reaches ActionTypeHint: a loaded value, or NestedArg(key, val) with key split at "." *)
Inductive input := IRaw (r : raw) | INested (path : list str) (r : raw).

Inductive pty := PInt | PStr | PCls (c : str) | POpt (c : str).
Record param := { p_name : str; p_ty : pty; p_def : option value (* None = required *) }.
Record cls := { c_name : str; c_parents : list str; c_params : list param;
                c_abstract : bool; c_varkw : bool }.
Record func := { f_name : str; f_ret : str; f_params : list param }.
(* A family lives in one module, or in a package: `fam_subs` says which classes / functions are defined in a
   submodule (name -> submodule; everything else, the constants included, in the package's __init__), and
   `fam_exports` lists the re-exports of __init__ (`from .sub import Target as Alias`: alias -> target). *)
(* `fam_shadows`: names of classes of the family of which a SECOND module (fam_mod ++ "_alt") defines a homonym: a class
   with the same __name__, the same parents and the same constructor.  It is never named by a class path of the modelled
   space; it only makes the bare name ambiguous (resolve_class_path_by_name). *)
Record family := { fam_mod : str; fam_classes : list cls; fam_funcs : list func;
                   fam_consts : list str;
                   fam_subs : list (str * str); fam_exports : list (str * str);
                   fam_shadows : list str }.

Inductive importable := ICls (k : cls) | IFun (f : func) | IConst.

Inductive err := Reject | TypeErr | OutOfFuel.
Inductive res (A : Type) := Ok (a : A) | Err (e : err).
Arguments Ok {A} a. Arguments Err {A} e.
Definition bind {A B} (r : res A) (f : A -> res B) : res B :=
  match r with Ok a => f a | Err e => Err e end.
Notation "x <- r ;; k" := (bind r (fun x => k)) (at level 61, r at next level, right associativity).

Definition s_class_path : str := [99;108;97;115;115;95;112;97;116;104]%N.
Definition s_init_args : str := [105;110;105;116;95;97;114;103;115]%N.
Definition s_dict_kwargs : str := [100;105;99;116;95;107;119;97;114;103;115]%N.
Definition dot : N := 46%N.

(* ordered dicts: replace in place or append *)
Fixpoint aget {A} (k : str) (l : list (str * A)) : option A :=
  match l with
  | [] => None
  | (k', v) :: l' => if str_eqb k k' then Some v else aget k l'
  end.
Fixpoint aset {A} (k : str) (v : A) (l : list (str * A)) : list (str * A) :=
  match l with
  | [] => [(k, v)]
  | (k', v') :: l' => if str_eqb k k' then (k, v) :: l' else (k', v') :: aset k v l'
  end.
Definition ahas {A} (k : str) (l : list (str * A)) : bool :=
  match aget k l with Some _ => true | None => false end.
Definition aupdate {A} (base new : list (str * A)) : list (str * A) :=
  fold_left (fun acc kv => aset (fst kv) (snd kv) acc) new base.

(* ---------- the module: import_object / get_import_path ---------------------------------- *)
Fixpoint strip_prefix (p s : str) : option str :=
  match p, s with
  | [], _ => Some s
  | a :: p', b :: s' => if N.eqb a b then strip_prefix p' s' else None
  | _ :: _, [] => None
  end.
Definition has_dot (s : str) : bool := existsb (N.eqb dot) s.

Definition find_cls (F : family) (nm : str) : option cls :=
  find (fun k => str_eqb (c_name k) nm) (fam_classes F).
Definition find_fun (F : family) (nm : str) : option func :=
  find (fun f => str_eqb (f_name f) nm) (fam_funcs F).

Definition lookup_name (F : family) (nm : str) : option importable :=
  match find_cls F nm with
  | Some k => Some (ICls k)
  | None => match find_fun F nm with
            | Some f => Some (IFun f)
            | None => if mem_str nm (fam_consts F) then Some IConst else None
            end
  end.

Definition sub_of (F : family) (nm : str) : option str := aget nm (fam_subs F).

(* getattr(package, nm): what __init__ defines itself, else what it re-exports *)
Definition lookup_pkg (F : family) (nm : str) : option importable :=
  match sub_of F nm with
  | None => match lookup_name F nm with
            | Some o => Some o
            | None => match aget nm (fam_exports F) with
                      | Some tgt => lookup_name F tgt
                      | None => None
                      end
            end
  | Some _ => match aget nm (fam_exports F) with
              | Some tgt => lookup_name F tgt
              | None => None
              end
  end.

Fixpoint split_dot (s : str) : str * option str :=      (* at the first "." *)
  match s with
  | [] => ([], None)
  | c :: s' => if N.eqb c dot then ([], Some s')
               else let '(a, b) := split_dot s' in (c :: a, b)
  end.

(* import_object: "mod.name" / "mod.sub.name"; anything else raises (ValueError / ImportError / AttributeError) *)
Definition import_obj (F : family) (path : str) : option importable :=
  match strip_prefix (fam_mod F ++ [dot]) path with
  | Some rest =>
      match split_dot rest with
      | (nm, None) => lookup_pkg F nm
      | (sub, Some nm) =>
          if has_dot nm then None
          else match sub_of F nm with
               | Some s => if str_eqb s sub then lookup_name F nm else None
               | None => None
               end
      end
  | None => None
  end.

(* get_import_path: the shortest path under which the very object is reachable: an object defined in a submodule
   is "mod.name" iff __init__ re-exports it under its own name (`getattr(package, name) is value`) *)
Definition path_of (F : family) (nm : str) : str :=
  match sub_of F nm with
  | None => fam_mod F ++ [dot] ++ nm
  | Some s => match aget nm (fam_exports F) with
              | Some tgt => if str_eqb tgt nm then fam_mod F ++ [dot] ++ nm
                            else fam_mod F ++ [dot] ++ s ++ [dot] ++ nm
              | None => fam_mod F ++ [dot] ++ s ++ [dot] ++ nm
              end
  end.

(* issubclass along the parent lists; fuel = number of classes suffices for an acyclic family *)
Fixpoint subclassb (n : nat) (F : family) (c base : str) : bool :=
  str_eqb c base ||
  match n with
  | 0 => false
  | S n' => match find_cls F c with
            | Some k => existsb (fun p => subclassb n' F p base) (c_parents k)
            | None => false
            end
  end.
Definition is_subclass (F : family) (c base : str) : bool :=
  subclassb (length (fam_classes F)) F c base.

Definition cls_abstract (F : family) (c : str) : bool :=
  match find_cls F c with Some k => c_abstract k | None => false end.

(* resolve_class_path_by_name: names without "." are looked up among the non-abstract subclasses
   of the declared type (get_all_subclass_paths); one hit -> its path, several -> ValueError,
   none -> the name is left as it is (and then fails to import). *)
(* is_private(class_path): "._" in class_path.  A private class (or a class in a private module) is not listed
   by get_all_subclass_paths - its subclasses still are. *)
Fixpoint is_private (s : str) : bool :=
  match s with
  | a :: ((b :: _) as s') => (N.eqb a dot && N.eqb b 95) || is_private s'
  | _ => false
  end.

(* The homonym of a listed class is listed too (same parents, same abstractness, same name) - unless the class is the
   declared type itself: its homonym derives from its parents, not from it.  Two candidates for one bare name:
   "Multiple subclasses with name ..." (a ValueError, reported as a parse error). *)
Definition ambiguous (F : family) (base nm : str) : bool :=
  mem_str nm (fam_shadows F) && negb (str_eqb nm base).

Definition resolve_name (F : family) (base nm : str) : res str :=
  if has_dot nm then Ok nm
  else match filter (fun k => str_eqb (c_name k) nm && is_subclass F (c_name k) base
                                && negb (c_abstract k) && negb (is_private (path_of F (c_name k)))) (fam_classes F) with
       | [] => Ok nm
       | [k] => if ambiguous F base nm then Err Reject else Ok (path_of F (c_name k))
       | _ => Err Reject
       end.

(* the checks between import_object and adapt_class_type: class that is a subclass of the declared
   type, or a callable whose return annotation is one.  Gives (normalised path, parameters). *)
Definition check_import (F : family) (base cp : str) : res (str * list param) :=
  match import_obj F cp with
  | Some (ICls k) => if is_subclass F (c_name k) base
                     then Ok (path_of F (c_name k), c_params k) else Err Reject
  | Some (IFun f) => if is_subclass F (f_ret f) base
                     then Ok (path_of F (f_name f), f_params f) else Err Reject
  | _ => Err Reject
  end.

Definition find_param (ps : list param) (k : str) : option param :=
  find (fun p => str_eqb (p_name p) k) ps.

(* ---------- raw views -------------------------------------------------------------------- *)
Fixpoint raw_of (v : value) : raw :=
  match v with
  | VInt z => RInt z
  | VStr s => RStr s
  | VNull => RNull
  | VSpec cp ia dk =>
      RDict ((s_class_path, RStr cp)
             :: (match ia with [] => [] | _ => [(s_init_args, RDict (map (fun kv => (fst kv, raw_of (snd kv))) ia))] end)
             ++ (match dk with [] => [] | _ => [(s_dict_kwargs, RDict (map (fun kv => (fst kv, raw_of (snd kv))) dk))] end))
  end.

(* dict_kwargs values are kept as given (only strings would be re-loaded) *)
Definition simple_value (r : raw) : res value :=
  match r with
  | RInt z => Ok (VInt z) | RStr s => Ok (VStr s) | RNull => Ok VNull
  | RDict _ => Err Reject   (* outside the modelled space *)
  end.
Fixpoint simple_values (l : list (str * raw)) : res (list (str * value)) :=
  match l with
  | [] => Ok []
  | (k, r) :: l' => v <- simple_value r ;; vs <- simple_values l' ;; Ok ((k, v) :: vs)
  end.

Definition spec_keys_only (d : list (str * raw)) : bool :=
  forallb (fun kv => str_eqb (fst kv) s_class_path || str_eqb (fst kv) s_init_args
                     || str_eqb (fst kv) s_dict_kwargs) d.
(* is_subclass_spec *)
Definition is_spec_dict (d : list (str * raw)) : bool := ahas s_class_path d && spec_keys_only d.

Inductive ia_in := IaDict (kvs : list (str * raw)) | IaNested (path : list str) (r : raw).
Record proto := { q_cp : str; q_ia : ia_in; q_dk : list (str * raw) }.

Definition prev_class_path (prev : option value) : option str :=
  match prev with Some (VSpec cp _ _) => Some cp | _ => None end.

Fixpoint join_dots (l : list str) : str :=
  match l with [] => [] | [x] => x | x :: l' => x ++ [dot] ++ join_dots l' end.

(* a dict that satisfies is_subclass_spec -> its three entries *)
Definition proto_of_spec_dict (d : list (str * raw)) : res proto :=
  match aget s_class_path d with
  | Some (RStr cp) =>
      match aget s_init_args d, aget s_dict_kwargs d with
      | Some (RDict ia), Some (RDict dk) => Ok {| q_cp := cp; q_ia := IaDict ia; q_dk := dk |}
      | Some (RDict ia), None => Ok {| q_cp := cp; q_ia := IaDict ia; q_dk := [] |}
      | None, Some (RDict dk) => Ok {| q_cp := cp; q_ia := IaDict []; q_dk := dk |}
      | None, None => Ok {| q_cp := cp; q_ia := IaDict []; q_dk := [] |}
      | _, _ => Err Reject
      end
  | _ => Err Reject
  end.

(* subclass_spec_as_namespace(val, prev_val) followed by the is_subclass_spec test *)
Definition as_ns_dict (d : list (str * raw)) (pcp : option str) : res proto :=
  if is_spec_dict d then proto_of_spec_dict d
  else match pcp with
       | Some cp =>
           if ahas s_init_args d || ahas s_dict_kwargs d
           then (let d' := aset s_class_path (RStr cp) d in
                 if is_spec_dict d' then proto_of_spec_dict d' else Err Reject)
           else Ok {| q_cp := cp; q_ia := IaDict d; q_dk := [] |}
       | None => Err Reject
       end.

Definition as_ns (i : input) (pcp : option str) : res proto :=
  match i with
  | IRaw (RStr s) => Ok {| q_cp := s; q_ia := IaDict []; q_dk := [] |}
  | IRaw (RDict d) => as_ns_dict d pcp
  | IRaw _ => Err Reject
  | INested [] _ => Err Reject
  | INested [k] r => as_ns_dict [(k, r)] pcp                          (* "." not in key *)
  | INested (k :: rest) r =>
      if str_eqb k s_dict_kwargs
      then as_ns_dict [(s_dict_kwargs, RDict [(join_dots rest, r)])] pcp
      else match pcp with
           | Some cp => Ok {| q_cp := cp; q_ia := IaNested (k :: rest) r; q_dk := [] |}
           | None => Err Reject
           end
  end.

(* adapt_class_type hands a NestedArg down as the argv item f"--{key}={val}" AFTER val was loaded by
   _check_type: str(None) = "None", which the next level loads as a string, not as null.  Ints,
   identifiers and dicts (Python repr is valid YAML flow syntax) survive the round trip. *)
Definition s_None : str := [78;111;110;101]%N.
Fixpoint restr (r : raw) : raw :=
  match r with
  | RNull => RStr s_None
  | RDict kvs => RDict (map (fun kv => (fst kv, restr (snd kv))) kvs)
  | _ => r
  end.

(* ActionTypeHint.__call__: "--dest.init_args.k" and "--dest.k" both give NestedArg(k) *)
Definition strip_ia (path : list str) : list str :=
  match path with
  | k :: (_ :: _) as rest => if str_eqb k s_init_args then rest else path
  | _ => path
  end.

(* Namespace.update(val, dest): only the leaves the new value has are written; dict_kwargs is a leaf *)
Definition merge_val (old : option value) (new : value) : value :=
  match old, new with
  | Some (VSpec _ _ dk0), VSpec cp ia [] => VSpec cp ia dk0
  | _, _ => new
  end.

Definition defaults_of (ps : list param) : list (str * value) :=
  map (fun p => (p_name p, match p_def p with Some d => d | None => VNull end)) ps.

Definition required_ok (ps : list param) (ia : list (str * value)) : bool :=
  forallb (fun p => match p_def p with
                    | Some _ => true
                    | None => match aget (p_name p) ia with
                              | Some VNull | None => false
                              | Some _ => true
                              end
                    end) ps.

Record mode := { m_strict : bool; m_defaults : bool }.

(* ActionTypeHint._check_type: no previous value (absent or None), the parameter's default is a class spec
   (lazy_instance(Sub, ..)) and we are not in the add_sub_defaults pass: the previous value is the default's class_path *)
Definition prev_or_default (m : mode) (p : param) (prev : option value) : option value :=
  match p_def p with
  | Some (VSpec cp _ _) =>
      match prev with
      | None | Some VNull => if m_defaults m then prev else Some (VSpec cp [] [])
      | _ => prev
      end
  | _ => prev
  end.
Definition lenient : mode := {| m_strict := false; m_defaults := false |}.
Definition with_defaults : mode := {| m_strict := false; m_defaults := true |}.
Definition strict : mode := {| m_strict := true; m_defaults := false |}.

Definition param_class (t : pty) : option str :=
  match t with PCls c | POpt c => Some c | _ => None end.

(* ---------- adapt_typehints (Subclass branch) + adapt_class_type ------------------------- *)
Section Adapt.
  Variable F : family.
  (* how adapt_class_type renders the (already loaded) value of a NestedArg for the next level:
     `restr` = the code as it is (f"--{key}={val}", str(None) = "None"); the identity = the value
     survives (behaviour with fixes/C14-nested-null-restringified.patch) *)
  Variable rs : raw -> raw.

  (* one parameter value; `rec` is the subclass branch one level down *)
  Definition adapt_param (rec : mode -> str -> option value -> input -> res value)
             (m : mode) (t : pty) (prev : option value) (r : raw) : res value :=
    match t, r with
    | PInt, RInt z => Ok (VInt z)
    | PInt, _ => Err Reject
    | PStr, RStr s => Ok (VStr s)
    | PStr, _ => Err Reject
    | PCls c, _ => rec m c prev (IRaw r)
    | POpt c, RNull => Ok VNull
    | POpt c, _ => rec m c prev (IRaw r)
    end.

  Fixpoint defaults_of_rec (rec : mode -> str -> option value -> input -> res value)
           (m : mode) (ps : list param) : res (list (str * value)) :=
    match ps with
    | [] => Ok []
    | p :: ps' =>
        d <- match p_def p, param_class (p_ty p) with
             | Some (VSpec cp ia dk), Some c => rec m c None (IRaw (raw_of (VSpec cp ia dk)))
             | Some d, _ => Ok d
             | None, _ => Ok VNull
             end ;;
        rest <- defaults_of_rec rec m ps' ;;
        Ok ((p_name p, d) :: rest)
    end.

  (* discard_init_args_on_class_path_change: an old init_arg survives the class change iff the new
     class has a parameter of that name and the old value passes its (non-lenient) check *)
  Definition keep_arg (rec : mode -> str -> option value -> input -> res value)
             (ps : list param) (kv : str * value) : bool :=
    match find_param ps (fst kv) with
    | Some p => match adapt_param rec strict (p_ty p) (prev_or_default strict p None) (raw_of (snd kv)) with
                | Ok _ => true | Err _ => false end
    | None => false
    end.

  (* parser.parse_object(init_args, cfg_base=prev_init_args): every key must be a parameter, each
     value is adapted with the previous value at that key, then merged into the base *)
  Fixpoint parse_ia (rec : mode -> str -> option value -> input -> res value)
           (m : mode) (ps : list param) (base : list (str * value))
           (kvs : list (str * raw)) (acc : list (str * value)) : res (list (str * value)) :=
    match kvs with
    | [] => Ok acc
    | (k, r) :: kvs' =>
        match find_param ps k with
        | None => Err Reject                                 (* Key 'k' is not expected *)
        | Some p =>
            v <- adapt_param rec m (p_ty p) (prev_or_default m p (aget k base)) r ;;
            parse_ia rec m ps base kvs' (aset k (merge_val (aget k base) v) acc)
        end
    end.

  (* implicit class_path of a concrete declared type *)
  Definition prev1_of (base : str) (prev : option value) : option value :=
    match prev with
    | Some (VSpec _ _ _) => prev
    | Some (VStr _) => None   (* a previous value that is neither None nor a spec (the whole previous list, handed to an
                                 element of a list of another length): `prev_val is None` fails, no implicit class_path *)
    | _ => if cls_abstract F base then None else Some (VSpec (path_of F base) [] [])
    end.

  (* adapt_class_type, first half: (same class as before?, previous init_args that survive, previous dict_kwargs) *)
  Definition prev_parts (rec : mode -> str -> option value -> input -> res value)
             (ps : list param) (cpn : str) (prev1 : option value)
    : bool * list (str * value) * list (str * value) :=
    match prev1 with
    | Some (VSpec pcp pia pdk) =>
        if str_eqb pcp cpn then (true, pia, pdk)
        else (false, filter (keep_arg rec ps) pia, pdk)
    | _ => (false, [], [])
    end.

  (* init_args is a NestedArg: parser.parse_args(["--k.rest=r"], namespace=prev_init_args) *)
  Definition adapt_nested (rec : mode -> str -> option value -> input -> res value)
             (m : mode) (ps : list param) (cpn : str) (pia : list (str * value))
             (path : list str) (r : raw) : res value :=
    match path with
    | k :: rest =>
        match find_param ps k with
        | Some p =>
            match param_class (p_ty p) with
            | Some c =>
                v <- rec m c (prev_or_default m p (aget k pia)) (INested (strip_ia rest) (rs r)) ;;
                Ok (VSpec cpn (aset k (merge_val (aget k pia) v) pia) [])
            | None => Err Reject
            end
        | None => Err Reject
        end
    | [] => Err Reject
    end.

  (* init_args is a dict: parser.parse_object(init_args, cfg_base=prev_init_args), then dict_kwargs *)
  Definition adapt_dict (rec : mode -> str -> option value -> input -> res value)
             (m : mode) (ps : list param) (cpn : str) (same : bool)
             (pia pdk : list (str * value)) (kvs dk : list (str * raw)) : res value :=
    (* dict_kwargs entries that name a parameter are moved into init_args *)
    let moved := filter (fun kv => match find_param ps (fst kv) with Some _ => true | None => false end) dk in
    let dk' := filter (fun kv => match find_param ps (fst kv) with Some _ => false | None => true end) dk in
    let kvs' := aupdate kvs moved in
    (* get_defaults of the class parser: a default that is a class spec is itself completed (add_sub_defaults) *)
    dflts <- (if m_defaults m then defaults_of_rec rec m ps else Ok []) ;;
    let base_ia := if m_defaults m then aupdate dflts pia else pia in
    ia <- parse_ia rec m ps base_ia kvs' base_ia ;;
    if m_strict m && negb (required_ok ps ia) then Err Reject
    else
      dkv <- simple_values dk' ;;
      let dkf := match dkv with
                 | [] => []
                 | _ => if same then aupdate pdk dkv else dkv
                 end in
      Ok (VSpec cpn ia dkf).

  Fixpoint adapt (n : nat) (m : mode) (base : str) (prev : option value) (i : input) : res value :=
    match n with
    | 0 => Err OutOfFuel
    | S n' =>
        let prev1 := prev1_of base prev in
        q <- as_ns i (prev_class_path prev1) ;;
        cp1 <- resolve_name F base (q_cp q) ;;
        cps <- check_import F base cp1 ;;          (* (normalised class_path, parameters) *)
        let parts := prev_parts (adapt n') (snd cps) (fst cps) prev1 in
        match q_ia q with
        | IaNested path r => adapt_nested (adapt n') m (snd cps) (fst cps) (snd (fst parts)) path r
        | IaDict kvs => adapt_dict (adapt n') m (snd cps) (fst cps) (fst (fst parts))
                                   (snd (fst parts)) (snd parts) kvs (q_dk q)
        end
    end.
End Adapt.

(* ---------- instantiate_classes ---------------------------------------------------------- *)
Inductive arg := AInt (z : Z) | AStr (s : str) | ANull | ARef (i : nat).
Definition entry := (str * list (str * arg))%type.      (* constructor call: class name, kwargs *)

Definition arg_of_simple (v : value) : arg :=
  match v with VInt z => AInt z | VStr s => AStr s | _ => ANull end.

(* CPython call binding of a keyword-only call against an explicit parameter list (+ var-keyword) *)
Definition bind_ok (ps : list param) (varkw : bool) (kw : list (str * arg)) : bool :=
  forallb (fun ka => varkw || match find_param ps (fst ka) with Some _ => true | None => false end) kw
  && forallb (fun p => match p_def p with Some _ => true | None => ahas (p_name p) kw end) ps.

Section Inst.
  Variable F : family.

  (* what the generated __init__ logs: its parameters in signature order after call binding
     (a default where the keyword is absent), then the extra keywords caught by the var-keyword *)
  Definition bound_kwargs (ps : list param) (kw : list (str * arg)) : list (str * arg) :=
    map (fun p => (p_name p, match aget (p_name p) kw with
                             | Some a => a
                             | None => match p_def p with Some d => arg_of_simple d | None => ANull end
                             end)) ps
    ++ filter (fun ka => match find_param ps (fst ka) with Some _ => false | None => true end) kw.

  Definition construct (cname : str) (kw : list (str * arg)) (log : list entry) : res (arg * list entry) :=
    match find_cls F cname with
    | Some k => if c_abstract k then Err TypeErr
                else if bind_ok (c_params k) (c_varkw k) kw
                     then Ok (ARef (length log), log ++ [(cname, bound_kwargs (c_params k) kw)]) else Err TypeErr
    | None => Err TypeErr
    end.

  Fixpoint inst_args (rec : value -> list entry -> res (arg * list entry))
           (ia : list (str * value)) (log : list entry) : res (list (str * arg) * list entry) :=
    match ia with
    | [] => Ok ([], log)
    | (k, v) :: ia' =>
        al <- rec v log ;;
        rest <- inst_args rec ia' (snd al) ;;
        Ok ((k, fst al) :: fst rest, snd rest)
    end.

  Fixpoint inst (n : nat) (v : value) (log : list entry) : res (arg * list entry) :=
    match n with
    | 0 => Err OutOfFuel
    | S n' =>
        match v with
        | VInt z => Ok (AInt z, log)
        | VStr s => Ok (AStr s, log)
        | VNull => Ok (ANull, log)
        | VSpec cp ia dk =>
            al <- inst_args (inst n') ia log ;;          (* parser.instantiate_classes(init_args) *)
            let kw := aupdate (fst al) (map (fun kv => (fst kv, arg_of_simple (snd kv))) dk) in
            match import_obj F cp with                     (* instantiator_fn(val_class, **{**init_args, **dict_kwargs}) *)
            | Some (ICls k) => construct (c_name k) kw (snd al)
            | Some (IFun f) => if bind_ok (f_params f) false kw
                               then construct (f_ret f) kw (snd al)   (* generated body returns Ret called with the same keywords *)
                               else Err TypeErr
            | _ => Err TypeErr
            end
        end
    end.
End Inst.

(* ---------- a whole parse + instantiate -------------------------------------------------- *)
Inductive inst_obs := IOk (root : arg) (log : list entry) | ITypeErr | IOther.
Inductive obs := ORej | OAcc (v : value) (io : inst_obs)
  | OOther.   (* any other exception; never produced by the model *)

Definition FUEL : nat := 40.

(* argv items in order (ActionTypeHint.__call__ each), then _parse_common: add_sub_defaults and validate *)
Fixpoint apply_steps (F : family) (rs : raw -> raw) (base : str) (cfg : option value) (steps : list input) : res (option value) :=
  match steps with
  | [] => Ok cfg
  | i :: steps' =>
      let i' := match i with INested p r => INested (strip_ia p) r | _ => i end in
      v <- adapt F rs FUEL lenient base cfg i' ;;
      apply_steps F rs base (Some (merge_val cfg v)) steps'
  end.

Definition finalize (F : family) (rs : raw -> raw) (base : str) (v : value) : res value :=
  v1 <- adapt F rs FUEL with_defaults base None (IRaw (raw_of v)) ;;
  _ <- adapt F rs FUEL strict base (Some v1) (IRaw (raw_of v1)) ;;
  Ok v1.

(* get_defaults ends with add_sub_defaults: the argument default is completed with the defaults of
   its class before any argv item is seen *)
Definition expand_default (F : family) (rs : raw -> raw) (base : str) (dflt : option value) : res (option value) :=
  match dflt with
  | Some v => v1 <- adapt F rs FUEL with_defaults base None (IRaw (raw_of v)) ;; Ok (Some v1)
  | None => Ok None
  end.

Definition parse_with (F : family) (rs : raw -> raw) (base : str) (dflt : option value) (steps : list input) : res value :=
  cfg0 <- expand_default F rs base dflt ;;
  cfg <- apply_steps F rs base cfg0 steps ;;
  match cfg with
  | Some v => finalize F rs base v
  | None => Err Reject     (* nothing given at all: outside the generated space *)
  end.

Definition run_with (F : family) (rs : raw -> raw) (base : str) (dflt : option value) (steps : list input) : obs :=
  match parse_with F rs base dflt steps with
  | Ok v => OAcc v (match inst F FUEL v [] with
                    | Ok (a, log) => IOk a log
                    | Err TypeErr => ITypeErr
                    | Err _ => IOther
                    end)
  | Err _ => ORej
  end.

(* the code as it is, and the code with fixes/C14-nested-null-restringified.patch *)
Definition parse := fun F => parse_with F restr.
Definition run := fun F => run_with F restr.
Definition run_fixed := fun F => run_with F (fun r => r).

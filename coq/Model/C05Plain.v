(* C05 — options declared with nargs / choices / a plain callable type: the part of the channels that lives in
   ArgumentParser._check_value_key (_core.py: the `action.type` branch and the `action.choices` block), in
   _load_env_vars (the value of a list-valued option's environment variable is loaded as a list) and in argparse's
   own _get_values (count of values per nargs, `type` per token, `choices` per token), written in the shape of the code.

     add_argument('--k', type=F, nargs=NA, choices=CH)

   F a plain callable (not a type hint)  -> argparse _StoreAction with action.type = F:
        argv      argparse: count per nargs; F(token) per token; each converted value tested against CH; stored;
                  then validate -> _check_value_key once more (result discarded)
        object /  _apply_actions -> _check_value_key under lenient_check: nargs None/'?': F(value), otherwise
        document  `for k, v in enumerate(value): value[k] = F(v)`; then the choices block
        env       nargs * + N: load_value(text), a list is taken as the values, anything else is [text];
                  _check_value_key, then _apply_actions once more, then validate
   F a type hint (int, float, str, ...)  -> ActionTypeHint with action.type = None: argparse hands the RAW tokens on
        and tests the RAW strings against CH; ActionTypeHint.__call__ -> _check_type adapts element by element
        (islist); _check_value_key -> _check_type_ then the choices block on the adapted values.

   `E` is what the action applies to ONE value.  Everything is a function into Model/Ty.v's ares; the pipeline
   functions validated / lenient / via_object / via_cfgenv of Model/C05Channels.v are reused with
   C := fun _ => check_key.  Executable only. *)
From JV Require Import Lib.Base Model.TyVal Model.Scalar Model.Ty Model.C05Channels.

Inductive nargs := NOne | NOpt | NStar | NPlus | NNum (n : nat).

(* _is_action_value_list *)
Definition is_list (na : nargs) : bool := match na with NStar | NPlus | NNum _ => true | _ => false end.

(* argparse's nargs pattern for an optional: how many values may follow the option string ('?' without a value
   stores `const`, which is not a setting: only the one-value form is modelled) *)
Definition count_ok (na : nargs) (n : nat) : bool :=
  match na with
  | NOne | NOpt => Nat.eqb n 1
  | NStar => true
  | NPlus => Nat.leb 1 n
  | NNum k => Nat.eqb n k
  end.

Section Plain.
Variable E : val -> ares.        (* action.type resp. the ActionTypeHint element check *)
Variable typed : bool.           (* action.type is not None, or an ActionTypeHint *)
Variable hint : bool.            (* ActionTypeHint: argparse itself sees type None *)
Variable rawchk : bool.          (* argparse tests an ActionTypeHint's raw strings against choices (the tree as it is);
                                    false once ArgumentParser._check_value leaves that to _check_value_key *)
Variable choices : list val.
Variable na : nargs.

(* [F(v) for v in value], first failure wins *)
Fixpoint map_E (l : list val) : ares :=
  match l with
  | [] => AOk (VList [])
  | x :: r =>
      match E x with
      | AErr e => AErr e
      | AOk w => match map_E r with
                 | AOk (VList ws) => AOk (VList (w :: ws))
                 | AOk o => AOk o
                 | AErr e => AErr e
                 end
      end
  end.

Definition in_choices (v : val) : bool := existsb (val_eqb v) choices.
Definition has_choices : bool := match choices with [] => false | _ => true end.

(* the conversion: nargs None / '?' the value itself, otherwise element by element; a non-list value of a
   list-valued option is rejected (dict: explicit TypeError; int / non-empty str: the loop or the item assignment
   raises TypeError) *)
Definition convert (v : val) : ares :=
  if negb typed then AOk v
  else if is_list na then match v with VList l => map_E l | _ => AErr ErrType end
  else E v.

(* `if action.choices: vals = value if islist else [value]; not a list -> TypeError; any val not in choices -> TypeError` *)
Definition choice_check (w : val) : ares :=
  if has_choices then
    if is_list na then
      match w with
      | VList l => if forallb in_choices l then AOk w else AErr ErrType
      | _ => AErr ErrType
      end
    else if in_choices w then AOk w else AErr ErrType
  else AOk w.

(* _check_value_key after its first line (the lenient None) *)
Definition check_key (v : val) : ares := and_then (convert v) choice_check.
Definition Cp (_ : ty) (v : val) : ares := check_key v.

(* what the command line hands over: the tokens following the option string *)
Definition argv_input (toks : list str) : val :=
  if is_list na then VList (map VStr toks) else match toks with [s] => VStr s | _ => VNone end.

(* argparse tests the raw strings against choices when the action is an ActionTypeHint *)
Definition raw_choice_ok (toks : list str) : bool :=
  negb rawchk || negb has_choices || forallb (fun s => in_choices (VStr s)) toks.

Definition via_plain_argv (toks : list str) : ares :=
  if negb (count_ok na (length toks)) then AErr ErrType
  else validated Cp TAny
         (if hint then (if raw_choice_ok toks then convert (argv_input toks) else AErr ErrType)
          else check_key (argv_input toks)).

(* _load_env_vars: `if islist: try: l = load_value(text); val = l if isinstance(l, list) else [text]
   except loader exceptions: val = [text]` *)
Definition env_input (yl : str -> lres) (text : str) : val :=
  if is_list na then match yl text with LVal (VList l) => VList l | _ => VList [VStr text] end
  else VStr text.

Definition via_plain_env (yl : str -> lres) (text : str) : ares :=
  validated Cp TAny (and_then (check_key (env_input yl text)) (lenient Cp TAny)).

Definition via_plain_object (v : val) : ares := via_object Cp TAny v.
Definition via_plain_cfgenv (v : val) : ares := via_cfgenv Cp TAny v.

(* ---- the guard of the agreement theorem ----------------------------------------------------------------------
   count : as many values as the nargs pattern admits (the config channels never count)
   reads : the check takes the tokens, and what the environment text is loaded as, for what it takes the value for
   raw   : for an ActionTypeHint, argparse's test of the raw strings says what the test of the adapted values says
   fixpt / none : as in Model/C05Channels.v *)
Definition g_count (toks : list str) : bool := count_ok na (length toks).
Definition g_reads_argv (toks : list str) (v : val) : bool := ares_eqb (check_key (argv_input toks)) (check_key v).
Definition g_reads_env (yl : str -> lres) (text : str) (v : val) : bool :=
  ares_eqb (check_key (env_input yl text)) (check_key v).
Definition g_raw (toks : list str) : bool :=
  negb hint || ares_eqb (if raw_choice_ok toks then convert (argv_input toks) else AErr ErrType)
                        (check_key (argv_input toks)).
Definition plain_guard (yl : str -> lres) (toks : list str) (text : str) (v : val) : bool :=
  g_count toks && g_reads_argv toks v && g_reads_env yl text v && g_raw toks && g_fixpt Cp TAny v && g_none Cp TAny v.

End Plain.

(* ---- the callables of the correspondence run -------------------------------------------------------------------
   PfNone : no type (the value is stored as given)
   PfPos  : def pos(x): x = int(x); if x <= 0: raise ValueError; return x      (texts: [+-]digits only)
   PfUp   : def up(x): if not isinstance(x, str): raise TypeError; return x.upper()     (ASCII letters)
   PfHint : a type hint -> ActionTypeHint, element check = Model/Ty.v's check_type *)
Inductive pfun := PfNone | PfPos | PfUp | PfHint (t : ty).

Definition upper (c : N) : N := if N.leb 97 c && N.leb c 122 then (c - 32)%N else c.
Definition pos_of (z : Z) : ares := if Z.ltb 0 z then AOk (VInt z) else AErr ErrValue.
Definition trunc_fl (f : fl) : option Z :=
  match f with
  | FFin m e => Some (if Z.leb 0 e then (m * 10 ^ e)%Z else Z.quot m (10 ^ (- e)))
  | _ => None
  end.

Definition elem (fx : fixes) (yl : str -> lres) (pf : pfun) (v : val) : ares :=
  match pf with
  | PfNone => AOk v
  | PfPos =>
      match v with
      | VStr s => match signed_int s with Some z => pos_of z | None => AErr ErrValue end
      | VInt z => pos_of z
      | VBool b => pos_of (if b then 1 else 0)
      | VFloat f => match trunc_fl f with Some z => pos_of z | None => AErr ErrValue end
      | _ => AErr ErrType
      end
  | PfUp => match v with VStr s => AOk (VStr (map upper s)) | _ => AErr ErrType end
  | PfHint t => check_type_g fx yl t v
  end.

Definition pf_typed (pf : pfun) : bool := match pf with PfNone => false | _ => true end.
Definition pf_hint (pf : pfun) : bool := match pf with PfHint _ => true | _ => false end.

(* C01 — the guard of the round-trip theorem = the finding classes of the judge (one function), and the output
   languages of the number representers. *)
From JV Require Import Lib.Base Lib.Regex Model.TyVal Model.Scalar Model.C01Conf.

Definition is_vnone (v : val) : bool := match v with VNone => true | _ => false end.

(* an explicit None that a dump dropping None entries loses: at the leaf itself, or in a field of a dataclass-typed
   value anywhere inside it — where the field default is not None, or where missing fields are not completed on the way
   back (fill mode FNo, see Model/C01Conf.v) *)
Definition fill_of (m : mode) : fill := match m with Des f _ => f | Ser _ => FNo end.

Fixpoint none_loss (f : fill) (t : cty) (w : val) {struct t} : bool :=
  match t with
  | CData fs =>
      match w with
      | VDict d =>
          (fix go (fs : list (str * cty * val)) : bool :=
             match fs with
             | [] => false
             | (n, t1, dflt) :: fs' =>
                 match dict_get (VStr n) d with
                 | Some VNone => negb (is_vnone dflt) || match f with FNo => true | _ => false end
                 | Some x => none_loss (fill_of (field_mode f t1)) t1 x
                 | None => false
                 end || go fs'
             end) fs
      | _ => false
      end
  | CUnion ts =>
      (fix go (ts : list cty) : bool :=
         match ts with [] => false | t1 :: ts' => none_loss (fill_of (sub_mode (Des f VNone))) t1 w || go ts' end) ts
  | CList t1 =>
      match seq_items w with Some l => existsb (none_loss (fill_of (item_mode (Des f VNone) t1)) t1) l | None => false end
  | CTupleVar t1 | CSet t1 =>
      match seq_items w with Some l => existsb (none_loss (fill_of (sub_mode (Des f VNone))) t1) l | None => false end
  | CDict _ t1 =>
      match w with VDict d => existsb (fun kv => none_loss (fill_of (sub_mode (Des f VNone))) t1 (snd kv)) d | _ => false end
  | CTuple ts =>
      match seq_items w with
      | Some l => (fix go (ts : list cty) (l : list val) : bool :=
                     match ts, l with
                     | t1 :: ts', x :: l' => none_loss (fill_of (sub_mode (Des f VNone))) t1 x || go ts' l'
                     | _, _ => false
                     end) ts l
      | None => false
      end
  | CSub cs =>
      match w with
      | VDict d =>
          match dict_get (VStr k_class_path) d, dict_get (VStr k_init_args) d with
          | Some (VStr cp), Some ia =>
              (fix find (cs : list (str * cty)) : bool :=
                 match cs with
                 | [] => false
                 | (p, t1) :: cs' => if str_eqb p cp then none_loss FAll t1 ia else find cs'
                 end) cs
          | _, _ => false
          end
      | _ => false
      end
  | _ => false
  end.

Definition spec_init_args (v : val) : list (val * val) :=
  match v with
  | VDict d => match dict_get (VStr k_init_args) d with Some (VDict a) => a | _ => [] end
  | _ => []
  end.

(* a subclass spec is completed, on the way back, from the init_args of the value the key held before (the declared
   default spec: parameters shared by the classes are carried over), and only then from the class's own defaults:
   an explicit None that the dump drops comes back as the default spec's value *)
Definition sub_none_loss (dflt w : val) : bool :=
  existsb (fun kv => is_vnone (snd kv)
                     && match dict_get (fst kv) (spec_init_args dflt) with Some z => negb (is_vnone z) | None => false end)
          (spec_init_args w).

(* skip_default prunes the init_args of a spec of ANOTHER class than the default's against that class's own defaults
   (cdef), yet the re-parse completes them from the default spec first: a parameter that equals the class default but not
   the default spec's value is lost *)
Definition carry_conflict (cdef : list (val * val)) (j dj : val) : bool :=
  existsb (fun kv => match dict_get (fst kv) cdef with Some y => py_eq (snd kv) y | None => false end
                     && match dict_get (fst kv) (spec_init_args dj) with Some z => negb (py_eq (snd kv) z) | None => false end)
          (spec_init_args j).

Definition class_default_args (t : cty) (j : val) : list (val * val) :=
  match spec_class j with
  | Some cp => match class_fields (sub_classes t) cp with
               | Some fs => map (fun f => (VStr (fst (fst f)), snd f)) fs
               | None => []
               end
  | None => []
  end.

Definition top_fill (t : cty) : fill := if is_dc_direct t then FAll else FNo.

(* ---- the container grammar for which per-leaf stability is PROVED (Proofs/C01Proofs.v leaf_stable_simple) ----------- *)
(* str / int / float / bool, List[T], Dict[str, T], Tuple[T1, ..], Tuple[T, ...] nested at will, and Optional[T] for T one of
   these other than str (an Optional[str] value such as 'null' is where the loader oracle decides) *)
Fixpoint simple_ty (t : cty) : bool :=
  match t with
  | CStr | CInt | CFloat | CBool => true
  | CList t1 | CTupleVar t1 | CDict false t1 => simple_ty t1
  | CTuple ts => forallb simple_ty ts
  | CUnion [t1; CNone] => match t1 with CStr | CNone | CUnion _ => false | _ => simple_ty t1 end
  | _ => false
  end.

(* the values the parser hands out for such a type (the judge checks this of every observed configuration) *)
Fixpoint wt (t : cty) (w : val) {struct t} : bool :=
  match t, w with
  | CStr, VStr _ | CInt, VInt _ | CFloat, VFloat _ | CBool, VBool _ => true
  | CList t1, VList l => forallb (wt t1) l
  | CTupleVar t1, VTuple l => forallb (wt t1) l
  | CDict false t1, VDict d => forallb (fun kv => is_str (fst kv) && wt t1 (snd kv)) d
  | CTuple ts, VTuple l =>
      (fix go (ts : list cty) (l : list val) : bool :=
         match ts, l with
         | [], [] => true
         | t1 :: ts', x :: l' => wt t1 x && go ts' l'
         | _, _ => false
         end) ts l
  | CUnion [t1; CNone], _ => is_vnone w || wt t1 w
  | _, _ => false
  end.

Definition leaf_simple (lw : leaf * val) : bool :=
  simple_ty (lf_ty (fst lw)) && (is_vnone (snd lw) || wt (lf_ty (fst lw)) (snd lw)).

Section Guard.
Variable yl : str -> option val.

(* 0 = inside the guard.
   1 = save-skip-none-null-over-default : the variant drops None entries (save()'s default) and the configuration
       holds an explicit None where the declared default is not None (a leaf, or a field of a dataclass-typed value)
   (2 = skip-default-trims-dict-leaf: repaired in /repo d576475, class retired)
   3 = skip-default-eq-conflates-types  : skip_default drops an entry that == its default but is not the same value
       type for type (1 / 1.0 / True)
   4 = json-nonfinite-float             : a JSON format writes Infinity / -Infinity / NaN
   5 = unprintable-str                  : a str holds a character PyYAML's reader refuses or folds (see bad_char)
   6 = comments-reemit                  : yaml_comments / --print_config=comments: the text is re-emitted by ruyaml
   7 = enum-member-null                 : an Enum member whose name is `null`
   8 = default-not-normalised           : the declared default is not what the parser makes of its own serialisation (int
       default under Union[float,int], 'NULL' under Optional[str], '-1:30' under Union[int,str]) and it matters: the leaf
       holds it unvalidated, or skip_default compares with it (parse_object({}) validates it, parse_string('{}') does not)
   (9, 10: repaired in /repo 2b39397; with fx_subclass_trim = true trim never answers TErr, nor TDel on differing dict_kwargs)
   9 = skip-default-none-default-crash  : skip_default (nulls kept) with a subclass spec over the declared default None:
       `default.get("class_path")` raises AttributeError
   10 = skip-default-drops-dict-kwargs  : skip_default deletes a subclass spec whose class and init_args are the default's
       although its dict_kwargs differ
   12 = skip-default-prune-vs-carry-over : skip_default prunes the init_args of a spec of another class than the default's
       against that class's own defaults, but the re-parse carries the default spec's init_args over first
   11 = (no finding) skip_default pruned the init_args of a subclass spec: lossless by design (the parser restores them
       from the default / the class), but outside the statement proved — a failure here is reported as a violation *)
Definition skipdef_class (vr : variant) (lf : leaf) (w : val) : N :=
  if vr_skip_default vr then
    match cleanup yl true (vr_skip_none vr) (lf_ty lf) (lf_def lf) w,
          cleanup yl false (vr_skip_none vr) (lf_ty lf) (lf_def lf) (lf_def lf) with
    | EPresent j, EPresent dj =>
        match trim (lf_ty lf) j dj with
        | TErr => 9%N
        | TDel => if veq (lf_def lf) w then 0%N else match spec_class j with Some _ => 10%N | None => 3%N end
        | TKeep j' => if val_eqb j' j then 0%N
                      else if negb (opt_py_eq (option_map VStr (spec_class j)) (option_map VStr (spec_class dj)))
                              && carry_conflict (class_default_args (lf_ty lf) j) j dj then 12%N
                      else 11%N
        end
    | _, _ => 0%N
    end
  else 0%N.

Definition text_class (vr : variant) (lf : leaf) (w : val) : N :=
  match dump_entry yl vr lf w with
  | EPresent j =>
      if has_bad_str (vr_fmt vr) j then 5%N
      else match vr_fmt vr with
           | FJson => if has_nonfinite j then 4%N else 0%N
           | FYaml => 0%N
           end
  | _ => 0%N
  end.

(* the leaf value survives its own serialise / parse pair (computed form of leaf_stable) *)
Definition leaf_stable_b (sn : bool) (lf : leaf) (w : val) : bool :=
  match w with
  | VNone => true
  | _ => match ser_leaf yl sn (lf_ty lf) (lf_def lf) w with
         | Some j => match check_entry yl (lf_ty lf) (lf_def lf) j with
                     | Some w' => veq w' w
                     | None => false
                     end
         | None => false
         end
  end.

Definition leaf_class (vr : variant) (lw : leaf * val) : N :=
  let '(lf, w) := lw in
  if vr_comments vr then 6%N
  else if has_null_enum w then 7%N
  else if vr_skip_none vr && ((is_vnone w && negb (is_vnone (lf_def lf))) || none_loss (top_fill (lf_ty lf)) (lf_ty lf) w
                           || sub_none_loss (lf_def lf) w) then 1%N
  else if negb (leaf_stable_b (vr_skip_none vr) lf (lf_def lf)) && (veq w (lf_def lf) || vr_skip_default vr) then 8%N
  else if negb (N.eqb (skipdef_class vr lf w) 0) then
    (* class 11 is not a finding: a text-layer finding of the same leaf goes first *)
    (if N.eqb (skipdef_class vr lf w) 11 && negb (N.eqb (text_class vr lf w) 0) then text_class vr lf w
     else skipdef_class vr lf w)
  else text_class vr lf w.

Fixpoint case_class (vr : variant) (lvs : list (leaf * val)) : N :=
  match lvs with
  | [] => 0%N
  | lw :: r =>
      (* the first finding class among the leaves; class 11 (not a finding) only if no leaf has one *)
      let k := leaf_class vr lw in
      if N.eqb k 0 then case_class vr r
      else if N.eqb k 11 then (let k' := case_class vr r in if N.eqb k' 0 then k else k')
      else k
  end.

(* 13 = skip-default-subcommand-crash : dump(skip_default=True) / --print_config=skip_default before the subcommand, taken by
   a parser with a required subcommand, raises (see dump_crashes) *)
Fixpoint case_class_sub (sub : option str) (vr : variant) (lvs : list (leaf * val)) : N :=
  match lvs with
  | [] => 0%N
  | lw :: r =>
      let k := leaf_class (leaf_var sub vr (fst lw)) lw in
      if N.eqb k 0 then case_class_sub sub vr r
      else if N.eqb k 11 then (let k' := case_class_sub sub vr r in if N.eqb k' 0 then k else k')
      else k
  end.

(* 14 = empty-subcommand-not-reselected : the dump holds no option of the chosen subcommand (see sub_emptied) *)
Definition top_class (req_sub : bool) (sub : option str) (vr : variant) (lvs : list (leaf * val)) : N :=
  if dump_crashes req_sub vr then 13%N else if sub_emptied yl sub vr lvs then 14%N else case_class_sub sub vr lvs.

End Guard.

(* ---- output languages of the representers ---------------------------------------------------------------------- *)
Definition digit : re := rng 48 57.
Definition digits1 : re := plus digit.
Definition sign_opt : re := opt (chr 45).
Definition exp_part : re := Cat (chr 101) (Cat (Alt (chr 45) (chr 43)) digits1).         (* e[-+]dd *)

(* str(int) *)
Definition int_out : re := Cat sign_opt (Alt (chr 48) (Cat (rng 49 57) (Star digit))).

(* float.__repr__ of a finite float: -?d+.d+ | -?d(.d+)?e[-+]d+   (also what json.dumps writes) *)
Definition repr_float_fin : re :=
  Cat sign_opt (Alt (Cat digits1 (Cat (chr 46) digits1))
                    (Cat digit (Cat (opt (Cat (chr 46) digits1)) exp_part))).
(* SafeRepresenter.represent_float: lower-cased repr with ".0" put before a bare exponent; .inf / -.inf / .nan *)
Definition yaml_float_fin : re :=
  Cat sign_opt (Cat digits1 (Cat (chr 46) (Cat digits1 (opt exp_part)))).
Definition yaml_float_out : re :=
  Alt yaml_float_fin (Alt (Cat sign_opt (lit [46;105;110;102]%N)) (lit [46;110;97;110]%N)).
Definition json_float_out : re :=
  Alt repr_float_fin (Alt (Cat sign_opt (lit [73;110;102;105;110;105;116;121]%N)) (lit [78;97;78]%N)).

(* the strings a table resolves to tag `tg`: per first character, "matches the i-th regexp of that tag and none before" *)
Fixpoint first_tag_re (tg : tag) (es : list (tag * re)) (before : re) : re :=
  match es with
  | [] => Emp
  | (t, r) :: es' =>
      let rest := first_tag_re tg es' (Alt before r) in
      if tag_eqb t tg then Alt (And r (Not before)) rest else rest
  end.

Definition tag_re (t : rtable) (tg : tag) : re :=
  alt_list (map (fun ce => And (first_is (fst ce)) (first_tag_re tg (snd ce) Emp)) (by_char t)
            ++ [And Eps (first_tag_re tg (on_empty t) Emp)]).

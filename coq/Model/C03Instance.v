(* C03 — the exception-flow IR regenerated from the source (Gen/C03ExnIR.v) put together with the analysis:
   the summary table (computed here by the kernel VM, CHECKED to be a post-fixpoint in Proofs/C03ChannelProofs.v),
   the reading of a raise site as an observation of the Spec, and the guard (finding class of a site).
   No proofs here: the correspondence judge depends on this file only, so a proof that stops checking after a
   change of the source does not take the judge away. *)
From JV Require Import Lib.Base Model.C03ExnFlow Spec.C03ChannelSpec Gen.C03ExnIR.
Open Scope N_scope.

Definition ir_table : table :=
  Eval vm_compute in iterate ir_prog ir_nsites_nat ir_rounds (init_table ir_prog).

(* what a caller observes when an exception of class c leaves a parse method *)
Definition obs_of_class (c : N) : observation :=
  if N.eqb c cls_SystemExit0 then Exited 0%Z true
  else if N.eqb c cls_SystemExit2 then Exited 2%Z true     (* stderr is not modelled: the correspondence checks it *)
  else if N.eqb c cls_SystemExit then Exited 1%Z true      (* SystemExit with any other status *)
  else Raised (N.eqb c cls_ArgumentError).

Definition class_ok (x : bool) (c : N) : bool := channel_ok x (obs_of_class c).

(* the guard: finding class of a raise site in mode x (0 = none) *)
Fixpoint finding_class_in (rows : list (N * (bool * bool) * list N)) (x : bool) (i : N) : N :=
  match rows with
  | [] => 0
  | (k, m, sites) :: r =>
      if (if x then fst m else snd m) && existsb (N.eqb i) sites then k else finding_class_in r x i
  end.
Definition finding_class (x : bool) (i : N) : N := finding_class_in ir_finding_sites x i.

Definition escape_set (x : bool) (f : N) : eset := escapes ir_prog ir_nsites_nat ir_table x f.
Definition escape_sites (x : bool) (f : N) : list N := members ir_nsites_nat (escape_set x f).

(* a site that escapes is fine when its class is the channel of the mode, or it is a listed finding site *)
Definition site_ok (x : bool) (i : N) : bool :=
  class_ok x (site_class ir_prog i) || negb (N.eqb (finding_class x i) 0).

Definition all_entries_ok (x : bool) : bool :=
  forallb (fun e => forallb (site_ok x) (escape_sites x e)) ir_entries.

(* does a site of finding class k (still) escape some entry point with a class outside the channel? *)
Definition finding_escapes (k : N) : bool :=
  existsb (fun x => existsb (fun e => existsb (fun i => N.eqb (finding_class x i) k && negb (class_ok x (site_class ir_prog i)))
                                             (escape_sites x e)) ir_entries) [false; true].

(* witnesses: (exit_on_error, entry, site, oracle) — run must raise exactly that site *)
Definition witness := (bool * N * N * list bool)%type.
Definition wit_runs (w : witness) : bool :=
  let '(x, e, i, orc) := w in
  existsb (N.eqb e) ir_entries &&
  match run ir_prog wit_fuel x [] (Call e) orc with
  | Some (ORaise j, _) => N.eqb j i
  | _ => false
  end.
Definition wit_refutes (k : N) (w : witness) : bool :=
  let '(x, e, i, orc) := w in
  wit_runs w && N.eqb (finding_class x i) k && negb (class_ok x (site_class ir_prog i)).
Definition wit_in_guard (w : witness) : bool :=
  let '(x, e, i, orc) := w in
  wit_runs w && N.eqb (finding_class x i) 0 && class_ok x (site_class ir_prog i).

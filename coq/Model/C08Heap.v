(* C08 — heap model of what parse / validate / dump / save / merge / strip / instantiate / get_defaults
   do to the objects they are handed, written in the shape of the code (bugs included).

   Mutable containers (list, dict, Namespace) live in a heap  loc -> cell ;
   tuples are immutable VALUES that may contain locations.  Anchors:
     recreate_branches / Namespace.clone / strip_meta      jsonargparse/_namespace.py:60-83,275-277
     adapt_typehints, Union / Tuple / List / Dict branches jsonargparse/_typehints.py:832-934
     ActionTypeHint._check_type / serialize / instantiate  jsonargparse/_typehints.py:497-633
     parse_object / parse_string / parse_path / dump / save / get_defaults / validate /
     instantiate_classes / strip_unknown / _apply_actions / merge_config / _check_value_key
                                                            jsonargparse/_core.py
     parser_context, change_to_path_dir, patch_namespace   _common.py:78-89, _util.py:284-312, _namespace.py:86-93

   Two layers:  H = heap-only computations (clone, adapt, item writes) and
                M = heap + process-global state, with `bracket` for the try/finally regions.
   Executable Gallina only; proofs are in Proofs/C08HeapProofs.v. *)
From JV Require Import Lib.Base.

Inductive val :=
| VInt (z : Z) | VStr (s : str) | VNone
| VTup (xs : list val)          (* immutable, may contain VRef *)
| VRef (l : nat).               (* a mutable container *)

Inductive cell :=
| CList (xs : list val)
| CDict (kvs : list (str * val))
| CNs (kvs : list (str * val)).

Definition heap := list cell.

Inductive ty := TInt | TStr | TList (t : ty) | TDict (t : ty) | TTup1 (t : ty) | TTup2 (t1 t2 : ty) | TOpt (t : ty)
              | TNargs (t : ty).   (* add_argument(type=t, nargs="*"): a list-valued ACTION, only at the top of a declaration *)
Inductive mode := Deser | Ser.

Definition cell_vals (c : cell) : list val :=
  match c with
  | CList xs => xs
  | CDict kvs | CNs kvs => map snd kvs
  end.

(* ---- what a string is taken for (only the part the modelled types need): canonical decimals load
   as int (json_or_yaml_load in the leaf branch), everything else of the modelled string domain
   stays a string. *)
Definition is_digit (c : N) : bool := (48 <=? c)%N && (c <=? 57)%N.
Fixpoint digits_val (acc : Z) (s : str) : option Z :=
  match s with
  | [] => Some acc
  | c :: s' => if is_digit c then digits_val (acc * 10 + Z.of_N (c - 48)) s' else None
  end.
Definition load_int (s : str) : option Z :=
  match s with
  | [] => None
  | c :: rest => if N.eqb c 48 then (match rest with [] => Some 0%Z | _ => None end) else digits_val 0 s
  end.

(* ---- association lists in insertion order (dict / Namespace.__dict__) *)
Fixpoint aget (k : str) (kvs : list (str * val)) : option val :=
  match kvs with
  | [] => None
  | (k', v) :: r => if str_eqb k k' then Some v else aget k r
  end.
Fixpoint aset (k : str) (v : val) (kvs : list (str * val)) : list (str * val) :=
  match kvs with
  | [] => [(k, v)]
  | (k', v') :: r => if str_eqb k k' then (k', v) :: r else (k', v') :: aset k v r
  end.
Fixpoint adel (k : str) (kvs : list (str * val)) : list (str * val) :=
  match kvs with
  | [] => []
  | (k', v') :: r => if str_eqb k k' then r else (k', v') :: adel k r
  end.
Fixpoint set_nth (i : nat) (v : val) (xs : list val) : list val :=
  match xs, i with
  | [], _ => []
  | _ :: r, O => v :: r
  | x :: r, S j => x :: set_nth j v r
  end.
Fixpoint upd (l : nat) (c : cell) (h : heap) : heap :=
  match h, l with
  | [], _ => []
  | _ :: r, O => c :: r
  | x :: r, S j => x :: upd j c r
  end.

(* ================================================================================================
   H : heap-only computations
   ============================================================================================== *)
Inductive ekind := EFail | EFuel.
Inductive hout (A : Type) := HOk (a : A) (h : heap) | HErr (k : ekind) (h : heap).
Arguments HOk {A}. Arguments HErr {A}.
Definition H (A : Type) := heap -> hout A.

Definition hret {A} (a : A) : H A := fun h => HOk a h.
Definition hfail {A} : H A := fun h => HErr EFail h.
Definition hfuel {A} : H A := fun h => HErr EFuel h.
Definition hbind {A B} (c : H A) (f : A -> H B) : H B :=
  fun h => match c h with HOk a h' => f a h' | HErr k h' => HErr k h' end.
(* try: c  except <ordinary exception>: handler   (running out of model fuel is not catchable) *)
Definition hcatch {A} (c : H A) (handler : H A) : H A :=
  fun h => match c h with HOk a h' => HOk a h' | HErr EFail h' => handler h' | HErr EFuel h' => HErr EFuel h' end.

Declare Scope h_scope.
Delimit Scope h_scope with H.
Notation "x <- c ;; d" := (hbind c (fun x => d)) (at level 61, c at next level, right associativity) : h_scope.
Notation "c ;;; d" := (hbind c (fun _ => d)) (at level 61, right associativity) : h_scope.
Open Scope h_scope.

Definition halloc (c : cell) : H val := fun h => HOk (VRef (length h)) (h ++ [c]).
Definition hread (v : val) : H cell :=
  fun h => match v with
           | VRef l => match nth_error h l with Some c => HOk c h | None => HErr EFail h end
           | _ => HErr EFail h
           end.
Definition hwrite (l : nat) (c : cell) : H unit :=
  fun h => if l <? length h then HOk tt (upd l c h) else HErr EFail h.

Fixpoint hmap {A B} (f : A -> H B) (xs : list A) : H (list B) :=
  match xs with
  | [] => hret []
  | x :: r => y <- f x ;; ys <- hmap f r ;; hret (y :: ys)
  end.
Fixpoint hiter {A} (f : A -> H unit) (xs : list A) : H unit :=
  match xs with
  | [] => hret tt
  | x :: r => f x ;;; hiter f r
  end.

(* val[n] = y   /   val[k] = y   /   ns[k] = y  on the object at location l *)
Definition set_list_item (l i : nat) (y : val) : H unit :=
  c <- hread (VRef l) ;; match c with CList ys => hwrite l (CList (set_nth i y ys)) | _ => hfail end.
Definition set_dict_item (l : nat) (k : str) (y : val) : H unit :=
  c <- hread (VRef l) ;; match c with CDict kvs => hwrite l (CDict (aset k y kvs)) | _ => hfail end.

(* ---- recreate_branches (_namespace.py:74-83): copies Namespace / dict / list spines, returns
   everything else — in particular a tuple and all that hangs below it — as the same object.

   `fx` selects the tree the model describes:
     fx = false  the pinned tree (the faithful model, bugs included);
     fx = true   the current tree: /repo ce28ec8 (adapt_typehints copies a list/dict before adapting its items), and
                 fixes/C08-container-below-tuple-shared.patch (recreate_branches also
                 rebuilds plain tuples: `elif type(data) is tuple: tuple(recreate_branches(v) ...)`)
                 and fixes/C08-parse-object-adapts-in-place.patch (parse_object hands
                 recreate_branches(cfg_obj) to _apply_actions) applied. *)
Fixpoint clone (fx : bool) (fuel : nat) (v : val) : H val :=
  match fuel with
  | O => hfuel
  | S f =>
      match v with
      | VRef l =>
          c <- hread v ;;
          match c with
          | CList xs => ys <- hmap (clone fx f) xs ;; halloc (CList ys)
          | CDict kvs => ys <- hmap (fun kv => y <- clone fx f (snd kv) ;; hret (fst kv, y)) kvs ;; halloc (CDict ys)
          | CNs kvs => ys <- hmap (fun kv => y <- clone fx f (snd kv) ;; hret (fst kv, y)) kvs ;; halloc (CNs ys)
          end
      | VTup xs => if fx then ys <- hmap (clone fx f) xs ;; hret (VTup ys) else hret v
      | _ => hret v
      end
  end.

Definition FUEL : nat := 40.

(* strip_meta (_namespace.py:60-71): `if cfg: cfg = recreate_branches(cfg, skip_keys=meta_keys)`;
   an EMPTY namespace is returned as the same object. Meta keys do not occur in the modelled space. *)
Definition strip_meta (fx : bool) (v : val) : H val :=
  c <- hread v ;;
  match c with
  | CNs [] => hret v
  | _ => clone fx FUEL v
  end.
(* `sm` selects strip_meta as it is (false: `if cfg:` - an empty configuration comes back as the SAME object) or with
   fixes/C08-empty-config-not-copied.patch (true: always `recreate_branches(cfg, skip_keys=meta_keys)`) *)
(* (dump and save, which return nothing, keep `strip_meta`: for them the extra copy of an empty namespace is not observable) *)
Definition strip_meta_gen (sm fx : bool) (v : val) : H val :=
  if sm then clone fx FUEL v else strip_meta fx v.

(* ---- adapt_typehints (_typehints.py:731-934), the branches for the modelled types.
   list_loop / dict_loop are the `for n, v in enumerate(val): val[n] = adapt(...)` loops: the write
   goes to the object the function was HANDED. *)
Fixpoint list_loop (f : val -> H val) (l i : nat) (xs : list val) : H unit :=
  match xs with
  | [] => hret tt
  | x :: r => y <- f x ;; set_list_item l i y ;;; list_loop f l (S i) r
  end.
Fixpoint dict_loop (f : val -> H val) (l : nat) (kvs : list (str * val)) : H unit :=
  match kvs with
  | [] => hret tt
  | (k, x) :: r => y <- f x ;; set_dict_item l k y ;;; dict_loop f l r
  end.

(* Tuple branch: `val = list(val)` of a list or tuple *)
Definition seq_items (v : val) : H (list val) :=
  match v with
  | VTup xs => hret xs
  | VRef _ => c <- hread v ;; match c with CList xs => hret xs | _ => hfail end
  | _ => hfail
  end.
(* `if not serialize: val = tuple(val)`; when serializing the fresh list itself is returned *)
Definition finish (m : mode) (ys : list val) : H val :=
  match m with Deser => hret (VTup ys) | Ser => halloc (CList ys) end.

Fixpoint adapt (fx : bool) (m : mode) (t : ty) (v : val) : H val :=
  match t with
  | TInt => match v with
            | VInt _ => hret v
            | VStr s => match load_int s with Some z => hret (VInt z) | None => hfail end
            | _ => hfail
            end
  | TStr => match v with VStr _ => hret v | _ => hfail end
  | TOpt t' =>                               (* Union[t', None]: NoneType is tried first, then t' *)
      match v with
      | VNone => hret VNone
      | _ => adapt fx m t' v
      end
  | TNargs t' =>                             (* ActionTypeHint._check_type / serialize / instantiate_classes with islist:
                                                `for num, val in enumerate(value): ... value[num] = val` — the elements are
                                                written back into the list that was HANDED OVER (no copy, on every tree) *)
      match v with
      | VRef l => c <- hread v ;;
                  match c with
                  | CList xs => list_loop (adapt fx m t') l 0 xs ;;; hret v
                  | _ => hfail
                  end
      | VTup [] => hret v
      | VTup (x :: _) => adapt fx m t' x ;;; hfail   (* value[0] = ... on a tuple: TypeError *)
      | _ => hfail
      end
  | TList t' =>
      match v with
      | VRef l => c <- hread v ;;
                  match c with
                  | CList xs =>
                      if fx then                  (* /repo ce28ec8: `else: val = list(val)` — the items are adapted in a copy *)
                        r <- halloc (CList xs) ;;
                        match r with
                        | VRef l' => list_loop (adapt fx m t') l' 0 xs ;;; hret r
                        | _ => hfail
                        end
                      else list_loop (adapt fx m t') l 0 xs ;;; hret v
                  | _ => hfail
                  end
      | VTup xs => r <- halloc (CList xs) ;;  (* Iterable that is not a list: val = list(val) *)
                   match r with
                   | VRef l => list_loop (adapt fx m t') l 0 xs ;;; hret r
                   | _ => hfail
                   end
      | _ => hfail
      end
  | TDict t' =>
      match v with
      | VRef l => c <- hread v ;;
                  match c with
                  | CDict kvs =>
                      if fx then                  (* /repo ce28ec8: `else: val = dict(val)` *)
                        r <- halloc (CDict kvs) ;;
                        match r with
                        | VRef l' => dict_loop (adapt fx m t') l' kvs ;;; hret r
                        | _ => hfail
                        end
                      else dict_loop (adapt fx m t') l kvs ;;; hret v
                  | _ => hfail
                  end
      | _ => hfail
      end
  | TTup1 t1 =>
      xs <- seq_items v ;;
      match xs with
      | [x] => y <- adapt fx m t1 x ;; finish m [y]
      | _ => hfail
      end
  | TTup2 t1 t2 =>
      xs <- seq_items v ;;
      match xs with
      | [x1; x2] => y1 <- adapt fx m t1 x1 ;; y2 <- adapt fx m t2 x2 ;; finish m [y1; y2]
      | _ => hfail
      end
  end.

(* Flat-namespace item access on the object at a location *)
Definition ns_items (v : val) : H (list (str * val)) :=
  c <- hread v ;; match c with CNs kvs => hret kvs | _ => hfail end.
Definition ns_set (v : val) (k : str) (y : val) : H unit :=
  match v with
  | VRef l => kvs <- ns_items v ;; hwrite l (CNs (aset k y kvs))
  | _ => hfail
  end.
Definition ns_del (v : val) (k : str) : H unit :=
  match v with
  | VRef l => kvs <- ns_items v ;; hwrite l (CNs (adel k kvs))
  | _ => hfail
  end.

(* ---- Namespace.__setitem__ with a possibly dotted key (_namespace.py _parse_key / _create_nested_namespace /
   __setitem__): walk down while the value under the next key component is a Namespace or a dict; anything else
   there (absent, None, a scalar, a list) is REPLACED by a fresh {} (below a dict) / Namespace() (below a Namespace);
   the leaf is set as dict item or attribute of the container reached. *)
Fixpoint split_dot (k : str) : option (str * str) :=
  match k with
  | [] => None
  | c :: r => if N.eqb c 46 then Some ([], r)
              else match split_dot r with Some (a, b) => Some (c :: a, b) | None => None end
  end.
Definition set_item (v : val) (k : str) (y : val) : H unit :=
  match v with
  | VRef l => c <- hread v ;;
              match c with
              | CNs kvs => hwrite l (CNs (aset k y kvs))
              | CDict kvs => hwrite l (CDict (aset k y kvs))
              | CList _ => hfail
              end
  | _ => hfail
  end.
Definition is_map_cell (c : cell) : bool := match c with CList _ => false | _ => true end.
Definition empty_like (c : cell) : cell := match c with CDict _ => CDict [] | _ => CNs [] end.
Definition cell_kvs (c : cell) : list (str * val) := match c with CList _ => [] | CDict kvs | CNs kvs => kvs end.
Fixpoint set_path (fuel : nat) (v : val) (k : str) (y : val) : H unit :=
  match fuel with
  | O => hfuel
  | S f =>
      match split_dot k with
      | None => set_item v k y
      | Some (a, rest) =>
          c <- hread v ;;
          if negb (is_map_cell c) then hfail
          else
            let fresh_child := (n <- halloc (empty_like c) ;; set_item v a n ;;; set_path f n rest y) in
            match aget a (cell_kvs c) with
            | Some (VRef l') => c' <- hread (VRef l') ;;
                                if is_map_cell c' then set_path f (VRef l') rest y else fresh_child
            | _ => fresh_child
            end
      end
  end.

(* ================================================================================================
   Parsers
   ============================================================================================== *)
Record decl := { d_key : str; d_ty : ty; d_dflt : val }.
Definition parser := list decl.
Fixpoint find_decl (p : parser) (k : str) : option decl :=
  match p with
  | [] => None
  | d :: r => if str_eqb k (d_key d) then Some d else find_decl r k
  end.

(* ================================================================================================
   M : heap + process-global state
   ============================================================================================== *)
Definition globals := nat -> N.
Definition gset (g : globals) (x : nat) (v : N) : globals := fun y => if Nat.eqb x y then v else g y.

(* the observed globals *)
Definition G_CWD := 0%nat.            (* os.getcwd() *)
Definition G_ARGPARSE_NS := 1%nat.    (* argparse.Namespace *)
Definition G_PARENT := 2%nat.         (* ContextVar parent_parser *)
Definition G_LENIENT := 3%nat.        (* lenient_check *)
Definition G_LOADMODE := 4%nat.       (* load_value_mode *)
Definition G_INSTANTIATORS := 5%nat.  (* class_instantiators *)
Definition G_NESTED := 6%nat.         (* nested_links *)
Definition G_DEFCACHE := 7%nat.       (* defaults_cache *)
Definition G_CAPTURE := 8%nat.        (* parser_capture *)
Definition G_PATHDIR := 9%nat.        (* current_path_dir *)
Definition G_SUBDEFAULTS := 10%nat.   (* sub_defaults *)
Definition G_ENVIRON := 11%nat.       (* os.environ (never written by the modelled code) *)
Definition NGLOBALS := 12%nat.

Record st := mkst { s_h : heap; s_g : globals }.
Inductive out (A : Type) := Ok (a : A) (s : st) | Err (k : ekind) (s : st).
Arguments Ok {A}. Arguments Err {A}.
Definition M (A : Type) := st -> out A.

Definition ret {A} (a : A) : M A := fun s => Ok a s.
Definition fail {A} : M A := fun s => Err EFail s.
Definition bind {A B} (c : M A) (f : A -> M B) : M B :=
  fun s => match c s with Ok a s' => f a s' | Err k s' => Err k s' end.
Definition lift {A} (c : H A) : M A :=
  fun s => match c (s_h s) with
           | HOk a h' => Ok a (mkst h' (s_g s))
           | HErr k h' => Err k (mkst h' (s_g s))
           end.
(* a try/finally region that sets one global on entry and puts the previous value back on exit,
   on the normal and on the exceptional path:  parser_context (ContextVar.set / reset(token)),
   change_to_path_dir (os.chdir / os.chdir(previous)), patch_namespace. *)
Definition bracket {A} (x : nat) (v : N) (body : M A) : M A :=
  fun s =>
    let old := s_g s x in
    match body (mkst (s_h s) (gset (s_g s) x v)) with
    | Ok a s' => Ok a (mkst (s_h s') (gset (s_g s') x old))
    | Err k s' => Err k (mkst (s_h s') (gset (s_g s') x old))
    end.
(* try: c  except ...: handler *)
Definition catch {A} (c : M A) (handler : M A) : M A :=
  fun s => match c s with Ok a s' => Ok a s' | Err EFail s' => handler s' | Err EFuel s' => Err EFuel s' end.

Declare Scope m_scope.
Delimit Scope m_scope with M.
Notation "x <-- c ;; d" := (bind c (fun x => d)) (at level 61, c at next level, right associativity) : m_scope.
Notation "c ;;;; d" := (bind c (fun _ => d)) (at level 61, right associativity) : m_scope.
Open Scope m_scope.

Fixpoint miter {A} (f : A -> M unit) (xs : list A) : M unit :=
  match xs with
  | [] => ret tt
  | x :: r => f x ;;;; miter f r
  end.

(* change_to_path_dir(path) with a real path: current_path_dir.set + os.chdir, undone in `finally` *)
Definition chdir_region {A} (body : M A) : M A := bracket G_PATHDIR 1 (bracket G_CWD 1 body).

(* ---- _check_value_key (_core.py:1399-1440) for an ActionTypeHint action:
     if value is None and lenient_check.get(): return value
     with parser_context(parent_parser=self): value = action._check_type_(value, cfg=cfg)
   _check_type (typehints.py:554-611) = parse_value_or_config + `with change_to_path_dir(None)` +
   adapt_typehints + the retry with the original string.  On the modelled string domain (strings
   are canonical decimals or plain words, never YAML containers) the load-then-retry dance returns
   what adapt returns when it is given the original value, so it is modelled as `adapt fx Deser`. *)
Definition check_value_key (fx : bool) (lenient : bool) (d : decl) (x : val) : M val :=
  match x, lenient with
  | VNone, true => ret VNone
  | _, _ => bracket G_PARENT 1 (bracket G_PATHDIR 0 (lift (adapt fx Deser (d_ty d) x)))
  end.

Definition is_vstr (v : val) : bool := match v with VStr _ => true | _ => false end.

(* ---- _apply_actions (_core.py:1319-1379) on a flat namespace object `cfg` (NOT copied: a
   Namespace argument is used as it is); only_str = the skip_fn of add_sub_defaults. *)
Definition apply_actions (fx : bool) (p : parser) (only_str : bool) (cfg : val) : M unit :=
  kvs <-- lift (ns_items cfg) ;;
  miter (fun kv : str * val =>
           let k := fst kv in
           match find_decl p k with
           | None => ret tt                         (* cfg[key] = cfg[key] *)
           | Some d =>
               kvs' <-- lift (ns_items cfg) ;;
               match aget k kvs' with
               | None => fail
               | Some x =>
                   if only_str && negb (is_vstr x) then ret tt
                   else
                     y <-- bracket G_PARENT 1 (bracket G_LENIENT 1 (check_value_key fx true d x)) ;;
                     lift (ns_set cfg k y)          (* cfg[action_dest] = value *)
               end
           end) kvs.

(* ---- get_defaults (_core.py), no default config files:
     cfg = Namespace(); per action, in declaration order:  cfg[action.dest] = recreate_branches(action.default)
   — the dest may be dotted (an argument declared BELOW a mapping-valued one: --opts {'mode': 'fast'} then --opts.level):
   the child's default is then set into the COPY of the parent's default that already sits in cfg; add_sub_defaults *)
Definition get_defaults (fx : bool) (p : parser) : M val :=
  cfg <-- lift (halloc (CNs [])) ;;
  lift (hiter (fun d => y <- clone fx FUEL (d_dflt d) ;; set_path FUEL cfg (d_key d) y) p) ;;;;
  bracket G_SUBDEFAULTS 1 (apply_actions fx p true cfg) ;;;;
  ret cfg.

(* a (wrong) get_defaults that assembles the namespace from the declared default objects themselves and copies once at
   the end: the child's default is written into the parent's DECLARED mapping *)
Definition get_defaults_late_copy (fx : bool) (p : parser) : M val :=
  cfg <-- lift (halloc (CNs [])) ;;
  lift (hiter (fun d => set_path FUEL cfg (d_key d) (d_dflt d)) p) ;;;;
  lift (clone fx FUEL cfg).

(* ---- merge_config (_core.py:1381-1397): clone both, update, (no append keys in the space) *)
Definition merge_config (fx : bool) (cfg_from cfg_to : val) : M val :=
  f <-- lift (clone fx FUEL cfg_from) ;;
  t <-- lift (clone fx FUEL cfg_to) ;;
  bracket G_PARENT 1 (ret tt) ;;;;
  kvs <-- lift (ns_items f) ;;
  lift (hiter (fun kv : str * val => ns_set t (fst kv) (snd kv)) kvs) ;;;;
  ret t.

(* ---- validate (_core.py:1070-1155): cfg.clone(); check_values over the keys in order; an unknown
   key raises; None is skipped; adapted values are dropped (but the in-place writes are not). *)
Definition validate_body (fx : bool) (p : parser) (c : val) : M unit :=
  bracket G_LOADMODE 1 (
    kvs <-- lift (ns_items c) ;;
    miter (fun kv : str * val =>
             match find_decl p (fst kv) with
             | None => fail
             | Some d => match snd kv with
                         | VNone => ret tt
                         | x => check_value_key fx false d x ;;;; ret tt
                         end
             end) kvs).
Definition validate (fx : bool) (p : parser) (cfg : val) : M unit :=
  c <-- lift (clone fx FUEL cfg) ;;
  validate_body fx p c.
(* validate(cfg, branch=KEY): `cfg = ccfg = cfg.clone(); branch_cfg = cfg; cfg = Namespace(); cfg[branch] = branch_cfg`,
   then the same checks on the keys KEY.k (every argument of the modelled parser is declared as --KEY.k) *)
Definition BRANCH : str := [103]%N.
(* a (wrong) validate(cfg, branch=KEY) that wraps the caller's namespace itself *)
Definition validate_branch_noclone (fx : bool) (p : parser) (cfg : val) : M unit :=
  lift (halloc (CNs [(BRANCH, cfg)])) ;;;; validate_body fx p cfg.
Definition validate_branch (fx : bool) (p : parser) (cfg : val) : M unit :=
  c <-- lift (clone fx FUEL cfg) ;;
  lift (halloc (CNs [(BRANCH, c)])) ;;;;
  validate_body fx p c.

(* ---- _parse_common (_core.py:337-389): add_sub_defaults under lenient_check, validate under
   parent_parser; default_meta is on, so no strip_meta at the end. *)
Definition parse_common (fx : bool) (p : parser) (cfg : val) : M val :=
  bracket G_LENIENT 1 (bracket G_SUBDEFAULTS 1 (apply_actions fx p true cfg)) ;;;;
  bracket G_PARENT 1 (validate fx p cfg) ;;;;
  ret cfg.

(* ---- parse_object (_core.py:474-521); with the fix: _apply_actions(recreate_branches(cfg_obj), ...) *)
(* _apply_actions: `if isinstance(cfg, dict): cfg = Namespace(cfg)` *)
Definition ns_of_arg (arg : val) : M val :=
  c <-- lift (hread arg) ;;
  match c with
  | CDict kvs => lift (halloc (CNs kvs))     (* Namespace(cfg): the caller's values, uncopied *)
  | CNs _ => ret arg                          (* a Namespace argument is used directly *)
  | _ => fail
  end.
Definition parse_object_tail (fx : bool) (p : parser) (cfg a : val) : M val :=
  lift (clone fx FUEL cfg) ;;;;                     (* prev_cfg = prev_cfg.clone() *)
  apply_actions fx p false a ;;;;
  merged <-- merge_config fx a cfg ;;
  parse_common fx p merged.
Definition parse_object (fx : bool) (p : parser) (arg0 : val) : M val :=
  cfg <-- get_defaults fx p ;;
  apply_actions fx p false cfg ;;;;
  arg <-- (if fx then lift (clone fx FUEL arg0) else ret arg0) ;;
  a <-- ns_of_arg arg ;;
  parse_object_tail fx p cfg a.

(* ---- parse_string (_core.py:636-687): the loaded document is a fresh object graph, given to the
   model as relative cells that are appended to the heap (yaml/json loading itself is external). *)
Fixpoint shift_val (k : nat) (v : val) : val :=
  match v with
  | VRef l => VRef (k + l)
  | VTup xs => VTup (map (shift_val k) xs)
  | _ => v
  end.
Definition shift_cell (k : nat) (c : cell) : cell :=
  match c with
  | CList xs => CList (map (shift_val k) xs)
  | CDict kvs => CDict (map (fun kv => (fst kv, shift_val k (snd kv))) kvs)
  | CNs kvs => CNs (map (fun kv => (fst kv, shift_val k (snd kv))) kvs)
  end.
Definition load_content (cells : list cell) (root : val) : H val :=
  fun h => HOk (shift_val (length h) root) (h ++ map (shift_cell (length h)) cells).

Definition parse_string (fx : bool) (p : parser) (cells : list cell) (root : val) : M val :=
  a <-- bracket G_LOADMODE 1 (
          d <-- lift (load_content cells root) ;;
          c <-- lift (hread d) ;;
          match c with
          | CDict kvs => a <-- lift (halloc (CNs kvs)) ;; apply_actions fx p false a ;;;; ret a
          | _ => fail
          end) ;;
  base <-- get_defaults fx p ;;
  merged <-- merge_config fx a base ;;
  parse_common fx p merged.

(* ---- parse_path (_core.py:596-634): with change_to_path_dir(fpath): parse_string(...) *)
Definition parse_path (fx : bool) (p : parser) (cells : list cell) (root : val) : M val :=
  chdir_region (parse_string fx p cells root).

(* ---- dump (_core.py:754-833) *)
Definition dump_cleanup (fx : bool) (p : parser) (skipval : bool) (c : val) : M unit :=
  miter (fun d : decl =>
           kvs <-- lift (ns_items c) ;;
           match aget (d_key d) kvs with
           | None => ret tt
           | Some VNone => lift (ns_del c (d_key d))           (* skip_none: cfg.pop(dest) *)
           | Some x =>
               y <-- bracket G_PARENT 1 (
                       if skipval then catch (lift (adapt fx Ser (d_ty d) x)) (ret x)   (* suppress(ValueError) *)
                       else lift (adapt fx Ser (d_ty d) x)) ;;
               lift (ns_set c (d_key d) y)                     (* cfg.update(value, action_dest) *)
           end) p.

Definition dump (fx : bool) (p : parser) (skipval : bool) (cfg : val) : M unit :=
  c <-- lift (strip_meta fx cfg) ;;
  bracket G_LOADMODE 1 (
    (if skipval then ret tt else validate fx p c) ;;;;
    dump_cleanup fx p skipval c ;;;;
    kvs <-- lift (ns_items c) ;;
    lift (halloc (CDict kvs)) ;;;; ret tt) ;;;;      (* cfg.as_dict() *)
  bracket G_PARENT 1 (ret tt).                       (* dump_using_format *)

(* ---- save (_core.py:856-951), multifile=True, no __path__ metas *)
Definition save (fx : bool) (p : parser) (file_exists : bool) (cfg : val) : M unit :=
  if file_exists then fail                           (* check_overwrite *)
  else
    c <-- lift (clone fx FUEL cfg) ;;
    bracket G_LOADMODE 1 (c2 <-- lift (strip_meta fx c) ;; validate fx p c2) ;;;;
    chdir_region (bracket G_PARENT 1 (ret tt)) ;;;;  (* save_paths: nothing to do *)
    dump fx p true c.

(* ---- strip_unknown (_core.py:1258-1277) *)
Definition strip_unknown (fx : bool) (p : parser) (cfg : val) : M val :=
  c <-- lift (clone fx FUEL cfg) ;;
  kvs <-- lift (ns_items c) ;;
  lift (hiter (fun kv : str * val =>
                 match find_decl p (fst kv) with
                 | None => ns_del c (fst kv)
                 | Some _ => hret tt
                 end) kvs) ;;;;
  ret c.

(* ---- instantiate_classes (_core.py:1200-1256): strip_meta, then per ActionTypeHint component
   parent[key] = component.instantiate_classes(value) *)
Definition inst_typed (fx : bool) (p : parser) (c : val) : M unit :=
  miter (fun d : decl =>
           kvs <-- lift (ns_items c) ;;
           match aget (d_key d) kvs with
           | None | Some VNone => ret tt
           | Some x =>
               y <-- bracket G_PARENT 1 (bracket G_NESTED 1 (bracket G_INSTANTIATORS 1
                       (lift (adapt fx Deser (d_ty d) x)))) ;;
               lift (ns_set c (d_key d) y)
           end) p.
Definition instantiate (fx : bool) (p : parser) (cfg : val) : M val :=
  c <-- lift (strip_meta fx cfg) ;;
  inst_typed fx p c ;;;;
  ret c.

(* ---- instantiate_classes on a parser that also has CLASS GROUPS (add_class_arguments(Cls, "g") for a class without
   parameters): after the typed components, per group, `with parser_context(load_value_mode=..., class_instantiators=...):
   component.instantiate_class(component, cfg)` = group_instantiate_class (_signatures.py): the key is absent
   (`except KeyError: value = {}; parent = cfg; key = group.dest`), `parent[key] = instantiator_fn(group.group_class)`:
   a NEW object is stored under the group's key of the namespace strip_meta returned - which, for an empty
   configuration, is the caller's own object unless strip_meta always copies (sm = true). *)
Definition group_step (c : val) (g : str) : M unit :=
  bracket G_LOADMODE 1 (bracket G_INSTANTIATORS 1 (
    obj <-- lift (halloc (CNs [])) ;;
    lift (ns_set c g obj))).
Definition instantiate_groups (sm fx : bool) (p : parser) (gs : list str) (cfg : val) : M val :=
  c <-- lift (strip_meta_gen sm fx cfg) ;;
  inst_typed fx p c ;;;;
  miter (group_step c) gs ;;;;
  ret c.

(* ---- the operations of the correspondence *)
Inductive op :=
| OGetDefaults
| OParseObject (a : val)
| OParseString (cells : list cell) (root : val)
| OParsePath (cells : list cell) (root : val)
| OValidate (a : val)
| OValidateBranch (a : val)
| ODump (a : val) (skipval : bool)
| OSave (a : val) (file_exists : bool)
| OMerge (a b : val)
| OStripUnknown (a : val)
| OInstantiate (a : val)
| OInstantiateGroups (a : val) (gs : list str).   (* instantiate_classes(a) on a parser with the class groups gs *)

Definition run_op_sm (sm fx : bool) (p : parser) (o : op) : M val :=
  match o with
  | OGetDefaults => get_defaults fx p
  | OParseObject a => parse_object fx p a
  | OParseString cs r => parse_string fx p cs r
  | OParsePath cs r => parse_path fx p cs r
  | OValidate a => validate fx p a ;;;; ret VNone
  | OValidateBranch a => validate_branch fx p a ;;;; ret VNone
  | ODump a sv => dump fx p sv a ;;;; ret VNone
  | OSave a ex => save fx p ex a ;;;; ret VNone
  | OMerge a b => merge_config fx a b
  | OStripUnknown a => strip_unknown fx p a
  | OInstantiate a => instantiate_groups sm fx p [] a      (* = instantiate fx p a for sm = false: no groups *)
  | OInstantiateGroups a gs => instantiate_groups sm fx p gs a
  end.
(* strip_meta as it is in the tree (an empty configuration is not copied) *)
Definition run_op_gen : bool -> parser -> op -> M val := run_op_sm false.
(* the pinned tree, and the tree with both C08 patches applied *)
Definition run_op : parser -> op -> M val := run_op_gen false.
Definition run_op_fixed : parser -> op -> M val := run_op_gen true.
(* ... and with fixes/C08-empty-config-not-copied.patch as well *)
Definition run_op_fixed3 : parser -> op -> M val := run_op_sm true true.

Definition g0 : globals := fun _ => 0%N.
Definition out_st {A} (o : out A) : st := match o with Ok _ s => s | Err _ s => s end.

(* ================================================================================================
   Observation: what a deep snapshot sees.  Locations below n0 are the objects that existed before
   the call (OOld l: "this IS the caller's object l"); anything else is shown by content.
   ============================================================================================== *)
Inductive oval :=
| OInt (z : Z) | OStr (s : str) | ONone | OTup (xs : list oval)
| OOld (l : nat)
| ONewList (xs : list oval) | ONewDict (kvs : list (str * oval)) | ONewNs (kvs : list (str * oval))
| OCut.

Fixpoint view (fuel n0 : nat) (h : heap) (v : val) : oval :=
  match fuel with
  | O => OCut
  | S f =>
      match v with
      | VInt z => OInt z
      | VStr s => OStr s
      | VNone => ONone
      | VTup xs => OTup (map (view f n0 h) xs)
      | VRef l =>
          if l <? n0 then OOld l
          else match nth_error h l with
               | None => OCut
               | Some (CList xs) => ONewList (map (view f n0 h) xs)
               | Some (CDict kvs) => ONewDict (map (fun kv => (fst kv, view f n0 h (snd kv))) kvs)
               | Some (CNs kvs) => ONewNs (map (fun kv => (fst kv, view f n0 h (snd kv))) kvs)
               end
      end
  end.

(* the content of one pre-existing object, after the call *)
Definition view_cell (fuel n0 : nat) (h : heap) (c : cell) : oval :=
  match c with
  | CList xs => ONewList (map (view fuel n0 h) xs)
  | CDict kvs => ONewDict (map (fun kv => (fst kv, view fuel n0 h (snd kv))) kvs)
  | CNs kvs => ONewNs (map (fun kv => (fst kv, view fuel n0 h (snd kv))) kvs)
  end.

Definition view_old (n0 : nat) (h : heap) : list oval :=
  map (view_cell FUEL n0 h) (firstn n0 h).

Fixpoint oval_eqb (a b : oval) {struct a} : bool :=
  let kvs_eqb := fix go (x y : list (str * oval)) {struct x} : bool :=
      match x, y with
      | [], [] => true
      | (k, u) :: x', (k', w) :: y' => str_eqb k k' && oval_eqb u w && go x' y'
      | _, _ => false
      end in
  let l_eqb := fix go (x y : list oval) {struct x} : bool :=
      match x, y with
      | [], [] => true
      | u :: x', w :: y' => oval_eqb u w && go x' y'
      | _, _ => false
      end in
  match a, b with
  | OInt x, OInt y => Z.eqb x y
  | OStr x, OStr y => str_eqb x y
  | ONone, ONone => true
  | OTup x, OTup y => l_eqb x y
  | OOld x, OOld y => Nat.eqb x y
  | ONewList x, ONewList y => l_eqb x y
  | ONewDict x, ONewDict y => kvs_eqb x y
  | ONewNs x, ONewNs y => kvs_eqb x y
  | OCut, OCut => true
  | _, _ => false
  end.

(* ================================================================================================
   The guard of the frame theorem (= finding classes of the judge)
   ============================================================================================== *)
Fixpoint ref_free (v : val) : bool :=
  match v with
  | VRef _ => false
  | VTup xs => forallb ref_free xs
  | _ => true
  end.
(* a value as it may sit in a caller's container when nothing mutable hangs below a tuple *)
Definition flat_old (n : nat) (v : val) : bool :=
  match v with
  | VRef l => l <? n
  | VTup xs => forallb ref_free xs
  | _ => true
  end.
Definition heap_flat (h : heap) : bool :=
  forallb (fun c => forallb (flat_old (length h)) (cell_vals c)) h.
Definition parser_flat (n : nat) (p : parser) : bool :=
  forallb (fun d => flat_old n (d_dflt d)) p.

(* parse_object adapts the caller's objects in place (no copy at all): the guard asks for a dict
   whose values are scalars or container-free tuples *)
Definition parse_object_arg_ok (h : heap) (a : val) : bool :=
  match a with
  | VRef l => match nth_error h l with
              | Some (CDict kvs) => forallb (fun kv => ref_free (snd kv)) kvs
              | _ => false
              end
  | _ => false
  end.

Definition op_args (o : op) : list val :=
  match o with
  | OGetDefaults | OParseString _ _ | OParsePath _ _ => []
  | OParseObject a | OValidate a | OValidateBranch a | ODump a _ | OSave a _ | OStripUnknown a | OInstantiate a
  | OInstantiateGroups a _ => [a]
  | OMerge a b => [a; b]
  end.

(* instantiate_classes of an EMPTY configuration on a parser with class groups: strip_meta hands the caller's own
   (empty) namespace on and the group instances are stored in it (finding empty-config-not-copied, class 4) *)
Definition groups_guard (h : heap) (o : op) : bool :=
  match o with
  | OInstantiateGroups (VRef l) (_ :: _) => match nth_error h l with Some (CNs []) => false | _ => true end
  | _ => true
  end.
Definition groups_class (h : heap) (o : op) : N := if groups_guard h o then 0%N else 4%N.

(* 0 = inside the guard; 1 = parse_object handed nested mutable containers (or a Namespace);
   2 = a mutable container below a tuple somewhere in the arguments / declared defaults;
   4 = instantiate_classes of an empty configuration on a parser with class groups *)
Definition guard_class (p : parser) (h : heap) (o : op) : N :=
  if negb (groups_guard h o) then 4%N else
  if negb (forallb (flat_old (length h)) (op_args o) && parser_flat (length h) p) then 2%N
  else match o with
       | OParseObject a => if parse_object_arg_ok h a then (if heap_flat h then 0 else 2)%N else 1%N
       | _ => if heap_flat h then 0%N else 2%N
       end.
Definition guard (p : parser) (h : heap) (o : op) : bool := N.eqb (guard_class p h o) 0.

(* ================================================================================================
   Entry points outside the heap model (parse_args with a config-file action, default_config_files
   in get_defaults / format_help / parse_args, list-of-values files, parse_env): only their
   try/finally skeleton is modelled — the nest of regions the call enters before the body that may
   raise.  What they do to the heap is not modelled; the correspondence checks that the argument
   object (argv list / environ dict) is unchanged.
   ============================================================================================== *)
Fixpoint regions {A} (gs : list nat) (body : M A) : M A :=
  match gs with
  | [] => body
  | g :: r => bracket g 1 (regions r body)
  end.
Definition aux_regions (entry : N) : list nat :=
  match entry with
  | 0%N => [G_ARGPARSE_NS; G_PARENT; G_LENIENT; G_PATHDIR; G_CWD; G_PARENT; G_LOADMODE]  (* parse_args(["--cfg", file, ...]): patch_namespace, parser_context, ActionConfigFile.apply_config under change_to_path_dir *)
  | 1%N => [G_PATHDIR; G_CWD; G_PARENT; G_LOADMODE]                                      (* get_defaults with default_config_files *)
  | 2%N => [G_PARENT; G_DEFCACHE; G_PATHDIR; G_CWD; G_PARENT; G_LOADMODE]                (* format_help: parser_context(parent_parser, defaults_cache) around get_defaults *)
  | 3%N => [G_ARGPARSE_NS; G_PARENT; G_LENIENT; G_PATHDIR; G_CWD; G_PARENT; G_LOADMODE]  (* parse_args([]) with default_config_files *)
  | 4%N => [G_ARGPARSE_NS; G_PARENT; G_LENIENT; G_PATHDIR; G_CWD]                        (* List[int] with enable_path: adapt_typehints under change_to_path_dir(list_path) *)
  | 6%N => [G_PARENT; G_DEFCACHE; G_PATHDIR; G_CWD; G_PARENT; G_LOADMODE]                (* print_help(file): as format_help *)
  | 5%N => [G_PARENT; G_LENIENT]                                                          (* parse_env *)
  | 7%N => [G_SUBDEFAULTS; G_PARENT; G_LENIENT]                                           (* get_defaults *)
  | 8%N => [G_ARGPARSE_NS; G_PARENT; G_LENIENT; G_LOADMODE]                               (* parse_args(argv), no files *)
  | 9%N => [G_PARENT; G_LENIENT; G_SUBDEFAULTS; G_LOADMODE]                               (* parse_object *)
  | 10%N => [G_LOADMODE; G_PARENT; G_LENIENT; G_SUBDEFAULTS]                              (* parse_string *)
  | 11%N => [G_LOADMODE; G_PARENT; G_PATHDIR]                                             (* dump(cfg, skip_default=True) *)
  | 12%N => [G_LOADMODE; G_PARENT; G_PATHDIR]                                             (* validate *)
  | 13%N => [G_PARENT; G_LENIENT; G_SUBDEFAULTS; G_LOADMODE; G_PATHDIR]                   (* parse_object of dict-subclass values *)
  | 14%N => [G_LOADMODE; G_PARENT; G_PATHDIR]                                             (* validate of dict-subclass values *)
  | 15%N => [G_LOADMODE; G_PARENT; G_PATHDIR]                                             (* dump of dict-subclass values *)
  | 16%N | 17%N => [G_LOADMODE; G_PARENT; G_PATHDIR; G_CWD; G_PARENT]                     (* save(cfg, path), multi-file mode, parser with parse-time links (top level / in a subcommand) *)
  | _ => [G_LOADMODE; G_PARENT]                                                           (* dump of a configuration with link targets *)
  end.
Definition aux_run (entry : N) (fails : bool) : M unit :=
  regions (aux_regions entry) (if fails then fail else ret tt).

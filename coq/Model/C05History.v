(* C05 — the one piece of process-wide state a parse call can leave behind for the channels of a LATER call:
   the ContextVar `previous_config` (jsonargparse/_actions.py:225-234).  ActionConfigFile.apply_config runs the
   loading of a --cfg value under previous_config_context(cfg) — a @contextmanager with try/finally — and
   parse_string / parse_path hand previous_config.get() to _apply_actions as prev_cfg (_core.py:679), where
   _check_type looks up the previous value of the key (class_path of a subclass spec, fields of the items of a
   List[dataclass]).  Outside a --cfg the variable must therefore be what it was (None at top level): otherwise
   parse_string / parse_path of a later, unrelated call complete their settings from a dead namespace while
   parse_object, options and --cfg do not.  Executable only; written in the shape of the code: the argv loop, the
   context manager, an exception ending the call at the item that raised. *)
From JV Require Import Lib.Base.

(* the namespace built so far is represented by the number of assignments it has received *)
Definition pstate := option nat.                 (* previous_config.get() *)

Inductive outcome := Done | Raised.

(* argv items of a parse_args call, as far as they matter here *)
Inductive pitem :=
| POpt                    (* an option whose value is accepted: cfg is updated *)
| PBadOpt                 (* an option whose value is rejected: the call ends with ArgumentError *)
| PCfg (ok : bool).       (* --cfg VALUE: loading / applying the value succeeds, or raises *)

(* @contextmanager def previous_config_context(cfg):
       token = previous_config.set(cfg)
       try: yield
       finally: previous_config.reset(token) *)
Definition with_previous_config (s : pstate) (cfg : nat) (body : pstate -> outcome * pstate) : outcome * pstate :=
  let token := s in
  let '(r, _) := body (Some cfg) in
  (r, token).

(* the same without try/finally: the reset is skipped when the body raised *)
Definition with_previous_config_nofinally (s : pstate) (cfg : nat) (body : pstate -> outcome * pstate)
  : outcome * pstate :=
  let token := s in
  let '(r, s1) := body (Some cfg) in
  match r with Done => (r, token) | Raised => (r, s1) end.

Section Call.
Variable ctx : pstate -> nat -> (pstate -> outcome * pstate) -> outcome * pstate.

Fixpoint parse_items (s : pstate) (cfg : nat) (items : list pitem) : outcome * pstate :=
  match items with
  | [] => (Done, s)
  | POpt :: r => parse_items s (S cfg) r
  | PBadOpt :: _ => (Raised, s)
  | PCfg ok :: r =>
      match ctx s cfg (fun s' => (if ok then Done else Raised, s')) with
      | (Done, s1) => parse_items s1 (S cfg) r
      | (Raised, s1) => (Raised, s1)
      end
  end.
End Call.

(* one parse_args call on a fresh parser *)
Definition parse_call (s : pstate) (items : list pitem) : outcome * pstate :=
  parse_items with_previous_config s 0 items.

(* a history of calls *)
Fixpoint state_after (s : pstate) (calls : list (list pitem)) : pstate :=
  match calls with
  | [] => s
  | c :: r => state_after (snd (parse_call s c)) r
  end.

Definition call_rejected (items : list pitem) : bool :=
  match fst (parse_call None items) with Raised => true | Done => false end.

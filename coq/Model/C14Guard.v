(* C14 — the guard of the proved theorems = the finding classes of the correspondence run.
   One Gallina function, used by Properties/C14.v (hypothesis `guard_class … = 0`) and by the judge. *)
From JV Require Import Lib.Base Model.C14ClassSpec Spec.C14Spec.

(* well-formed family: defaults are of the parameter's type (int for int, str for str, None for
   Optional[Class]); a Class-typed parameter has no default; names unique; functions return a class *)
Definition default_ok (p : param) : bool :=
  match p_ty p, p_def p with
  | PInt, None | PStr, None | PCls _, None => true
  | PInt, Some (VInt _) => true
  | PStr, Some (VStr _) => true
  | POpt _, Some VNull => true
  | _, _ => false
  end.

Fixpoint nodup_str (l : list str) : bool :=
  match l with [] => true | x :: l' => negb (mem_str x l') && nodup_str l' end.

(* a generated function forwards its keywords to the class it returns: each of its parameters is one the
   class takes, and every parameter the class requires is a required parameter of the function *)
Definition func_ok (F : family) (f : func) : bool :=
  match find_cls F (f_ret f) with
  | Some k =>
      forallb (fun p => c_varkw k || match find_param (c_params k) (p_name p) with Some _ => true | None => false end)
              (f_params f)
      && forallb (fun q => match p_def q with
                           | Some _ => true
                           | None => match find_param (f_params f) (p_name q) with
                                     | Some p' => match p_def p' with None => true | Some _ => false end
                                     | None => false
                                     end
                           end) (c_params k)
  | None => false
  end.

(* package layout: names and submodule names are identifiers; only classes / functions live in submodules;
   __init__ re-exports objects of submodules, under names it does not define itself *)
Definition layout_wf (F : family) : bool :=
  forallb (fun n => negb (has_dot n))
          (map c_name (fam_classes F) ++ map f_name (fam_funcs F) ++ fam_consts F
           ++ map snd (fam_subs F) ++ map fst (fam_exports F))
  && forallb (fun kv => mem_str (fst kv) (map c_name (fam_classes F) ++ map f_name (fam_funcs F))) (fam_subs F)
  && forallb (fun kv => ahas (snd kv) (fam_subs F)
                        && (ahas (fst kv) (fam_subs F)
                            || negb (mem_str (fst kv) (map c_name (fam_classes F) ++ map f_name (fam_funcs F)
                                                       ++ fam_consts F)))
                        && negb (mem_str (fst kv) (map snd (fam_subs F)))) (fam_exports F)
  && nodup_str (map fst (fam_exports F)) && nodup_str (map fst (fam_subs F)).

Definition fam_wf_with (dok : param -> bool) (F : family) : bool :=
  forallb (fun k => forallb dok (c_params k) && nodup_str (map p_name (c_params k))) (fam_classes F)
  && forallb (fun f => forallb dok (f_params f) && nodup_str (map p_name (f_params f))
                       && func_ok F f) (fam_funcs F)
  && nodup_str (map c_name (fam_classes F) ++ map f_name (fam_funcs F) ++ fam_consts F)
  && negb (has_dot (fam_mod F))
  && layout_wf F.

(* the families the theorems speak about: no parameter default is a class spec *)
Definition fam_wf (F : family) : bool := fam_wf_with default_ok F.

(* the families the correspondence run generates: a class-typed parameter may also default to a class spec
   (lazy_instance(Sub, ..)) *)
Definition default_ok_ext (p : param) : bool :=
  default_ok p ||
  match p_ty p, p_def p with
  | PCls _, Some (VSpec _ _ _) | POpt _, Some (VSpec _ _ _) => true
  | _, _ => false
  end.
Definition fam_wf_ext (F : family) : bool := fam_wf_with default_ok_ext F.

Fixpoint has_null (n : nat) (r : raw) : bool :=
  match n with
  | 0 => true
  | S n' => match r with
            | RNull => true
            | RDict kvs => existsb (fun kv => has_null n' (snd kv)) kvs
            | _ => false
            end
  end.

(* a null travelling through a dotted key with two or more components below the argument *)
Definition nested_null (i : input) : bool :=
  match i with
  | INested path r => match strip_ia path with
                      | _ :: _ :: _ => has_null 60 r
                      | _ => false
                      end
  | IRaw _ => false
  end.

Fixpoint value_eqb (n : nat) (a b : value) : bool :=
  match n with 0 => false | S n' =>
  match a, b with
  | VInt x, VInt y => Z.eqb x y
  | VStr x, VStr y => str_eqb x y
  | VNull, VNull => true
  | VSpec c1 i1 d1, VSpec c2 i2 d2 =>
      str_eqb c1 c2
      && list_eqb (fun p q => str_eqb (fst p) (fst q) && value_eqb n' (snd p) (snd q)) i1 i2
      && list_eqb (fun p q => str_eqb (fst p) (fst q) && value_eqb n' (snd p) (snd q)) d1 d2
  | _, _ => false
  end end.

Definition arg_eqb (a b : arg) : bool :=
  match a, b with
  | AInt x, AInt y => Z.eqb x y
  | AStr x, AStr y => str_eqb x y
  | ANull, ANull => true
  | ARef i, ARef j => Nat.eqb i j
  | _, _ => false
  end.
Definition kw_eqb := list_eqb (fun (p q : str * arg) => str_eqb (fst p) (fst q) && arg_eqb (snd p) (snd q)).
Definition log_eqb := list_eqb (fun (p q : entry) => str_eqb (fst p) (fst q) && kw_eqb (snd p) (snd q)).

Definition io_eqb (a b : inst_obs) : bool :=
  match a, b with
  | IOk r l, IOk r' l' => arg_eqb r r' && log_eqb l l'
  | ITypeErr, ITypeErr => true
  | _, _ => false
  end.
Definition obs_eqb (a b : obs) : bool :=
  match a, b with
  | ORej, ORej => true
  | OAcc v io, OAcc v' io' => value_eqb 60 v v' && io_eqb io io'
  | _, _ => false
  end.

(* The one finding class: the argv contains a dotted key with two or more components below the argument
   whose value holds a null, AND the re-stringification of that null (str(None) = "None" in
   adapt_class_type / the NestedArg branch) changes the outcome: the model of the code as it is and the
   model with the value handed down unchanged disagree.  Everything else is inside the guard. *)
Definition guard_class (F : family) (base : str) (dflt : option value) (steps : list input) : N :=
  if existsb nested_null steps && negb (obs_eqb (run F base dflt steps) (run_fixed F base dflt steps))
  then 1%N else 0%N.

(* ---------- finding class 2: an option default given as a STRING is not checked -----------------------------------
   add_argument("--x", type=Base, default="mod.Cls"): a string that names a valid class is normalised to its spec when the
   defaults are completed; a string that does NOT (not importable, not a subclass) is left as it is - no error - and, when
   no item addresses the option, parse returns the string and instantiate_classes hands it on.  The same class_path given
   as a dict default is rejected.  `run_dstr` = the code as it is (dstr: the default was given as a string). *)
Definition dstr_hit (F : family) (base : str) (dflt : option value) (steps : list input) (dstr : bool) : option str :=
  match dstr, dflt, steps with
  | true, Some (VSpec cp [] []), [] =>
      match expand_default F (fun r => r) base dflt with
      | Err _ => Some cp
      | Ok _ => None
      end
  | _, _, _ => None
  end.

(* with items: the string that could not be completed is the (non-spec) previous value of the first item - a full
   class selection replaces it, a dotted item / init_args without class_path finds no class to rely on *)
Definition dstr_junk (F : family) (base : str) (dflt : option value) (steps : list input) (dstr : bool) : option str :=
  match dstr, dflt, steps with
  | true, Some (VSpec cp [] []), _ :: _ =>
      match expand_default F (fun r => r) base dflt with
      | Err _ => Some cp
      | Ok _ => None
      end
  | _, _, _ => None
  end.

Definition run_from (F : family) (rs : raw -> raw) (base : str) (cfg0 : option value) (steps : list input) : obs :=
  match (cfg <- apply_steps F rs base cfg0 steps ;;
         match cfg with Some v => finalize F rs base v | None => Err Reject end) with
  | Ok v => OAcc v (match inst F FUEL v [] with
                    | Ok (a, log) => IOk a log
                    | Err TypeErr => ITypeErr
                    | Err _ => IOther
                    end)
  | Err _ => ORej
  end.

Definition run_dstr (rs : raw -> raw) (runf : family -> str -> option value -> list input -> obs)
           (F : family) (base : str) (dflt : option value) (steps : list input) (dstr : bool) : obs :=
  match dstr_hit F base dflt steps dstr with
  | Some cp => OAcc (VStr cp) (IOk (AStr cp) [])
  | None => match dstr_junk F base dflt steps dstr with
            | Some cp => run_from F rs base (Some (VStr cp)) steps
            | None => runf F base dflt steps
            end
  end.

Definition dstr_class (F : family) (base : str) (dflt : option value) (steps : list input) (dstr : bool) : N :=
  match dstr_hit F base dflt steps dstr with Some _ => 2%N | None => 0%N end.

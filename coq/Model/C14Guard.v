(* C14 — the guard of the proved theorems = the finding classes of the correspondence run.
   One Gallina function, used by Properties/C14.v (hypothesis `guard_class … = 0`) and by the judge. *)
From JV Require Import Lib.Base Model.C14ClassSpec Spec.C14Spec.

(* well-formed family: defaults are of the parameter's type (int for int, str for str, None for
   Optional[Class]); a Class-typed parameter has no default; names unique; functions return a class *)
Definition default_ok (p : param) : bool :=
  match p_ty p, p_def p with
  | PInt, None | PStr, None | PCls _, None => true
  | PInt, Some (VInt _) => true
  | PStr, Some (VStr _) => true
  | POpt _, Some VNull => true
  | _, _ => false
  end.

Fixpoint nodup_str (l : list str) : bool :=
  match l with [] => true | x :: l' => negb (mem_str x l') && nodup_str l' end.

Definition fam_wf (F : family) : bool :=
  forallb (fun k => forallb default_ok (c_params k) && nodup_str (map p_name (c_params k))) (fam_classes F)
  && forallb (fun f => forallb default_ok (f_params f) && nodup_str (map p_name (f_params f))
                       && match find_cls F (f_ret f) with Some _ => true | None => false end) (fam_funcs F)
  && nodup_str (map c_name (fam_classes F) ++ map f_name (fam_funcs F) ++ fam_consts F)
  && negb (has_dot (fam_mod F)).

Fixpoint has_null (n : nat) (r : raw) : bool :=
  match n with
  | 0 => true
  | S n' => match r with
            | RNull => true
            | RDict kvs => existsb (fun kv => has_null n' (snd kv)) kvs
            | _ => false
            end
  end.

(* class 3: a null travelling through a dotted key with two or more components below the argument *)
Definition nested_null (i : input) : bool :=
  match i with
  | INested path r => match strip_ia path with
                      | _ :: _ :: _ => has_null 60 r
                      | _ => false
                      end
  | IRaw _ => false
  end.

(* class 1: at some argv item the class_path changes while the old value holds dict_kwargs and the new
   one brings none (top level of the argument) *)
Fixpoint carry_top (F : family) (base : str) (cfg : option value) (steps : list input) : bool :=
  match steps with
  | [] => false
  | i :: steps' =>
      let i' := match i with INested p r => INested (strip_ia p) r | _ => i end in
      match adapt F FUEL lenient base cfg i' with
      | Ok v =>
          match cfg, v with
          | Some (VSpec cp0 _ (_ :: _)), VSpec cp _ [] => negb (str_eqb cp0 cp)
          | _, _ => false
          end
          || carry_top F base (Some (merge_val cfg v)) steps'
      | Err _ => false
      end
  end.

Definition guard_class (F : family) (base : str) (dflt : option value) (steps : list input) : N :=
  if existsb nested_null steps then 3%N
  else if match expand_default F base dflt with
          | Ok cfg0 => carry_top F base cfg0 steps
          | Err _ => false
          end then 1%N
  else match parse F base dflt steps with
       | Ok v => if dk_accepted 60 F v then 0%N else 2%N
       | Err _ => 0%N
       end.

(* C19 — model of change_to_path_dir (_util.py:284-312) as a bracket over the process-global state
   (os.getcwd(), current_path_dir) and of its users when a tree of config files that reference each
   other and relative paths is loaded:
     parse_path / ActionConfigFile / get_defaults   (_core.py:620-631, 1024; _actions.py:191-213)
     _ActionConfigLoad._load_config                 (_actions.py:325-334)  + parse_value_or_config
     ActionTypeHint._check_type                     (_typehints.py:553-590)
     the List[...] file branch of adapt_typehints   (_typehints.py:880-899)
   Exceptions are values (Err) that travel outwards through every `finally`. *)
From JV Require Import Lib.Base Model.C19PathMode.

(* ---- posixpath on strings ---------------------------------------------------------------------- *)
Definition is_slash (c : N) : bool := N.eqb c slash.

(* p[: p.rfind("/") + 1] *)
Fixpoint head_to_last_slash (p : str) : str :=
  match p with
  | [] => []
  | c :: p' => let h := head_to_last_slash p' in
               if is_slash c then c :: h else match h with [] => [] | _ => c :: h end
  end.

(* posixpath.dirname *)
Definition dirname (p : str) : str :=
  let h := head_to_last_slash p in
  if forallb is_slash h then h else rstrip_slash h.

Fixpoint split_slash (p cur : str) : list str :=   (* cur: current component, reversed *)
  match p with
  | [] => [rev cur]
  | c :: p' => if is_slash c then rev cur :: split_slash p' [] else split_slash p' (c :: cur)
  end.

Definition dot : str := [46]%N.
Definition dotdot : str := [46; 46]%N.

(* one iteration of the loop of posixpath.normpath; stk = new_comps reversed *)
Definition norm_step (rooted : bool) (stk : list str) (comp : str) : list str :=
  if str_eqb comp [] || str_eqb comp dot then stk
  else if negb (str_eqb comp dotdot)
          || (negb rooted && match stk with [] => true | _ => false end)
          || match stk with t :: _ => str_eqb t dotdot | [] => false end
       then comp :: stk
       else match stk with _ :: s' => s' | [] => [] end.

Fixpoint join_comps (l : list str) : str :=
  match l with
  | [] => []
  | [x] => x
  | x :: r => x ++ slash :: join_comps r
  end.

(* posixpath.normpath ( = abspath on an absolute path) *)
Definition normpath (p : str) : str :=
  match p with
  | [] => dot
  | _ =>
      let ini : nat :=
        if is_abs p then
          match p with
          | _ :: c2 :: rest =>
              if is_slash c2 && negb (match rest with c3 :: _ => is_slash c3 | [] => false end)
              then 2 else 1
          | _ => 1
          end
        else 0 in
      let comps := rev (fold_left (norm_step (Nat.ltb 0 ini)) (split_slash p []) []) in
      match repeat slash ini ++ join_comps comps with
      | [] => dot
      | r => r
      end
  end.

(* ---- what the kernel does with a path: symbolic links -------------------------------------------------
   `links` maps the PHYSICAL absolute path of every symbolic link (to a directory or to a file) of the fixture to its
   os.path.realpath. kresolve walks an absolute path the way the kernel (and os.path.realpath) does: component
   by component over the physical path so far, ".." leaving the physical parent, a component that is a symbolic
   link replaced by where it points. It is what open()/os.access() see, and what os.getcwd() answers after
   os.chdir(p). posixpath.normpath/abspath, in contrast, cancels "x/.." lexically — the two differ exactly when
   ".." follows a symbolic link. *)
Fixpoint assoc_str (k : str) (l : list (str * str)) : option str :=
  match l with
  | [] => None
  | (a, b) :: l' => if str_eqb k a then Some b else assoc_str k l'
  end.

Definition abs_of_stack (stk : list str) : str := slash :: join_comps (rev stk).   (* stk: components, reversed *)

Fixpoint kwalk (links : list (str * str)) (stk : list str) (comps : list str) : list str :=
  match comps with
  | [] => stk
  | c :: rest =>
      if str_eqb c [] || str_eqb c dot then kwalk links stk rest
      else if str_eqb c dotdot then kwalk links (match stk with _ :: s' => s' | [] => [] end) rest
      else match assoc_str (abs_of_stack (c :: stk)) links with
           | Some target => kwalk links (rev (filter (fun x => negb (str_eqb x [])) (split_slash target []))) rest
           | None => kwalk links (c :: stk) rest
           end
  end.

Definition kresolve (links : list (str * str)) (p : str) : str :=
  abs_of_stack (kwalk links [] (split_slash p [])).

(* ---- state, results, the tree of config files ---------------------------------------------------- *)
Record st := { cwd : str; cpd : option str }.   (* os.getcwd(), current_path_dir.get() *)

(* Err: the value is rejected (TypeError / ValueError / ArgumentError: handled and re-raised by the parser);
   ErrOs: an OSError (FileNotFoundError from os.chdir) — no handler on the way catches it *)
Inductive res (A : Type) := Ok (a : A) | Err | ErrOs.
Arguments Ok {A} a.
Arguments Err {A}.
Arguments ErrOs {A}.

(* one resolved path value: (id, relative as written, cwd it was resolved against, absolute) *)
Definition item : Type := nat * str * str * str.

Inductive node :=
| NPath (id : nat) (given : str)            (* a value of a path type with mode "fr" *)
| NLoad (given : str) (body : list node)    (* a nested config file named by a (relative) path *)
| NListFile (yaml_ok : bool) (given : str) (body : list node)
                                            (* List[path] given as a file listing one path per line; yaml_ok: the
                                               content of the file happens to be loadable as YAML (a folded string) *)
| NInline (body : list node)                (* nested settings written inline: no file, no directory *)
| NBad.                                     (* a value that fails validation for an unrelated reason *)

(* ---- several config files applied one after the other (--cfg f1 --cfg f2 ..., several default_config_files) ----
   Each loaded file is merged over what the earlier ones gave (`merge_config(cfg_file, cfg)`): a later value replaces the
   earlier value of the same key, a list / dict value as a whole. The harness numbers the path values so that
   id / 8 identifies the key (id mod 8: the position inside a list / dict value). *)
Definition unit_of (it : item) : nat := let '(i, _, _, _) := it in Nat.div i 8.
Definition merge_items (old new : list item) : list item :=
  filter (fun o => negb (existsb (fun n => Nat.eqb (unit_of o) (unit_of n)) new)) old ++ new.

(* what a default config file holds: settings | nothing but white space | bytes that cannot be decoded *)
Inductive dcontent := DBody (body : list node) | DEmpty | DUnreadable.

Section Run.
  Variable fxs : fixes.        (* which repairs have landed (fx_lf and fx_rp matter here); no_fixes = the pinned tree *)
  Variable files : list str.   (* physical absolute paths of the readable regular files *)
  Variable links : list (str * str).   (* physical path of each symbolic link -> its realpath *)
  Variable dir_ok : str -> bool.       (* os.chdir(d) succeeds for the physical path d (external behaviour) *)

  (* Path(given, mode="fr") in the current state: cwd = os.getcwd(); os.access resolves the path as the kernel does *)
  Definition open_fr (s : st) (given : str) : res (str * str) :=   (* (cwd, absolute) *)
    let a := join (cwd s) given in
    if mem_str (kresolve links a) files then Ok (cwd s, a) else Err.

  (* the directory the process is in after `path_dir = os.path.abspath(path_dir); os.chdir(path_dir)` with
     path_dir = os.path.dirname(a): abspath normalises LEXICALLY first, the kernel then resolves the symbolic links
     of what is left; os.getcwd() answers the physical path. Repaired (fx_rp): os.path.realpath(path_dir). *)
  Definition chdir_dir (a : str) : str :=
    kresolve links (if fx_rp fxs then dirname a else normpath (dirname a)).

  Definition nonempty (p : str) : bool := match p with [] => false | _ => true end.

  (* `with change_to_path_dir(path): body` — path = None | Some (absolute of a Path whose mode has
     no "d"). The `try ... finally` covers the body only: os.chdir into the new directory comes BEFORE the `try:`,
     after current_path_dir.set — when it raises nothing is undone. *)
  Definition bracket {A} (path : option str) (body : st -> st * res A) (s : st) : st * res A :=
    let path_dir0 := cpd s in                                     (* current_path_dir.get() *)
    let path_dir :=
      match path with
      | None => path_dir0
      | Some a => Some (dirname a)
      end in
    let token := cpd s in
    let s1 := {| cwd := cwd s; cpd := path_dir |} in              (* current_path_dir.set(path_dir) *)
    let enter :=                                                  (* `if chdir and path_dir:` *)
      match path, path_dir with
      | Some a, Some d => if nonempty d then Some (chdir_dir a) else None
      | _, _ => None
      end in
    match enter with
    | Some target =>
        let saved := cwd s1 in                                    (* chdir = os.getcwd() *)
        if dir_ok target then                                     (* os.chdir(os.path.abspath(path_dir)) *)
          let '(s3, r) := body {| cwd := target; cpd := cpd s1 |} in
          (* finally: current_path_dir.reset(token); os.chdir(chdir) *)
          ({| cwd := saved; cpd := token |}, r)
        else (s1, ErrOs)                                          (* FileNotFoundError; the context variable stays set *)
    | None =>
        let '(s3, r) := body s1 in
        ({| cwd := cwd s3; cpd := token |}, r)                    (* finally: current_path_dir.reset(token) *)
    end.

  (* a step whose ordinary failures are handled by the caller (which then goes on), while an OSError passes through *)
  Definition then_ {A B} (x : st * res A) (k : st -> st * res B) : st * res B :=
    let '(s1, r) := x in
    match r with
    | ErrOs => (s1, ErrOs)
    | _ => k s1
    end.

  Definition seq_nodes (run : node -> st -> st * res (list item)) :=
    fix go (l : list node) (s : st) : st * res (list item) :=
      match l with
      | [] => (s, Ok [])
      | n :: l' =>
          let '(s1, r) := run n s in
          match r with
          | Err => (s1, Err)                       (* the exception leaves the loop *)
          | ErrOs => (s1, ErrOs)
          | Ok xs =>
              let '(s2, r2) := go l' s1 in
              (s2, match r2 with Ok ys => Ok (xs ++ ys) | Err => Err | ErrOs => ErrOs end)
          end
      end.

  (* every list item is adapted inside its own `with change_to_path_dir(list_path)` *)
  Definition each_in_bracket (run : node -> st -> st * res (list item)) (a : str) :=
    fix go (l : list node) (s : st) : st * res (list item) :=
      match l with
      | [] => (s, Ok [])
      | n :: l' =>
          let '(s1, r) := bracket (Some a) (run n) s in
          match r with
          | Err => (s1, Err)
          | ErrOs => (s1, ErrOs)
          | Ok xs =>
              let '(s2, r2) := go l' s1 in
              (s2, match r2 with Ok ys => Ok (xs ++ ys) | Err => Err | ErrOs => ErrOs end)
          end
      end.

  Fixpoint run_node (n : node) (s : st) : st * res (list item) :=
    match n with
    | NPath id given =>
        (* _check_type: config_path is None -> `with change_to_path_dir(None)` around adapt_typehints *)
        bracket None (fun s' =>
          (s', match open_fr s' given with
               | Ok (c, a) => Ok [(id, given, c, a)]
               | Err => Err
               | ErrOs => ErrOs
               end)) s
    | NLoad given body =>
        (* parse_value_or_config: Path(value, "fr"); a missing file leaves the string, which is then
           not a dict -> TypeError *)
        match open_fr s given with
        | Err => (s, Err)
        | ErrOs => (s, ErrOs)
        | Ok (_, a) =>
            (* `with cfg_path.relative_path_context(): load_value(...)` *)
            then_ (bracket (Some a) (fun s' => (s', Ok tt)) s) (fun s1 =>
            (* `with change_to_path_dir(cfg_path): parser._apply_actions(cfg, ...)` *)
            bracket (Some a) (seq_nodes run_node body) s1)
        end
    | NListFile yaml_ok given body =>
        (* _check_type with enable_path: parse_value_or_config takes the list file for a config file
           (Path(value, "fr") against the cwd) and loads it as YAML, which gives one folded string; *)
        match open_fr s given with
        | Err => (s, Err)        (* no such file: the string is not a list -> ValueError, twice *)
        | ErrOs => (s, ErrOs)
        | Ok (_, a) =>
            let fallback := fun s' =>
              match open_fr s' given with
              | Err => (s', Err)
              | ErrOs => (s', ErrOs)
              | Ok (_, a2) => each_in_bracket run_node a2 body s'
              end in
            if yaml_ok then
              then_ (bracket (Some a) (fun s' => (s', Ok tt)) s) (fun s1 =>
              (* `with change_to_path_dir(config_path): adapt_typehints(val, ...)`: a string, not a list *)
              then_ (bracket (Some a) (fun s' => (s', @Err unit)) s1) (fun s2 =>
              (* except ValueError: `with change_to_path_dir(config_path): adapt_typehints(orig_val, ...)`:
                 the ORIGINAL spelling is looked up again — now from inside the list file's directory —
                 and every line is adapted inside `with change_to_path_dir(list_path)`.
                 Repaired (fx_lf): the fallback runs without `with change_to_path_dir(config_path)`. *)
              if fx_lf fxs then fallback s2 else bracket (Some a) fallback s2))
            else
              (* the loader raises inside `with cfg_path.relative_path_context()`: config_path = None and the
                 value stays the spelling; `with change_to_path_dir(None): adapt_typehints(val, ...)` then
                 reads the list file (Path(val, "fr") against the cwd) and adapts every line in its directory *)
              then_ (bracket (Some a) (fun s' => (s', @Err unit)) s) (fun s1 =>
              bracket None fallback s1)
        end
    | NInline body => bracket None (seq_nodes run_node body) s
    | NBad => (s, Err)
    end.

  (* parse_path / ActionConfigFile.apply_config / get_defaults: Path(top, "fr") then
     `with change_to_path_dir(fpath): parse_string(...)` *)
  Definition run_top (s : st) (top : str) (body : list node) : st * res (list item) :=
    match open_fr s top with
    | Err => (s, Err)
    | ErrOs => (s, ErrOs)
    | Ok (_, a) => bracket (Some a) (seq_nodes run_node body) s
    end.

  (* parse_args(["--cfg", f1, "--cfg", f2, ...]): ActionConfigFile.apply_config once per occurrence, in order, each in
     the process state the previous one left; an exception ends the parse *)
  Fixpoint run_cfgs (s : st) (tops : list (str * list node)) (acc : list item) : st * res (list item) :=
    match tops with
    | [] => (s, Ok acc)
    | (top, body) :: rest =>
        let '(s1, r) := run_top s top body in
        match r with
        | Ok xs => run_cfgs s1 rest (merge_items acc xs)
        | Err => (s1, Err)
        | ErrOs => (s1, ErrOs)
        end
    end.

  (* get_defaults (_core.py): `_get_default_config_files` globs every pattern (a name that does not exist gives
     nothing) and builds Path(v, "fr") for ALL files first, in the state of the call; then, per file and in order:
     get_content() (OSError / ValueError -> TypeError), `if not content.strip(): continue`,
     `with change_to_path_dir(default_config_file)`: load, merge over cfg, _parse_common. *)
  Definition resolve_defaults (s : st) (tops : list (str * dcontent)) : list (str * dcontent) :=
    flat_map (fun tc => match open_fr s (fst tc) with Ok (_, a) => [(a, snd tc)] | _ => [] end) tops.

  Fixpoint run_defaults_abs (s : st) (tops : list (str * dcontent)) (acc : list item) : st * res (list item) :=
    match tops with
    | [] => (s, Ok acc)
    | (a, c) :: rest =>
        match c with
        | DUnreadable => (s, Err)
        | DEmpty => run_defaults_abs s rest acc
        | DBody body =>
            let '(s1, r) := bracket (Some a) (seq_nodes run_node body) s in
            match r with
            | Ok xs => run_defaults_abs s1 rest (merge_items acc xs)
            | Err => (s1, Err)
            | ErrOs => (s1, ErrOs)
            end
        end
    end.

  Definition run_defaults (s : st) (tops : list (str * dcontent)) : st * res (list item) :=
    run_defaults_abs s (resolve_defaults s tops) [].
End Run.

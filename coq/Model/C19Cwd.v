(* C19 — model of change_to_path_dir (_util.py:284-312) as a bracket over the process-global state
   (os.getcwd(), current_path_dir) and of its users when a tree of config files that reference each
   other and relative paths is loaded:
     parse_path / ActionConfigFile / get_defaults   (_core.py:620-631, 1024; _actions.py:191-213)
     _ActionConfigLoad._load_config                 (_actions.py:325-334)  + parse_value_or_config
     ActionTypeHint._check_type                     (_typehints.py:553-590)
     the List[...] file branch of adapt_typehints   (_typehints.py:880-899)
   Exceptions are values (Err) that travel outwards through every `finally`. *)
From JV Require Import Lib.Base Model.C19PathMode.

(* ---- posixpath on strings ---------------------------------------------------------------------- *)
Definition is_slash (c : N) : bool := N.eqb c slash.

(* p[: p.rfind("/") + 1] *)
Fixpoint head_to_last_slash (p : str) : str :=
  match p with
  | [] => []
  | c :: p' => let h := head_to_last_slash p' in
               if is_slash c then c :: h else match h with [] => [] | _ => c :: h end
  end.

(* posixpath.dirname *)
Definition dirname (p : str) : str :=
  let h := head_to_last_slash p in
  if forallb is_slash h then h else rstrip_slash h.

Fixpoint split_slash (p cur : str) : list str :=   (* cur: current component, reversed *)
  match p with
  | [] => [rev cur]
  | c :: p' => if is_slash c then rev cur :: split_slash p' [] else split_slash p' (c :: cur)
  end.

Definition dot : str := [46]%N.
Definition dotdot : str := [46; 46]%N.

(* one iteration of the loop of posixpath.normpath; stk = new_comps reversed *)
Definition norm_step (rooted : bool) (stk : list str) (comp : str) : list str :=
  if str_eqb comp [] || str_eqb comp dot then stk
  else if negb (str_eqb comp dotdot)
          || (negb rooted && match stk with [] => true | _ => false end)
          || match stk with t :: _ => str_eqb t dotdot | [] => false end
       then comp :: stk
       else match stk with _ :: s' => s' | [] => [] end.

Fixpoint join_comps (l : list str) : str :=
  match l with
  | [] => []
  | [x] => x
  | x :: r => x ++ slash :: join_comps r
  end.

(* posixpath.normpath ( = abspath on an absolute path) *)
Definition normpath (p : str) : str :=
  match p with
  | [] => dot
  | _ =>
      let ini : nat :=
        if is_abs p then
          match p with
          | _ :: c2 :: rest =>
              if is_slash c2 && negb (match rest with c3 :: _ => is_slash c3 | [] => false end)
              then 2 else 1
          | _ => 1
          end
        else 0 in
      let comps := rev (fold_left (norm_step (Nat.ltb 0 ini)) (split_slash p []) []) in
      match repeat slash ini ++ join_comps comps with
      | [] => dot
      | r => r
      end
  end.

(* ---- state, results, the tree of config files ---------------------------------------------------- *)
Record st := { cwd : str; cpd : option str }.   (* os.getcwd(), current_path_dir.get() *)

Inductive res (A : Type) := Ok (a : A) | Err.
Arguments Ok {A} a.
Arguments Err {A}.

(* one resolved path value: (id, relative as written, cwd it was resolved against, absolute) *)
Definition item : Type := nat * str * str * str.

Inductive node :=
| NPath (id : nat) (given : str)            (* a value of a path type with mode "fr" *)
| NLoad (given : str) (body : list node)    (* a nested config file named by a (relative) path *)
| NListFile (yaml_ok : bool) (given : str) (body : list node)
                                            (* List[path] given as a file listing one path per line; yaml_ok: the
                                               content of the file happens to be loadable as YAML (a folded string) *)
| NInline (body : list node)                (* nested settings written inline: no file, no directory *)
| NBad.                                     (* a value that fails validation for an unrelated reason *)

Section Run.
  Variable fxs : fixes.        (* which repairs have landed (only fx_lf matters here); no_fixes = the pinned tree *)
  Variable files : list str.   (* normalised absolute paths of the readable regular files *)

  (* Path(given, mode="fr") in the current state: cwd = os.getcwd() *)
  Definition open_fr (s : st) (given : str) : res (str * str) :=   (* (cwd, absolute) *)
    let a := join (cwd s) given in
    if mem_str (normpath a) files then Ok (cwd s, a) else Err.

  Definition nonempty (p : str) : bool := match p with [] => false | _ => true end.

  (* `with change_to_path_dir(path): body` — path = None | Some (absolute of a Path whose mode has
     no "d"). The `try ... finally` is the last three lines: they run whatever body returned. *)
  Definition bracket {A} (path : option str) (body : st -> st * res A) (s : st) : st * res A :=
    let path_dir0 := cpd s in                                     (* current_path_dir.get() *)
    let '(path_dir, chdir) :=
      match path with
      | None => (path_dir0, false)
      | Some a => (Some (dirname a), true)
      end in
    let token := cpd s in
    let s1 := {| cwd := cwd s; cpd := path_dir |} in              (* current_path_dir.set(path_dir) *)
    let '(s2, saved) :=
      match path_dir with
      | Some d => if chdir && nonempty d
                  then ({| cwd := normpath d; cpd := cpd s1 |}, Some (cwd s1))   (* os.chdir(abspath) *)
                  else (s1, None)
      | None => (s1, None)
      end in
    let '(s3, r) := body s2 in
    (* finally: *)
    let s4 := {| cwd := cwd s3; cpd := token |} in                (* current_path_dir.reset(token) *)
    let s5 := match saved with
              | Some c => {| cwd := c; cpd := cpd s4 |}           (* os.chdir(chdir) *)
              | None => s4
              end in
    (s5, r).

  Definition seq_nodes (run : node -> st -> st * res (list item)) :=
    fix go (l : list node) (s : st) : st * res (list item) :=
      match l with
      | [] => (s, Ok [])
      | n :: l' =>
          let '(s1, r) := run n s in
          match r with
          | Err => (s1, Err)                       (* the exception leaves the loop *)
          | Ok xs =>
              let '(s2, r2) := go l' s1 in
              (s2, match r2 with Ok ys => Ok (xs ++ ys) | Err => Err end)
          end
      end.

  (* every list item is adapted inside its own `with change_to_path_dir(list_path)` *)
  Definition each_in_bracket (run : node -> st -> st * res (list item)) (a : str) :=
    fix go (l : list node) (s : st) : st * res (list item) :=
      match l with
      | [] => (s, Ok [])
      | n :: l' =>
          let '(s1, r) := bracket (Some a) (run n) s in
          match r with
          | Err => (s1, Err)
          | Ok xs =>
              let '(s2, r2) := go l' s1 in
              (s2, match r2 with Ok ys => Ok (xs ++ ys) | Err => Err end)
          end
      end.

  Fixpoint run_node (n : node) (s : st) : st * res (list item) :=
    match n with
    | NPath id given =>
        (* _check_type: config_path is None -> `with change_to_path_dir(None)` around adapt_typehints *)
        bracket None (fun s' =>
          (s', match open_fr s' given with
               | Ok (c, a) => Ok [(id, given, c, a)]
               | Err => Err
               end)) s
    | NLoad given body =>
        (* parse_value_or_config: Path(value, "fr"); a missing file leaves the string, which is then
           not a dict -> TypeError *)
        match open_fr s given with
        | Err => (s, Err)
        | Ok (_, a) =>
            (* `with cfg_path.relative_path_context(): load_value(...)` *)
            let '(s1, _) := bracket (Some a) (fun s' => (s', Ok tt)) s in
            (* `with change_to_path_dir(cfg_path): parser._apply_actions(cfg, ...)` *)
            bracket (Some a) (seq_nodes run_node body) s1
        end
    | NListFile yaml_ok given body =>
        (* _check_type with enable_path: parse_value_or_config takes the list file for a config file
           (Path(value, "fr") against the cwd) and loads it as YAML, which gives one folded string; *)
        match open_fr s given with
        | Err => (s, Err)        (* no such file: the string is not a list -> ValueError, twice *)
        | Ok (_, a) =>
            if yaml_ok then
              let '(s1, _) := bracket (Some a) (fun s' => (s', Ok tt)) s in
              (* `with change_to_path_dir(config_path): adapt_typehints(val, ...)`: a string, not a list *)
              let '(s2, _) := bracket (Some a) (fun s' => (s', @Err unit)) s1 in
              (* except ValueError: `with change_to_path_dir(config_path): adapt_typehints(orig_val, ...)`:
                 the ORIGINAL spelling is looked up again — now from inside the list file's directory —
                 and every line is adapted inside `with change_to_path_dir(list_path)`.
                 Repaired (fx_lf): the fallback runs without `with change_to_path_dir(config_path)`. *)
              let fallback := fun s' =>
                match open_fr s' given with
                | Err => (s', Err)
                | Ok (_, a2) => each_in_bracket run_node a2 body s'
                end in
              if fx_lf fxs then fallback s2 else bracket (Some a) fallback s2
            else
              (* the loader raises inside `with cfg_path.relative_path_context()`: config_path = None and the
                 value stays the spelling; `with change_to_path_dir(None): adapt_typehints(val, ...)` then
                 reads the list file (Path(val, "fr") against the cwd) and adapts every line in its directory *)
              let '(s1, _) := bracket (Some a) (fun s' => (s', @Err unit)) s in
              bracket None (fun s' =>
                match open_fr s' given with
                | Err => (s', Err)
                | Ok (_, a2) => each_in_bracket run_node a2 body s'
                end) s1
        end
    | NInline body => bracket None (seq_nodes run_node body) s
    | NBad => (s, Err)
    end.

  (* parse_path / ActionConfigFile.apply_config / get_defaults: Path(top, "fr") then
     `with change_to_path_dir(fpath): parse_string(...)` *)
  Definition run_top (s : st) (top : str) (body : list node) : st * res (list item) :=
    match open_fr s top with
    | Err => (s, Err)
    | Ok (_, a) => bracket (Some a) (seq_nodes run_node body) s
    end.
End Run.

(* C20 — restricted_string_type: validation_fn is `cls._regex.match(v)` (a match at the start of
   v, not a full match), then the value is cast with str(v). None = raises. *)
From JV Require Import Lib.Base Lib.C20Regex Model.C20Base.

Definition construct_str (p : pat) (v : pyval) : option str :=
  match v with
  | PStr s => if re_match p s then Some s else None
  | _ => None                       (* re.match on a non-str raises TypeError *)
  end.

Lemma construct_str_exact p v s' :
  construct_str p v = Some s' <-> exists s, v = PStr s /\ s' = s /\ pat_accepts p s.
Proof.
  unfold construct_str. destruct v; try (split; [discriminate | intros [x [E _]]; discriminate]).
  destruct (re_match p s) eqn:E.
  - apply re_match_iff in E. split.
    + intros H. inversion H; subst. eauto.
    + intros [x [E1 [E2 _]]]. inversion E1; subst. reflexivity.
  - split; [discriminate|]. intros [x [E1 [E2 H]]]. inversion E1; subst.
    apply re_match_iff in H. congruence.
Qed.

(* ---- extend_base_type's registry for string types ---------------------------------------------
   The tree as it was: register_key = ("matching " + regex.pattern, str) — the pattern TEXT only (kf = false);
   with fixes/C20-string-type-key-ignores-flags.patch: ("matching " + regex.pattern, regex.flags, str)
   (kf = true; which one the source has is read by the translator into Gen/C20Registry.v).
   extend_base_type: a key already registered gives the type made first back when the names agree and
   ValueError when they differ; add_type: a new key under a name already in use is a ValueError too.
   The registry maps the key to (name, compiled pattern of the first creation). `compile text flags` is
   re.compile — external. *)

(* decidable equality of compiled patterns (for the guard) *)
Definition cr_eqb (a b : N * N) : bool := N.eqb (fst a) (fst b) && N.eqb (snd a) (snd b).
Fixpoint rx_eqb (a b : rx) : bool :=
  match a, b with
  | REmp, REmp | REps, REps => true
  | RCls r1 n1, RCls r2 n2 => list_eqb cr_eqb r1 r2 && Bool.eqb n1 n2
  | RCat a1 a2, RCat b1 b2 | RAlt a1 a2, RAlt b1 b2 => rx_eqb a1 b1 && rx_eqb a2 b2
  | RStar a1, RStar b1 => rx_eqb a1 b1
  | _, _ => false
  end.
Definition pat_eqb (p q : pat) : bool :=
  rx_eqb (p_body p) (p_body q) && Bool.eqb (p_end p) (p_end q) && Bool.eqb (p_multi p) (p_multi q).

Lemma cr_eqb_spec a b : cr_eqb a b = true <-> a = b.
Proof.
  destruct a as [a1 a2], b as [b1 b2]. unfold cr_eqb. simpl. rewrite andb_true_iff, !N.eqb_eq. split.
  - intros [-> ->]. reflexivity.
  - intros E. inversion E. auto.
Qed.

Lemma rx_eqb_sound a : forall b, rx_eqb a b = true -> a = b.
Proof.
  induction a; destruct b; simpl; intros H; try discriminate; auto.
  - apply andb_true_iff in H. destruct H as [H1 H2].
    apply (list_eqb_spec cr_eqb cr_eqb_spec) in H1. apply Bool.eqb_prop in H2. congruence.
  - apply andb_true_iff in H. destruct H as [H1 H2]. f_equal; auto.
  - apply andb_true_iff in H. destruct H as [H1 H2]. f_equal; auto.
  - f_equal; auto.
Qed.

Lemma rx_eqb_refl a : rx_eqb a a = true.
Proof.
  induction a; simpl; auto.
  - rewrite Bool.eqb_reflx, andb_true_r. apply (list_eqb_spec cr_eqb cr_eqb_spec). reflexivity.
  - rewrite IHa1, IHa2. reflexivity.
  - rewrite IHa1, IHa2. reflexivity.
Qed.

Lemma pat_eqb_sound p q : pat_eqb p q = true -> p = q.
Proof.
  destruct p, q. unfold pat_eqb. simpl. intros H.
  apply andb_true_iff in H. destruct H as [H H3]. apply andb_true_iff in H. destruct H as [H1 H2].
  apply rx_eqb_sound in H1. apply Bool.eqb_prop in H2. apply Bool.eqb_prop in H3. congruence.
Qed.

Lemma pat_eqb_refl p : pat_eqb p p = true.
Proof. unfold pat_eqb. rewrite rx_eqb_refl, !Bool.eqb_reflx. reflexivity. Qed.

Definition skey := (str * str)%type.
Definition skey_eqb (a b : skey) : bool := str_eqb (fst a) (fst b) && str_eqb (snd a) (snd b).
Definition str_registry := list (skey * (str * pat)).

Fixpoint reg_find (reg : str_registry) (k : skey) : option (str * pat) :=
  match reg with
  | [] => None
  | (k', t) :: reg' => if skey_eqb k' k then Some t else reg_find reg' k
  end.

Definition name_used (reg : str_registry) (name : str) : bool :=
  existsb (fun e => str_eqb (fst (snd e)) name) reg.

Section StrRegistry.
  Variable compile : str -> str -> pat.
  Variable kf : bool.

  Definition key_of (text flags : str) : skey := (text, if kf then flags else []).

  (* None = ValueError *)
  Definition create_str (reg : str_registry) (name text flags : str) : option pat * str_registry :=
    match reg_find reg (key_of text flags) with
    | Some (n, p0) => if str_eqb n name then (Some p0, reg) else (None, reg)
    | None =>
        if name_used reg name then (None, reg)
        else (Some (compile text flags), (key_of text flags, (name, compile text flags)) :: reg)
    end.

  (* the guard: the key is new, or it was registered with this very compiled pattern *)
  Definition str_key_guard (reg : str_registry) (text flags : str) : bool :=
    match reg_find reg (key_of text flags) with Some (_, p0) => pat_eqb p0 (compile text flags) | None => true end.

  Lemma create_str_guarded reg name text flags t reg' :
    str_key_guard reg text flags = true -> create_str reg name text flags = (Some t, reg') ->
    forall v, construct_str t v = construct_str (compile text flags) v.
  Proof.
    unfold str_key_guard, create_str. destruct (reg_find reg (key_of text flags)) as [[n p0]|].
    - intros G. apply pat_eqb_sound in G. subst. destruct (str_eqb n name); intros H; inversion H; subst; auto.
    - intros _. destruct (name_used reg name); intros H; inversion H; subst. auto.
  Qed.

  (* every entry holds the compilation of its own key *)
  Definition reg_wf (reg : str_registry) : Prop :=
    forall k n p, In (k, (n, p)) reg -> p = compile (fst k) (snd k).

  Lemma reg_find_in reg k n p : reg_find reg k = Some (n, p) -> exists k', In (k', (n, p)) reg /\ skey_eqb k' k = true.
  Proof.
    induction reg as [|[k' t] reg IH]; simpl; [discriminate|].
    destruct (skey_eqb k' k) eqn:E.
    - intros H. inversion H; subst. exists k'. auto.
    - intros H. destruct (IH H) as [k2 [I E2]]. exists k2. auto.
  Qed.

  Lemma skey_eqb_eq a b : skey_eqb a b = true -> a = b.
  Proof.
    destruct a, b. unfold skey_eqb. simpl. intros H. apply andb_true_iff in H. destruct H as [H1 H2].
    apply str_eqb_spec in H1. apply str_eqb_spec in H2. congruence.
  Qed.

  Lemma wf_guard reg text flags : kf = true -> reg_wf reg -> str_key_guard reg text flags = true.
  Proof.
    intros K W. unfold str_key_guard. destruct (reg_find reg (key_of text flags)) as [[n p0]|] eqn:E; auto.
    apply reg_find_in in E. destruct E as [k' [I E]]. apply skey_eqb_eq in E. subst k'.
    apply W in I. unfold key_of in I. rewrite K in I. simpl in I. subst. apply pat_eqb_refl.
  Qed.

  Lemma create_str_wf reg name text flags r reg' :
    kf = true -> reg_wf reg -> create_str reg name text flags = (r, reg') -> reg_wf reg'.
  Proof.
    intros K W. unfold create_str. destruct (reg_find reg (key_of text flags)) as [[n p0]|].
    - destruct (str_eqb n name); intros H; inversion H; subst; auto.
    - destruct (name_used reg name); intros H; inversion H; subst; auto.
      intros k n p [I|I]; [| eapply W; eauto].
      inversion I; subst. unfold key_of. rewrite K. reflexivity.
  Qed.

  (* with the flags in the key, no guard is needed *)
  Lemma create_str_flags_in_key reg name text flags t reg' :
    kf = true -> reg_wf reg -> create_str reg name text flags = (Some t, reg') ->
    (forall v, construct_str t v = construct_str (compile text flags) v) /\ reg_wf reg'.
  Proof.
    intros K W H. split.
    - eapply create_str_guarded; eauto. apply wf_guard; auto.
    - eapply create_str_wf; eauto.
  Qed.
End StrRegistry.

(* C20 — restricted_string_type: validation_fn is `cls._regex.match(v)` (a match at the start of
   v, not a full match), then the value is cast with str(v). None = raises. *)
From JV Require Import Lib.Base Lib.C20Regex Model.C20Base.

Definition construct_str (p : pat) (v : pyval) : option str :=
  match v with
  | PStr s => if re_match p s then Some s else None
  | _ => None                       (* re.match on a non-str raises TypeError *)
  end.

Lemma construct_str_exact p v s' :
  construct_str p v = Some s' <-> exists s, v = PStr s /\ s' = s /\ pat_accepts p s.
Proof.
  unfold construct_str. destruct v; try (split; [discriminate | intros [x [E _]]; discriminate]).
  destruct (re_match p s) eqn:E.
  - apply re_match_iff in E. split.
    + intros H. inversion H; subst. eauto.
    + intros [x [E1 [E2 _]]]. inversion E1; subst. reflexivity.
  - split; [discriminate|]. intros [x [E1 [E2 H]]]. inversion E1; subst.
    apply re_match_iff in H. congruence.
Qed.

(* Histories over a Namespace: operations, outputs, and the model's step function. *)
From JV Require Import Lib.Base Model.Ns.

Inductive op :=
| OSet (k : str) (v : val)                         (* ns[k] = v *)
| OSetAttr (k : str) (v : val)                     (* setattr(ns, k, v) *)
| OGet (k : str)                                   (* ns[k] *)
| OGetD (k : str) (dflt : val)                     (* ns.get(k, dflt) *)
| OContains (k : str)                              (* k in ns *)
| ODel (k : str)                                   (* del ns[k] *)
| OPop (k : str) (dflt : val)                      (* ns.pop(k, dflt) *)
| OUpdV (v : val) (k : option str) (only_unset : bool)   (* ns.update(v, k, only_unset), v not a Namespace *)
| OUpdNs (src : val) (k : option str) (only_unset : bool) (* ns.update(src, k, only_unset), src a Namespace *)
| OClone                                           (* c = ns.clone(): c == ns, no shared mutable node *)
| OItems (branches : bool)                         (* list(ns.items(branches)); keys()/values() are its projections *)
| OAsDict                                          (* ns.as_dict() *)
| OInitDict (d : val)                              (* ns = Namespace(d), d a dict *)
| OGetSteps (k : str)                              (* ns[s1][s2]...[sn] for k = s1.s2.....sn: step-by-step reading *)
| OEq (v : val)                                    (* ns == v (and v == ns, not (ns != v)), v a Namespace or anything else *)
| OFromDict (d : val).                             (* ns = dict_to_namespace(d), d a dict *)

Inductive out :=
| OutUnit
| OutFail
| OutVal (v : val)
| OutBool (b : bool)
| OutItems (l : list (str * val)).

Section WithClash.
Variable clash : list str.

Definition meets_dict (key : str) (root : alist) : bool :=
  match parse_key clash key with
  | Some ks => walk_meets_dict (removelast ks) (VNs root)
  | None => false
  end.

(* (output, new state, "the addressed path met a dict-valued leaf") *)
Definition step_model (root : alist) (o : op) : out * alist * bool :=
  match o with
  | OSet k v =>
      match ns_setitem clash k v root with
      | Ok r => (OutUnit, r, meets_dict k root)
      | Fail => (OutFail, root, meets_dict k root)
      end
  | OSetAttr k v =>
      match ns_setattr clash k v root with
      | Ok r => (OutUnit, r, meets_dict k root)
      | Fail => (OutFail, root, meets_dict k root)
      end
  | OGet k =>
      match ns_getitem clash k root with
      | Ok v => (OutVal v, root, meets_dict k root)
      | Fail => (OutFail, root, meets_dict k root)
      end
  | OGetD k dflt => (OutVal (ns_get clash k dflt root), root, meets_dict k root)
  | OContains k => (OutBool (ns_contains clash k root), root, meets_dict k root)
  | ODel k =>
      match ns_delitem clash k root with
      | Ok r => (OutUnit, r, meets_dict k root)
      | Fail => (OutFail, root, meets_dict k root)
      end
  | OPop k dflt =>
      match ns_pop clash k dflt root with
      | Ok (v, r) => (OutVal v, r, meets_dict k root)
      | Fail => (OutFail, root, meets_dict k root)
      end
  | OUpdV v k ou =>
      let md := match k with Some k' => meets_dict k' root | None => false end in
      match ns_update_value clash v k ou root with
      | Ok r => (OutUnit, r, md)
      | Fail => (OutFail, root, md)
      end
  | OUpdNs src k ou =>
      match src with
      | VNs sd =>
          let prefix := match k with Some (c :: k') => (c :: k') ++ [DOT] | _ => [] end in
          (* same fold as ns_update_ns, also recording whether any addressed path met a dict;
             a failure midway leaves the items already set (the code has no rollback) *)
          let '(r, failed, md) :=
            fold_left (fun (acc : alist * bool * bool) (kv : str * val) =>
              let '(r, failed, md) := acc in
              if failed then acc else
              let key := prefix ++ fst kv in
              let md' := md || meets_dict key r in
              if ou && ns_contains clash key r then (r, false, md')
              else match ns_setitem clash key (snd kv) r with
                   | Ok r' => (r', false, md')
                   | Fail => (r, true, md')
                   end) (ns_items false sd) (root, false, false) in
          (if failed then OutFail else OutUnit, r, md)
      | _ => (OutFail, root, false)
      end
  | OClone => (OutBool true, root, false)
  | OItems br => (OutItems (ns_items br root), root, false)
  | OAsDict => (OutVal (ns_as_dict root), root, false)
  | OInitDict d =>
      match d with
      | VDict dd =>
          let '(r, failed, md) :=
            fold_left (fun (acc : alist * bool * bool) (kv : str * val) =>
              let '(r, failed, md) := acc in
              if failed then acc else
              let md' := md || meets_dict (fst kv) r in
              match ns_setitem clash (fst kv) (snd kv) r with
              | Ok r' => (r', false, md')
              | Fail => (r, true, md')
              end) dd ([], false, false) in
          if failed then (OutFail, root, md) else (OutUnit, r, md)
      | _ => (OutFail, root, false)
      end
  | OGetSteps k =>
      match ns_get_steps clash k root with
      | Ok v => (OutVal v, root, meets_dict k root)
      | Fail => (OutFail, root, meets_dict k root)
      end
  | OEq v => (OutBool (py_eq (VNs root) v), root, false)
  | OFromDict d =>
      match ns_from_dict clash d with
      | Ok r => (OutUnit, r, false)
      | Fail => (OutFail, root, false)
      end
  end.

Fixpoint run_model (root : alist) (ops : list op) : list (out * alist) * bool :=
  match ops with
  | [] => ([], false)
  | o :: ops' =>
      let '(ou, r, md) := step_model root o in
      let '(rest, md') := run_model r ops' in
      ((ou, r) :: rest, md || md')
  end.

End WithClash.

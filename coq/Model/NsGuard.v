(* C11: the hypotheses of the refinement theorem as ONE executable classifier of histories.
   hist_class clash ops = 0 is, literally, the hypothesis of Properties/C11.v:ns_refines_dict, and the
   judge (Corr/C11Judge.v) uses the same function for v_class. *)
From JV Require Import Lib.Base Model.Ns Model.NsRun.

(* a user-visible name: does not start with the zero-width clash mark U+200B *)
Definition good (u : str) : bool :=
  match u with c :: _ => negb (N.eqb c ZW) | [] => true end.

(* every dot-separated segment of a key is a user-visible name *)
Definition wf_key (key : str) : bool := forallb good (split_key key).

(* no Namespace anywhere inside (a "leaf" value: scalar, list, tuple, dict of such) *)
Fixpoint ns_free (v : val) : bool :=
  match v with
  | VNs _ => false
  | VList l | VTup l => forallb ns_free l
  | VDict d => forallb (fun kv => ns_free (snd kv)) d
  | _ => true
  end.

(* plain: Namespaces only above leaves, never below a list / tuple / dict *)
Fixpoint plain (v : val) : bool :=
  match v with
  | VNs d => forallb (fun kv => plain (snd kv)) d
  | x => ns_free x
  end.

Section WithClash.
Variable clash : list str.

(* a stored attribute name is what add_clash_mark makes of a user-visible name *)
Definition stored_ok (k : str) : bool := good (unmark k) && str_eqb (mark clash (unmark k)) k.

(* a value in stored form, as setattr builds it: every Namespace reachable through Namespaces only
   has stored_ok attribute names (Namespaces hidden below a list/tuple/dict are not constrained) *)
Fixpoint wf_val (v : val) : bool :=
  match v with
  | VNs d => forallb (fun kv => stored_ok (fst kv) && wf_val (snd kv)) d
  | _ => true
  end.

Definition wf_okey (k : option str) : bool := match k with Some k' => wf_key k' | None => true end.

Definition wf_op (o : op) : bool :=
  match o with
  | OSet k v => wf_key k && wf_val v
  | OSetAttr k v =>
      (* setattr with a name that has no "." stores it unchecked (even "" or "a b"): such names are
         not keys of a nested mapping at all and are excluded *)
      wf_key k && wf_val v && (mem_N DOT k || (negb (mem_N SPACE k) && negb (is_empty k)))
  | OGet k | OContains k | ODel k => wf_key k
  | OGetD k _ | OPop k _ => wf_key k
  | OUpdV v k _ => wf_val v && wf_okey k
  | OUpdNs src k _ => wf_val src && plain src && wf_okey k
  | OClone | OItems _ => true
  | OAsDict => true
  | OInitDict d =>
      match d with
      | VDict dd => forallb (fun kv => wf_key (fst kv) && wf_val (snd kv)) dd
      | _ => true
      end
  | OGetSteps k => wf_key k
  | OEq v => wf_val v
  | OFromDict _ => true
  end.

(* operations covered by the proved refinement *)
Definition core_op (o : op) : bool :=
  match o with
  | OSet _ _ | OSetAttr _ _ | OGet _ | OGetD _ _ | OContains _ | ODel _ | OPop _ _ | OUpdV _ _ _
  | OClone | OItems _ | OAsDict => true
  | OUpdNs _ _ _ | OInitDict _ | OGetSteps _ | OEq _ | OFromDict _ => false
  end.

(* 0 = inside the theorem; 1 = some addressed path met a dict-valued leaf (the known finding);
   2 = ill-formed key or value; 3 = an operation outside the proved core *)
Definition hist_class (ops : list op) : N :=
  if snd (run_model clash [] ops) then 1%N
  else if negb (forallb wf_op ops) then 2%N
  else if negb (forallb core_op ops) then 3%N
  else 0%N.

End WithClash.

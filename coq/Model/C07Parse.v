(* C07 — table-driven model of what a parser built from an action table does with one input:
   defaults -> environment (default_env=True, env_prefix="APP") -> argv / object / config string ->
   validation (check_values, check_required) -> dump (skip_none).  Written in the shape of
   jsonargparse/_core.py (parse_args 410-472, parse_object 474-521, parse_string 636-687, _load_env_vars 523-551,
   get_defaults 998-1052, validate 1070-1155, _apply_actions 1319-1379, merge_config 1381-1397,
   _check_value_key 1399-1440, dump 754-833), _actions.py (_find_action 48-90, _is_branch_key 37-45,
   ActionConfigFile.apply_config 190-212, _ActionConfigLoad 301-338), _typehints.py (ActionTypeHint.__call__
   521-552, _check_type 554-611, adapt_typehints for the leaf / Union / List branches) and argparse's
   _parse_optional / _get_option_tuples (exact match, then unique-prefix match over ALL option strings).

   The parser always has  --cfg (ActionConfigFile), -h/--help and --print_config ; the table only holds the
   group's actions.  The top-level key "cfg" of the result is not modelled (same in all styles).

   External functions (Section variables, observed from the implementation in the correspondence run):
     pv : parse_value_or_config(text, enable_path=False)[0] — None / list / dict are loaded, every other
          text comes back unchanged (as VStr text)
     jl : json_or_yaml_load(text) — the scalar a text stands for *)
From JV Require Import Lib.Base Model.C07Decl.

Fixpoint lookup {A} (k : str) (l : list (str * A)) : option A :=
  match l with
  | [] => None
  | kx :: l' => if str_eqb k (fst kx) then Some (snd kx) else lookup k l'
  end.

(* dict / Namespace item assignment: replace in place or append *)
Fixpoint upsert {A} (k : str) (x : A) (l : list (str * A)) : list (str * A) :=
  match l with
  | [] => [(k, x)]
  | kx :: l' => if str_eqb k (fst kx) then (k, x) :: l' else kx :: upsert k x l'
  end.

Fixpoint remove_key {A} (k : str) (l : list (str * A)) : list (str * A) :=
  match l with
  | [] => []
  | kx :: l' => if str_eqb k (fst kx) then l' else kx :: remove_key k l'
  end.

(* s.startswith(p) *)
Fixpoint starts_with (s p : str) : bool :=
  match p, s with
  | [], _ => true
  | c :: p', d :: s' => N.eqb c d && starts_with s' p'
  | _ :: _, [] => false
  end.

Fixpoint map_opt {A B} (f : A -> option B) (l : list A) : option (list B) :=
  match l with
  | [] => Some []
  | x :: l' => match f x with
               | Some y => match map_opt f l' with Some r => Some (y :: r) | None => None end
               | None => None
               end
  end.

Definition is_some {A} (o : option A) : bool := match o with Some _ => true | None => false end.

(* ---- the result namespace: top-level keys holding a value or one nested namespace ---- *)
Inductive tv := TLeaf (v : val) | TNs (l : list (str * val)).
Definition ns := list (str * tv).

(* split a dotted key at its first '.' *)
Fixpoint split_key (s : str) : str * option str :=
  match s with
  | [] => ([], None)
  | c :: s' => if N.eqb c c_dot then ([], Some s')
               else (c :: fst (split_key s'), snd (split_key s'))
  end.

Definition set_leaf (c : ns) (g f : str) (v : val) : ns :=
  match lookup g c with
  | Some (TNs l) => upsert g (TNs (upsert f v l)) c
  | _ => upsert g (TNs [(f, v)]) c      (* absent, or a non-namespace value replaced by a fresh branch *)
  end.

(* cfg[dest] = v *)
Definition set_key (c : ns) (dest : str) (v : val) : ns :=
  match snd (split_key dest) with
  | Some f => set_leaf c (fst (split_key dest)) f v
  | None => upsert dest (TLeaf v) c
  end.

(* cfg.get(dest)  (None when absent) *)
Definition get_key (c : ns) (dest : str) : val :=
  match snd (split_key dest) with
  | Some f => match lookup (fst (split_key dest)) c with
              | Some (TNs l) => match lookup f l with Some v => v | None => VNone end
              | _ => VNone
              end
  | None => match lookup dest c with Some (TLeaf v) => v | _ => VNone end
  end.

(* cfg_to.update(cfg_from): every leaf of cfg_from is assigned into cfg_to *)
Definition update (c_to c_from : ns) : ns :=
  fold_left (fun c kx =>
               match snd kx with
               | TLeaf v => upsert (fst kx) (TLeaf v) c
               | TNs l => fold_left (fun c' fv => set_leaf c' (fst kx) (fst fv) (snd fv)) l c
               end) c_from c_to.

Inductive res (A : Type) := Ok (a : A) | Reject | Exited.
Arguments Ok {A} a. Arguments Reject {A}. Arguments Exited {A}.

Definition bind {A B} (r : res A) (f : A -> res B) : res B :=
  match r with Ok a => f a | Reject => Reject | Exited => Exited end.

Definition of_opt {A} (o : option A) : res A := match o with Some a => Ok a | None => Reject end.

Inductive entry :=
| EArgs (items : list (str * str))      (* parse_args(["opt=value", ...]) — (option string, explicit value) *)
| EObject (d : list (str * val))        (* parse_object(dict) *)
| EString (text : str).                 (* parse_string(text) *)
Record input := { i_env : list (str * str); i_entry : entry }.

Definition s_cfg : str := [45;45;99;102;103]%N.                       (* --cfg *)
Definition s_h : str := [45;104]%N.                                     (* -h *)
Definition s_help : str := [45;45;104;101;108;112]%N.                   (* --help *)
Definition s_print_config : str := [45;45;112;114;105;110;116;95;99;111;110;102;105;103]%N.  (* --print_config *)
Definition builtin_opts : list str := [s_h; s_help; s_cfg; s_print_config].
Definition env_prefix : str := [65;80;80;95]%N.                         (* APP_ *)
Definition env_cfg : str := [65;80;80;95;67;70;71]%N.                   (* APP_CFG *)

Definition upper (s : str) : str :=
  map (fun c => if (N.leb 97 c && N.leb c 122)%bool then (c - 32)%N else c) s.
Fixpoint dunder (s : str) : str :=
  match s with
  | [] => []
  | c :: s' => if N.eqb c c_dot then c_us :: c_us :: dunder s' else c :: dunder s'
  end.
(* get_env_var: (env_prefix + "_" + dest).replace(".", "__").upper() *)
Definition env_name (dest : str) : str := upper (dunder (env_prefix ++ dest)).

Section Parse.
Variable pv : str -> val.
Variable jl : str -> val.

(* ---------------- type adaptation (small grammar) ---------------- *)
Definition scalar_load (v : val) : val := match v with VStr s => jl s | x => x end.
Definition is_list_ty (t : ty) : bool := match t with TList _ => true | _ => false end.

(* adapt_typehints(v, t, append=app, prev_val=prev, orig_val=orig) *)
Fixpoint adapt (t : ty) (app : bool) (prev orig v : val) {struct t} : option val :=
  match t with
  | TInt => match scalar_load v with VInt z => Some (VInt z) | _ => None end
  | TBool => match scalar_load v with VBool b => Some (VBool b) | _ => None end
  | TStr => match v with VStr _ => Some v | _ => None end
  | TList t' =>
      let items :=
        if app then
          let p := match prev with
                   | VNone => []
                   | VList l => l
                   | x => match adapt t' app VNone orig x with Some y => [y] | None => [] end
                   end in
          Some (p ++ match v with VList l => l | x => [x] end)
        else match v with VList l => Some l | _ => None end in
      match items with
      | Some l => option_map VList (map_opt (adapt t' app VNone orig) l)
      | None => None
      end
  | TOpt t' =>
      let try_none := match scalar_load v with VNone => Some VNone | _ => None end in
      let try_t := match adapt t' app prev orig v with
                   | Some r => Some r
                   | None =>   (* "subtype is str and not isinstance(val, str) and isinstance(orig_val, str)" *)
                       match t', v, orig with
                       | TStr, VStr _, _ => None
                       | TStr, _, VStr _ => Some orig
                       | _, _, _ => None
                       end
                   end in
      if app && is_list_ty t'
      then match try_t with Some r => Some r | None => try_none end     (* sort_subtypes_for_union, append *)
      else match try_none with Some r => Some r | None => try_t end
  end.

Definition is_valid_string (t : ty) (v : val) : bool :=
  match v, t with
  | VStr _, TStr => true
  | VStr _, TOpt TStr => true
  | _, _ => false
  end.

(* ActionTypeHint._check_type for one value *)
Definition check_type (t : ty) (app : bool) (prev v : val) : option val :=
  let loaded := match v with VStr s => pv s | x => x end in
  match adapt t app prev v loaded with
  | Some r => Some r
  | None =>
      match (match v with VStr _ => adapt t app prev v v | _ => None end) with
      | Some r => Some r
      | None => if is_valid_string t loaded then Some loaded else None
      end
  end.

(* ---------------- table access ---------------- *)
Definition is_load (r : row) : bool := match r_kind r with KGroupLoad => true | KLeaf => false end.

(* _find_action(parser, dest, exclude=_ActionConfigLoad if exclude_load) *)
Definition find_action (T : table) (dest : str) (exclude_load : bool) : option row :=
  match find (fun r => str_eqb (r_dest r) dest && negb (is_load r)) (t_rows T) with
  | Some r => Some r
  | None => if exclude_load then None
            else find (fun r => str_eqb (r_dest r) dest && is_load r) (t_rows T)
  end.

Definition is_branch_key (T : table) (key : str) : bool :=
  existsb (fun r => starts_with (r_dest r) (key ++ [c_dot])) (t_rows T).

(* _check_value_key for a leaf action *)
Definition check_leaf (r : row) (lenient : bool) (prev v : val) : option val :=
  if lenient && is_none v then Some v
  else match r_ty r with Some t => check_type t false prev v | None => Some v end.

Definition dict_to_items (l : list (str * val)) : list (str * val) :=
  fold_left (fun acc fv => upsert (fst fv) (snd fv) acc) l [].

(* _apply_actions: an EMPTY mapping for a key that is neither an action nor a prefix of one is rejected
   (_core.py:1386-1388; the escape "key in self.groups" is not modelled: see ASSUMPTIONS) *)
Definition empty_ok (T : table) (key : str) (l : list (str * val)) : bool :=
  negb (is_nil l) || is_some (find_action T key false) || is_branch_key T key.

(* a child of a mapping: a leaf action type-checks it (lenient), anything else is kept for validation *)
Definition apply_child (T : table) (key : str) (name : str) (v : val) : option (str * val) :=
  match find_action T key false with
  | Some r => if is_load r then Some (name, v)
              else option_map (fun v' => (name, v')) (check_leaf r true VNone v)
  | None => Some (name, v)
  end.

(* _apply_actions below a group key g.  A child that is no leaf action and holds a mapping (a nested sub-group,
   given as a mapping) contributes ITS children, with their dotted paths (one more level is modelled). *)
Definition apply_children (T : table) (key name : str) (l : list (str * val)) : option (list (str * val)) :=
  map_opt (fun kw => apply_child T (key ++ [c_dot] ++ fst kw) (name ++ [c_dot] ++ fst kw) (snd kw)) (dict_to_items l).

Definition apply_below (T : table) (key : str) (fv : str * val) : option (list (str * val)) :=
  match snd fv with
  | VDict l => if empty_ok T key l then apply_children T key (fst fv) l else None
  | _ => Some [fv]
  end.

Definition apply_item (T : table) (g : str) (fv : str * val) : option (list (str * val)) :=
  let key := g ++ [c_dot] ++ fst fv in
  match find_action T key false with
  | Some r => if is_load r
              then match snd fv with
                   | VStr s => match pv s with                       (* a string is loaded as the sub-group's config *)
                               | VDict l => apply_children T key (fst fv) l
                               | _ => None
                               end
                   | _ => apply_below T key fv
                   end
              else option_map (fun v' => [(fst fv, v')]) (check_leaf r true VNone (snd fv))
  | None => apply_below T key fv
  end.

Definition apply_group (T : table) (g : str) (l : list (str * val)) : option (list (str * val)) :=
  option_map (@concat _) (map_opt (apply_item T g) (dict_to_items l)).

(* _ActionConfigLoad._load_config *)
Definition load_config (T : table) (g : str) (text : str) : option (list (str * val)) :=
  match pv text with VDict l => apply_group T g l | _ => None end.

Definition expand (T : table) (k : str) (x : val) : option tv :=
  match x with
  | VDict l => if empty_ok T k l then option_map TNs (apply_group T k l) else None
  | y => Some (TLeaf y)
  end.

(* one top-level key of a config dict in _apply_actions *)
Definition apply_top (T : table) (k : str) (v : val) : option tv :=
  match find_action T k false with
  | Some r =>
      if is_load r then
        match v with
        | VStr s => option_map TNs (load_config T k s)   (* a string for the group key is loaded as a config *)
        | x => expand T k x                                (* anything else: key revisited without the load action *)
        end
      else option_map TLeaf (check_leaf r true VNone v)
  | None => expand T k v
  end.

(* Namespace(dict): a dotted key "g.f" is stored below g *)
Definition norm_dict (d : list (str * val)) : list (str * val) :=
  fold_left (fun acc kv =>
               match snd (split_key (fst kv)) with
               | Some f =>
                   let g := fst (split_key (fst kv)) in
                   match lookup g acc with
                   | Some (VDict l) => upsert g (VDict (upsert f (snd kv) l)) acc
                   | _ => upsert g (VDict [(f, snd kv)]) acc
                   end
               | None => upsert (fst kv) (snd kv) acc
               end) d [].

Definition apply_actions (T : table) (d : list (str * val)) : option ns :=
  map_opt (fun kv => option_map (fun x => (fst kv, x)) (apply_top T (fst kv) (snd kv))) (norm_dict d).

(* ActionConfigFile.apply_config with a config STRING (assumed not to name an existing file):
   parse_string(value, env=False, defaults=False, _skip_validation=True), then merge_config into cfg *)
Definition apply_config (T : table) (c : ns) (text : str) : res ns :=
  match pv text with
  | VDict d => match apply_actions T d with Some cf => Ok (update c cf) | None => Reject end
  | _ => Reject
  end.

(* the leaves below a sub-group key, in the flattened namespace of the group *)
Definition below_sub (sub : str) (kv : str * val) : bool :=
  starts_with (fst kv) (sub ++ [c_dot]) || str_eqb (fst kv) sub.

(* _ActionConfigLoad.__call__: namespace[dest] = loaded value merged over what is there; dest is the group key
   or, for a nested sub-group, "g.sub" (its leaves live in g's namespace under their dotted paths) *)
Definition group_call (c : ns) (dest : str) (l : list (str * val)) : ns :=
  match snd (split_key dest) with
  | None =>
      match lookup dest c with
      | Some (TNs old) => upsert dest (TNs (fold_left (fun acc fv => upsert (fst fv) (snd fv) acc) l old)) c
      | _ => upsert dest (TNs l) c
      end
  | Some sub =>
      fold_left (fun c' fv => set_leaf c' (fst (split_key dest)) (sub ++ [c_dot] ++ fst fv) (snd fv)) l c
  end.

(* _load_env_vars: cfg[action.dest] = loaded value (replaces what is there) *)
Definition env_group_set (c : ns) (dest : str) (l : list (str * val)) : ns :=
  match snd (split_key dest) with
  | None => upsert dest (TNs l) c
  | Some sub =>
      let g := fst (split_key dest) in
      let c0 := match lookup g c with
                | Some (TNs old) => upsert g (TNs (filter (fun kv => negb (below_sub sub kv)) old)) c
                | _ => c
                end in
      fold_left (fun c' fv => set_leaf c' g (sub ++ [c_dot] ++ fst fv) (snd fv)) l c0
  end.

(* ---------------- defaults and environment ---------------- *)
Definition get_defaults (T : table) : ns :=
  fold_left (fun c r => match r_default r with AVal v => set_key c (r_dest r) v | ASuppress => c end) (t_rows T) [].

Definition env_step (T : table) (env : list (str * str)) (rc : res ns) (r : row) : res ns :=
  bind rc (fun c =>
    match lookup (env_name (r_dest r)) env with
    | None => Ok c
    | Some text =>
        if is_load r then
          match load_config T (r_dest r) text with
          | Some l => Ok (env_group_set c (r_dest r) l)
          | None => Reject
          end
        else match check_leaf r false (get_key c (r_dest r)) (VStr text) with
             | Some v => Ok (set_key c (r_dest r) v)
             | None => Reject
             end
    end).

Definition load_env_vars (T : table) (env : list (str * str)) : res ns :=
  let c0 := match lookup env_cfg env with Some text => apply_config T [] text | None => Ok [] end in
  fold_left (env_step T env) (t_rows T) c0.

Definition defaults_and_environ (T : table) (env : list (str * str)) : res ns :=
  bind (load_env_vars T env) (fun ce => Ok (update (get_defaults T) ce)).

(* ---------------- argv ---------------- *)
Definition all_opts (T : table) : list str := builtin_opts ++ flat_map r_opts (t_rows T).

Inductive resolved := Found (o : str) | Ambiguous | Unknown.

(* argparse _parse_optional for "opt=value": exact option string, else the unique option string that
   starts with opt (allow_abbrev), counting option strings, not actions *)
Definition resolve_opt (T : table) (opt : str) : resolved :=
  if mem_str opt (all_opts T) then Found opt
  else match filter (fun o => starts_with o opt) (all_opts T) with
       | [o] => Found o
       | [] => Unknown
       | _ => Ambiguous
       end.

Definition argv_step (T : table) (rc : res ns) (item : str * str) : res ns :=
  bind rc (fun c =>
    match resolve_opt T (fst item) with
    | Found o =>
        if str_eqb o s_cfg then apply_config T c (snd item)
        else if mem_str o builtin_opts then Exited
        else match find (fun r => mem_str o (r_opts r)) (t_rows T) with
             | Some r =>
                 if is_load r then
                   match load_config T (r_dest r) (snd item) with
                   | Some l => Ok (group_call c (r_dest r) l)
                   | None => Reject
                   end
                 else
                   match r_ty r with
                   | Some t =>
                       let app := str_eqb o (dashes ++ r_dest r ++ [c_plus]) in
                       match check_type t app (get_key c (r_dest r)) (VStr (snd item)) with
                       | Some v => Ok (set_key c (r_dest r) v)
                       | None => Reject
                       end
                   | None => Reject
                   end
             | None => Reject
             end
    | Ambiguous | Unknown => Reject
    end).

(* ---------------- validation ---------------- *)
Definition check_values_leaf (T : table) (c : ns) (key : str) (v : val) : bool :=
  match find_action T key false with
  | Some r =>
      if is_load r then match v with                (* _check_value_key, _ActionConfigLoad: a string is loaded, *)
                        | VStr s => is_some (load_config T key s)   (* None passes, any other non-mapping is *)
                        | VNone => true                              (* rejected (fix d768470)               *)
                        | _ => false
                        end
      else is_none v || is_some (check_leaf r false (get_key c key) v)
  | None => is_branch_key T key && is_none v     (* a branch key must hold a mapping (or None): _core.py:1137-1139 *)
  end.

Definition check_values (T : table) (c : ns) : bool :=
  forallb (fun kx =>
             match snd kx with
             | TLeaf v => check_values_leaf T c (fst kx) v
             | TNs l => forallb (fun fv => check_values_leaf T c (fst kx ++ [c_dot] ++ fst fv) (snd fv)) l
             end) c.

Definition check_required (T : table) (c : ns) : bool :=
  forallb (fun k => negb (is_none (get_key c k))) (t_required T).

Definition validate (T : table) (c : ns) : res ns :=
  if check_values T c && check_required T c then Ok c else Reject.

(* ---------------- the three entry points ---------------- *)
Definition parse (T : table) (inp : input) : res ns :=
  bind (defaults_and_environ T (i_env inp)) (fun c0 =>
  bind (match i_entry inp with
        | EArgs items => fold_left (argv_step T) items (Ok c0)
        | EObject d => match apply_actions T d with Some ca => Ok (update c0 ca) | None => Reject end
        | EString text =>
            match pv text with
            | VDict d => match apply_actions T d with Some ca => Ok (update c0 ca) | None => Reject end
            | _ => Reject
            end
        end) (validate T)).

(* ---------------- dump (skip_none=True): _dump_cleanup_actions ---------------- *)
Definition is_none_at (c : ns) (dest : str) : bool :=
  match snd (split_key dest) with
  | Some f => match lookup (fst (split_key dest)) c with
              | Some (TNs l) => match lookup f l with Some VNone => true | _ => false end
              | _ => false
              end
  | None => match lookup dest c with Some (TLeaf VNone) => true | _ => false end
  end.

Definition pop_key (c : ns) (dest : str) : ns :=
  match snd (split_key dest) with
  | Some f => match lookup (fst (split_key dest)) c with
              | Some (TNs l) => upsert (fst (split_key dest)) (TNs (remove_key f l)) c
              | _ => c
              end
  | None => remove_key dest c
  end.

Definition dump (T : table) (c : ns) : ns :=
  fold_left (fun c' r => if is_none_at c' (r_dest r) then pop_key c' (r_dest r) else c') (t_rows T) c.

(* what one style answers for one input: the parse result and, when accepted, the dumped content *)
Definition run (T : table) (inp : input) : res (ns * ns) :=
  bind (parse T inp) (fun c => Ok (c, dump T c)).

(* ---------------- guards on the input (finding classes, see Properties/C07.v) ---------------- *)
Definition group_opt (gk : str) : str := dashes ++ gk.
Definition gdest (gk : str) : str := replace_dash gk.

(* class 1: an argv option that is "--gk" or an abbreviation of it *)
Definition argv_names_group (gk : str) (inp : input) : bool :=
  match i_entry inp with
  | EArgs items => existsb (fun it => starts_with (group_opt gk) (fst it)) items
  | _ => false
  end.

(* class 2: the environment variable of the group key itself *)
Definition env_names_group (gk : str) (inp : input) : bool :=
  is_some (lookup (env_name (gdest gk)) (i_env inp)).

(* classes 3 and 4: a config / object gives the group key itself something that is not a mapping *)
Definition textish (v : val) : bool := match v with VStr _ | VNone => true | _ => false end.
Definition nonmap (v : val) : bool := match v with VDict _ => false | _ => true end.
Definition dict_group_is (p : val -> bool) (gk : str) (d : list (str * val)) : bool :=
  existsb (fun kv => str_eqb (fst kv) (gdest gk) && p (snd kv)) (norm_dict d).
Definition text_group_is (p : val -> bool) (gk : str) (text : str) : bool :=
  match pv text with VDict d => dict_group_is p gk d | _ => false end.
Definition config_group_is (p : val -> bool) (gk : str) (inp : input) : bool :=
  match lookup env_cfg (i_env inp) with Some t => text_group_is p gk t | None => false end
  || match i_entry inp with
     | EArgs items => existsb (fun it => text_group_is p gk (snd it)) items
     | EObject d => dict_group_is p gk d
     | EString text => text_group_is p gk text
     end.
(* class 3: ... a string or null;  class 4: ... any other non-mapping value (number, bool, list) *)
Definition config_group_text := config_group_is textish.
Definition config_group_nonmap := config_group_is nonmap.

(* the declarations the statement is about: a plain group key (no dot, not starting with '-') and at least one
   option left by the signature rules *)
Definition well_formed (gk : str) (fs : list field) : bool :=
  negb (has_dot gk) && negb (starts_dash gk) && negb (is_nil (norm fs)).

(* the finding class of a case (0 = inside the guard of C07_four_styles_agree).  fs is the declared field list;
   the add_argument styles are declared from norm fs.  Class 6 (declarations outside the statement) is never
   generated and not a listed finding. *)
Definition finding_class (gk : str) (fs : list field) (inp : input) : N :=
  if negb (well_formed gk fs) then 6
  else if argv_names_group gk inp then 1
  else if env_names_group gk inp then 2
  else if config_group_text gk inp then 3
  else if config_group_nonmap gk inp then 4
  else if negb (hyphen_safe gk (norm fs)) then 5
  else 0.

(* the guard on the repaired tree (inner-hyphen-required fixed): class 5 is gone *)
Definition finding_class_fixed (gk : str) (fs : list field) (inp : input) : N :=
  if negb (well_formed gk fs) then 6
  else if argv_names_group gk inp then 1
  else if env_names_group gk inp then 2
  else if config_group_text gk inp then 3
  else if config_group_nonmap gk inp then 4
  else 0.

(* ---- members (nested sub-groups, declaration-time default overrides) ---- *)
(* the sub-group key n of the group is itself addressed: "--gk.n" or an abbreviation of it on the command line,
   its environment variable, or a non-mapping for it in a config *)
Definition dict_sub_is (p : val -> bool) (gk n : str) (d : list (str * val)) : bool :=
  existsb (fun kv => str_eqb (fst kv) (gdest gk)
                     && match snd kv with
                        | VDict l => existsb (fun fv => str_eqb (fst fv) n && p (snd fv)) (dict_to_items l)
                        | _ => false
                        end) (norm_dict d).
Definition text_sub_is (p : val -> bool) (gk n : str) (text : str) : bool :=
  match pv text with VDict d => dict_sub_is p gk n d | _ => false end.
Definition config_sub_is (p : val -> bool) (gk n : str) (inp : input) : bool :=
  match lookup env_cfg (i_env inp) with Some t => text_sub_is p gk n t | None => false end
  || match i_entry inp with
     | EArgs items => existsb (fun it => text_sub_is p gk n (snd it)) items
     | EObject d => dict_sub_is p gk n d
     | EString text => text_sub_is p gk n text
     end.

(* member and parameter names are identifiers (no '.', no '-') and pairwise different *)
Definition plain_name (s : str) : bool := negb (has_dot s) && negb (has_dash s).
Fixpoint nodupb (l : list str) : bool :=
  match l with [] => true | x :: l' => negb (mem_str x l') && nodupb l' end.
Definition member_names (ms : list member) : list str :=
  map (fun m => match m with MLeaf o => f_name (o_field o) | MSub n _ _ => n end) ms.
Definition names_ok (ms : list member) : bool :=
  forallb plain_name (member_names ms) && nodupb (member_names ms)
  && forallb (fun m => match m with
                       | MSub _ sub _ => forallb plain_name (map (fun o => f_name (o_field o)) sub)
                                         && nodupb (map (fun o => f_name (o_field o)) sub)
                                         && negb (is_nil sub)
                       | MLeaf _ => true
                       end) ms.

Definition well_formed_m (gk : str) (ms : list member) : bool :=
  negb (has_dot gk) && negb (starts_dash gk) && negb (is_nil (flat (mnorm ms))) && overrides_ok (mnorm ms)
  && names_ok (mnorm ms).

(* hyphenated key and the signature styles call set_defaults (default= given, or a member with a default instance):
   the mapping's keys carry the RAW key, the actions the normalised dest *)
Definition hyphen_defaults (gk : str) (ms : list member) : bool :=
  has_dash gk && (ms_has_over ms || has_mdef ms).

(* 0 = inside the guard of C07_four_styles_agree_m; 7 = a nested sub-group (tables proved, runs only tied);
   8 = hyphen_defaults; the other classes as above, the addressed key being the group's or a sub-group's *)
Definition finding_class_m (gk : str) (ms : list member) (inp : input) : N :=
  let subs := map (fun n => gk ++ [c_dot] ++ n) (sub_names ms) in
  if negb (well_formed_m gk ms) then 6
  else if argv_names_group gk inp || existsb (fun k => argv_names_group k inp) subs then 1
  else if env_names_group gk inp || existsb (fun k => env_names_group k inp) subs then 2
  else if config_group_text gk inp || existsb (fun n => config_sub_is textish gk n inp) (sub_names ms) then 3
  else if hyphen_defaults gk ms then 8
  else if config_group_nonmap gk inp || existsb (fun n => config_sub_is nonmap gk n inp) (sub_names ms) then 4
  else if has_nested ms then 7
  else 0.

End Parse.

(* the class of a TABLE case (no input): a nested declaration without default= override (a dataclass-typed member may
   have a default instance) is inside the guard of C07_nested_tables_agree (class 0) — the tables of such
   declarations are proved, not only tied *)
Definition table_class (gk : str) (ms : list member) : N :=
  let c := finding_class_m (fun s => VStr s) gk ms {| i_env := []; i_entry := EArgs [] |} in
  if N.eqb c 7 && forallb plain_member_d ms then 0%N else c.

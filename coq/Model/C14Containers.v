(* C14 — class-typed options inside containers: an option typed Dict[str, Base] or List[Base]
   (adapt_typehints "Dict, Mapping" and "List, Iterable or Sequence" branches, _typehints.py), as
   per-element instances of the single-option model of C14ClassSpec.v.

   Every source REPLACES the value of the option (cfg.update with a dict / list leaf); an element only sees the
   previous value of the element with the same key (dict) or — when the list has the same length — the same
   position (list).  Executable definitions only. *)
From JV Require Import Lib.Base Model.C14ClassSpec.

Inductive csrc :=
| CDict (d : list (str * raw))        (* --m=<dict>  /  --cfg={"m": <dict>} *)
| CDictKey (k : str) (r : raw)        (* --m.k=<raw>: NestedArg, {**prev, k: raw} *)
| CList (l : list raw)                (* --m=<list>  /  --cfg={"m": <list>} *)
| CAppend (r : raw)                   (* --m+=<raw> *)
| CLast (path : list str) (r : raw).  (* --m.<path>=<raw>: NestedArg addressed to the last element *)

Inductive cstate := CUnset | CD (d : list (str * value)) | CL (l : list value).

(* a previous value that is not None and not a spec; see prev1_of *)
Definition junk : option value := Some (VStr []).

Section Cont.
  Variable F : family.
  Variable rs : raw -> raw.
  Variable base : str.

  Definition elem (m : mode) (prev : option value) (i : input) : res value := adapt F rs FUEL m base prev i.

  (* the dict branch: for k, v in val.items(): adapt v with prev_val.get(k) *)
  Fixpoint dict_adapt (m : mode) (cur : list (str * value)) (d : list (str * raw)) : res (list (str * value)) :=
    match d with
    | [] => Ok []
    | (k, r) :: d' =>
        v <- elem m (aget k cur) (IRaw r) ;;
        rest <- dict_adapt m cur d' ;;
        Ok ((k, v) :: rest)
    end.

  (* the list branch: element n gets prev_val[n] when the lengths agree, else whatever prev_val is *)
  Fixpoint list_adapt (m : mode) (prevs : list (option value)) (l : list input) : res (list value) :=
    match l, prevs with
    | [], _ => Ok []
    | i :: l', p :: prevs' =>
        v <- elem m p i ;;
        rest <- list_adapt m prevs' l' ;;
        Ok (v :: rest)
    | _ :: _, [] => Err Reject      (* never: prevs is built with the length of l *)
    end.

  Definition prevs_for (cur : option (list value)) (n : nat) : list (option value) :=
    match cur with
    | None => repeat None n
    | Some c => if Nat.eqb (length c) n then map Some c else repeat junk n
    end.

  Definition cur_list (s : cstate) : option (list value) :=
    match s with CL l => Some l | _ => None end.
  Definition cur_dict (s : cstate) : list (str * value) :=
    match s with CD d => d | _ => [] end.

  Definition cont_step (s : cstate) (c : csrc) : res cstate :=
    match c with
    | CDict d => d' <- dict_adapt lenient (cur_dict s) d ;; Ok (CD d')
    | CDictKey k r =>
        let cur := cur_dict s in
        d' <- dict_adapt lenient cur (aset k r (map (fun kv => (fst kv, raw_of (snd kv))) cur)) ;; Ok (CD d')
    | CList l =>
        l' <- list_adapt lenient (prevs_for (cur_list s) (length l)) (map IRaw l) ;; Ok (CL l')
    | CAppend r =>
        let cur := match cur_list s with Some c => c | None => [] end in
        l' <- list_adapt lenient (map Some cur ++ [None]) (map (fun v => IRaw (raw_of v)) cur ++ [IRaw r]) ;;
        Ok (CL l')
    | CLast path r =>
        let cur := match cur_list s with Some c => c | None => [] end in
        let front := removelast cur in
        let items := map (fun v => IRaw (raw_of v)) front ++ [INested (strip_ia path) r] in
        l' <- list_adapt lenient (prevs_for (cur_list s) (length items)) items ;;
        Ok (CL l')
    end.

  Fixpoint cont_steps (s : cstate) (cs : list csrc) : res cstate :=
    match cs with
    | [] => Ok s
    | c :: cs' => s' <- cont_step s c ;; cont_steps s' cs'
    end.

  (* the elements of the final value, keyed (a list has empty keys), each finalized like a single option *)
  Fixpoint finalize_all (l : list (str * value)) : res (list (str * value)) :=
    match l with
    | [] => Ok []
    | (k, v) :: l' => v1 <- finalize F rs base v ;; rest <- finalize_all l' ;; Ok ((k, v1) :: rest)
    end.

  Definition cont_parse (cs : list csrc) : res (list (str * value)) :=
    s <- cont_steps CUnset cs ;;
    match s with
    | CUnset => Err Reject            (* nothing given: outside the generated space *)
    | CD d => finalize_all d
    | CL l => finalize_all (map (fun v => ([] : str, v)) l)
    end.

  Definition inst_one (v : value) : obs :=
    OAcc v (match inst F FUEL v [] with
            | Ok (a, log) => IOk a log
            | Err TypeErr => ITypeErr
            | Err _ => IOther
            end).

  (* None = the parse is rejected *)
  Definition cont_run (cs : list csrc) : option (list (str * obs)) :=
    match cont_parse cs with
    | Ok l => Some (map (fun kv => (fst kv, inst_one (snd kv))) l)
    | Err _ => None
    end.
End Cont.

(* C06 — model of jsonargparse's key validation.

   What is modelled (jsonargparse/_core.py, _actions.py, _typehints.py):
     * ArgumentParser.validate: check_values (keys of the namespace incl. branch keys, deepest first;
       _find_action with subcommand routing; the _is_branch_key escape; the Group / Subcommand / plain
       variants of the NSKeyError) and check_required with recursion into the selected subcommand;
     * _apply_actions (the lenient pre-pass that already parses type-hinted values, so that unknown keys
       inside list items / init_args are reported before anything else, and required keys inside are not);
     * _ActionSubCommands.get_subcommands / handle_subcommands as far as selection, deletion of the other
       sections and the required-subcommand error are concerned;
     * the nested levels: List[dataclass] items and init_args of the class named by class_path are parsed
       by parse_object of a per-class parser — here a recursive call on the declaration tree (fuel = nesting).
   The parser's flat action table with dotted dests is represented by the declaration tree it was built
   from; names are unique per level, so _find_action by dotted key is the walk down the tree.
   A configuration is the tree of mappings / lists / scalars the channel delivered. *)
From JV Require Import Lib.Base.

Inductive cv :=
| CNull
| CInt (z : Z)
| CStr (s : str)
| CDict (l : list (str * cv))
| CList (l : list cv).

Inductive decl :=
| DArg (req : bool)                                   (* int-typed argument *)
| DGroup (fs : list (str * decl))                     (* --g.x style dotted keys: no action, no group entry *)
| DData (req : bool) (fs : list (str * decl))         (* dataclass-typed argument: group registered, fields expanded *)
| DClass (req : bool) (cls : list (str * list (str * decl)))  (* subclass type: class name -> parameters *)
| DList (fs : list (str * decl))                      (* List[dataclass] *)
| DOpt (fs : list (str * decl)).                      (* Optional[dataclass] = None, a parameter that comes from a signature *)

Definition args := list (str * decl).
Record subs := { s_req : bool; s_dest : str; s_map : list (str * args) }.
Record parser := { p_args : args; p_sub : option subs }.

Inductive seg := K (k : str) | I (i : nat).
Inductive family := FKey | FGroup (g : list str) | FSub (s : str).
Inductive err :=
| EUnknown (ctx : list seg) (fam : family) (key : list str)   (* NSKeyError naming key (relative to the parser at ctx) *)
| EBadSpec (ctx : list seg) (key : list str) (extra : list str) (* "Not a valid subclass": keys beside class_path/init_args *)
| EMissing (ctx : list seg) (keys : list (list str))          (* one of these required keys is reported (set order) *)
| ENoSub (dest : str)
| EBadValue (ctx : list seg) (key : list str)
| EFuel.
Inductive res := Ok | Err (e : err).

Definition bind (r : res) (k : res) : res := match r with Ok => k | e => e end.

Fixpoint assoc {A} (k : str) (l : list (str * A)) : option A :=
  match l with
  | [] => None
  | (k', v) :: t => if str_eqb k k' then Some v else assoc k t
  end.

Definition push (c : list seg) (e : err) : err :=
  match e with
  | EUnknown ctx f k => EUnknown (c ++ ctx) f k
  | EBadSpec ctx k x => EBadSpec (c ++ ctx) k x
  | EMissing ctx ks => EMissing (c ++ ctx) ks
  | EBadValue ctx k => EBadValue (c ++ ctx) k
  | e => e
  end.
Definition pushr (c : list seg) (r : res) : res := match r with Ok => Ok | Err e => Err (push c e) end.

(* Namespace.keys(): a mapping without any leaf below it yields no key at all *)
Fixpoint has_leaf (v : cv) : bool :=
  match v with
  | CDict l => (fix go (l : list (str * cv)) := match l with [] => false | (_, w) :: t => has_leaf w || go t end) l
  | _ => true
  end.

Definition is_dict (v : cv) : bool := match v with CDict _ => true | _ => false end.

Definition s_class_path : str := [99;108;97;115;115;95;112;97;116;104]%N.
Definition s_init_args : str := [105;110;105;116;95;97;114;103;115]%N.
Definition s_dict_kwargs : str := [100;105;99;116;95;107;119;97;114;103;115]%N.

(* get(path) through nested mappings *)
Fixpoint get (v : cv) (p : list str) : option cv :=
  match p with
  | [] => Some v
  | k :: p' => match v with CDict l => match assoc k l with Some w => get w p' | None => None end | _ => None end
  end.

(* parser.required_args of a parser built from these declarations, dotted keys as paths *)
Fixpoint required_d (key : list str) (d : decl) : list (list str) :=
  match d with
  | DArg true => [key]
  | DClass true _ => [key]
  | DGroup fs =>
      (fix go (fs : list (str * decl)) := match fs with [] => [] | (k, d') :: t => required_d (key ++ [k]) d' ++ go t end) fs
  | DData r fs =>
      (if r then [key] else []) ++
      (fix go (fs : list (str * decl)) := match fs with [] => [] | (k, d') :: t => required_d (key ++ [k]) d' ++ go t end) fs
  | _ => []
  end.
Definition required_of (pre : list str) (fs : args) : list (list str) :=
  flat_map (fun kd => required_d (pre ++ [fst kd]) (snd kd)) fs.

Definition present (cfg : cv) (p : list str) : bool :=
  match get cfg p with Some CNull | None => false | Some _ => true end.

(* check_required for one parser (the subcommand recursion is done by the caller) *)
Definition check_required1 (prefix : list str) (fs : args) (cfg : cv) : res :=
  match filter (fun p => negb (present cfg p)) (required_of [] fs) with
  | [] => Ok
  | ms => Err (EMissing [] (map (fun p => prefix ++ p) ms))
  end.

(* ---- one event per visible key of the namespace --------------------------------------------------- *)
Record ev := { e_branch : bool; e_key : list str; e_res : res }.

Definition unknown_err (grp : option (list str)) (sub : option str) (key : list str) : res :=
  Err (EUnknown []
         (match sub, grp with
          | Some s, _ => FSub s
          | None, Some g => FGroup g
          | None, None => FKey
          end) key).

Section Walk.
  (* chk key d v : _check_value_key of the action at key (argument, class type, list type) *)
  Variable chk : list str -> decl -> cv -> res.

  (* below a key the parser does not know: every visible key is an error *)
  Fixpoint walk_unknown (grp : option (list str)) (sub : option str) (pre : list str) (v : cv) : list ev :=
    match v with
    | CDict l =>
        (fix go (l : list (str * cv)) : list ev :=
           match l with
           | [] => []
           | (k, w) :: t =>
               (if is_dict w
                then (if has_leaf w then [{| e_branch := true; e_key := pre ++ [k]; e_res := unknown_err grp sub (pre ++ [k]) |}] else [])
                     ++ walk_unknown grp sub (pre ++ [k]) w
                else [{| e_branch := false; e_key := pre ++ [k]; e_res := unknown_err grp sub (pre ++ [k]) |}])
               ++ go t
           end) l
    | _ => []
    end.

  Fixpoint walk (fs : args) (grp : option (list str)) (sub : option str) (pre : list str) (v : cv) {struct v} : list ev :=
    match v with
    | CDict l =>
        (fix go (l : list (str * cv)) : list ev :=
           match l with
           | [] => []
           | (k, w) :: t =>
               (match assoc k fs with
                | None =>
                    if is_dict w
                    then (if has_leaf w then [{| e_branch := true; e_key := pre ++ [k]; e_res := unknown_err grp sub (pre ++ [k]) |}] else [])
                         ++ walk_unknown grp sub (pre ++ [k]) w
                    else [{| e_branch := false; e_key := pre ++ [k]; e_res := unknown_err grp sub (pre ++ [k]) |}]
                | Some (DGroup fs') =>
                    if is_dict w
                    then (if has_leaf w then [{| e_branch := true; e_key := pre ++ [k]; e_res := Ok |}] else [])
                         ++ walk fs' grp sub (pre ++ [k]) w
                    else [{| e_branch := false; e_key := pre ++ [k]; e_res := Ok |}]      (* _is_branch_key: continue *)
                | Some (DData _ fs') =>
                    let grp' := match grp with None => Some (pre ++ [k]) | g => g end in
                    if is_dict w
                    then (if has_leaf w then [{| e_branch := true; e_key := pre ++ [k]; e_res := Ok |}] else [])
                         ++ walk fs' grp' sub (pre ++ [k]) w
                    else [{| e_branch := false; e_key := pre ++ [k];
                             e_res := match w with CStr _ => Err (EBadValue [] (pre ++ [k])) | _ => Ok end |}]
                | Some (DClass r c) =>
                    [{| e_branch := match w with CDict _ | CStr _ => true | _ => false end;
                        e_key := pre ++ [k]; e_res := chk (pre ++ [k]) (DClass r c) w |}]
                | Some (DOpt fs') =>
                    [{| e_branch := is_dict w; e_key := pre ++ [k]; e_res := chk (pre ++ [k]) (DOpt fs') w |}]
                | Some d =>
                    [{| e_branch := false; e_key := pre ++ [k]; e_res := chk (pre ++ [k]) d w |}]
                end) ++ go t
           end) l
    | _ => []
    end.
End Walk.

(* keys sorted by descending depth (stable), leaves before the appended branch keys; first failure wins *)
Fixpoint pick (best : option (nat * err)) (l : list ev) : option (nat * err) :=
  match l with
  | [] => best
  | e :: t =>
      match e_res e with
      | Ok => pick best t
      | Err x =>
          match best with
          | Some (d, _) => if Nat.ltb d (length (e_key e)) then pick (Some (length (e_key e), x)) t else pick best t
          | None => pick (Some (length (e_key e), x)) t
          end
      end
  end.

Definition first_failure (evs : list ev) : res :=
  match pick None (filter (fun e => negb (e_branch e)) evs ++ filter e_branch evs) with
  | None => Ok
  | Some (_, x) => Err x
  end.

(* ---- the nested levels ------------------------------------------------------------------------------ *)
Definition spec_key (k : str) : bool := str_eqb k s_class_path || str_eqb k s_init_args || str_eqb k s_dict_kwargs.

Fixpoint check_items (f : nat -> cv -> res) (i : nat) (l : list cv) : res :=
  match l with
  | [] => Ok
  | x :: t => bind (f i x) (check_items f (S i) t)
  end.

Section Levels.
  (* nested fs v : parse_object of the per-class parser built from fs on the mapping v *)
  Variable nested : args -> cv -> res.
  Variable lenient : bool.

  Definition chk_action (key : list str) (d : decl) (v : cv) : res :=
    match v with
    | CNull => Ok                                   (* value None: skipped *)
    | _ =>
      match d with
      | DArg _ => match v with CInt _ => Ok | _ => Err (EBadValue [] key) end
      | DList fs =>
          match v with
          | CList items =>
              check_items (fun i x => if is_dict x then pushr (map K key ++ [I i]) (nested fs x)
                                      else Err (EBadValue [] key)) 0 items
          | _ => Err (EBadValue [] key)
          end
      | DOpt fs =>
          (* Union[dataclass, None]: the mapping is parse_object of the per-dataclass parser *)
          match v with
          | CDict _ => pushr (map K key) (nested fs v)
          | _ => Err (EBadValue [] key)
          end
      | DClass _ cls =>
          match v with
          | CStr c => match assoc c cls with
                      | Some ps => pushr (map K key ++ [K s_init_args]) (nested ps (CDict []))
                      | None => Err (EBadValue [] key)
                      end
          | CDict l =>
              match assoc s_class_path l with
              | Some (CStr c) =>
                  match filter (fun k => negb (spec_key k)) (map fst l) with
                  | [] =>
                      match assoc c cls with
                      | Some ps =>
                          match assoc s_init_args l with
                          | None => pushr (map K key ++ [K s_init_args]) (nested ps (CDict []))
                          | Some (CDict ia) => pushr (map K key ++ [K s_init_args]) (nested ps (CDict ia))
                          | Some _ => Err (EBadValue [] key)
                          end
                      | None => Err (EBadValue [] key)
                      end
                  | extra =>
                      (* not a class spec (is_subclass_spec): a mapping that has its own class_path is never wrapped as the
                         init_args of the implicit / previous class (56814dd), it is refused as "Not a valid subclass" *)
                      Err (EBadSpec [] key extra)
                  end
              | _ => Err (EBadValue [] key)      (* implicit class_path: not modelled *)
              end
          | _ => Err (EBadValue [] key)
          end
      | _ => Ok
      end
    end.
End Levels.

(* _apply_actions (a58b0fc): below a key that has no action the queue descends into every mapping; a mapping WITHOUT any
   key, at a key that is neither an action, a branch key nor a registered group, is refused on the spot with
   "Key '<dotted key>' is not expected" — validate would never see it (Namespace.keys() yields leaves only).
   The queue is breadth-first: of several empty mappings the shallowest is met first, ties in key order. *)
Fixpoint empties (pre : list str) (v : cv) : list (list str) :=
  match v with
  | CDict l =>
      match l with
      | [] => [pre]
      | _ => (fix go (l : list (str * cv)) := match l with [] => [] | (k, w) :: t => empties (pre ++ [k]) w ++ go t end) l
      end
  | _ => []
  end.

Fixpoint shallowest (best : option (list str)) (l : list (list str)) : option (list str) :=
  match l with
  | [] => best
  | x :: t =>
      match best with
      | Some b => if Nat.ltb (length x) (length b) then shallowest (Some x) t else shallowest best t
      | None => shallowest (Some x) t
      end
  end.

Definition empty_err (pre : list str) (v : cv) : res :=
  match shallowest None (empties pre v) with
  | None => Ok
  | Some key => Err (EUnknown [] FKey key)
  end.

(* _apply_actions: depth-first over the mapping, parsing the values of the actions met (lenient) *)
Section Apply.
  Variable chk : list str -> decl -> cv -> res.
  Fixpoint apply_walk (fs : args) (pre : list str) (v : cv) {struct v} : res :=
    match v with
    | CDict l =>
        (fix go (l : list (str * cv)) : res :=
           match l with
           | [] => Ok
           | (k, w) :: t =>
               bind (match assoc k fs with
                     | Some (DGroup fs') | Some (DData _ fs') => apply_walk fs' (pre ++ [k]) w
                     | Some d => chk (pre ++ [k]) d w
                     | None => empty_err (pre ++ [k]) w
                     end) (go t)
           end) l
    | _ => Ok
    end.
End Apply.

(* parse_object of a per-class parser (no subcommands there).
   lenient = called below _apply_actions (lenient_check set): values are not re-checked by check_values
   and required keys are not enforced; unknown keys are always errors. *)
Fixpoint nested (fuel : nat) (lenient : bool) (fs : args) (v : cv) : res :=
  match fuel with
  | O => Err EFuel
  | S f =>
      bind (apply_walk (chk_action (nested f true)) fs [] v)
      (bind (first_failure (walk (if lenient then (fun _ _ _ => Ok) else chk_action (nested f false)) fs None None [] v))
            (if lenient then Ok else check_required1 [] fs v))
  end.

(* ---- subcommands ------------------------------------------------------------------------------------- *)
(* how the configuration reaches _parse_common:
     MDefaults : parsed with defaults=True (any channel): handle_subcommands merges the subparser's defaults, so the section of
                 the chosen subcommand always exists afterwards, and empty mappings do not survive merge_config;
     MNoDefObj : parse_object(..., defaults=False): nothing is merged in; a section without any leaf does not survive
                 merge_config(cfg_apply, cfg);
     MNoDefStr : parse_string(..., defaults=False): the loaded mapping is used as it is, an empty section stays a Namespace() *)
Inductive mode := MDefaults | MNoDefObj | MNoDefStr.

(* subcommand_keys of get_subcommands: the subcommands whose section is a Namespace *)
Definition is_section (md : mode) (l : list (str * cv)) (s : str) : bool :=
  match assoc s l with
  | Some (CDict x) => match md with MNoDefStr => true | _ => has_leaf (CDict x) end
  | _ => false
  end.
Definition sections (md : mode) (m : list (str * args)) (l : list (str * cv)) : list str :=
  filter (is_section md l) (map fst m).

Fixpoint remove_keys (ks : list str) (l : list (str * cv)) : list (str * cv) :=
  match l with
  | [] => []
  | (k, v) :: t => if mem_str k ks then remove_keys ks t else (k, v) :: remove_keys ks t
  end.

Fixpoint set_key (k : str) (v : cv) (l : list (str * cv)) : list (str * cv) :=
  match l with
  | [] => [(k, v)]
  | (k', v') :: t => if str_eqb k k' then (k, v) :: t else (k', v') :: set_key k v t
  end.

(* get_subcommands as called from handle_subcommands: the chosen name and the mapping afterwards *)
Definition select (md : mode) (sb : subs) (l : list (str * cv)) : option str * list (str * cv) :=
  let secs := sections md (s_map sb) l in
  let chosen :=
    match assoc (s_dest sb) l with
    | Some (CStr s) => Some s
    | _ => match secs with s :: _ => Some s | [] => None end
    end in
  match chosen with
  | Some s =>
      let l1 := match assoc (s_dest sb) l with Some (CStr _) => l | _ => set_key (s_dest sb) (CStr s) l end in
      (Some s,
       remove_keys
         (match md with
          | MDefaults =>
              (* the selected section always exists once the subparser's defaults are merged, so the next
                 get_subcommands call (before validation) removes every other section *)
              filter (fun x => negb (str_eqb x s))
                (filter (fun x => match assoc x l with Some (CDict _) => true | _ => false end) (map fst (s_map sb)))
          | _ =>
              (* "Remove extra subcommand settings": only when more than one section is there *)
              if Nat.ltb 1 (length secs) then filter (fun x => negb (str_eqb x s)) secs else []
          end) l1)
  | None => (None, l)
  end.

Definition top_walk (chk : list str -> decl -> cv -> res) (sectionchk : str -> args -> cv -> res)
                    (p : parser) (l : list (str * cv)) : list ev :=
  match p_sub p with
  | None => walk chk (p_args p) None None [] (CDict l)
  | Some sb =>
      (fix go (l : list (str * cv)) : list ev :=
         match l with
         | [] => []
         | (k, w) :: t =>
             (if str_eqb k (s_dest sb) then [{| e_branch := false; e_key := [k]; e_res := Ok |}]
              else match assoc k (s_map sb) with
                   | Some sa =>
                       if is_dict w
                       then (if has_leaf w then [{| e_branch := true; e_key := [k]; e_res := sectionchk k sa w |}] else [])
                            ++ walk chk sa None (Some k) [k] w
                       else [{| e_branch := false; e_key := [k]; e_res := Ok |}]
                   | None => walk chk (p_args p) None None [] (CDict [(k, w)])
                   end) ++ go t
         end) l
  end.

Definition top_apply (chk : list str -> decl -> cv -> res) (p : parser) (l : list (str * cv)) : res :=
  match p_sub p with
  | None => apply_walk chk (p_args p) [] (CDict l)
  | Some sb =>
      (fix go (l : list (str * cv)) : res :=
         match l with
         | [] => Ok
         | (k, w) :: t =>
             bind (if str_eqb k (s_dest sb) then Ok     (* the subcommand key is the dest of the subcommands action *)
                   else match assoc k (s_map sb) with
                        | Some sa => apply_walk chk sa [k] w
                        | None => apply_walk chk (p_args p) [] (CDict [(k, w)])
                        end) (go t)
         end) l
  end.

(* the parse methods on a configuration tree (object, config string, --cfg, environment config) *)
Definition run (md : mode) (fuel : nat) (p : parser) (cfg : cv) : res :=
  match cfg with
  | CDict l =>
      let lchk := chk_action (nested fuel true) in
      let schk := chk_action (nested fuel false) in
      bind (top_apply lchk p l)
      (match p_sub p with
       | None =>
           bind (first_failure (top_walk schk (fun _ _ _ => Ok) p l))
                (check_required1 [] (p_args p) cfg)
       | Some sb =>
           let '(chosen, l') := select md sb l in
           let bad := match chosen with
                      | Some s => match assoc s (s_map sb) with Some _ => false | None => true end
                      | None => true
                      end in
           if s_req sb && bad then Err (ENoSub (s_dest sb))
           else
             (* subparser.validate(section, _prefix): its own check_values, then its check_required *)
             let sectionchk := fun s sa w =>
                 bind (first_failure (walk schk sa None None [] w)) (check_required1 [s] sa w) in
             bind (first_failure (top_walk schk sectionchk p l'))
             (bind (match filter (fun q => negb (present (CDict l') q))
                                 (required_of [] (p_args p) ++ (if s_req sb then [[s_dest sb]] else [])) with
                    | [] => Ok
                    | ms => Err (EMissing [] ms)
                    end)
                   (match chosen with
                    | Some s =>
                        match assoc s (s_map sb) with
                        | Some sa => check_required1 [s] sa (match assoc s l' with Some w => w | None => CNull end)
                        | None => Ok
                        end
                    | None => Ok
                    end))
       end)
  | _ => Err (EBadValue [] [])
  end.

(* ---- parser construction history: link_arguments attempts ------------------------------------------------
   ActionLink.__init__ (jsonargparse/_link_arguments.py): every validity check (source / target actions, target-key form,
   instantiation-cycle check) comes first; only a link that passed them is registered, and the last thing it does to
   parser.required_args is `required_args.remove(target)`.  A rejected attempt (ValueError, caught by the program) leaves
   the parser as it was.  Whether an attempt is accepted is NOT modelled here (cycle rules: property C16); the outcome is
   part of the history.  Links applied on instantiation only: nothing else changes for parsing / validation (the target
   stays a defined key). *)
Record lnk := { l_tgt : list str; l_ok : bool }.

Fixpoint unrequire (path : list str) (d : decl) {struct d} : decl :=
  match path, d with
  | [], DArg _ => DArg false
  | k :: rest, DGroup fs =>
      DGroup ((fix go (fs : list (str * decl)) :=
                 match fs with
                 | [] => []
                 | (k', d') :: t => (k', if str_eqb k k' then unrequire rest d' else d') :: go t
                 end) fs)
  | k :: rest, DData r fs =>
      DData r ((fix go (fs : list (str * decl)) :=
                  match fs with
                  | [] => []
                  | (k', d') :: t => (k', if str_eqb k k' then unrequire rest d' else d') :: go t
                  end) fs)
  | k :: k2 :: rest, DClass r cls =>
      (* target w.init_args.<param> below a class-typed argument: the per-class parser of EVERY class of w is built with
         linked_targets = {<param>...} and drops it from its required_args (ActionTypeHint.get_class_parser) *)
      if str_eqb k s_init_args
      then DClass r ((fix gc (cls : list (str * list (str * decl))) :=
                        match cls with
                        | [] => []
                        | (c, ps) :: tc =>
                            (c, (fix go (fs : list (str * decl)) :=
                                   match fs with
                                   | [] => []
                                   | (k', d') :: t => (k', if str_eqb k2 k' then unrequire rest d' else d') :: go t
                                   end) ps) :: gc tc
                        end) cls)
      else d
  | _, _ => d
  end.

Definition unrequire_args (path : list str) (fs : args) : args :=
  match path with
  | [] => fs
  | k :: rest => map (fun kd => (fst kd, if str_eqb k (fst kd) then unrequire rest (snd kd) else snd kd)) fs
  end.

Definition apply_link (p : parser) (l : lnk) : parser :=
  if l_ok l then {| p_args := unrequire_args (l_tgt l) (p_args p); p_sub := p_sub p |} else p.

Definition with_links (p : parser) (ls : list lnk) : parser := fold_left apply_link ls p.

(* ---- the list-append spelling -------------------------------------------------------------------------------
   A declared List[...] key given as "<key>+" (top level or below dotted groups) denotes the same configuration, but its
   value reaches the parser through ActionTypeHint.apply_appends, called from merge_config: the appended items are checked
   by the action at that moment — strictly (required fields of the items enforced), after the lenient _apply_actions
   pre-pass and BEFORE subcommand handling and validate.  `apps` = the paths of the keys spelled that way. *)
Fixpoint decl_at (fs : args) (path : list str) : option decl :=
  match path with
  | [] => None
  | k :: rest =>
      match rest with
      | [] => assoc k fs
      | _ => match assoc k fs with Some (DGroup fs') => decl_at fs' rest | _ => None end
      end
  end.

Definition append_checks (fuel : nat) (p : parser) (cfg : cv) (apps : list (list str)) : res :=
  fold_right (fun path r =>
                bind (match decl_at (p_args p) path, get cfg path with
                      | Some d, Some v => chk_action (nested fuel false) path d v
                      | _, _ => Ok
                      end) r) Ok apps.

Fixpoint drop_path (path : list str) (v : cv) {struct path} : cv :=
  match path, v with
  | [], _ => v
  | k :: rest, CDict l =>
      match rest with
      | [] => CDict (remove_keys [k] l)
      | _ => CDict (map (fun kw => if str_eqb k (fst kw) then (fst kw, drop_path rest (snd kw)) else kw) l)
      end
  | _, _ => v
  end.

(* "<key>+" is not the destination of any action, so the lenient pre-pass does not look at the appended value at all: the
   first check it meets is the strict one at merge time *)
Definition run_append (md : mode) (fuel : nat) (p : parser) (cfg : cv) (apps : list (list str)) : res :=
  match cfg with
  | CDict _ =>
      bind (match fold_left (fun v path => drop_path path v) apps cfg with
            | CDict l0 => top_apply (chk_action (nested fuel true)) p l0
            | _ => Ok
            end)
           (bind (append_checks fuel p cfg apps) (run md fuel p cfg))
  | _ => run md fuel p cfg
  end.
